/-
  C12 — one tick of a BehaviourTree: order of the phases, the traversal contract on the tick trace,
  the snapshot visitor, setup / iterate.
-/
import PyTreesProofs.Lemmas.NoInternal
import PyTreesProofs.Lemmas.Run
import PyTreesModel.Manager
set_option linter.unusedVariables false
set_option linter.unusedSimpArgs false
open Node

/-! ## 1. order of the phases -/

/-- **C12 (order)**: one `BehaviourTree.tick` ticks the root once, grows the count by exactly one and its call log is,
    in this order: one-off pre handler, pre handlers, every visitor's initialise, ordinary visitors on the yields of
    the traversal (per yield, in visitor order), full visitors on every behaviour of the tree (post-order), every
    visitor's finalise, post handlers, one-off post handler. -/
theorem C12_order (m m' : Mgr) (oncePre oncePost : Bool) (e : Env) (w w' : Store) (n n' : Node)
    (log : List MEv) (tr : List Ev)
    (h : m.treeTick oncePre oncePost e w n = .ok (m', n', w', log, tr)) :
    n.tick e w = .ok (n', w', tr) ∧ m'.count = m.count + 1 ∧
    m'.snap = Mgr.snapTick m.snap (Mgr.ylds tr) ∧
    m'.visitors = m.visitors ∧ m'.nPre = m.nPre ∧ m'.nPost = m.nPost ∧
    log =
      (if oncePre then [MEv.preOnce] else []) ++ (List.range m.nPre).map MEv.pre ++
      (List.range m.visitors.length).map MEv.vInit ++
      ((Mgr.ylds tr).map (fun (i, s) =>
        ((List.range m.visitors.length).filter (fun j => m.visitors[j]? = some false)).map
          (fun j => MEv.vRun j i s))).flatten ++
      ((iterate n').map (fun x =>
        ((List.range m.visitors.length).filter (fun j => m.visitors[j]? = some true)).map
          (fun j => MEv.vRun j x.id x.status))).flatten ++
      (List.range m.visitors.length).map MEv.vFin ++ (List.range m.nPost).map MEv.post ++
      (if oncePost then [MEv.postOnce] else []) := by
  simp only [Mgr.treeTick, bind, Except.bind] at h
  cases ht : n.tick e w with
  | error x => simp [ht] at h
  | ok v =>
    obtain ⟨n1, w1, tr1⟩ := v
    simp only [ht, pure, Except.pure, Except.ok.injEq, Prod.mk.injEq] at h
    obtain ⟨rfl, rfl, rfl, rfl, rfl⟩ := h
    exact ⟨rfl, rfl, rfl, rfl, rfl, rfl, rfl⟩

/-! ## 3. snapshot visitor -/

def toMap : List (Nat × Status) → (Nat → Option Status) := fun l i => Mgr.lookup i l

namespace C12
open Mgr

theorem lookup_assign_same (i : Nat) (s : Status) : ∀ l, lookup i (assign i s l) = some s
| [] => by simp [assign, lookup]
| (j, t) :: l => by
    simp only [assign]
    by_cases h : j = i
    · simp [h, lookup]
    · simp [h, lookup, lookup_assign_same i s l]

theorem lookup_assign_other (i j : Nat) (s : Status) (hne : i ≠ j) : ∀ l, lookup j (assign i s l) = lookup j l
| [] => by simp [assign, lookup, hne]
| (k, t) :: l => by
    simp only [assign]
    by_cases h : k = i
    · subst h; simp [lookup, hne]
    · simp only [h, ↓reduceIte, lookup, lookup_assign_other i j s hne l]

theorem lookup_assign (i j : Nat) (s : Status) (l : List (Nat × Status)) :
    lookup j (assign i s l) = if i = j then some s else lookup j l := by
  by_cases h : i = j
  · subst h; simp [lookup_assign_same]
  · simp [h, lookup_assign_other i j s h]

theorem lookup_append (i : Nat) : ∀ a b : List (Nat × Status), lookup i (a ++ b) = (lookup i a).or (lookup i b)
| [], b => by simp [lookup]
| (j, s) :: a, b => by
    simp only [List.cons_append, lookup]
    by_cases h : j = i
    · simp [h]
    · simp [h, lookup_append i a b]

theorem lookup_some_mem (i : Nat) (s : Status) : ∀ l, lookup i l = some s → (i, s) ∈ l
| [], h => by simp [lookup] at h
| (j, t) :: l, h => by
    simp only [lookup] at h
    by_cases hj : j = i
    · simp only [hj, ↓reduceIte, Option.some.injEq] at h; subst h; subst hj; simp
    · simp only [hj, ↓reduceIte] at h
      exact List.mem_cons_of_mem _ (lookup_some_mem i s l h)

theorem lookup_none_iff (i : Nat) : ∀ l : List (Nat × Status), lookup i l = none ↔ i ∉ l.map (·.1)
| [] => by simp [lookup]
| (j, t) :: l => by
    simp only [lookup, List.map_cons, List.mem_cons, not_or]
    by_cases hj : j = i
    · simp [hj]
    · simp only [hj, ↓reduceIte, lookup_none_iff i l]
      constructor
      · intro h; exact ⟨fun e => hj e.symm, h⟩
      · intro h; exact h.2

theorem mem_lookup_isSome (i : Nat) (s : Status) (l : List (Nat × Status)) (h : (i, s) ∈ l) :
    (lookup i l).isSome = true := by
  cases hl : lookup i l with
  | some t => rfl
  | none =>
    have := (lookup_none_iff i l).mp hl
    exact absurd (List.mem_map.mpr ⟨(i, s), h, rfl⟩) this

theorem nodup_mem_lookup (i : Nat) (s : Status) : ∀ l : List (Nat × Status), (l.map (·.1)).Nodup → (i, s) ∈ l →
    lookup i l = some s
| [], _, h => by simp at h
| (j, t) :: l, hnd, h => by
    simp only [List.map_cons, List.nodup_cons] at hnd
    simp only [List.mem_cons, Prod.mk.injEq] at h
    simp only [lookup]
    rcases h with ⟨rfl, rfl⟩ | h
    · simp
    · have : j ≠ i := by
        intro e; subst e
        exact hnd.1 (List.mem_map.mpr ⟨(j, s), h, rfl⟩)
      simp only [this, ↓reduceIte]
      exact nodup_mem_lookup i s l hnd.2 h

/-- with every id recorded once the last recorded status is the only one -/
theorem lookup_reverse_nodup (i : Nat) (l : List (Nat × Status)) (hnd : (l.map (·.1)).Nodup) :
    lookup i l.reverse = lookup i l := by
  cases hl : lookup i l.reverse with
  | some s =>
    have := lookup_some_mem i s _ hl
    exact (nodup_mem_lookup i s l hnd (List.mem_reverse.mp this)).symm
  | none =>
    have h1 := (lookup_none_iff i _).mp hl
    have h2 : i ∉ l.map (·.1) := by
      intro hm; apply h1
      simp only [List.map_reverse, List.mem_reverse]; exact hm
    exact ((lookup_none_iff i l).mpr h2).symm

/-- `snapRun`: `previously` is untouched, the record is overwritten by the yields (last one wins), `changed`
    accumulates "new id or different status" over the yields -/
theorem snapRun_spec (prev : List (Nat × Status)) : ∀ (ys : List (Nat × Status)) (sn : Snap),
    (snapRun prev ys sn).previously = sn.previously ∧
    (∀ i, lookup i (snapRun prev ys sn).visited = (lookup i ys.reverse).or (lookup i sn.visited)) ∧
    (snapRun prev ys sn).changed = (sn.changed || ys.any (fun x => decide (lookup x.1 prev ≠ some x.2)))
| [], sn => by simp [snapRun, lookup]
| (j, s) :: ys, sn => by
    have H := fun sn' => snapRun_spec prev ys sn'
    simp only [snapRun]
    refine ⟨(H _).1, ?_, ?_⟩
    · intro i
      rw [(H _).2.1 i]
      simp only [List.reverse_cons, lookup_append, lookup_assign, lookup]
      by_cases h : j = i
      · simp [h, Option.or_assoc]
      · simp [h]
    · rw [(H _).2.2]
      simp only [List.any_cons, Bool.or_assoc]
      congr 1; congr 1
      cases lookup j prev with
      | none => simp
      | some p => simp

end C12

/-- **C12 (snapshot record)**: after one tick the snapshot visitor's `previously` is the previous record and its record
    maps every id to the last status yielded for it this tick (and nothing else). -/
theorem C12_snapshot_record (sn : Snap) (ys : List (Nat × Status)) :
    (Mgr.snapTick sn ys).previously = sn.visited ∧
    ∀ i, Mgr.lookup i (Mgr.snapTick sn ys).visited = Mgr.lookup i ys.reverse := by
  obtain ⟨h1, h2, _⟩ := C12.snapRun_spec sn.visited ys { visited := [], previously := sn.visited, changed := false }
  refine ⟨h1, ?_⟩
  intro i
  simp only [Mgr.snapTick]
  rw [h2 i]; simp [Mgr.lookup]

/-- **C12 (snapshot record, ids yielded once)**: the record equals the id-to-status map of exactly the behaviours
    ticked. -/
theorem C12_snapshot_lookup (sn : Snap) (ys : List (Nat × Status)) (hnd : (ys.map (·.1)).Nodup) :
    ∀ i, Mgr.lookup i (Mgr.snapTick sn ys).visited = Mgr.lookup i ys := by
  intro i
  rw [(C12_snapshot_record sn ys).2 i, C12.lookup_reverse_nodup i ys hnd]

/-- the same, phrased with `toMap` -/
theorem C12_snapshot_toMap (sn : Snap) (ys : List (Nat × Status)) (hnd : (ys.map (·.1)).Nodup) :
    toMap (Mgr.snapTick sn ys).visited = toMap ys := by
  funext i; exact C12_snapshot_lookup sn ys hnd i

/-- **C12 (snapshot changed)**: the changed flag is set exactly when the id-to-status map of this tick differs from the
    previous tick's (a new id, a different status, or an id that disappeared). -/
theorem C12_snapshot_changed (sn : Snap) (ys : List (Nat × Status)) (hnd : (ys.map (·.1)).Nodup)
    (hndp : (sn.visited.map (·.1)).Nodup) :
    (Mgr.snapTick sn ys).changed = true ↔ ¬ (∀ i, Mgr.lookup i ys = Mgr.lookup i sn.visited) := by
  have hV := C12_snapshot_lookup sn ys hnd
  obtain ⟨h1, _, h3⟩ := C12.snapRun_spec sn.visited ys { visited := [], previously := sn.visited, changed := false }
  simp only [Mgr.snapTick] at hV ⊢
  rw [h1, h3]
  generalize (Mgr.snapRun sn.visited ys { visited := [], previously := sn.visited, changed := false }).visited = V at hV
  simp only [Bool.false_or, Bool.or_eq_true, List.any_eq_true, decide_eq_true_eq, Bool.not_eq_true',
    Prod.exists]
  constructor
  · rintro (⟨i, s, hm, hne⟩ | hk) hall
    · have := C12.nodup_mem_lookup i s ys hnd hm
      rw [hall i] at this; exact hne this
    · have hk' : Mgr.sameKeys V sn.visited = true := by
        simp only [Mgr.sameKeys, Bool.and_eq_true, List.all_eq_true, Prod.forall]
        constructor
        · intro i s hm
          have := C12.mem_lookup_isSome i s V hm
          rw [hV i, hall i] at this; exact this
        · intro i s hm
          have := C12.mem_lookup_isSome i s sn.visited hm
          rw [← hall i, ← hV i] at this; exact this
      rw [hk'] at hk; exact absurd hk (by simp)
  · intro hne
    apply Classical.byContradiction
    intro hc
    simp only [not_or, not_exists, not_and, Decidable.not_not, Bool.not_eq_false] at hc
    obtain ⟨c1, c2⟩ := hc
    apply hne
    intro i
    cases hl : Mgr.lookup i ys with
    | some s => exact (c1 i s (C12.lookup_some_mem i s ys hl)).symm
    | none =>
      cases hp : Mgr.lookup i sn.visited with
      | none => rfl
      | some t =>
        have hm := C12.lookup_some_mem i t _ hp
        simp only [Mgr.sameKeys, Bool.and_eq_true, List.all_eq_true, Prod.forall] at c2
        have := c2.2 i t hm
        rw [hV i, hl] at this; simp at this

/-! ## 4. iterate / setup -/

namespace C12

mutual
theorem iterate_perm_nodes : ∀ n : Node, (iterate n).Perm (nodes n)
| leaf i s k l => by simp [iterate, nodes]
| seq i m s c cs => by
    simp only [iterate, nodes]
    exact (List.perm_append_singleton _ _).trans ((iterateL_perm_nodesL cs).cons _)
| sel i m s c cs => by
    simp only [iterate, nodes]
    exact (List.perm_append_singleton _ _).trans ((iterateL_perm_nodesL cs).cons _)
| par i p s c cs => by
    simp only [iterate, nodes]
    exact (List.perm_append_singleton _ _).trans ((iterateL_perm_nodesL cs).cons _)
| dec i k s c => by
    simp only [iterate, nodes]
    exact (List.perm_append_singleton _ _).trans ((iterate_perm_nodes c).cons _)
theorem iterateL_perm_nodesL : ∀ cs : List Node, (iterateL cs).Perm (nodesL cs)
| [] => by simp [iterateL, nodesL]
| c :: cs => by
    simp only [iterateL, nodesL]
    exact (iterate_perm_nodes c).append (iterateL_perm_nodesL cs)
end

theorem mem_iterateL_of_mem : ∀ (cs : List Node) (c x : Node), c ∈ cs → x ∈ iterate c → x ∈ iterateL cs
| [], c, x, hc, _ => by simp at hc
| d :: cs, c, x, hc, hx => by
    simp only [List.mem_cons] at hc
    simp only [iterateL, List.mem_append]
    rcases hc with rfl | hc
    · exact Or.inl hx
    · exact Or.inr (mem_iterateL_of_mem cs c x hc hx)

end C12

/-- **C12 (iterate)**: `iterate` lists every behaviour of the tree exactly once. -/
theorem C12_iterate_all_once (n : Node) : (iterate n).Perm (nodes n) := C12.iterate_perm_nodes n

/-- **C12 (iterate, post-order)**: a behaviour comes last in its own `iterate`, after all its children and all their
    descendants. -/
theorem C12_iterate_children_first (n : Node) :
    ∃ pre, iterate n = pre ++ [n] ∧ ∀ c ∈ n.children, ∀ x ∈ iterate c, x ∈ pre := by
  cases n with
  | leaf i s k l => exact ⟨[], by simp [iterate], by simp [children]⟩
  | seq i m s c cs => exact ⟨iterateL cs, by simp [iterate], fun c hc x hx => C12.mem_iterateL_of_mem cs c x hc hx⟩
  | sel i m s c cs => exact ⟨iterateL cs, by simp [iterate], fun c hc x hx => C12.mem_iterateL_of_mem cs c x hc hx⟩
  | par i p s c cs => exact ⟨iterateL cs, by simp [iterate], fun c hc x hx => C12.mem_iterateL_of_mem cs c x hc hx⟩
  | dec i k s c =>
    refine ⟨iterate c, by simp [iterate], ?_⟩
    intro d hd x hx
    simp only [children, List.mem_singleton] at hd
    subst hd; exact hx

namespace C12
open Mgr

mutual
theorem setupNode_shape : ∀ (n n' : Node), setupNode n = .ok n' →
    (nodes n').map Node.id = (nodes n).map Node.id ∧ (nodes n').map Node.status = (nodes n).map Node.status
| leaf i s k l, n', h => by
    simp only [setupNode, pure, Except.pure, Except.ok.injEq] at h; subst h; exact ⟨rfl, rfl⟩
| seq i m s c cs, n', h => by
    simp only [setupNode, bind, Except.bind] at h
    cases hl : setupL cs with
    | error x => simp [hl] at h
    | ok cs' =>
      simp only [hl, pure, Except.pure, Except.ok.injEq] at h; subst h
      obtain ⟨i1, i2⟩ := setupL_shape cs cs' hl
      simp [nodes, Node.id, Node.status, i1, i2]
| sel i m s c cs, n', h => by
    simp only [setupNode, bind, Except.bind] at h
    cases hl : setupL cs with
    | error x => simp [hl] at h
    | ok cs' =>
      simp only [hl, pure, Except.pure, Except.ok.injEq] at h; subst h
      obtain ⟨i1, i2⟩ := setupL_shape cs cs' hl
      simp [nodes, Node.id, Node.status, i1, i2]
| par i p s c cs, n', h => by
    simp only [setupNode, bind, Except.bind] at h
    cases hl : setupL cs with
    | error x => simp [hl] at h
    | ok cs' =>
      simp only [hl] at h
      split at h
      · simp [throw, throwThe, MonadExceptOf.throw] at h
      · simp only [pure, Except.pure, Except.ok.injEq] at h; subst h
        obtain ⟨i1, i2⟩ := setupL_shape cs cs' hl
        simp [nodes, Node.id, Node.status, i1, i2]
| dec i k s c, n', h => by
    simp only [setupNode, bind, Except.bind] at h
    cases hl : setupNode c with
    | error x => simp [hl] at h
    | ok c' =>
      simp only [hl, pure, Except.pure, Except.ok.injEq] at h; subst h
      obtain ⟨i1, i2⟩ := setupNode_shape c c' hl
      simp [nodes, Node.id, Node.status, i1, i2]
theorem setupL_shape : ∀ (cs cs' : List Node), setupL cs = .ok cs' →
    (nodesL cs').map Node.id = (nodesL cs).map Node.id ∧ (nodesL cs').map Node.status = (nodesL cs).map Node.status
| [], cs', h => by
    simp only [setupL, pure, Except.pure, Except.ok.injEq] at h; subst h; exact ⟨rfl, rfl⟩
| c :: cs, cs', h => by
    simp only [setupL, bind, Except.bind] at h
    cases hc : setupNode c with
    | error x => simp [hc] at h
    | ok c' =>
      simp only [hc] at h
      cases hl : setupL cs with
      | error x => simp [hl] at h
      | ok cs2 =>
        simp only [hl, pure, Except.pure, Except.ok.injEq] at h; subst h
        obtain ⟨i1, i2⟩ := setupNode_shape c c' hc
        obtain ⟨j1, j2⟩ := setupL_shape cs cs2 hl
        simp [nodesL, i1, i2, j1, j2]
end

end C12

/-- **C12 (setup keeps the structure)**: a successful setup keeps every behaviour's id and status (only `Count`'s
    counters are zeroed). -/
theorem C12_setup_shape (n n' : Node) (h : Mgr.setupNode n = .ok n') :
    (nodes n').map Node.id = (nodes n).map Node.id ∧ (nodes n').map Node.status = (nodes n).map Node.status :=
  C12.setupNode_shape n n' h

/-- **C12 (setup validates the policy)**: a Parallel whose policy is not valid on its (set-up) children makes setup
    raise the policy error. -/
theorem C12_setup_rejects (i : Nat) (p : Policy) (s : Status) (c : Option Nat) (cs cs' : List Node)
    (hl : Mgr.setupL cs = .ok cs') (hv : validPolicy p cs' = false) :
    Mgr.setupNode (par i p s c cs) = .error .policy := by
  simp [Mgr.setupNode, bind, Except.bind, hl, hv, throw, throwThe, MonadExceptOf.throw]

/-! ## 2. the traversal contract, on the tick trace -/

/-- ids of the behaviours whose `tick()` was entered, in order -/
def enters (tr : List Ev) : List Nat := tr.filterMap (fun | .enter i => some i | _ => none)
/-- ids of the behaviours yielded to the visitors, in order -/
def yields (tr : List Ev) : List Nat := (Mgr.ylds tr).map (·.1)

/-- the behaviours yielded are exactly the behaviours entered, each as often -/
def Balanced (tr : List Ev) : Prop := (enters tr).Perm (yields tr)

namespace C12
/-- neither an `enter` nor a `yld` -/
def evQuiet : Ev → Bool
| .enter _ => false | .yld _ _ => false | _ => true
/-- the behaviour an event is about -/
def evId : Ev → Nat
| .enter i => i | .init i => i | .upd i _ => i | .term i _ => i | .yld i _ => i

def Quiet (tr : List Ev) : Prop := ∀ ev ∈ tr, evQuiet ev = true
def OnlyTerm (tr : List Ev) : Prop := ∀ ev ∈ tr, ∃ j s, ev = .term j s

/-- balanced, and every enter / yield is about a behaviour in `S` -/
def Inner (S : List Nat) (tr : List Ev) : Prop := Balanced tr ∧ ∀ ev ∈ tr, evQuiet ev = false → evId ev ∈ S

/-- the result of ticking a behaviour with id `i`: same id, and the trace is `enter i`, inner events, `yld i status` -/
def Shape (i : Nat) (S : List Nat) (n' : Node) (tr : List Ev) : Prop :=
  n'.id = i ∧ ∃ mid, tr = [.enter i] ++ mid ++ [.yld i n'.status] ∧ Inner S mid

theorem enters_append (a b : List Ev) : enters (a ++ b) = enters a ++ enters b := by
  simp [enters, List.filterMap_append]

theorem yields_append (a b : List Ev) : yields (a ++ b) = yields a ++ yields b := by
  simp [yields, Mgr.ylds, List.filterMap_append]

theorem Quiet.nil : Quiet [] := by intro ev h; simp at h
theorem Quiet.append {a b : List Ev} (ha : Quiet a) (hb : Quiet b) : Quiet (a ++ b) := by
  intro ev h; simp only [List.mem_append] at h
  rcases h with h | h
  · exact ha ev h
  · exact hb ev h

theorem OnlyTerm.nil : OnlyTerm [] := by intro ev h; simp at h
theorem OnlyTerm.append {a b : List Ev} (ha : OnlyTerm a) (hb : OnlyTerm b) : OnlyTerm (a ++ b) := by
  intro ev h; simp only [List.mem_append] at h
  rcases h with h | h
  · exact ha ev h
  · exact hb ev h
theorem OnlyTerm.quiet {a : List Ev} (ha : OnlyTerm a) : Quiet a := by
  intro ev h; obtain ⟨j, s, rfl⟩ := ha ev h; rfl

theorem Quiet.enters_nil : ∀ {tr : List Ev}, Quiet tr → enters tr = []
| [], _ => rfl
| ev :: tr, h => by
    have h1 := h ev (by simp)
    have h2 := Quiet.enters_nil (tr := tr) (fun x hx => h x (by simp [hx]))
    simp only [enters] at h2
    cases ev <;> simp_all [enters, evQuiet]

theorem Quiet.yields_nil : ∀ {tr : List Ev}, Quiet tr → yields tr = []
| [], _ => rfl
| ev :: tr, h => by
    have h1 := h ev (by simp)
    have h2 := Quiet.yields_nil (tr := tr) (fun x hx => h x (by simp [hx]))
    simp only [yields, Mgr.ylds] at h2
    cases ev <;> simp_all [yields, Mgr.ylds, evQuiet]

theorem Balanced.append {a b : List Ev} (ha : Balanced a) (hb : Balanced b) : Balanced (a ++ b) := by
  unfold Balanced; rw [enters_append, yields_append]; exact List.Perm.append ha hb

theorem Balanced.of_quiet {a : List Ev} (ha : Quiet a) : Balanced a := by
  unfold Balanced; rw [ha.enters_nil, ha.yields_nil]

theorem Balanced.bracket {mid : List Ev} (i : Nat) (s : Status) (h : Balanced mid) :
    Balanced ([.enter i] ++ mid ++ [.yld i s]) := by
  unfold Balanced
  have e1 : enters [.enter i] = [i] := rfl
  have e2 : enters [.yld i s] = [] := rfl
  have y1 : yields [.enter i] = [] := rfl
  have y2 : yields [.yld i s] = [i] := rfl
  simp only [enters_append, yields_append, e1, e2, y1, y2, List.append_nil, List.nil_append, List.singleton_append]
  exact (List.Perm.cons i h).trans (List.perm_append_singleton i _).symm

theorem Inner.nil (S : List Nat) : Inner S [] := ⟨Balanced.of_quiet Quiet.nil, by intro ev h; simp at h⟩

theorem Inner.append {S : List Nat} {a b : List Ev} (ha : Inner S a) (hb : Inner S b) : Inner S (a ++ b) := by
  refine ⟨Balanced.append ha.1 hb.1, ?_⟩
  intro ev h; simp only [List.mem_append] at h
  rcases h with h | h
  · exact ha.2 ev h
  · exact hb.2 ev h

theorem Inner.of_quiet (S : List Nat) {a : List Ev} (ha : Quiet a) : Inner S a :=
  ⟨Balanced.of_quiet ha, fun ev h hq => by rw [ha ev h] at hq; cases hq⟩

theorem Shape.inner {i : Nat} {S S' : List Nat} {n' : Node} {tr : List Ev} (h : Shape i S n' tr)
    (hi : i ∈ S') (hS : ∀ x ∈ S, x ∈ S') : Inner S' tr := by
  obtain ⟨_, mid, rfl, hb, hm⟩ := h
  refine ⟨Balanced.bracket i _ hb, ?_⟩
  intro ev hev hq
  simp only [List.mem_append, List.mem_singleton] at hev
  rcases hev with (rfl | hev) | rfl
  · exact hi
  · exact hS _ (hm ev hev hq)
  · exact hi


/-! ### stop traces only contain `term` events -/

mutual
theorem stopInv_onlyTerm : ∀ n : Node, OnlyTerm (stopInv n).2
| leaf i s k l => by intro ev h; simp [stopInv] at h; exact ⟨i, .invalid, h⟩
| seq i m s c cs => by simpa [stopInv] using stopInvNonInvalid_onlyTerm cs
| sel i m s c cs => by simpa [stopInv] using stopInvNonInvalid_onlyTerm cs
| par i p s c cs => by
    have := stopInvPar_onlyTerm cs
    simp only [stopInv]; exact OnlyTerm.append this.1 this.2
| dec i k s c => by simpa [stopInv] using stopInv_onlyTerm c
theorem stopInvNonInvalid_onlyTerm : ∀ cs : List Node, OnlyTerm (stopInvNonInvalid cs).2
| [] => by simp [stopInvNonInvalid, OnlyTerm.nil]
| c :: cs => by
    simp only [stopInvNonInvalid]
    apply OnlyTerm.append
    · split
      · exact stopInv_onlyTerm c
      · exact OnlyTerm.nil
    · exact stopInvNonInvalid_onlyTerm cs
theorem stopInvPar_onlyTerm : ∀ cs : List Node, OnlyTerm (stopInvPar cs).2.1 ∧ OnlyTerm (stopInvPar cs).2.2
| [] => by simp [stopInvPar, OnlyTerm.nil]
| c :: cs => by
    have ih := stopInvPar_onlyTerm cs
    simp only [stopInvPar]
    split
    · exact ⟨OnlyTerm.append (stopInv_onlyTerm c) ih.1, ih.2⟩
    · split
      · exact ⟨ih.1, OnlyTerm.append (stopInv_onlyTerm c) ih.2⟩
      · exact ih
end

theorem stopRunning_onlyTerm : ∀ cs : List Node, OnlyTerm (stopRunning cs).2
| [] => by simp [stopRunning, OnlyTerm.nil]
| c :: cs => by
    simp only [stopRunning]
    apply OnlyTerm.append
    · split
      · exact stopInv_onlyTerm c
      · exact OnlyTerm.nil
    · exact stopRunning_onlyTerm cs

theorem stopInvAll_onlyTerm : ∀ cs : List Node, OnlyTerm (stopInvAll cs).2
| [] => by simp [stopInvAll, OnlyTerm.nil]
| c :: cs => by
    simp only [stopInvAll]
    exact OnlyTerm.append (stopInv_onlyTerm c) (stopInvAll_onlyTerm cs)

/-! ### ids of a subtree -/

def allIds (n : Node) : List Nat := (nodes n).map Node.id
def allIdsL (cs : List Node) : List Nat := (nodesL cs).map Node.id
/-- ids of the proper descendants -/
def descIds (n : Node) : List Nat := allIdsL n.children

theorem allIds_eq (n : Node) : allIds n = n.id :: descIds n := by
  cases n <;> simp [allIds, allIdsL, descIds, nodes, nodesL, children, Node.id]

theorem allIdsL_cons (c : Node) (cs : List Node) : allIdsL (c :: cs) = allIds c ++ allIdsL cs := by
  simp [allIdsL, allIds, nodesL]

theorem allIdsL_append : ∀ (a b : List Node), allIdsL (a ++ b) = allIdsL a ++ allIdsL b
| [], b => by simp [allIdsL, nodesL]
| c :: a, b => by simp [allIdsL_cons, allIdsL_append a b]

theorem allIds_sub_of_mem : ∀ (cs : List Node) (c : Node), c ∈ cs → ∀ x ∈ allIds c, x ∈ allIdsL cs
| [], c, hc, _, _ => by simp at hc
| d :: cs, c, hc, x, hx => by
    simp only [List.mem_cons] at hc
    simp only [allIdsL_cons, List.mem_append]
    rcases hc with rfl | hc
    · exact Or.inl hx
    · exact Or.inr (allIds_sub_of_mem cs c hc x hx)

mutual
theorem stopInv_ids : ∀ n : Node, allIds (stopInv n).1 = allIds n
| leaf i s k l => by simp [stopInv, allIds, nodes, Node.id]
| seq i m s c cs => by
    have := stopInvNonInvalid_ids cs
    simp only [allIdsL] at this
    simp [stopInv, allIds, nodes, Node.id, this]
| sel i m s c cs => by
    have := stopInvNonInvalid_ids cs
    simp only [allIdsL] at this
    simp [stopInv, allIds, nodes, Node.id, this]
| par i p s c cs => by
    have := stopInvPar_ids cs
    simp only [allIdsL] at this
    simp [stopInv, allIds, nodes, Node.id, this]
| dec i k s c => by
    have := stopInv_ids c
    simp only [allIds] at this
    simp [stopInv, allIds, nodes, Node.id, this]
theorem stopInvNonInvalid_ids : ∀ cs : List Node, allIdsL (stopInvNonInvalid cs).1 = allIdsL cs
| [] => by simp [stopInvNonInvalid]
| c :: cs => by
    simp only [stopInvNonInvalid, allIdsL_cons, stopInvNonInvalid_ids cs]
    split
    · rw [stopInv_ids c]
    · rfl
theorem stopInvPar_ids : ∀ cs : List Node, allIdsL (stopInvPar cs).1 = allIdsL cs
| [] => by simp [stopInvPar]
| c :: cs => by
    have ih := stopInvPar_ids cs
    simp only [stopInvPar]
    split
    · simp only [allIdsL_cons, ih, stopInv_ids c]
    · split
      · simp only [allIdsL_cons, ih, stopInv_ids c]
      · simp only [allIdsL_cons, ih]
end

/-! ### the loops: the trace is the concatenation of the child traces -/

theorem seqLoop_trace (P : List Ev → Prop) (hnil : P []) (happ : ∀ a b, P a → P b → P (a ++ b)) (t : Tick) :
    ∀ (cs : List Node) (w : Store) (done : List Node) (r : Option (Node × List Node)) (w' : Store) (tr : List Ev),
      (∀ w c c' w' tr, c ∈ cs → t w c = .ok (c', w', tr) → P tr) →
      seqLoop t w cs = .ok (done, r, w', tr) → P tr := by
  intro cs
  induction cs with
  | nil =>
    intro w done r w' tr _ h
    simp [seqLoop, pure, Except.pure] at h; obtain ⟨_, _, _, rfl⟩ := h
    exact hnil
  | cons c cs ih =>
    intro w done r w' tr ht h
    simp only [seqLoop, bind, Except.bind] at h
    cases htc : t w c with
    | error e => simp [htc] at h
    | ok v =>
      obtain ⟨c', w1, trc⟩ := v
      have hc' := ht w c c' w1 trc (by simp) htc
      simp only [htc] at h
      by_cases hst : c'.status = .success
      · simp only [hst, ne_eq, not_true_eq_false, ↓reduceIte] at h
        cases hl : seqLoop t w1 cs with
        | error e => simp [hl] at h
        | ok v2 =>
          obtain ⟨done2, r2, w2, tr2⟩ := v2
          simp only [hl, pure, Except.pure, Except.ok.injEq, Prod.mk.injEq] at h
          obtain ⟨_, _, _, rfl⟩ := h
          exact happ _ _ hc' (ih w1 done2 r2 w2 tr2 (fun w c c' w' tr hc => ht w c c' w' tr (by simp [hc])) hl)
      · simp only [ne_eq, hst, not_false_eq_true, ↓reduceIte, pure, Except.pure, Except.ok.injEq, Prod.mk.injEq] at h
        obtain ⟨_, _, _, rfl⟩ := h
        exact hc'

theorem selLoop_trace (P : List Ev → Prop) (hnil : P []) (happ : ∀ a b, P a → P b → P (a ++ b)) (t : Tick) :
    ∀ (cs : List Node) (w : Store) (done : List Node) (r : Option (Node × List Node)) (w' : Store) (tr : List Ev),
      (∀ w c c' w' tr, c ∈ cs → t w c = .ok (c', w', tr) → P tr) →
      selLoop t w cs = .ok (done, r, w', tr) → P tr := by
  intro cs
  induction cs with
  | nil =>
    intro w done r w' tr _ h
    simp [selLoop, pure, Except.pure] at h; obtain ⟨_, _, _, rfl⟩ := h
    exact hnil
  | cons c cs ih =>
    intro w done r w' tr ht h
    simp only [selLoop, bind, Except.bind] at h
    cases htc : t w c with
    | error e => simp [htc] at h
    | ok v =>
      obtain ⟨c', w1, trc⟩ := v
      have hc' := ht w c c' w1 trc (by simp) htc
      simp only [htc] at h
      by_cases hst : c'.status = .running ∨ c'.status = .success
      · simp only [hst, ↓reduceIte, pure, Except.pure, Except.ok.injEq, Prod.mk.injEq] at h
        obtain ⟨_, _, _, rfl⟩ := h
        exact hc'
      · simp only [hst, ↓reduceIte] at h
        cases hl : selLoop t w1 cs with
        | error e => simp [hl] at h
        | ok v2 =>
          obtain ⟨done2, r2, w2, tr2⟩ := v2
          simp only [hl, pure, Except.pure, Except.ok.injEq, Prod.mk.injEq] at h
          obtain ⟨_, _, _, rfl⟩ := h
          exact happ _ _ hc' (ih w1 done2 r2 w2 tr2 (fun w c c' w' tr hc => ht w c c' w' tr (by simp [hc])) hl)

theorem parLoop_trace (P : List Ev → Prop) (hnil : P []) (happ : ∀ a b, P a → P b → P (a ++ b)) (t : Tick)
    (sync : Bool) :
    ∀ (cs : List Node) (w : Store) (cs' : List Node) (w' : Store) (tr : List Ev),
      (∀ w c c' w' tr, c ∈ cs → t w c = .ok (c', w', tr) → P tr) →
      parLoop t sync w cs = .ok (cs', w', tr) → P tr := by
  intro cs
  induction cs with
  | nil =>
    intro w cs' w' tr _ h
    simp [parLoop, pure, Except.pure] at h; obtain ⟨_, _, rfl⟩ := h
    exact hnil
  | cons c cs ih =>
    intro w cs' w' tr ht h
    have ht' : ∀ w c c' w' tr, c ∈ cs → t w c = .ok (c', w', tr) → P tr :=
      fun w c c' w' tr hc => ht w c c' w' tr (by simp [hc])
    simp only [parLoop, bind, Except.bind] at h
    split at h
    · cases hl : parLoop t sync w cs with
      | error e => simp [hl] at h
      | ok v2 =>
        obtain ⟨cs2, w2, tr2⟩ := v2
        simp only [hl, pure, Except.pure, Except.ok.injEq, Prod.mk.injEq] at h
        obtain ⟨_, _, rfl⟩ := h
        exact ih w cs2 w2 tr2 ht' hl
    · cases htc : t w c with
      | error e => simp [htc] at h
      | ok v =>
        obtain ⟨c', w1, trc⟩ := v
        have hc' := ht w c c' w1 trc (by simp) htc
        simp only [htc] at h
        cases hl : parLoop t sync w1 cs with
        | error e => simp [hl] at h
        | ok v2 =>
          obtain ⟨cs2, w2, tr2⟩ := v2
          simp only [hl, pure, Except.pure, Except.ok.injEq, Prod.mk.injEq] at h
          obtain ⟨_, _, rfl⟩ := h
          exact happ _ _ hc' (ih w1 cs2 w2 tr2 ht' hl)

end C12

namespace C12

/-! ### entry blocks: the children about to be ticked are (reset) children; the reset trace is quiet -/

theorem seqEntry_ids (st : Status) (m : Bool) (cur : Option Nat) (cs before rest : List Node) (trR : List Ev)
    (h : seqEntry st m cur cs = .ok (before, rest, trR)) :
    (∀ x ∈ allIdsL rest, x ∈ allIdsL cs) ∧ OnlyTerm trR := by
  unfold seqEntry at h
  split at h
  · simp only [pure, Except.pure, Except.ok.injEq, Prod.mk.injEq] at h
    obtain ⟨_, rfl, rfl⟩ := h
    rw [stopInvNonInvalid_ids]
    exact ⟨fun x hx => hx, stopInvNonInvalid_onlyTerm cs⟩
  · split at h
    · cases cur with
      | none =>
        simp only [pure, Except.pure, Except.ok.injEq, Prod.mk.injEq] at h
        obtain ⟨_, rfl, rfl⟩ := h
        refine ⟨?_, OnlyTerm.nil⟩
        have e1 := (splitAtNonSuccess_spec cs).1
        intro x hx
        rw [e1, allIdsL_append]; exact List.mem_append_right _ hx
      | some c =>
        simp only at h
        split at h
        · rename_i a b hsp
          simp only [pure, Except.pure, Except.ok.injEq, Prod.mk.injEq] at h
          obtain ⟨_, rfl, rfl⟩ := h
          obtain ⟨e1, _, _⟩ := splitAtId_spec c cs _ _ hsp
          refine ⟨?_, OnlyTerm.nil⟩
          intro x hx
          rw [e1, allIdsL_append]; exact List.mem_append_right _ hx
        · simp [throw, throwThe, MonadExceptOf.throw] at h
    · simp only [pure, Except.pure, Except.ok.injEq, Prod.mk.injEq] at h
      obtain ⟨_, rfl, rfl⟩ := h
      exact ⟨fun x hx => hx, OnlyTerm.nil⟩

theorem selEntry_ids (st : Status) (m : Bool) (cur cur0 : Option Nat) (cs before rest : List Node) (trP : List Ev)
    (h : selEntry st m cur cs = .ok (cur0, before, rest, trP)) :
    (∀ x ∈ allIdsL rest, x ∈ allIdsL cs) ∧ OnlyTerm trP := by
  unfold selEntry at h
  generalize (if st ≠ .running then cs.head?.map Node.id else cur) = c0 at h
  simp only at h
  split at h
  · cases c0 with
    | none =>
      simp only [pure, Except.pure, Except.ok.injEq, Prod.mk.injEq] at h
      obtain ⟨_, _, rfl, rfl⟩ := h
      exact ⟨fun x hx => hx, OnlyTerm.nil⟩
    | some c =>
      simp only at h
      split at h
      · rename_i a b hsp
        simp only [pure, Except.pure, Except.ok.injEq, Prod.mk.injEq] at h
        obtain ⟨_, _, rfl, rfl⟩ := h
        obtain ⟨e1, _, _⟩ := splitAtId_spec c cs _ _ hsp
        refine ⟨?_, stopInvAll_onlyTerm a⟩
        intro x hx
        rw [e1, allIdsL_append]; exact List.mem_append_right _ hx
      · simp [throw, throwThe, MonadExceptOf.throw] at h
  · simp only [pure, Except.pure, Except.ok.injEq, Prod.mk.injEq] at h
    obtain ⟨_, _, rfl, rfl⟩ := h
    exact ⟨fun x hx => hx, OnlyTerm.nil⟩

/-! ### the run helpers: `enter i`, inner events, `yld i status` -/

theorem shape_mk (i : Nat) (S : List Nat) (n' : Node) (tr mid : List Ev) (hid : n'.id = i)
    (htr : tr = [.enter i] ++ mid ++ [.yld i n'.status]) (hin : Inner S mid) : Shape i S n' tr :=
  ⟨hid, mid, htr, hin⟩

theorem leafTick_shape (e : Env) (w : Store) (i : Nat) (st : Status) (k : LeafKind) (log : List LEv) (S : List Nat)
    (n' : Node) (w' : Store) (tr : List Ev) (h : leafTick e w i st k log = .ok (n', w', tr)) : Shape i S n' tr := by
  simp only [leafTick, bind, Except.bind] at h
  generalize (if st ≠ .running then leafInit e k else k) = k0 at h
  cases hu : leafUpdate i e w k0 with
  | error x => simp [hu] at h
  | ok v =>
    obtain ⟨k1, o, w1⟩ := v
    simp only [hu, pure, Except.pure, Except.ok.injEq, Prod.mk.injEq] at h
    obtain ⟨rfl, _, rfl⟩ := h
    refine shape_mk i S _ _ ((if st ≠ .running then [Ev.init i] else []) ++ [.upd i o] ++
      (if o ≠ .running then [Ev.term i o] else [])) rfl (by simp [Node.status]) ?_
    apply Inner.of_quiet
    intro ev hev
    simp only [List.mem_append, List.mem_singleton] at hev
    rcases hev with (hev | rfl) | hev
    · split at hev
      · simp only [List.mem_singleton] at hev; subst hev; rfl
      · simp at hev
    · rfl
    · split at hev
      · simp only [List.mem_singleton] at hev; subst hev; rfl
      · simp at hev

theorem seqRun_shape (S : List Nat) (t : Tick) (w : Store) (i : Nat) (m : Bool) (before rest : List Node)
    (trR : List Ev) (n' : Node) (w' : Store) (tr : List Ev)
    (ht : ∀ w c c' w' tr, c ∈ rest → t w c = .ok (c', w', tr) → Inner S tr) (hR : OnlyTerm trR)
    (h : seqRun t w i m before rest trR = .ok (n', w', tr)) : Shape i S n' tr := by
  simp only [seqRun, bind, Except.bind] at h
  cases hl : seqLoop t w rest with
  | error e => simp [hl] at h
  | ok v =>
    obtain ⟨done, r, w1, trl⟩ := v
    simp only [hl] at h
    have hP := seqLoop_trace (Inner S) (Inner.nil S) (fun a b => Inner.append) t rest w done r w1 trl ht hl
    cases r with
    | none =>
      simp only [pure, Except.pure, Except.ok.injEq, Prod.mk.injEq] at h
      obtain ⟨rfl, _, rfl⟩ := h
      exact shape_mk i S _ _ (trR ++ trl) rfl (by simp [Node.status]) (Inner.append (Inner.of_quiet S hR.quiet) hP)
    | some p =>
      obtain ⟨c', untouched⟩ := p
      simp only [pure, Except.pure, Except.ok.injEq, Prod.mk.injEq] at h
      obtain ⟨rfl, _, rfl⟩ := h
      have hK : OnlyTerm (if m = true then (untouched, []) else stopInvNonInvalid untouched).2 := by
        split
        · exact OnlyTerm.nil
        · exact stopInvNonInvalid_onlyTerm untouched
      generalize (if m = true then (untouched, []) else stopInvNonInvalid untouched) = rr at hK
      exact shape_mk i S _ _ (trR ++ trl ++ rr.2) rfl (by simp [Node.status])
        (Inner.append (Inner.append (Inner.of_quiet S hR.quiet) hP) (Inner.of_quiet S hK.quiet))

theorem selRun_shape (S : List Nat) (t : Tick) (w : Store) (i : Nat) (m : Bool) (cur0 : Option Nat)
    (before rest : List Node) (trP : List Ev) (n' : Node) (w' : Store) (tr : List Ev)
    (ht : ∀ w c c' w' tr, c ∈ rest → t w c = .ok (c', w', tr) → Inner S tr) (hR : OnlyTerm trP)
    (h : selRun t w i m cur0 before rest trP = .ok (n', w', tr)) : Shape i S n' tr := by
  simp only [selRun, bind, Except.bind] at h
  cases hl : selLoop t w rest with
  | error e => simp [hl] at h
  | ok v =>
    obtain ⟨failed, r, w1, trl⟩ := v
    simp only [hl] at h
    have hP := selLoop_trace (Inner S) (Inner.nil S) (fun a b => Inner.append) t rest w failed r w1 trl ht hl
    cases r with
    | none =>
      simp only [pure, Except.pure, Except.ok.injEq, Prod.mk.injEq] at h
      obtain ⟨rfl, _, rfl⟩ := h
      exact shape_mk i S _ _ (trP ++ trl) rfl (by simp [Node.status]) (Inner.append (Inner.of_quiet S hR.quiet) hP)
    | some p =>
      obtain ⟨c', untouched⟩ := p
      simp only [pure, Except.pure, Except.ok.injEq, Prod.mk.injEq] at h
      obtain ⟨rfl, _, rfl⟩ := h
      have hK : OnlyTerm (if cur0 = some c'.id then (untouched, []) else stopInvNonInvalid untouched).2 := by
        split
        · exact OnlyTerm.nil
        · exact stopInvNonInvalid_onlyTerm untouched
      generalize (if cur0 = some c'.id then (untouched, []) else stopInvNonInvalid untouched) = rr at hK
      exact shape_mk i S _ _ (trP ++ trl ++ rr.2) rfl (by simp [Node.status])
        (Inner.append (Inner.append (Inner.of_quiet S hR.quiet) hP) (Inner.of_quiet S hK.quiet))

theorem parRun_shape (S : List Nat) (t : Tick) (w : Store) (i : Nat) (p : Policy) (cs0 : List Node)
    (trR : List Ev) (n' : Node) (w' : Store) (tr : List Ev)
    (ht : ∀ w c c' w' tr, c ∈ cs0 → t w c = .ok (c', w', tr) → Inner S tr) (hR : OnlyTerm trR)
    (h : parRun t w i p cs0 trR = .ok (n', w', tr)) : Shape i S n' tr := by
  simp only [parRun, bind, Except.bind] at h
  cases hl : parLoop t p.sync w cs0 with
  | error e => simp [hl] at h
  | ok v =>
    obtain ⟨cs1, w1, trl⟩ := v
    simp only [hl] at h
    have hP := parLoop_trace (Inner S) (Inner.nil S) (fun a b => Inner.append) t p.sync cs0 w cs1 w1 trl ht hl
    split at h
    · simp only [pure, Except.pure, Except.ok.injEq, Prod.mk.injEq] at h
      obtain ⟨rfl, _, rfl⟩ := h
      exact shape_mk i S _ _ (trR ++ trl ++ (stopRunning cs1).2) rfl (by simp [Node.status])
        (Inner.append (Inner.append (Inner.of_quiet S hR.quiet) hP)
          (Inner.of_quiet S (stopRunning_onlyTerm cs1).quiet))
    · simp only [pure, Except.pure, Except.ok.injEq, Prod.mk.injEq] at h
      obtain ⟨rfl, _, rfl⟩ := h
      exact shape_mk i S _ _ (trR ++ trl) rfl (by simp [Node.status]) (Inner.append (Inner.of_quiet S hR.quiet) hP)

theorem decBounce_shape (S : List Nat) (w : Store) (i : Nat) (k : DecKind) (s : Status) (c n' : Node) (w' : Store)
    (tr : List Ev) (h : decBounce w i k s c = .ok (n', w', tr)) : Shape i S n' tr := by
  simp only [decBounce, pure, Except.pure, Except.ok.injEq, Prod.mk.injEq] at h
  obtain ⟨rfl, _, rfl⟩ := h
  have hK : OnlyTerm (if c.status = .running then stopInv c else (c, [])).2 := by
    split
    · exact stopInv_onlyTerm c
    · exact OnlyTerm.nil
  generalize (if c.status = .running then stopInv c else (c, [])) = rr at hK
  exact shape_mk i S _ _ rr.2 rfl (by simp [Node.status]) (Inner.of_quiet S hK.quiet)

theorem decRun_shape (S : List Nat) (t : Tick) (e : Env) (w : Store) (i : Nat) (k : DecKind) (st : Status)
    (c n' : Node) (w' : Store) (tr : List Ev)
    (ht : ∀ w c' w' tr, t w c = .ok (c', w', tr) → Inner S tr)
    (h : decRun t e w i k st c = .ok (n', w', tr)) : Shape i S n' tr := by
  simp only [decRun, bind, Except.bind] at h
  cases htc : t w c with
  | error err => simp [htc] at h
  | ok v =>
    obtain ⟨c1, w1, trc⟩ := v
    have hc1 := ht w c1 w1 trc htc
    simp only [htc] at h
    generalize (if st ≠ .running then decInit e k else k) = k0 at h
    cases hp : decPublish k0 c1.status w1 with
    | error err => simp [hp] at h
    | ok w2 =>
      simp only [hp] at h
      have hC : OnlyTerm (if (decUpdate e k0 c1.status).2.2 = true then stopInv c1 else (c1, [])).2 := by
        split
        · exact stopInv_onlyTerm c1
        · exact OnlyTerm.nil
      generalize (if (decUpdate e k0 c1.status).2.2 = true then stopInv c1 else (c1, [])) = cc at h hC
      split at h
      · simp only [pure, Except.pure, Except.ok.injEq, Prod.mk.injEq] at h
        obtain ⟨rfl, _, rfl⟩ := h
        have hK : OnlyTerm (if (decUpdate e k0 c1.status).2.1 = .invalid ∨ cc.1.status = .running
            then stopInv cc.1 else (cc.1, [])).2 := by
          split
          · exact stopInv_onlyTerm cc.1
          · exact OnlyTerm.nil
        generalize (if (decUpdate e k0 c1.status).2.1 = .invalid ∨ cc.1.status = .running
            then stopInv cc.1 else (cc.1, [])) = rr at hK
        exact shape_mk i S _ _ (trc ++ cc.2 ++ rr.2) rfl (by simp [Node.status])
          (Inner.append (Inner.append hc1 (Inner.of_quiet S hC.quiet)) (Inner.of_quiet S hK.quiet))
      · simp only [pure, Except.pure, Except.ok.injEq, Prod.mk.injEq] at h
        obtain ⟨rfl, _, rfl⟩ := h
        exact shape_mk i S _ _ (trc ++ cc.2) rfl (by simp [Node.status])
          (Inner.append hc1 (Inner.of_quiet S hC.quiet))

/-- the shape of every successful tick -/
theorem tickF_shape (e : Env) : ∀ (f : Nat) (w : Store) (n n' : Node) (w' : Store) (tr : List Ev),
    tickF f e w n = .ok (n', w', tr) → Shape n.id (descIds n) n' tr := by
  intro f
  induction f with
  | zero => intro w n n' w' tr h; simp [tickF] at h
  | succ f ih =>
    have ht : ∀ w c c' w' tr, tickF f e w c = .ok (c', w', tr) → Inner (allIds c) tr := by
      intro w c c' w' tr h
      refine (ih w c c' w' tr h).inner ?_ ?_
      · rw [allIds_eq]; simp
      · intro x hx; rw [allIds_eq]; simp [hx]
    have htL : ∀ (cs : List Node) w c c' w' tr, c ∈ cs → tickF f e w c = .ok (c', w', tr) → Inner (allIdsL cs) tr := by
      intro cs w c c' w' tr hc h
      obtain ⟨h1, h2⟩ := ht w c c' w' tr h
      exact ⟨h1, fun ev hev hq => allIds_sub_of_mem cs c hc _ (h2 ev hev hq)⟩
    have mono : ∀ (A B : List Nat) (tr : List Ev), (∀ x ∈ A, x ∈ B) → Inner A tr → Inner B tr :=
      fun A B tr hAB hin => ⟨hin.1, fun ev hev hq => hAB _ (hin.2 ev hev hq)⟩
    intro w n n' w' tr h
    cases n with
    | leaf i st k log =>
      simp only [tickF] at h
      exact leafTick_shape e w i st k log _ n' w' tr h
    | seq i m st cur cs =>
      simp only [tickF, bind, Except.bind] at h
      cases hen : seqEntry st m cur cs with
      | error err => simp [hen] at h
      | ok v =>
        obtain ⟨before, rest, trR⟩ := v
        simp only [hen] at h
        obtain ⟨s1, s2⟩ := seqEntry_ids st m cur cs before rest trR hen
        split at h
        · simp only [pure, Except.pure, Except.ok.injEq, Prod.mk.injEq] at h
          obtain ⟨rfl, _, rfl⟩ := h
          exact shape_mk i _ _ _ trR rfl (by simp [Node.status, Node.id]) (Inner.of_quiet _ s2.quiet)
        · exact seqRun_shape _ (tickF f e) w i m before rest trR n' w' tr
            (fun w c c' w' tr hc h => mono _ _ _ s1 (htL rest w c c' w' tr hc h)) s2 h
    | sel i m st cur cs =>
      simp only [tickF, bind, Except.bind] at h
      split at h
      · simp only [pure, Except.pure, Except.ok.injEq, Prod.mk.injEq] at h
        obtain ⟨rfl, _, rfl⟩ := h
        exact shape_mk i _ _ _ [] rfl (by simp [Node.status, Node.id]) (Inner.nil _)
      · cases hen : selEntry st m cur cs with
        | error err => simp [hen] at h
        | ok v =>
          obtain ⟨cur0, before, rest, trP⟩ := v
          simp only [hen] at h
          obtain ⟨s1, s2⟩ := selEntry_ids st m cur cur0 cs before rest trP hen
          exact selRun_shape _ (tickF f e) w i m cur0 before rest trP n' w' tr
            (fun w c c' w' tr hc h => mono _ _ _ s1 (htL rest w c c' w' tr hc h)) s2 h
    | par i p st cur cs =>
      simp only [tickF, bind, Except.bind] at h
      split at h
      · simp [throw, throwThe, MonadExceptOf.throw] at h
      · have h0 : allIdsL (if st ≠ .running then stopInvNonInvalid cs else (cs, [])).1 = allIdsL cs ∧
            OnlyTerm (if st ≠ .running then stopInvNonInvalid cs else (cs, [])).2 := by
          split
          · exact ⟨stopInvNonInvalid_ids cs, stopInvNonInvalid_onlyTerm cs⟩
          · exact ⟨rfl, OnlyTerm.nil⟩
        generalize (if st ≠ .running then stopInvNonInvalid cs else (cs, [])) = r0 at h h0
        simp only [pure, Except.pure] at h
        split at h
        · simp only [Except.ok.injEq, Prod.mk.injEq] at h
          obtain ⟨rfl, _, rfl⟩ := h
          exact shape_mk i _ _ _ r0.2 rfl (by simp [Node.status, Node.id]) (Inner.of_quiet _ h0.2.quiet)
        · exact parRun_shape _ (tickF f e) w i p r0.1 r0.2 n' w' tr
            (fun w c c' w' tr hc h => mono _ _ _ (fun x hx => by show x ∈ allIdsL cs; rw [← h0.1]; exact hx) (htL r0.1 w c c' w' tr hc h))
            h0.2 h
    | dec i k st c =>
      have hd : ∀ w c' w' tr, tickF f e w c = .ok (c', w', tr) → Inner (descIds (dec i k st c)) tr := by
        intro w c' w' tr h
        exact mono _ _ _ (fun x hx => by simp [descIds, children, allIdsL_cons, hx]) (ht w c c' w' tr h)
      simp only [tickF] at h
      split at h
      · split at h
        · exact decRun_shape _ (tickF f e) e w i _ st c n' w' tr hd h
        · exact decBounce_shape _ w i _ .failure c n' w' tr h
      · exact decBounce_shape _ w i _ _ c n' w' tr h
      · exact decRun_shape _ (tickF f e) e w i _ st c n' w' tr hd h

end C12

/-- a tick keeps the behaviour's id (pure case analysis, no invariant needed) -/
theorem C12.tickF_id (f : Nat) (e : Env) (w w' : Store) (n n' : Node) (tr : List Ev)
    (h : tickF f e w n = .ok (n', w', tr)) : n'.id = n.id :=
  (C12.tickF_shape e f w n n' w' tr h).1

/-- **C12 (root last)**: the ticked behaviour is yielded last, with its new status. -/
theorem C12_yield_root_last (f : Nat) (e : Env) (w w' : Store) (n n' : Node) (tr : List Ev)
    (h : tickF f e w n = .ok (n', w', tr)) : ∃ pre, tr = pre ++ [.yld n.id n'.status] := by
  obtain ⟨_, mid, rfl, _⟩ := C12.tickF_shape e f w n n' w' tr h
  exact ⟨_, rfl⟩

/-- **C12 (own enter first)**: a behaviour's tick events start with its own `enter`. -/
theorem C12_first_enter (f : Nat) (e : Env) (w w' : Store) (n n' : Node) (tr : List Ev)
    (h : tickF f e w n = .ok (n', w', tr)) : ∃ rest, tr = .enter n.id :: rest := by
  obtain ⟨_, mid, rfl, _⟩ := C12.tickF_shape e f w n n' w' tr h
  exact ⟨_, rfl⟩

/-- **C12 (yielded = ticked)**: the behaviours yielded to the visitors are exactly the behaviours whose `tick()` was
    entered, each as often as it was entered. -/
theorem C12_enters_eq_yields (f : Nat) (e : Env) (w w' : Store) (n n' : Node) (tr : List Ev)
    (h : tickF f e w n = .ok (n', w', tr)) : (enters tr).Perm (yields tr) := by
  obtain ⟨_, mid, rfl, hb, _⟩ := C12.tickF_shape e f w n n' w' tr h
  exact C12.Balanced.bracket _ _ hb

/-- **C12 (children before their parent)**: the trace of a tick is the behaviour's own `enter`, then every event of
    the subtree below it — itself balanced, and all its enters / yields are about proper descendants —, then the
    behaviour's own `yld`. Applied to every subtree: a composite / decorator is yielded after all events of its ticked
    children. -/
theorem C12_children_before_parent (f : Nat) (e : Env) (w w' : Store) (n n' : Node) (tr : List Ev)
    (h : tickF f e w n = .ok (n', w', tr)) :
    ∃ mid, tr = [.enter n.id] ++ mid ++ [.yld n.id n'.status] ∧ (enters mid).Perm (yields mid) ∧
      (∀ j ∈ enters mid, ∃ x ∈ nodesL n.children, x.id = j) ∧ (∀ j ∈ yields mid, ∃ x ∈ nodesL n.children, x.id = j) := by
  obtain ⟨_, mid, rfl, hb, hm⟩ := C12.tickF_shape e f w n n' w' tr h
  refine ⟨mid, rfl, hb, ?_, ?_⟩
  · intro j hj
    simp only [enters, List.mem_filterMap] at hj
    obtain ⟨ev, hev, hj⟩ := hj
    cases ev with
    | enter i =>
      simp only [Option.some.injEq] at hj; subst hj
      have := hm _ hev rfl
      simpa [C12.descIds, C12.allIdsL, C12.evId] using this
    | _ => simp at hj
  · intro j hj
    simp only [yields, Mgr.ylds, List.mem_map, List.mem_filterMap] at hj
    obtain ⟨p, ⟨ev, hev, hp⟩, hj⟩ := hj
    cases ev with
    | yld i s =>
      simp only [Option.some.injEq] at hp; subst hp; subst hj
      have := hm _ hev rfl
      simpa [C12.descIds, C12.allIdsL, C12.evId] using this
    | _ => simp at hp

/-- **C12 (bracket)**: when the behaviour's id is not reused below it, its own `enter` / `yld` occur exactly once in
    the trace of its tick: first and last. (The first conjunct alone needs no hypothesis: `C12_children_before_parent`.) -/
theorem C12_bracket (f : Nat) (e : Env) (w w' : Store) (n n' : Node) (tr : List Ev)
    (hdist : ∀ x ∈ nodesL n.children, x.id ≠ n.id)
    (h : tickF f e w n = .ok (n', w', tr)) :
    ∃ mid, tr = [.enter n.id] ++ mid ++ [.yld n.id n'.status] ∧
      ∀ ev ∈ mid, ev ≠ .enter n.id ∧ (∀ s, ev ≠ .yld n.id s) := by
  obtain ⟨_, mid, rfl, hb, hm⟩ := C12.tickF_shape e f w n n' w' tr h
  refine ⟨mid, rfl, ?_⟩
  intro ev hev
  have key : C12.evQuiet ev = false → C12.evId ev ≠ n.id := by
    intro hq heq
    have := hm ev hev hq
    simp only [C12.descIds, C12.allIdsL, List.mem_map] at this
    obtain ⟨x, hx, hxi⟩ := this
    exact hdist x hx (hxi.trans heq)
  constructor
  · intro he; subst he; exact key rfl rfl
  · intro s he; subst he; exact key rfl rfl

/-! ## 5. non-vacuity -/

/-- a memory Sequence over a SUCCESS leaf and a RUNNING leaf -/
def C12_example : Node :=
  seq 1 true .invalid none [leaf 2 .invalid (.const .success) [], leaf 3 .invalid (.const .running) []]

def C12_env : Env := { outcome := fun _ => .running, guard := fun _ => true, now := 0 }

/-- one ordinary visitor (0), one full visitor (1), one pre-tick and one post-tick handler -/
def C12_mgr : Mgr := { visitors := [false, true], nPre := 1, nPost := 1 }

/-- the exact call log of one `BehaviourTree.tick` with a one-off pre-tick handler -/
example : (C12_mgr.treeTick true false C12_env Store.empty C12_example).toOption.map (fun r => (r.1.count, r.2.2.2.1)) =
    some (1, [.preOnce, .pre 0, .vInit 0, .vInit 1,
              .vRun 0 2 .success, .vRun 0 3 .running, .vRun 0 1 .running,
              .vRun 1 2 .success, .vRun 1 3 .running, .vRun 1 1 .running,
              .vFin 0, .vFin 1, .post 0]) := by decide

/-- its tick trace: enters and yields agree, the root is entered first and yielded last -/
example : (C12_example.tick C12_env Store.empty).toOption.map (fun r => r.2.2) =
    some [.enter 1, .enter 2, .init 2, .upd 2 .success, .term 2 .success, .yld 2 .success,
          .enter 3, .init 3, .upd 3 .running, .yld 3 .running, .yld 1 .running] := by decide

example : (C12_example.tick C12_env Store.empty).toOption.map (fun r => (enters r.2.2, yields r.2.2)) =
    some ([1, 2, 3], [2, 3, 1]) := by decide

/-- the hypothesis of `C12_bracket` holds on the example -/
example : ∀ x ∈ nodesL C12_example.children, x.id ≠ C12_example.id := by decide

/-- two ticks of the manager; the snapshot visitor's record, previous record, changed flag, and the count -/
def C12_history : Option (List (Nat × Status) × List (Nat × Status) × Bool × Nat) :=
  match C12_mgr.treeTick false false C12_env Store.empty C12_example with
  | .ok (m1, n1, w1, _, _) =>
    match m1.treeTick false false C12_env w1 n1 with
    | .ok (m2, _, _, _, _) => some (m2.snap.visited, m2.snap.previously, m2.snap.changed, m2.count)
    | .error _ => none
  | .error _ => none

/-- on the second tick the memory Sequence resumes at leaf 3: the visited set shrinks, every remaining status is
    unchanged, and `changed` is true -/
example : C12_history =
    some ([(3, .running), (1, .running)], [(2, .success), (3, .running), (1, .running)], true, 2) := by decide

/-- the hypotheses of `C12_snapshot_changed` hold on that step, and the two maps differ (at id 2) -/
example : (([(3, Status.running), (1, Status.running)] : List (Nat × Status)).map (·.1)).Nodup := by decide
example : (([(2, Status.success), (3, Status.running), (1, Status.running)] : List (Nat × Status)).map (·.1)).Nodup := by
  decide
example : Mgr.lookup 2 [(3, .running), (1, .running)] ≠ Mgr.lookup 2 [(2, .success), (3, .running), (1, .running)] := by
  decide
example : (Mgr.snapTick { visited := [(2, .success), (3, .running), (1, .running)] } [(3, .running), (1, .running)]).changed
    = true := by decide
/-- and an identical tick leaves `changed` false -/
example : (Mgr.snapTick { visited := [(3, .running), (1, .running)] } [(3, .running), (1, .running)]).changed
    = false := by decide

/-- iterate: post-order, every behaviour once -/
example : (iterate C12_example).map Node.id = [2, 3, 1] ∧ (nodes C12_example).map Node.id = [1, 2, 3] := by decide

/-- setup keeps ids and statuses; an unsatisfiable Parallel policy is rejected -/
example : (Mgr.setupNode C12_example).toOption.map (fun n => (nodes n).map (fun x => (x.id, x.status))) =
    some [(1, .invalid), (2, .invalid), (3, .invalid)] := by decide
example : validPolicy (.onSelected [9] false) [leaf 2 .invalid (.const .success) []] = false := by decide
example : (Mgr.setupL [leaf 2 .invalid (.const .success) []]).toOption.map (fun cs => cs.map Node.id) = some [2] := by
  decide
example : (Mgr.setupNode (par 1 (.onSelected [9] false) .invalid none [leaf 2 .invalid (.const .success) []])).toOption.isNone
    = true := by decide

/-! ## 2b. the yields are a subsequence of the post-order of the tree (hence: each behaviour at most once) -/

namespace C12

def postIds (n : Node) : List Nat := (iterate n).map Node.id
def postIdsL (cs : List Node) : List Nat := (iterateL cs).map Node.id

theorem postIdsL_cons (c : Node) (cs : List Node) : postIdsL (c :: cs) = postIds c ++ postIdsL cs := by
  simp [postIdsL, postIds, iterateL]

theorem postIdsL_append : ∀ (a b : List Node), postIdsL (a ++ b) = postIdsL a ++ postIdsL b
| [], b => by simp [postIdsL, iterateL]
| c :: a, b => by simp [postIdsL_cons, postIdsL_append a b]

theorem postIds_seq (i m s c cs) : postIds (seq i m s c cs) = postIdsL cs ++ [i] := by
  simp [postIds, postIdsL, iterate, Node.id]
theorem postIds_sel (i m s c cs) : postIds (sel i m s c cs) = postIdsL cs ++ [i] := by
  simp [postIds, postIdsL, iterate, Node.id]
theorem postIds_par (i p s c cs) : postIds (par i p s c cs) = postIdsL cs ++ [i] := by
  simp [postIds, postIdsL, iterate, Node.id]
theorem postIds_dec (i k s c) : postIds (dec i k s c) = postIds c ++ [i] := by
  simp [postIds, iterate, Node.id]
theorem postIds_leaf (i s k l) : postIds (leaf i s k l) = [i] := by
  simp [postIds, iterate, Node.id]

mutual
theorem stopInv_postIds : ∀ n : Node, postIds (stopInv n).1 = postIds n
| leaf i s k l => by simp [stopInv, postIds_leaf]
| seq i m s c cs => by simp [stopInv, postIds_seq, stopInvNonInvalid_postIds cs]
| sel i m s c cs => by simp [stopInv, postIds_sel, stopInvNonInvalid_postIds cs]
| par i p s c cs => by simp [stopInv, postIds_par, stopInvPar_postIds cs]
| dec i k s c => by simp [stopInv, postIds_dec, stopInv_postIds c]
theorem stopInvNonInvalid_postIds : ∀ cs : List Node, postIdsL (stopInvNonInvalid cs).1 = postIdsL cs
| [] => by simp [stopInvNonInvalid]
| c :: cs => by
    simp only [stopInvNonInvalid, postIdsL_cons, stopInvNonInvalid_postIds cs]
    split
    · rw [stopInv_postIds c]
    · rfl
theorem stopInvPar_postIds : ∀ cs : List Node, postIdsL (stopInvPar cs).1 = postIdsL cs
| [] => by simp [stopInvPar]
| c :: cs => by
    have ih := stopInvPar_postIds cs
    simp only [stopInvPar]
    split
    · simp only [postIdsL_cons, ih, stopInv_postIds c]
    · split
      · simp only [postIdsL_cons, ih, stopInv_postIds c]
      · simp only [postIdsL_cons, ih]
end

theorem yields_nil : yields [] = [] := rfl
theorem yields_enter (i : Nat) : yields [.enter i] = [] := rfl
theorem yields_yld (i : Nat) (s : Status) : yields [.yld i s] = [i] := rfl

theorem seqLoop_post (t : Tick) :
    ∀ (cs : List Node) (w : Store) (done : List Node) (r : Option (Node × List Node)) (w' : Store) (tr : List Ev),
      (∀ w c c' w' tr, c ∈ cs → t w c = .ok (c', w', tr) → (yields tr).Sublist (postIds c)) →
      seqLoop t w cs = .ok (done, r, w', tr) → (yields tr).Sublist (postIdsL cs) := by
  intro cs
  induction cs with
  | nil =>
    intro w done r w' tr _ h
    simp [seqLoop, pure, Except.pure] at h; obtain ⟨_, _, _, rfl⟩ := h
    simp [yields_nil]
  | cons c cs ih =>
    intro w done r w' tr ht h
    simp only [seqLoop, bind, Except.bind] at h
    cases htc : t w c with
    | error e => simp [htc] at h
    | ok v =>
      obtain ⟨c', w1, trc⟩ := v
      have hc' := ht w c c' w1 trc (by simp) htc
      simp only [htc] at h
      rw [postIdsL_cons]
      by_cases hst : c'.status = .success
      · simp only [hst, ne_eq, not_true_eq_false, ↓reduceIte] at h
        cases hl : seqLoop t w1 cs with
        | error e => simp [hl] at h
        | ok v2 =>
          obtain ⟨done2, r2, w2, tr2⟩ := v2
          simp only [hl, pure, Except.pure, Except.ok.injEq, Prod.mk.injEq] at h
          obtain ⟨_, _, _, rfl⟩ := h
          rw [yields_append]
          exact List.Sublist.append hc'
            (ih w1 done2 r2 w2 tr2 (fun w c c' w' tr hc => ht w c c' w' tr (by simp [hc])) hl)
      · simp only [ne_eq, hst, not_false_eq_true, ↓reduceIte, pure, Except.pure, Except.ok.injEq, Prod.mk.injEq] at h
        obtain ⟨_, _, _, rfl⟩ := h
        exact hc'.trans (List.sublist_append_left _ _)

theorem selLoop_post (t : Tick) :
    ∀ (cs : List Node) (w : Store) (done : List Node) (r : Option (Node × List Node)) (w' : Store) (tr : List Ev),
      (∀ w c c' w' tr, c ∈ cs → t w c = .ok (c', w', tr) → (yields tr).Sublist (postIds c)) →
      selLoop t w cs = .ok (done, r, w', tr) → (yields tr).Sublist (postIdsL cs) := by
  intro cs
  induction cs with
  | nil =>
    intro w done r w' tr _ h
    simp [selLoop, pure, Except.pure] at h; obtain ⟨_, _, _, rfl⟩ := h
    simp [yields_nil]
  | cons c cs ih =>
    intro w done r w' tr ht h
    simp only [selLoop, bind, Except.bind] at h
    cases htc : t w c with
    | error e => simp [htc] at h
    | ok v =>
      obtain ⟨c', w1, trc⟩ := v
      have hc' := ht w c c' w1 trc (by simp) htc
      simp only [htc] at h
      rw [postIdsL_cons]
      by_cases hst : c'.status = .running ∨ c'.status = .success
      · simp only [hst, ↓reduceIte, pure, Except.pure, Except.ok.injEq, Prod.mk.injEq] at h
        obtain ⟨_, _, _, rfl⟩ := h
        exact hc'.trans (List.sublist_append_left _ _)
      · simp only [hst, ↓reduceIte] at h
        cases hl : selLoop t w1 cs with
        | error e => simp [hl] at h
        | ok v2 =>
          obtain ⟨done2, r2, w2, tr2⟩ := v2
          simp only [hl, pure, Except.pure, Except.ok.injEq, Prod.mk.injEq] at h
          obtain ⟨_, _, _, rfl⟩ := h
          rw [yields_append]
          exact List.Sublist.append hc'
            (ih w1 done2 r2 w2 tr2 (fun w c c' w' tr hc => ht w c c' w' tr (by simp [hc])) hl)

theorem parLoop_post (t : Tick) (sync : Bool) :
    ∀ (cs : List Node) (w : Store) (cs' : List Node) (w' : Store) (tr : List Ev),
      (∀ w c c' w' tr, c ∈ cs → t w c = .ok (c', w', tr) → (yields tr).Sublist (postIds c)) →
      parLoop t sync w cs = .ok (cs', w', tr) → (yields tr).Sublist (postIdsL cs) := by
  intro cs
  induction cs with
  | nil =>
    intro w cs' w' tr _ h
    simp [parLoop, pure, Except.pure] at h; obtain ⟨_, _, rfl⟩ := h
    simp [yields_nil]
  | cons c cs ih =>
    intro w cs' w' tr ht h
    have ht' : ∀ w c c' w' tr, c ∈ cs → t w c = .ok (c', w', tr) → (yields tr).Sublist (postIds c) :=
      fun w c c' w' tr hc => ht w c c' w' tr (by simp [hc])
    simp only [parLoop, bind, Except.bind] at h
    rw [postIdsL_cons]
    split at h
    · cases hl : parLoop t sync w cs with
      | error e => simp [hl] at h
      | ok v2 =>
        obtain ⟨cs2, w2, tr2⟩ := v2
        simp only [hl, pure, Except.pure, Except.ok.injEq, Prod.mk.injEq] at h
        obtain ⟨_, _, rfl⟩ := h
        exact (ih w cs2 w2 tr2 ht' hl).trans (List.sublist_append_right _ _)
    · cases htc : t w c with
      | error e => simp [htc] at h
      | ok v =>
        obtain ⟨c', w1, trc⟩ := v
        have hc' := ht w c c' w1 trc (by simp) htc
        simp only [htc] at h
        cases hl : parLoop t sync w1 cs with
        | error e => simp [hl] at h
        | ok v2 =>
          obtain ⟨cs2, w2, tr2⟩ := v2
          simp only [hl, pure, Except.pure, Except.ok.injEq, Prod.mk.injEq] at h
          obtain ⟨_, _, rfl⟩ := h
          rw [yields_append]
          exact List.Sublist.append hc' (ih w1 cs2 w2 tr2 ht' hl)

theorem seqEntry_post (st : Status) (m : Bool) (cur : Option Nat) (cs before rest : List Node) (trR : List Ev)
    (h : seqEntry st m cur cs = .ok (before, rest, trR)) : (postIdsL rest).Sublist (postIdsL cs) := by
  unfold seqEntry at h
  split at h
  · simp only [pure, Except.pure, Except.ok.injEq, Prod.mk.injEq] at h
    obtain ⟨_, rfl, rfl⟩ := h
    rw [stopInvNonInvalid_postIds]; exact List.Sublist.refl _
  · split at h
    · cases cur with
      | none =>
        simp only [pure, Except.pure, Except.ok.injEq, Prod.mk.injEq] at h
        obtain ⟨_, rfl, rfl⟩ := h
        have e1 := (splitAtNonSuccess_spec cs).1
        have := postIdsL_append (splitAtNonSuccess cs).1 (splitAtNonSuccess cs).2
        rw [← e1] at this; rw [this]; exact List.sublist_append_right _ _
      | some c =>
        simp only at h
        split at h
        · rename_i a b hsp
          simp only [pure, Except.pure, Except.ok.injEq, Prod.mk.injEq] at h
          obtain ⟨_, rfl, rfl⟩ := h
          obtain ⟨e1, _, _⟩ := splitAtId_spec c cs _ _ hsp
          rw [e1, postIdsL_append]; exact List.sublist_append_right _ _
        · simp [throw, throwThe, MonadExceptOf.throw] at h
    · simp only [pure, Except.pure, Except.ok.injEq, Prod.mk.injEq] at h
      obtain ⟨_, rfl, rfl⟩ := h
      exact List.Sublist.refl _

theorem selEntry_post (st : Status) (m : Bool) (cur cur0 : Option Nat) (cs before rest : List Node) (trP : List Ev)
    (h : selEntry st m cur cs = .ok (cur0, before, rest, trP)) : (postIdsL rest).Sublist (postIdsL cs) := by
  unfold selEntry at h
  generalize (if st ≠ .running then cs.head?.map Node.id else cur) = c0 at h
  simp only at h
  split at h
  · cases c0 with
    | none =>
      simp only [pure, Except.pure, Except.ok.injEq, Prod.mk.injEq] at h
      obtain ⟨_, _, rfl, rfl⟩ := h
      exact List.Sublist.refl _
    | some c =>
      simp only at h
      split at h
      · rename_i a b hsp
        simp only [pure, Except.pure, Except.ok.injEq, Prod.mk.injEq] at h
        obtain ⟨_, _, rfl, rfl⟩ := h
        obtain ⟨e1, _, _⟩ := splitAtId_spec c cs _ _ hsp
        rw [e1, postIdsL_append]; exact List.sublist_append_right _ _
      · simp [throw, throwThe, MonadExceptOf.throw] at h
  · simp only [pure, Except.pure, Except.ok.injEq, Prod.mk.injEq] at h
    obtain ⟨_, _, rfl, rfl⟩ := h
    exact List.Sublist.refl _

theorem seqRun_post (t : Tick) (w : Store) (i : Nat) (m : Bool) (before rest : List Node)
    (trR : List Ev) (n' : Node) (w' : Store) (tr : List Ev)
    (ht : ∀ w c c' w' tr, c ∈ rest → t w c = .ok (c', w', tr) → (yields tr).Sublist (postIds c)) (hR : OnlyTerm trR)
    (h : seqRun t w i m before rest trR = .ok (n', w', tr)) : (yields tr).Sublist (postIdsL rest ++ [i]) := by
  simp only [seqRun, bind, Except.bind] at h
  cases hl : seqLoop t w rest with
  | error e => simp [hl] at h
  | ok v =>
    obtain ⟨done, r, w1, trl⟩ := v
    simp only [hl] at h
    have hP := seqLoop_post t rest w done r w1 trl ht hl
    cases r with
    | none =>
      simp only [pure, Except.pure, Except.ok.injEq, Prod.mk.injEq] at h
      obtain ⟨rfl, _, rfl⟩ := h
      simp only [yields_append, hR.quiet.yields_nil, yields_enter, yields_yld, List.nil_append, List.append_nil]
      exact List.Sublist.append hP (List.Sublist.refl _)
    | some p =>
      obtain ⟨c', untouched⟩ := p
      simp only [pure, Except.pure, Except.ok.injEq, Prod.mk.injEq] at h
      obtain ⟨rfl, _, rfl⟩ := h
      have hK : OnlyTerm (if m = true then (untouched, []) else stopInvNonInvalid untouched).2 := by
        split
        · exact OnlyTerm.nil
        · exact stopInvNonInvalid_onlyTerm untouched
      generalize (if m = true then (untouched, []) else stopInvNonInvalid untouched) = rr at hK
      simp only [yields_append, hR.quiet.yields_nil, hK.quiet.yields_nil, yields_enter, yields_yld, List.nil_append,
        List.append_nil]
      exact List.Sublist.append hP (List.Sublist.refl _)

theorem selRun_post (t : Tick) (w : Store) (i : Nat) (m : Bool) (cur0 : Option Nat)
    (before rest : List Node) (trP : List Ev) (n' : Node) (w' : Store) (tr : List Ev)
    (ht : ∀ w c c' w' tr, c ∈ rest → t w c = .ok (c', w', tr) → (yields tr).Sublist (postIds c)) (hR : OnlyTerm trP)
    (h : selRun t w i m cur0 before rest trP = .ok (n', w', tr)) : (yields tr).Sublist (postIdsL rest ++ [i]) := by
  simp only [selRun, bind, Except.bind] at h
  cases hl : selLoop t w rest with
  | error e => simp [hl] at h
  | ok v =>
    obtain ⟨failed, r, w1, trl⟩ := v
    simp only [hl] at h
    have hP := selLoop_post t rest w failed r w1 trl ht hl
    cases r with
    | none =>
      simp only [pure, Except.pure, Except.ok.injEq, Prod.mk.injEq] at h
      obtain ⟨rfl, _, rfl⟩ := h
      simp only [yields_append, hR.quiet.yields_nil, yields_enter, yields_yld, List.nil_append, List.append_nil]
      exact List.Sublist.append hP (List.Sublist.refl _)
    | some p =>
      obtain ⟨c', untouched⟩ := p
      simp only [pure, Except.pure, Except.ok.injEq, Prod.mk.injEq] at h
      obtain ⟨rfl, _, rfl⟩ := h
      have hK : OnlyTerm (if cur0 = some c'.id then (untouched, []) else stopInvNonInvalid untouched).2 := by
        split
        · exact OnlyTerm.nil
        · exact stopInvNonInvalid_onlyTerm untouched
      generalize (if cur0 = some c'.id then (untouched, []) else stopInvNonInvalid untouched) = rr at hK
      simp only [yields_append, hR.quiet.yields_nil, hK.quiet.yields_nil, yields_enter, yields_yld, List.nil_append,
        List.append_nil]
      exact List.Sublist.append hP (List.Sublist.refl _)

theorem parRun_post (t : Tick) (w : Store) (i : Nat) (p : Policy) (cs0 : List Node)
    (trR : List Ev) (n' : Node) (w' : Store) (tr : List Ev)
    (ht : ∀ w c c' w' tr, c ∈ cs0 → t w c = .ok (c', w', tr) → (yields tr).Sublist (postIds c)) (hR : OnlyTerm trR)
    (h : parRun t w i p cs0 trR = .ok (n', w', tr)) : (yields tr).Sublist (postIdsL cs0 ++ [i]) := by
  simp only [parRun, bind, Except.bind] at h
  cases hl : parLoop t p.sync w cs0 with
  | error e => simp [hl] at h
  | ok v =>
    obtain ⟨cs1, w1, trl⟩ := v
    simp only [hl] at h
    have hP := parLoop_post t p.sync cs0 w cs1 w1 trl ht hl
    split at h
    · simp only [pure, Except.pure, Except.ok.injEq, Prod.mk.injEq] at h
      obtain ⟨rfl, _, rfl⟩ := h
      simp only [yields_append, hR.quiet.yields_nil, (stopRunning_onlyTerm cs1).quiet.yields_nil, yields_enter,
        yields_yld, List.nil_append, List.append_nil]
      exact List.Sublist.append hP (List.Sublist.refl _)
    · simp only [pure, Except.pure, Except.ok.injEq, Prod.mk.injEq] at h
      obtain ⟨rfl, _, rfl⟩ := h
      simp only [yields_append, hR.quiet.yields_nil, yields_enter, yields_yld, List.nil_append, List.append_nil]
      exact List.Sublist.append hP (List.Sublist.refl _)

theorem decBounce_post (w : Store) (i : Nat) (k : DecKind) (s : Status) (c n' : Node) (w' : Store)
    (tr : List Ev) (h : decBounce w i k s c = .ok (n', w', tr)) : (yields tr).Sublist (postIds c ++ [i]) := by
  simp only [decBounce, pure, Except.pure, Except.ok.injEq, Prod.mk.injEq] at h
  obtain ⟨rfl, _, rfl⟩ := h
  have hK : OnlyTerm (if c.status = .running then stopInv c else (c, [])).2 := by
    split
    · exact stopInv_onlyTerm c
    · exact OnlyTerm.nil
  generalize (if c.status = .running then stopInv c else (c, [])) = rr at hK
  simp only [yields_append, hK.quiet.yields_nil, yields_enter, yields_yld, List.nil_append, List.append_nil]
  exact List.sublist_append_right _ _

theorem decRun_post (t : Tick) (e : Env) (w : Store) (i : Nat) (k : DecKind) (st : Status)
    (c n' : Node) (w' : Store) (tr : List Ev)
    (ht : ∀ w c' w' tr, t w c = .ok (c', w', tr) → (yields tr).Sublist (postIds c))
    (h : decRun t e w i k st c = .ok (n', w', tr)) : (yields tr).Sublist (postIds c ++ [i]) := by
  simp only [decRun, bind, Except.bind] at h
  cases htc : t w c with
  | error err => simp [htc] at h
  | ok v =>
    obtain ⟨c1, w1, trc⟩ := v
    have hc1 := ht w c1 w1 trc htc
    simp only [htc] at h
    generalize (if st ≠ .running then decInit e k else k) = k0 at h
    cases hp : decPublish k0 c1.status w1 with
    | error err => simp [hp] at h
    | ok w2 =>
      simp only [hp] at h
      have hC : OnlyTerm (if (decUpdate e k0 c1.status).2.2 = true then stopInv c1 else (c1, [])).2 := by
        split
        · exact stopInv_onlyTerm c1
        · exact OnlyTerm.nil
      generalize (if (decUpdate e k0 c1.status).2.2 = true then stopInv c1 else (c1, [])) = cc at h hC
      split at h
      · simp only [pure, Except.pure, Except.ok.injEq, Prod.mk.injEq] at h
        obtain ⟨rfl, _, rfl⟩ := h
        have hK : OnlyTerm (if (decUpdate e k0 c1.status).2.1 = .invalid ∨ cc.1.status = .running
            then stopInv cc.1 else (cc.1, [])).2 := by
          split
          · exact stopInv_onlyTerm cc.1
          · exact OnlyTerm.nil
        generalize (if (decUpdate e k0 c1.status).2.1 = .invalid ∨ cc.1.status = .running
            then stopInv cc.1 else (cc.1, [])) = rr at hK
        simp only [yields_append, hC.quiet.yields_nil, hK.quiet.yields_nil, yields_enter, yields_yld, List.nil_append,
          List.append_nil]
        exact List.Sublist.append hc1 (List.Sublist.refl _)
      · simp only [pure, Except.pure, Except.ok.injEq, Prod.mk.injEq] at h
        obtain ⟨rfl, _, rfl⟩ := h
        simp only [yields_append, hC.quiet.yields_nil, yields_enter, yields_yld, List.nil_append, List.append_nil]
        exact List.Sublist.append hc1 (List.Sublist.refl _)

theorem leafTick_post (e : Env) (w : Store) (i : Nat) (st : Status) (k : LeafKind) (log : List LEv)
    (n' : Node) (w' : Store) (tr : List Ev) (h : leafTick e w i st k log = .ok (n', w', tr)) : yields tr = [i] := by
  obtain ⟨_, mid, rfl, hin⟩ := leafTick_shape e w i st k log [] n' w' tr h
  have hq : Quiet mid := by
    intro ev hev
    cases hq : evQuiet ev with
    | true => rfl
    | false => exact absurd (hin.2 ev hev hq) (by simp)
  simp only [yields_append, hq.yields_nil, yields_enter, yields_yld, List.nil_append]

/-- the yields of a tick are a subsequence of the post-order ids of the tree -/
theorem tickF_post (e : Env) : ∀ (f : Nat) (w : Store) (n n' : Node) (w' : Store) (tr : List Ev),
    tickF f e w n = .ok (n', w', tr) → (yields tr).Sublist (postIds n) := by
  intro f
  induction f with
  | zero => intro w n n' w' tr h; simp [tickF] at h
  | succ f ih =>
    have ht : ∀ (cs : List Node) w c c' w' tr, c ∈ cs → tickF f e w c = .ok (c', w', tr) →
        (yields tr).Sublist (postIds c) := fun _ w c c' w' tr _ h => ih w c c' w' tr h
    intro w n n' w' tr h
    cases n with
    | leaf i st k log =>
      simp only [tickF] at h
      rw [leafTick_post e w i st k log n' w' tr h, postIds_leaf]; exact List.Sublist.refl _
    | seq i m st cur cs =>
      simp only [tickF, bind, Except.bind] at h
      rw [postIds_seq]
      cases hen : seqEntry st m cur cs with
      | error err => simp [hen] at h
      | ok v =>
        obtain ⟨before, rest, trR⟩ := v
        simp only [hen] at h
        obtain ⟨_, s2⟩ := seqEntry_ids st m cur cs before rest trR hen
        have s3 := seqEntry_post st m cur cs before rest trR hen
        split at h
        · simp only [pure, Except.pure, Except.ok.injEq, Prod.mk.injEq] at h
          obtain ⟨rfl, _, rfl⟩ := h
          simp only [yields_append, s2.quiet.yields_nil, yields_enter, yields_yld, List.nil_append, List.append_nil]
          exact List.sublist_append_right _ _
        · exact (seqRun_post (tickF f e) w i m before rest trR n' w' tr (ht rest) s2 h).trans
            (List.Sublist.append s3 (List.Sublist.refl _))
    | sel i m st cur cs =>
      simp only [tickF, bind, Except.bind] at h
      rw [postIds_sel]
      split at h
      · simp only [pure, Except.pure, Except.ok.injEq, Prod.mk.injEq] at h
        obtain ⟨rfl, _, rfl⟩ := h
        have : yields [Ev.enter i, Ev.yld i .failure] = [i] := rfl
        rw [this]; exact List.sublist_append_right _ _
      · cases hen : selEntry st m cur cs with
        | error err => simp [hen] at h
        | ok v =>
          obtain ⟨cur0, before, rest, trP⟩ := v
          simp only [hen] at h
          obtain ⟨_, s2⟩ := selEntry_ids st m cur cur0 cs before rest trP hen
          have s3 := selEntry_post st m cur cur0 cs before rest trP hen
          exact (selRun_post (tickF f e) w i m cur0 before rest trP n' w' tr (ht rest) s2 h).trans
            (List.Sublist.append s3 (List.Sublist.refl _))
    | par i p st cur cs =>
      simp only [tickF, bind, Except.bind] at h
      rw [postIds_par]
      split at h
      · simp [throw, throwThe, MonadExceptOf.throw] at h
      · have h0 : postIdsL (if st ≠ .running then stopInvNonInvalid cs else (cs, [])).1 = postIdsL cs ∧
            OnlyTerm (if st ≠ .running then stopInvNonInvalid cs else (cs, [])).2 := by
          split
          · exact ⟨stopInvNonInvalid_postIds cs, stopInvNonInvalid_onlyTerm cs⟩
          · exact ⟨rfl, OnlyTerm.nil⟩
        generalize (if st ≠ .running then stopInvNonInvalid cs else (cs, [])) = r0 at h h0
        simp only [pure, Except.pure] at h
        split at h
        · simp only [Except.ok.injEq, Prod.mk.injEq] at h
          obtain ⟨rfl, _, rfl⟩ := h
          simp only [yields_append, h0.2.quiet.yields_nil, yields_enter, yields_yld, List.nil_append, List.append_nil]
          exact List.sublist_append_right _ _
        · rw [← h0.1]
          exact parRun_post (tickF f e) w i p r0.1 r0.2 n' w' tr (ht r0.1) h0.2 h
    | dec i k st c =>
      have hd : ∀ w c' w' tr, tickF f e w c = .ok (c', w', tr) → (yields tr).Sublist (postIds c) :=
        fun w c' w' tr h => ih w c c' w' tr h
      simp only [tickF] at h
      rw [postIds_dec]
      split at h
      · split at h
        · exact decRun_post (tickF f e) e w i _ st c n' w' tr hd h
        · exact decBounce_post w i _ .failure c n' w' tr h
      · exact decBounce_post w i _ _ c n' w' tr h
      · exact decRun_post (tickF f e) e w i _ st c n' w' tr hd h

end C12

/-- **C12 (post-order)**: the behaviours yielded by a tick, in the order they are yielded, form a subsequence of the
    post-order (`iterate`) of the tree: children before their parent, the root last, each behaviour at most once. -/
theorem C12_yields_postorder (f : Nat) (e : Env) (w w' : Store) (n n' : Node) (tr : List Ev)
    (h : tickF f e w n = .ok (n', w', tr)) : (yields tr).Sublist ((iterate n).map Node.id) :=
  C12.tickF_post e f w n n' w' tr h

/-- **C12 (each once)**: in a tree with pairwise distinct ids every behaviour is yielded (hence, by
    `C12_enters_eq_yields`, ticked) at most once per tick. -/
theorem C12_yields_nodup (f : Nat) (e : Env) (w w' : Store) (n n' : Node) (tr : List Ev)
    (hd : ((nodes n).map Node.id).Nodup) (h : tickF f e w n = .ok (n', w', tr)) :
    (yields tr).Nodup ∧ (enters tr).Nodup := by
  have h1 : ((iterate n).map Node.id).Nodup := ((C12_iterate_all_once n).map Node.id).nodup_iff.mpr hd
  have h2 : (yields tr).Nodup := (C12_yields_postorder f e w w' n n' tr h).nodup h1
  exact ⟨h2, (C12_enters_eq_yields f e w w' n n' tr h).nodup_iff.mpr h2⟩

/-- **C12 (snapshot of a tick)**: after one `BehaviourTree.tick` of a tree with pairwise distinct ids the snapshot
    visitor's record is the id-to-status map of exactly the behaviours yielded this tick, its previous record is the
    record before the tick, and `changed` is set exactly when the two maps differ. -/
theorem C12_tick_snapshot (m m' : Mgr) (oncePre oncePost : Bool) (e : Env) (w w' : Store) (n n' : Node)
    (log : List MEv) (tr : List Ev) (hd : ((nodes n).map Node.id).Nodup)
    (h : m.treeTick oncePre oncePost e w n = .ok (m', n', w', log, tr)) :
    m'.snap.previously = m.snap.visited ∧
    toMap m'.snap.visited = toMap (Mgr.ylds tr) ∧
    ((m.snap.visited.map (·.1)).Nodup →
      (m'.snap.changed = true ↔ ¬ (∀ i, Mgr.lookup i (Mgr.ylds tr) = Mgr.lookup i m.snap.visited))) := by
  obtain ⟨ht, _, hs, _⟩ := C12_order m m' oncePre oncePost e w w' n n' log tr h
  have hy : ((Mgr.ylds tr).map (·.1)).Nodup := (C12_yields_nodup _ e w w' n n' tr hd ht).1
  rw [hs]
  exact ⟨(C12_snapshot_record _ _).1, C12_snapshot_toMap _ _ hy, fun hp => C12_snapshot_changed _ _ hy hp⟩

namespace C12
open Mgr

theorem mem_assign_keys (i : Nat) (s : Status) (k : Nat) : ∀ l : List (Nat × Status),
    k ∈ (assign i s l).map (·.1) ↔ k = i ∨ k ∈ l.map (·.1)
| [] => by simp [assign]
| (j, t) :: l => by
    simp only [assign]
    by_cases h : j = i
    · subst h; simp
    · simp only [h, ↓reduceIte, List.map_cons, List.mem_cons, mem_assign_keys i s k l]
      constructor
      · rintro (h1 | h1 | h1)
        · exact Or.inr (Or.inl h1)
        · exact Or.inl h1
        · exact Or.inr (Or.inr h1)
      · rintro (h1 | h1 | h1)
        · exact Or.inr (Or.inl h1)
        · exact Or.inl h1
        · exact Or.inr (Or.inr h1)

theorem assign_keys_nodup (i : Nat) (s : Status) : ∀ l : List (Nat × Status),
    (l.map (·.1)).Nodup → ((assign i s l).map (·.1)).Nodup
| [], _ => by simp [assign]
| (j, t) :: l, h => by
    simp only [List.map_cons, List.nodup_cons] at h
    simp only [assign]
    by_cases hj : j = i
    · simp only [hj, ↓reduceIte, List.map_cons, List.nodup_cons]; rw [← hj]; exact h
    · simp only [hj, ↓reduceIte, List.map_cons, List.nodup_cons]
      refine ⟨?_, assign_keys_nodup i s l h.2⟩
      intro hm
      rcases (mem_assign_keys i s j l).mp hm with h1 | h1
      · exact hj h1
      · exact h.1 h1

theorem snapRun_nodup (prev : List (Nat × Status)) : ∀ (ys : List (Nat × Status)) (sn : Snap),
    (sn.visited.map (·.1)).Nodup → ((snapRun prev ys sn).visited.map (·.1)).Nodup
| [], sn, h => by simpa [snapRun] using h
| (j, s) :: ys, sn, h => by
    simp only [snapRun]
    exact snapRun_nodup prev ys _ (assign_keys_nodup j s sn.visited h)

end C12

/-- the snapshot visitor's record never holds an id twice (so the `Nodup` hypothesis of `C12_snapshot_changed` on the
    previous record holds along every history of ticks) -/
theorem C12_snapshot_nodup (sn : Snap) (ys : List (Nat × Status)) :
    ((Mgr.snapTick sn ys).visited.map (·.1)).Nodup := by
  simp only [Mgr.snapTick]
  exact C12.snapRun_nodup sn.visited ys _ (by simp)
