import PyTreesModel.Names

/-!
  C15 — key-name algebra of the blackboard (`Blackboard.absolute_name`, `Blackboard.relative_name`,
  the namespace normalisation of `Client.__init__`).

  For well-formed names, building an absolute name is idempotent, returns absolute keys unchanged and places
  relative keys inside the given namespace (with or without a trailing separator on the namespace); taking the
  relative name is its inverse within that namespace and raises KeyError (`none`) for keys that lie outside it.
  Consequently two clients address the same storage location exactly when their keys have the same absolute
  name, and keys in different namespaces never collide.
-/

open Names

/-- a namespace as produced by `Client.__init__`: it starts with the separator -/
def WFNs (ns : List Char) : Prop := ns.head? = some sep

/-- well-formed relative key: non-empty, no leading or trailing separator -/
def WFRel (k : List Char) : Prop := k ≠ [] ∧ k.head? ≠ some sep ∧ k.getLast? ≠ some sep

instance (ns : List Char) : Decidable (WFNs ns) := by unfold WFNs; infer_instance
instance (k : List Char) : Decidable (WFRel k) := by unfold WFRel; infer_instance

namespace Names

theorem stripL_of_head {k : List Char} (h : k.head? ≠ some sep) : stripL k = k := by
  cases k with
  | nil => rfl
  | cons a t =>
    have : a ≠ sep := by simpa using h
    have hb : (a == sep) = false := by simpa using this
    simp [stripL, List.dropWhile, hb]

theorem stripR_of_last {k : List Char} (h : k.getLast? ≠ some sep) : stripR k = k := by
  unfold stripR
  have : k.reverse.head? ≠ some sep := by simpa using h
  have := stripL_of_head this
  unfold stripL at this
  rw [this]; simp

theorem strip_wf {k : List Char} (h : WFRel k) : strip k = k := by
  unfold strip; rw [stripL_of_head h.2.1, stripR_of_last h.2.2]

theorem norm_ne_nil (ns : List Char) : norm ns ≠ [] := by
  unfold norm; split
  · rename_i h; intro e; simp [e] at h
  · simp

theorem norm_head {ns : List Char} (h : WFNs ns) : (norm ns).head? = some sep := by
  unfold norm; split
  · exact h
  · cases ns with
    | nil => simp [WFNs] at h
    | cons a t => simpa [WFNs] using h

/-- the normalised namespace always ends with the separator -/
theorem norm_eq_snoc (ns : List Char) : ∃ a, norm ns = a ++ [sep] := by
  unfold norm; split
  · rename_i h
    rw [List.getLast?_eq_some_iff] at h
    exact h
  · exact ⟨ns, rfl⟩

theorem norm_norm (ns : List Char) : norm (norm ns) = norm ns := by
  unfold norm; split
  · rfl
  · simp

theorem abs_head {ns k : List Char} (hn : WFNs ns) : (absName ns k).head? = some sep := by
  unfold absName; split
  · assumption
  · have := norm_head hn
    have hne := norm_ne_nil ns
    cases hnn : norm ns with
    | nil => exact absurd hnn hne
    | cons a t => rw [hnn] at this; simpa using this

/-- splitting at the last separator is unique (stated on the reversed strings) -/
theorem split_unique : ∀ (x y a b : List Char), sep ∉ x → sep ∉ y →
    x ++ sep :: a = y ++ sep :: b → x = y ∧ a = b
  | [], [], a, b, _, _, h => by simpa using h
  | [], c :: y, a, b, _, hy, h => by
      simp only [List.nil_append, List.cons_append, List.cons.injEq] at h
      exact absurd (by simp [h.1]) hy
  | c :: x, [], a, b, hx, _, h => by
      simp only [List.nil_append, List.cons_append, List.cons.injEq] at h
      exact absurd (by simp [h.1]) hx
  | c :: x, d :: y, a, b, hx, hy, h => by
      simp only [List.cons_append, List.cons.injEq] at h
      have hx' : sep ∉ x := fun m => hx (List.mem_cons_of_mem _ m)
      have hy' : sep ∉ y := fun m => hy (List.mem_cons_of_mem _ m)
      obtain ⟨e1, e2⟩ := split_unique x y a b hx' hy' h.2
      exact ⟨by rw [h.1, e1], e2⟩

/-- `a/x = b/y` with separator-free `x`, `y` forces `a = b` and `x = y` -/
theorem split_last_unique (a b x y : List Char) (hx : sep ∉ x) (hy : sep ∉ y)
    (h : a ++ [sep] ++ x = b ++ [sep] ++ y) : a = b ∧ x = y := by
  have h' := congrArg List.reverse h
  simp only [List.reverse_append, List.reverse_cons, List.append_assoc,
    List.singleton_append] at h'
  have := split_unique x.reverse y.reverse a.reverse b.reverse (by simpa using hx) (by simpa using hy) h'
  exact ⟨List.reverse_inj.mp this.2, List.reverse_inj.mp this.1⟩

end Names

/-! ### absolute_name -/

/-- absolute keys are returned unchanged -/
theorem C15_abs_absolute (ns k : List Char) (h : k.head? = some sep) : absName ns k = k := by
  simp [absName, h]

/-- relative keys are placed inside the namespace -/
theorem C15_abs_place (ns k : List Char) (h : WFRel k) : absName ns k = norm ns ++ k := by
  simp [absName, h.2.1, strip_wf h]

/-- building an absolute name is idempotent -/
theorem C15_abs_idem (ns k : List Char) (hn : WFNs ns) : absName ns (absName ns k) = absName ns k :=
  C15_abs_absolute ns _ (abs_head hn)

/-- a trailing separator on the namespace makes no difference -/
theorem C15_abs_trailing (ns k : List Char) : absName (norm ns) k = absName ns k := by
  simp [absName, norm_norm]

/-! ### relative_name -/

/-- relative_name inverts absolute_name within the namespace -/
theorem C15_rel_inverse (ns k : List Char) (hn : WFNs ns) (h : WFRel k) :
    relName ns (absName ns k) = some k := by
  have hh : (absName ns k).head? = some sep := abs_head hn
  rw [C15_abs_place ns k h] at hh ⊢
  unfold relName
  simp [hh]

/-- whenever relative_name succeeds on an absolute key, re-absolutising gives the key back -/
theorem C15_rel_abs (ns k r : List Char) (hk : k.head? = some sep) (h : relName ns k = some r) :
    norm ns ++ r = k := by
  unfold relName at h
  simp only [hk, ne_eq, not_true_eq_false, if_false] at h
  split at h
  · rename_i hp
    rw [List.isPrefixOf_iff_prefix] at hp
    obtain ⟨t, rfl⟩ := hp
    simp only [Option.some.injEq] at h
    rw [← h]; simp
  · simp at h

/-- relative keys are returned unchanged -/
theorem C15_rel_relative (ns k : List Char) (h : k.head? ≠ some sep) : relName ns k = some k := by
  simp [relName, h]

/-- KeyError for absolute keys outside the namespace -/
theorem C15_rel_outside (ns k : List Char) (hk : k.head? = some sep)
    (hout : (norm ns).isPrefixOf k = false) : relName ns k = none := by
  simp [relName, hk, hout]

/-- the `/foo` vs `/food/bar` instance: a string prefix that is not a namespace prefix -/
example : relName "/foo".toList "/food/bar".toList = none := by decide

/-! ### storage locations -/

/-- two clients address the same storage location exactly when namespace and key agree:
    keys in different namespaces never collide -/
theorem C15_same_location (ns₁ ns₂ k₁ k₂ : List Char) (h₁ : WFRel k₁) (h₂ : WFRel k₂)
    (s₁ : sep ∉ k₁) (s₂ : sep ∉ k₂) :
    absName ns₁ k₁ = absName ns₂ k₂ ↔ (norm ns₁ = norm ns₂ ∧ k₁ = k₂) := by
  rw [C15_abs_place ns₁ k₁ h₁, C15_abs_place ns₂ k₂ h₂]
  constructor
  · intro h
    obtain ⟨a, ha⟩ := norm_eq_snoc ns₁
    obtain ⟨b, hb⟩ := norm_eq_snoc ns₂
    rw [ha, hb] at h ⊢
    obtain ⟨e1, e2⟩ := split_last_unique a b k₁ k₂ s₁ s₂ h
    exact ⟨by rw [e1], e2⟩
  · rintro ⟨e1, e2⟩
    rw [e1, e2]

/-- `Client.__init__` always yields a namespace starting with the separator -/
theorem C15_client_ns (ns : List Char) : WFNs (clientNs ns) := by
  unfold clientNs WFNs; split
  · assumption
  · rfl

/-! ### namespace closure -/

namespace Names

theorem rsplitHead_prefix (l : List Char) : rsplitHead l <+: l := by
  unfold rsplitHead; split
  · have h1 : (l.reverse.dropWhile (· != sep)).tail <:+ l.reverse :=
      (List.tail_suffix _).trans (List.dropWhile_suffix _)
    have := List.reverse_prefix.mpr h1
    simpa using this
  · exact List.prefix_refl l

theorem rsplitHead_length (l : List Char) (h : rsplitHead l ≠ l) : (rsplitHead l).length < l.length := by
  have hp := rsplitHead_prefix l
  have hle := hp.length_le
  rcases Nat.lt_or_ge (rsplitHead l).length l.length with hlt | hge
  · exact hlt
  · exact absurd (hp.eq_of_length (Nat.le_antisymm hle hge)) h

theorem nsClosureF_prefix : ∀ (f : Nat) (key n : List Char), n ∈ nsClosureF f key →
    n <+: key ∧ n.length < key.length
  | 0, _, _, h => by simp [nsClosureF] at h
  | f+1, key, n, h => by
      simp only [nsClosureF] at h
      split at h
      · simp at h
      · rename_i hc
        simp only [Bool.or_eq_true, beq_iff_eq, not_or] at hc
        have hp := rsplitHead_prefix key
        have hl := rsplitHead_length key hc.2
        rcases List.mem_cons.mp h with rfl | h'
        · exact ⟨hp, hl⟩
        · obtain ⟨p2, l2⟩ := nsClosureF_prefix f _ n h'
          exact ⟨p2.trans hp, Nat.lt_trans l2 hl⟩

end Names

/-- every namespace added for a key by `_update_namespaces` is a proper prefix of the key -/
theorem C15_ns_closure_prefix (key : List Char) :
    ∀ n ∈ nsClosure key, n.isPrefixOf key = true ∧ n.length < key.length := by
  intro n h
  obtain ⟨p, l⟩ := nsClosureF_prefix _ _ _ h
  exact ⟨List.isPrefixOf_iff_prefix.mpr p, l⟩

/-! ### the hypotheses are satisfiable -/

example : WFRel "bar".toList := by decide
example : WFNs "/foo".toList := by decide
example : WFNs (clientNs "foo".toList) := by decide
example : absName "/foo".toList "bar".toList = "/foo/bar".toList := by decide
example : absName "/foo/".toList "bar".toList = "/foo/bar".toList := by decide
example : absName "/foo".toList "/bar".toList = "/bar".toList := by decide
example : relName "/foo".toList "/foo/bar".toList = some "bar".toList := by decide
example : relName "/foo/".toList "/foo/bar".toList = some "bar".toList := by decide
example : relName "/foo".toList "/bar".toList = none := by decide
example : sep ∉ "bar".toList := by decide
example : nsClosure "/foo/bar/baz".toList = ["/foo/bar".toList, "/foo".toList] := by decide

