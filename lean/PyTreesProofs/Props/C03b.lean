/-
  C03b — Sequence, over whole histories: "children skipped thanks to memory are not re-ticked and keep their SUCCESS".

  `Lemmas/Prefix.lean` proves that `prefixOK` is an invariant of every history (fresh tree; ticks with arbitrary
  well-behaved environments, root interrupts, blackboard pokes).  Here its Sequence clause is read off in plain
  terms, and combined with the per-tick theorems of `Props/C03.lean`:

   * `C03_reachable_prefix`: in every reachable state, every RUNNING sequence (with or without memory, anywhere in
     the tree) that remembers child c has that child, every child before it is SUCCESS and every child after it is
     INVALID.
   * `C03_memory_skipped_not_reticked`: in every reachable state of a tree whose behaviours have pairwise distinct
     ids, one more tick (any fuel, environment, blackboard) of a RUNNING memory sequence remembering c leaves the
     children before c literally untouched (they are a prefix of the new children — still SUCCESS) and enters
     neither them nor any behaviour below them.
-/
import PyTreesProofs.Lemmas.Prefix
import PyTreesProofs.Props.C03
set_option linter.unusedVariables false
set_option linter.unusedSimpArgs false
open Node

/-- **in every reachable state, the siblings of the remembered child of a RUNNING sequence**: the remembered child
    exists; on every decomposition of the children at it, the children before it are SUCCESS and the children after
    it are INVALID. -/
theorem C03_reachable_prefix (ops : List Op) (n n' : Node) (w' : Store) (hf : isFresh n = true)
    (hops : ∀ op ∈ ops, ValidOp op) (h : run ops n Store.empty = .ok (n', w')) :
    ∀ i m c cs, seq i m .running (some c) cs ∈ nodes n' →
      (∃ pre x post, cs = pre ++ x :: post ∧ x.id = c) ∧
      ∀ pre x post, cs = pre ++ x :: post → x.id = c →
        (∀ y ∈ pre, y.status = .success) ∧ (∀ y ∈ post, y.status = .invalid) := by
  intro i m c cs hm
  have hg := (reachable_good ops n n' w' hf hops h).1
  have hp := prefixOK_of_mem_nodes n' _ (reachable_prefixOK ops n n' w' hf hops h) hm
  have hwm := wf_of_mem_nodes n' _ hg.1 hm
  simp only [wf, Bool.and_eq_true, decide_eq_true_eq] at hwm
  obtain ⟨⟨⟨⟨⟨hwl, _⟩, hoc⟩, hnd⟩, _⟩, hcur⟩ := hwm
  constructor
  · rw [curOK_iff] at hcur
    obtain ⟨x, hx, hxc, _⟩ := hcur c rfl
    obtain ⟨pre, post, e⟩ := List.append_of_mem hx
    exact ⟨pre, x, post, e, hxc⟩
  · intro pre x post e hxc
    subst e
    have hne : ∀ y ∈ pre, y.id ≠ c := ids_ne_of_nodup hxc hnd
    simp only [prefixOK, seqOK, Bool.and_eq_true, bne_self_eq_false, Bool.false_or] at hp
    exact (seqPre_append c x post hxc pre hne).mp hp.1

/-- **children skipped thanks to memory are not re-ticked and keep their SUCCESS**, in every reachable state of a tree
    whose behaviours have pairwise distinct ids: take one more tick — any fuel, environment and blackboard — of a
    RUNNING memory sequence that remembers child c.  The remembered child exists, and on every decomposition
    `cs = pre ++ x :: post` of the children at it:
     * the children `pre` before c are SUCCESS, and reappear, literally unchanged, as a prefix of the children after
       the tick (so they are still SUCCESS, and received no callback);
     * the trace contains no `enter` event for a child in `pre` nor for any behaviour below such a child. -/
theorem C03_memory_skipped_not_reticked (ops : List Op) (n n' : Node) (w' : Store) (hf : isFresh n = true)
    (hu : ((nodes n).map Node.id).Nodup) (hops : ∀ op ∈ ops, ValidOp op)
    (h : run ops n Store.empty = .ok (n', w'))
    (i c : Nat) (cs : List Node) (hm : seq i true .running (some c) cs ∈ nodes n')
    (f : Nat) (e : Env) (w : Store) (n2 : Node) (w2 : Store) (tr : List Ev)
    (ht : tickF f e w (seq i true .running (some c) cs) = .ok (n2, w2, tr)) :
    (∃ pre x post, cs = pre ++ x :: post ∧ x.id = c) ∧
    ∀ pre x post, cs = pre ++ x :: post → x.id = c →
      (∀ y ∈ pre, y.status = .success) ∧ (∃ l, n2.children = pre ++ l) ∧
      (∀ y ∈ pre, ∀ z ∈ nodes y, Ev.enter z.id ∉ tr) := by
  obtain ⟨hex, hall⟩ := C03_reachable_prefix ops n n' w' hf hops h i true c cs hm
  refine ⟨hex, ?_⟩
  intro pre x post e1 hxc
  have hsucc := (hall pre x post e1 hxc).1
  cases f with
  | zero => simp [tickF] at ht
  | succ f =>
    have hg := (reachable_good ops n n' w' hf hops h).1
    have hwm := wf_of_mem_nodes n' _ hg.1 hm
    simp only [wf, Bool.and_eq_true, decide_eq_true_eq] at hwm
    have hnds : (cs.map Node.id).Nodup := hwm.1.1.2
    rw [e1] at hnds
    have hne := ids_ne_of_nodup hxc hnds
    have hsp : splitAtId c cs = some (pre, x :: post) := by
      rw [e1]; exact splitAtId_append_cons c x post hxc pre hne
    have he : seqEntry .running true (some c) cs = .ok (pre, x :: post, []) := by
      simp [seqEntry, hsp, pure, Except.pure]
    obtain ⟨done, r, trL, l, _, hch, _⟩ := C03_memory_skip_kept f e w i c cs pre (x :: post) [] n2 w2 tr he ht
    -- distinct ids below this sequence
    have hnd : ((nodes (seq i true .running (some c) cs)).map Node.id).Nodup :=
      Prefix.ids_nodup_of_mem_nodes (by rw [run_nodes_ids ops n Store.empty n' w' h]; exact hu) hm
    simp only [nodes, List.map_cons, Node.id] at hnd
    rw [e1] at hnd
    have hE := Prefix.seqResume_enters f e w i c cs pre (x :: post) n2 w2 tr hsp ht
    exact ⟨hsucc, ⟨l, hch⟩, Prefix.not_enter_before i pre (x :: post) tr hE hnd⟩

/-! ### non-vacuity: a memory sequence of three probes RUNNING at the second -/

/-- one tick: probe 2 succeeds, probe 3 is RUNNING -/
def C03b_ops : List Op := [.tick (Prefix.env3 .success .running .failure)]

/-- the state reached by `C03b_ops` from the fresh `Prefix.seqMem` -/
def C03b_reached : Node :=
  .seq 1 true .running (some 3)
    [.leaf 2 .success .probe [.init, .upd .success, .term .success], .leaf 3 .running .probe [.init, .upd .running],
     .leaf 4 .invalid .probe []]

theorem C03b_ops_valid : ∀ op ∈ C03b_ops, ValidOp op := by
  intro op hop; simp only [C03b_ops, List.mem_singleton] at hop; subst hop
  exact Prefix.env3_valid _ _ _ (by decide) (by decide) (by decide)

example : isFresh Prefix.seqMem = true := by decide
example : ((nodes Prefix.seqMem).map Node.id).Nodup := by decide
theorem C03b_run : run C03b_ops Prefix.seqMem Store.empty = .ok (C03b_reached, Store.empty) := by rfl
example : C03b_reached ∈ nodes C03b_reached := self_mem_nodes _
-- the statuses in the reached state, as `C03_reachable_prefix` says: S, R, I
example : Prefix.view C03b_reached = [(1, .running), (2, .success), (3, .running), (4, .invalid)] := by decide
-- one more tick exists; probe 2 would now FAIL, but it is not entered and keeps its SUCCESS
example : (tick (Prefix.env3 .failure .success .running) Store.empty C03b_reached).toOption.map
    (fun r => (Prefix.view r.1, r.2.2)) =
    some ([(1, .running), (2, .success), (3, .success), (4, .running)],
      [.enter 1, .enter 3, .upd 3 .success, .term 3 .success, .yld 3 .success,
       .enter 4, .init 4, .upd 4 .running, .yld 4 .running, .yld 1 .running]) := by decide
-- the two theorems applied to this history
example : ∀ y ∈ [Node.leaf 2 .success .probe [.init, .upd .success, .term .success]], y.status = .success :=
  ((C03_reachable_prefix C03b_ops Prefix.seqMem C03b_reached Store.empty (by decide) C03b_ops_valid C03b_run
    1 true 3 _ (self_mem_nodes _)).2 _ (.leaf 3 .running .probe [.init, .upd .running]) [.leaf 4 .invalid .probe []]
    rfl rfl).1
example (f : Nat) (e : Env) (w : Store) (n2 : Node) (w2 : Store) (tr : List Ev)
    (ht : tickF f e w C03b_reached = .ok (n2, w2, tr)) : Ev.enter 2 ∉ tr :=
  ((C03_memory_skipped_not_reticked C03b_ops Prefix.seqMem C03b_reached Store.empty (by decide) (by decide)
    C03b_ops_valid C03b_run 1 3 _ (self_mem_nodes _) f e w n2 w2 tr ht).2
    [.leaf 2 .success .probe [.init, .upd .success, .term .success]] (.leaf 3 .running .probe [.init, .upd .running])
    [.leaf 4 .invalid .probe []] rfl rfl).2.2 (.leaf 2 .success .probe [.init, .upd .success, .term .success])
    (by simp) _ (self_mem_nodes _)
