import PyTreesProofs.Props.C06

/-
  C06b — the remaining clause of C06/C15: namespaced dotted access (`client.a.b.key`, modelled by
  `BB.dotGet` / `BB.dotSet`) addresses the same data as `get` / `set` of the absolute name, and the namespace
  cache that enables it is exactly the old cache plus the namespace closure of every registered key.
-/

/-! ### helper lemmas -/

namespace Names

theorem head?_norm (ns : List Char) (h : ns = [] ∨ ns.head? = some sep) : (norm ns).head? = some sep := by
  unfold norm
  rcases h with h | h
  · subst h; simp
  · split
    · exact h
    · cases ns with
      | nil => simp at h
      | cons x xs => simpa using h

/-- an absolute name is produced whenever the namespace is empty or itself absolute -/
theorem head?_absName (ns key : List Char) (h : ns = [] ∨ ns.head? = some sep) :
    (absName ns key).head? = some sep := by
  unfold absName
  split
  · assumption
  · rw [List.head?_append, head?_norm ns h]; rfl

theorem absName_of_abs (ns key : List Char) (h : key.head? = some sep) : absName ns key = key := by
  simp [absName, h]

end Names

/-- a name is absolute when it starts with the separator -/
def IsAbsS (n : String) : Prop := n.toList.head? = some Names.sep

instance (n : String) : Decidable (IsAbsS n) := inferInstanceAs (Decidable (_ = _))

theorem absNameS_of_abs (ns name : String) (h : IsAbsS name) : absNameS ns name = name := by
  unfold absNameS
  rw [Names.absName_of_abs _ _ h, String.ofList_toList]

theorem isAbsS_absNameS (ns name : String) (h : IsAbsS ns) : IsAbsS (absNameS ns name) := by
  unfold IsAbsS absNameS
  rw [String.toList_ofList]
  exact Names.head?_absName _ _ (Or.inr h)

/-- absolute names are fixed points of `absNameS` -/
theorem absNameS_idem (ns' ns name : String) (h : IsAbsS ns) :
    absNameS ns' (absNameS ns name) = absNameS ns name :=
  absNameS_of_abs _ _ (isAbsS_absNameS ns name h)

namespace SetL

theorem mem_add {α : Type} [DecidableEq α] (x y : α) (s : List α) : y ∈ SetL.add x s ↔ y ∈ s ∨ y = x := by
  unfold SetL.add
  split
  · next h => constructor
              · exact Or.inl
              · rintro (h' | h')
                · exact h'
                · subst h'; exact h
  · simp

/-- `for n in added: s.add(n)`: membership = old ∪ added -/
theorem mem_foldl_add {α : Type} [DecidableEq α] (added : List α) (s : List α) (y : α) :
    y ∈ added.foldl (fun acc n => SetL.add n acc) s ↔ y ∈ s ∨ y ∈ added := by
  induction added generalizing s with
  | nil => simp
  | cons x xs ih =>
    simp only [List.foldl_cons, ih, mem_add, List.mem_cons]
    constructor
    · rintro ((h | h) | h)
      · exact Or.inl h
      · exact Or.inr (Or.inl h)
      · exact Or.inr (Or.inr h)
    · rintro (h | h | h)
      · exact Or.inl (Or.inl h)
      · exact Or.inl (Or.inr h)
      · exact Or.inr h

end SetL

namespace BB

theorem dotFetch_one (s : BB) (c : Nat) (ns k : String) :
    dotGet.dotFetch s c ns [k] = s.get c (absNameS ns k) := by
  simp only [dotGet.dotFetch]
  generalize s.get c (absNameS ns k) = r
  obtain ⟨s1, res⟩ := r
  cases res <;> rfl

end BB

/-! ### 1, 2: a namespace that is not a readable key yields a fetcher, without a record or a state change -/

theorem C06_getattr_fetcher (s : BB) (c : Nat) (cl : Client) (name : String)
    (h : s.client? c = some cl)
    (hrd : BB.canRead cl (absNameS cl.ns name) = false)
    (hns : absNameS cl.ns name ∈ cl.namespaces) :
    s.getattr c name = (s, .fetcher (absNameS cl.ns name)) := by
  simp only [BB.canRead, Bool.or_eq_false_iff, decide_eq_false_iff_not] at hrd
  obtain ⟨⟨h1, h2⟩, h3⟩ := hrd
  simp [BB.getattr, h, h1, h2, h3, hns]

theorem C06_get_fetcher (s : BB) (c : Nat) (cl : Client) (name : String)
    (h : s.client? c = some cl)
    (hrd : BB.canRead cl (absNameS cl.ns name) = false)
    (hns : absNameS cl.ns name ∈ cl.namespaces)
    (hsp : splitName name = (name, [])) :
    s.get c name = (s, .fetcher (absNameS cl.ns name)) := by
  unfold BB.get
  simp only [hsp]
  rw [C06_getattr_fetcher s c cl name h hrd hns]

/-! ### 3, 4: dotted reads are plain reads of the absolute name -/

/-- `client.a.k` is exactly `client.get("<ns>/a/k")`, for every outcome (value, nested fetcher, KeyError,
    AttributeError): with `rest = []` the two branches of `dotFetch` coincide.  (The hypothesis
    `splitName a = (a, [])` of the task statement is not needed: `dotGet` calls `getattr` on `a` directly.) -/
theorem C06_dot_one (s : BB) (c : Nat) (cl : Client) (a k : String)
    (h : s.client? c = some cl)
    (hrd : BB.canRead cl (absNameS cl.ns a) = false)
    (hns : absNameS cl.ns a ∈ cl.namespaces) :
    s.dotGet c [a, k] = s.get c (absNameS (absNameS cl.ns a) k) := by
  simp only [BB.dotGet, C06_getattr_fetcher s c cl a h hrd hns]
  exact BB.dotFetch_one s c _ k

/-- the same statement in the shape of the definition of `dotFetch` -/
theorem C06_dot_one_match (s : BB) (c : Nat) (cl : Client) (a k : String)
    (h : s.client? c = some cl)
    (hrd : BB.canRead cl (absNameS cl.ns a) = false)
    (hns : absNameS cl.ns a ∈ cl.namespaces) :
    s.dotGet c [a, k] =
      (match s.get c (absNameS (absNameS cl.ns a) k) with
       | (s1, .fetcher ns') => (s1, .fetcher ns')
       | r => r) := by
  rw [C06_dot_one s c cl a k h hrd hns]
  generalize s.get c (absNameS (absNameS cl.ns a) k) = r
  obtain ⟨s1, res⟩ := r
  cases res <;> rfl

/-- two levels, general form: the second namespace is looked up through `get`, which re-absolutises it
    against the client namespace (`habs` says this is the identity; it follows from `IsAbsS cl.ns`, see
    `C06_dot_two_abs`) -/
theorem C06_dot_two (s : BB) (c : Nat) (cl : Client) (a b k : String)
    (h : s.client? c = some cl)
    (hrd : BB.canRead cl (absNameS cl.ns a) = false)
    (hns : absNameS cl.ns a ∈ cl.namespaces)
    (habs : absNameS cl.ns (absNameS (absNameS cl.ns a) b) = absNameS (absNameS cl.ns a) b)
    (hrd2 : BB.canRead cl (absNameS (absNameS cl.ns a) b) = false)
    (hns2 : absNameS (absNameS cl.ns a) b ∈ cl.namespaces)
    (hsp2 : splitName (absNameS (absNameS cl.ns a) b) = (absNameS (absNameS cl.ns a) b, [])) :
    s.dotGet c [a, b, k] = s.get c (absNameS (absNameS (absNameS cl.ns a) b) k) := by
  have hg := C06_get_fetcher s c cl (absNameS (absNameS cl.ns a) b) h
    (by rw [habs]; exact hrd2) (by rw [habs]; exact hns2) hsp2
  rw [habs] at hg
  simp only [BB.dotGet, C06_getattr_fetcher s c cl a h hrd hns]
  rw [BB.dotGet.dotFetch]
  simp only [hg]
  exact BB.dotFetch_one s c _ k

/-- two levels for a client with an absolute namespace (every client made by `newClient`) -/
theorem C06_dot_two_abs (s : BB) (c : Nat) (cl : Client) (a b k : String)
    (h : s.client? c = some cl)
    (hcl : IsAbsS cl.ns)
    (hrd : BB.canRead cl (absNameS cl.ns a) = false)
    (hns : absNameS cl.ns a ∈ cl.namespaces)
    (hrd2 : BB.canRead cl (absNameS (absNameS cl.ns a) b) = false)
    (hns2 : absNameS (absNameS cl.ns a) b ∈ cl.namespaces)
    (hsp2 : splitName (absNameS (absNameS cl.ns a) b) = (absNameS (absNameS cl.ns a) b, [])) :
    s.dotGet c [a, b, k] = s.get c (absNameS (absNameS (absNameS cl.ns a) b) k) :=
  C06_dot_two s c cl a b k h hrd hns
    (absNameS_idem _ _ _ (isAbsS_absNameS _ _ hcl)) hrd2 hns2 hsp2

/-! ### 5: dotted writes are `set(…, overwrite=True)` of the absolute name -/

theorem C06_dot_set_one (s : BB) (c : Nat) (cl : Client) (a k : String) (v : Val)
    (h : s.client? c = some cl)
    (hrd : BB.canRead cl (absNameS cl.ns a) = false)
    (hns : absNameS cl.ns a ∈ cl.namespaces) :
    s.dotSet c [a, k] v =
      (match s.set c (absNameS (absNameS cl.ns a) k) v true with
       | (s1, .bool _) => (s1, .ok)
       | r => r) := by
  simp only [BB.dotSet, C06_getattr_fetcher s c cl a h hrd hns, BB.dotSet.go]
  generalize s.set c (absNameS (absNameS cl.ns a) k) v true = r
  obtain ⟨s1, res⟩ := r
  cases res <;> rfl

/-- two-level dotted write -/
theorem C06_dot_set_two (s : BB) (c : Nat) (cl : Client) (a b k : String) (v : Val)
    (h : s.client? c = some cl)
    (hrd : BB.canRead cl (absNameS cl.ns a) = false)
    (hns : absNameS cl.ns a ∈ cl.namespaces)
    (habs : absNameS cl.ns (absNameS (absNameS cl.ns a) b) = absNameS (absNameS cl.ns a) b)
    (hrd2 : BB.canRead cl (absNameS (absNameS cl.ns a) b) = false)
    (hns2 : absNameS (absNameS cl.ns a) b ∈ cl.namespaces)
    (hsp2 : splitName (absNameS (absNameS cl.ns a) b) = (absNameS (absNameS cl.ns a) b, [])) :
    s.dotSet c [a, b, k] v =
      (match s.set c (absNameS (absNameS (absNameS cl.ns a) b) k) v true with
       | (s1, .bool _) => (s1, .ok)
       | r => r) := by
  have hg := C06_get_fetcher s c cl (absNameS (absNameS cl.ns a) b) h
    (by rw [habs]; exact hrd2) (by rw [habs]; exact hns2) hsp2
  rw [habs] at hg
  simp only [BB.dotSet, C06_getattr_fetcher s c cl a h hrd hns, BB.dotSet.go, hg]
  generalize s.set c (absNameS (absNameS (absNameS cl.ns a) b) k) v true = r
  obtain ⟨s1, res⟩ := r
  cases res <;> rfl

/-! ### 6: the namespace cache after a registration -/

theorem C06_register_namespaces (s : BB) (c : Nat) (cl : Client) (name : String) (acc : Access) (req : Bool)
    (remapTo : Option String)
    (h : s.client? c = some cl)
    (hok : (s.register c name (some acc) req remapTo).2 = .ok) :
    ∀ n, n ∈ ((s.register c name (some acc) req remapTo).1.clients[c]?.map Client.namespaces).getD [] ↔
      n ∈ cl.namespaces ∨ n ∈ nsClosureS (absNameS cl.ns name) := by
  intro n
  have hlt : c < s.clients.length := by
    simp only [BB.client?] at h
    exact (List.getElem?_eq_some_iff.mp h).1
  cases acc
  all_goals
    simp only [BB.register, h] at hok ⊢
    split at hok
    · simp at hok
    · next hc => simp [hc, BB.setClient, hlt, SetL.mem_foldl_add]

/-- the dotted-access gate after a registration: a non-key name yields a fetcher iff it was cached before or
    is a proper namespace of the new key -/
theorem C06_register_fetcher_iff (s : BB) (c : Nat) (cl cl' : Client) (name : String) (acc : Access) (req : Bool)
    (remapTo : Option String) (n : String)
    (h : s.client? c = some cl)
    (hok : (s.register c name (some acc) req remapTo).2 = .ok)
    (h' : (s.register c name (some acc) req remapTo).1.client? c = some cl') :
    n ∈ cl'.namespaces ↔ n ∈ cl.namespaces ∨ n ∈ nsClosureS (absNameS cl.ns name) := by
  have := C06_register_namespaces s c cl name acc req remapTo h hok n
  simp only [BB.client?] at h'
  simpa [h'] using this

/-! ### 7: non-vacuity, end to end -/

namespace C06bEx

open C06Ex (isVal)

def isAttrError (r : Res) : Bool := match r with | .attrError => true | _ => false
def isFetcher (r : Res) (ns : String) : Bool := match r with | .fetcher x => x == ns | _ => false
def isOk (r : Res) : Bool := match r with | .ok => true | _ => false

/-- a client in namespace "/robot" with the key "arm/joint/angle" registered WRITE -/
def hist : List BOp :=
  [ .new "/robot",
    .register 0 "arm/joint/angle" (some .write) false none ]

def s₀ : BB := BB.runOps hist
def s₁ : BB := (s₀.dotSet 0 ["arm", "joint", "angle"] (.int 5)).1

/-- the namespace cache is the closure of the key -/
example : (s₀.client? 0).map Client.namespaces = some ["/robot/arm/joint", "/robot/arm", "/robot"] := by decide

/-- the dotted write succeeds, and the plain read of the absolute name and the dotted read both see it -/
example : isOk (s₀.dotSet 0 ["arm", "joint", "angle"] (.int 5)).2 = true := by decide
example : isVal (s₁.get 0 "/robot/arm/joint/angle").2 (.int 5) = true := by decide
example : isVal (s₁.dotGet 0 ["arm", "joint", "angle"]).2 (.int 5) = true := by decide
example : isVal ((BB.runOps (hist ++ [.dotSet 0 ["arm", "joint", "angle"] (.int 5)])).get 0
    "/robot/arm/joint/angle").2 (.int 5) = true := by decide
example : isVal ((BB.runOps (hist ++ [.dotSet 0 ["arm", "joint", "angle"] (.int 5)])).dotGet 0
    ["arm", "joint", "angle"]).2 (.int 5) = true := by decide
/-- and conversely a plain write is seen by the dotted read -/
example : isVal ((s₀.set 0 "arm/joint/angle" (.int 9) true).1.dotGet 0 ["arm", "joint", "angle"]).2 (.int 9)
    = true := by decide +kernel
/-- outside the registered namespaces dotted access is an AttributeError; a partial path is a fetcher -/
example : isAttrError (s₁.dotGet 0 ["leg", "x"]).2 = true := by decide
example : isAttrError (s₁.dotSet 0 ["leg", "x"] (.int 1)).2 = true := by decide
example : isFetcher (s₁.dotGet 0 ["arm", "joint"]).2 "/robot/arm/joint" = true := by decide

theorem eq_some_getD {α : Type} {o : Option α} (h : o.isSome = true) (d : α) : o = some (o.getD d) := by
  cases o <;> simp_all

/-- the client object in `s₁` -/
def cl₁ : Client := (s₁.client? 0).getD { ns := "" }
theorem hcl₁ : s₁.client? 0 = some cl₁ := eq_some_getD (by decide +kernel) _

/-- the hypotheses of the theorems hold in `s₁` -/
example : IsAbsS cl₁.ns ∧
    BB.canRead cl₁ (absNameS cl₁.ns "arm") = false ∧ absNameS cl₁.ns "arm" ∈ cl₁.namespaces ∧
    splitName "arm" = ("arm", []) ∧
    absNameS cl₁.ns (absNameS (absNameS cl₁.ns "arm") "joint") = absNameS (absNameS cl₁.ns "arm") "joint" ∧
    BB.canRead cl₁ (absNameS (absNameS cl₁.ns "arm") "joint") = false ∧
    absNameS (absNameS cl₁.ns "arm") "joint" ∈ cl₁.namespaces ∧
    splitName (absNameS (absNameS cl₁.ns "arm") "joint") = (absNameS (absNameS cl₁.ns "arm") "joint", []) ∧
    absNameS (absNameS (absNameS cl₁.ns "arm") "joint") "angle" = "/robot/arm/joint/angle" ∧
    BB.canWrite cl₁ "/robot/arm/joint/angle" = true := by
  decide +kernel

/-- the theorems instantiated on the concrete state -/
example : s₁.dotGet 0 ["arm", "joint", "angle"] =
    s₁.get 0 (absNameS (absNameS (absNameS cl₁.ns "arm") "joint") "angle") :=
  C06_dot_two_abs s₁ 0 cl₁ "arm" "joint" "angle" hcl₁ (by decide +kernel) (by decide +kernel) (by decide +kernel)
    (by decide +kernel) (by decide +kernel) (by decide +kernel)

example : s₁.dotGet 0 ["arm", "joint"] = s₁.get 0 (absNameS (absNameS cl₁.ns "arm") "joint") :=
  C06_dot_one s₁ 0 cl₁ "arm" "joint" hcl₁ (by decide +kernel) (by decide +kernel)

theorem eq_ok_of_isOk {r : Res} (h : isOk r = true) : r = .ok := by
  cases r <;> simp_all [isOk]

/-- theorem 6 instantiated on the registration that builds `s₀` -/
def sNew : BB := BB.runOps [.new "/robot"]
def cl₀ : Client := (sNew.client? 0).getD { ns := "" }

example : cl₀.namespaces = [] ∧
    nsClosureS (absNameS cl₀.ns "arm/joint/angle") = ["/robot/arm/joint", "/robot/arm", "/robot"] := by
  decide +kernel

example : ∀ n, n ∈ ((sNew.register 0 "arm/joint/angle" (some .write) false none).1.clients[0]?.map
      Client.namespaces).getD [] ↔
    n ∈ cl₀.namespaces ∨ n ∈ nsClosureS (absNameS cl₀.ns "arm/joint/angle") :=
  C06_register_namespaces sNew 0 cl₀ "arm/joint/angle" .write false none
    (eq_some_getD (by decide +kernel) _) (eq_ok_of_isOk (by decide +kernel))

end C06bEx
