/-
  C01, clause "while it stays RUNNING each further tick calls update alone".

  A leaf that is RUNNING before a tick of (an ancestor in) a well-formed tree and RUNNING after it has, during
  that tick, either not been touched at all or received exactly one `update` (which returned RUNNING): within one
  tick it is never interrupted-and-restarted and never re-initialised.

  The proof establishes the stronger, compositional relation `C01b.R` (a leaf that was RUNNING is afterwards
  either untouched-and-RUNNING, updated-once-and-RUNNING, or not RUNNING) by induction on the fuel, following the
  structure of the tick: every child is ticked at most once from its original state (or from its freshly reset
  state, in which case nothing below was RUNNING), and the only thing that can follow a child's tick is a stop.
-/
import PyTreesProofs.Lemmas.Stop
import PyTreesProofs.Lemmas.NoInternal
set_option linter.unusedVariables false
set_option linter.unusedSimpArgs false
open Node

/-- relation between a leaf before and after one tick of an ancestor -/
def TickRel (a b : Nat × Status × List LEv) : Prop :=
  b.1 = a.1 ∧ (a.2.1 = .running → b.2.1 = .running → (b.2.2 = a.2.2 ∨ b.2.2 = a.2.2 ++ [.upd .running]))

namespace C01b

abbrev LL := Nat × Status × List LEv

/-- the compositional strengthening of `TickRel` -/
def R (a b : LL) : Prop :=
  b.1 = a.1 ∧ (a.2.1 = .running →
    (b.2.2 = a.2.2 ∧ b.2.1 = .running) ∨ (b.2.2 = a.2.2 ++ [.upd .running] ∧ b.2.1 = .running) ∨
    b.2.1 ≠ .running)

/-- same leaf id -/
def IdRel (a b : LL) : Prop := b.1 = a.1

/-- stopped or untouched -/
def SE (a b : LL) : Prop := StopRel a b ∨ b = a

/-! ### generic `Zip2` tools -/

theorem zip_mono {α} {P Q : α → α → Prop} {l l' : List α} (h : Zip2 P l l') (hpq : ∀ a b, P a b → Q a b) :
    Zip2 Q l l' := by
  induction h with
  | nil => exact .nil
  | cons h _ ih => exact .cons (hpq _ _ h) ih

theorem zip_mono_mem {α} {P Q : α → α → Prop} {l l' : List α} (h : Zip2 P l l')
    (hpq : ∀ a ∈ l, ∀ b, P a b → Q a b) : Zip2 Q l l' := by
  induction h with
  | nil => exact .nil
  | cons h _ ih =>
    exact .cons (hpq _ (by simp) _ h) (ih (fun a ha b hab => hpq a (by simp [ha]) b hab))

theorem zip_comp {α} {P Q S : α → α → Prop} {l1 l2 l3 : List α} (h1 : Zip2 P l1 l2) (h2 : Zip2 Q l2 l3)
    (hs : ∀ a b c, P a b → Q b c → S a c) : Zip2 S l1 l3 := by
  induction h1 generalizing l3 with
  | nil => cases h2; exact .nil
  | cons h _ ih =>
    cases h2 with
    | cons h' t' => exact .cons (hs _ _ _ h h') (ih t')

theorem zip_refl {α} {P : α → α → Prop} (hr : ∀ a, P a a) (l : List α) : Zip2 P l l := by
  induction l with
  | nil => exact .nil
  | cons a l ih => exact .cons (hr a) ih

/-! ### the relations -/

theorem R_refl (a : LL) : R a a := ⟨rfl, fun h => Or.inl ⟨rfl, h⟩⟩

theorem R_id {a b : LL} (h : R a b) : IdRel a b := h.1

theorem StopRel_id {a b : LL} (h : StopRel a b) : IdRel a b := h.1

theorem IdRel_trans {a b c : LL} (h1 : IdRel a b) (h2 : IdRel b c) : IdRel a c := by
  unfold IdRel at *; rw [h2, h1]

theorem R_of_notRunning {a b : LL} (ha : a.2.1 ≠ .running) (h : IdRel a b) : R a b :=
  ⟨h, fun hr => absurd hr ha⟩

theorem R_of_SE {a b : LL} (h : SE a b) : R a b := by
  rcases h with h | h
  · exact ⟨h.1, fun _ => Or.inr (Or.inr (by rw [h.2.1]; simp))⟩
  · subst h; exact R_refl _

theorem R_SE {a b c : LL} (h1 : R a b) (h2 : SE b c) : R a c := by
  rcases h2 with h | h
  · exact ⟨by rw [h.1, h1.1], fun _ => Or.inr (Or.inr (by rw [h.2.1]; simp))⟩
  · subst h; exact h1

theorem R_TickRel {a b : LL} (h : R a b) : TickRel a b := by
  refine ⟨h.1, fun ha hb => ?_⟩
  rcases h.2 ha with h | h | h
  · exact Or.inl h.1
  · exact Or.inr h.1
  · exact absurd hb h

/-! ### leaves of subtrees -/

theorem leafLogsL_append : ∀ a b : List Node, leafLogsL (a ++ b) = leafLogsL a ++ leafLogsL b
| [], b => by simp [leafLogsL]
| c :: a, b => by simp [leafLogsL, leafLogsL_append a b]

mutual
/-- a subtree without RUNNING node has no RUNNING leaf -/
theorem noRun_leafLogs : ∀ n : Node, noRun n = true → ∀ x ∈ leafLogs n, x.2.1 ≠ .running
| leaf _ _ _ _, h, x, hx => by
    simp only [leafLogs, List.mem_singleton] at hx; subst hx; simpa [noRun] using h
| seq _ _ _ _ cs, h, x, hx => by
    simp only [noRun, Bool.and_eq_true] at h; exact noRunL_leafLogsL cs h.2 x hx
| sel _ _ _ _ cs, h, x, hx => by
    simp only [noRun, Bool.and_eq_true] at h; exact noRunL_leafLogsL cs h.2 x hx
| par _ _ _ _ cs, h, x, hx => by
    simp only [noRun, Bool.and_eq_true] at h; exact noRunL_leafLogsL cs h.2 x hx
| dec _ _ _ c, h, x, hx => by
    simp only [noRun, Bool.and_eq_true] at h; exact noRun_leafLogs c h.2 x hx
theorem noRunL_leafLogsL : ∀ cs : List Node, noRunL cs = true → ∀ x ∈ leafLogsL cs, x.2.1 ≠ .running
| [], _, x, hx => by simp [leafLogsL] at hx
| c :: cs, h, x, hx => by
    simp only [noRunL, Bool.and_eq_true] at h
    simp only [leafLogsL, List.mem_append] at hx
    rcases hx with hx | hx
    · exact noRun_leafLogs c h.1 x hx
    · exact noRunL_leafLogsL cs h.2 x hx
end

/-- from a state without RUNNING leaf every id-preserving change satisfies `R` -/
theorem zipR_of_noRunning {l l' : List LL} (hn : ∀ x ∈ l, x.2.1 ≠ .running) (h : Zip2 IdRel l l') :
    Zip2 R l l' :=
  zip_mono_mem h (fun a ha b hab => R_of_notRunning (hn a ha) hab)

/-! ### the stop functions -/

theorem stopInv_SE (n : Node) (h : wf n = true) : Zip2 SE (leafLogs n) (leafLogs (stopInv n).1) :=
  zip_mono (stopInv_leafLogs n h) (fun _ _ h => Or.inl h)

theorem stopInvNonInvalid_SE (cs : List Node) (h : wfL cs = true) :
    Zip2 SE (leafLogsL cs) (leafLogsL (stopInvNonInvalid cs).1) :=
  zip_mono (stopInvNonInvalid_leafLogs cs h) (fun _ _ h => Or.inl h)

/-- `if c then stopInv n else (n, [])` -/
theorem stopIf_SE (n : Node) (h : wf n = true) (c : Prop) [Decidable c] :
    Zip2 SE (leafLogs n) (leafLogs (if c then stopInv n else (n, [])).1) := by
  split
  · exact stopInv_SE n h
  · exact zip_refl (P := SE) (fun a => Or.inr rfl) _

theorem stopRunning_SE : ∀ cs : List Node, wfL cs = true →
    Zip2 SE (leafLogsL cs) (leafLogsL (stopRunning cs).1)
| [], _ => by simp only [stopRunning, leafLogsL]; exact .nil
| c :: cs, h => by
    simp only [wfL, Bool.and_eq_true] at h
    simp only [stopRunning, leafLogsL]
    exact forall2_append (stopIf_SE c h.1 _) (stopRunning_SE cs h.2)

theorem stopInvAll_SE : ∀ cs : List Node, wfL cs = true →
    Zip2 SE (leafLogsL cs) (leafLogsL (stopInvAll cs).1)
| [], _ => by simp only [stopInvAll, leafLogsL]; exact .nil
| c :: cs, h => by
    simp only [wfL, Bool.and_eq_true] at h
    simp only [stopInvAll, leafLogsL]
    exact forall2_append (stopInv_SE c h.1) (stopInvAll_SE cs h.2)

/-! ### the packaged induction hypothesis -/

/-- what a child tick function guarantees about the leaves -/
def TickR (t : Tick) : Prop :=
  ∀ w c c' w' tr, WOK w → Good c → t w c = .ok (c', w', tr) → Zip2 R (leafLogs c) (leafLogs c')

/-! ### leaves -/

theorem leafTick_R (e : Env) (w : Store) (i : Nat) (st : Status) (k : LeafKind) (log : List LEv)
    (n' : Node) (w' : Store) (tr : List Ev) (h : leafTick e w i st k log = .ok (n', w', tr)) :
    Zip2 R (leafLogs (leaf i st k log)) (leafLogs n') := by
  simp only [leafTick, bind, Except.bind] at h
  generalize (if st ≠ .running then leafInit e k else k) = k0 at h
  cases hu : leafUpdate i e w k0 with
  | error err => simp [hu] at h
  | ok v =>
    obtain ⟨k1, o, w1⟩ := v
    simp only [hu, pure, Except.pure, Except.ok.injEq, Prod.mk.injEq] at h
    obtain ⟨rfl, rfl, _⟩ := h
    simp only [leafLogs]
    refine .cons ⟨rfl, ?_⟩ .nil
    intro hr
    simp only at hr
    by_cases ho : o = .running
    · subst ho; right; left; simp [hr]
    · right; right; exact ho

/-! ### the three child loops: every child is ticked at most once -/

theorem seqLoop_R (t : Tick) (ht : TickOK t) (hr : TickR t) :
    ∀ (cs : List Node) (w : Store) (done : List Node) (r : Option (Node × List Node)) (w' : Store) (tr : List Ev),
      WOK w → GoodL cs → seqLoop t w cs = .ok (done, r, w', tr) →
      (match r with
       | none => Zip2 R (leafLogsL cs) (leafLogsL done)
       | some (c', rest) => ∃ pre, cs = pre ++ rest ∧ Zip2 R (leafLogsL pre) (leafLogsL done ++ leafLogs c')) := by
  intro cs
  induction cs with
  | nil =>
    intro w done r w' tr hw _ h
    simp [seqLoop, pure, Except.pure] at h; obtain ⟨rfl, rfl, rfl, rfl⟩ := h
    simp only [leafLogsL]; exact .nil
  | cons c cs ih =>
    intro w done r w' tr hw hg h
    obtain ⟨hwf, hlo⟩ := hg
    simp only [wfL, Bool.and_eq_true] at hwf
    simp only [leavesOKL, Bool.and_eq_true] at hlo
    simp only [seqLoop, bind, Except.bind] at h
    cases htc : t w c with
    | error e => simp [htc] at h
    | ok v =>
      obtain ⟨c', w1, trc⟩ := v
      obtain ⟨hc1, hc2, hc3, hw1⟩ := ht w c c' w1 trc hw ⟨hwf.1, hlo.1⟩ htc
      have hR := hr w c c' w1 trc hw ⟨hwf.1, hlo.1⟩ htc
      simp only [htc] at h
      by_cases hs : c'.status = .success
      · simp only [hs, ne_eq, not_true_eq_false, ↓reduceIte] at h
        cases hl : seqLoop t w1 cs with
        | error e => simp [hl] at h
        | ok v2 =>
          obtain ⟨done2, r2, w2, tr2⟩ := v2
          simp only [hl, pure, Except.pure, Except.ok.injEq, Prod.mk.injEq] at h
          obtain ⟨rfl, rfl, rfl, rfl⟩ := h
          have i5 := ih w1 done2 r2 w2 tr2 hw1 ⟨hwf.2, hlo.2⟩ hl
          cases r2 with
          | none =>
            simp only [leafLogsL] at i5 ⊢
            exact forall2_append hR i5
          | some p =>
            obtain ⟨c2, rest⟩ := p
            obtain ⟨pre, h5, h6⟩ := i5
            refine ⟨c :: pre, by simp [h5], ?_⟩
            simp only [leafLogsL, List.append_assoc]
            exact forall2_append hR h6
      · simp only [ne_eq, hs, not_false_eq_true, ↓reduceIte, pure, Except.pure, Except.ok.injEq, Prod.mk.injEq] at h
        obtain ⟨rfl, rfl, rfl, rfl⟩ := h
        refine ⟨[c], by simp, ?_⟩
        simpa [leafLogsL] using hR

theorem selLoop_R (t : Tick) (ht : TickOK t) (hr : TickR t) :
    ∀ (cs : List Node) (w : Store) (failed : List Node) (r : Option (Node × List Node)) (w' : Store) (tr : List Ev),
      WOK w → GoodL cs → selLoop t w cs = .ok (failed, r, w', tr) →
      (match r with
       | none => Zip2 R (leafLogsL cs) (leafLogsL failed)
       | some (c', rest) => ∃ pre, cs = pre ++ rest ∧ Zip2 R (leafLogsL pre) (leafLogsL failed ++ leafLogs c')) := by
  intro cs
  induction cs with
  | nil =>
    intro w done r w' tr hw _ h
    simp [selLoop, pure, Except.pure] at h; obtain ⟨rfl, rfl, rfl, rfl⟩ := h
    simp only [leafLogsL]; exact .nil
  | cons c cs ih =>
    intro w done r w' tr hw hg h
    obtain ⟨hwf, hlo⟩ := hg
    simp only [wfL, Bool.and_eq_true] at hwf
    simp only [leavesOKL, Bool.and_eq_true] at hlo
    simp only [selLoop, bind, Except.bind] at h
    cases htc : t w c with
    | error e => simp [htc] at h
    | ok v =>
      obtain ⟨c', w1, trc⟩ := v
      obtain ⟨hc1, hc2, hc3, hw1⟩ := ht w c c' w1 trc hw ⟨hwf.1, hlo.1⟩ htc
      have hR := hr w c c' w1 trc hw ⟨hwf.1, hlo.1⟩ htc
      simp only [htc] at h
      by_cases hs : c'.status = .running ∨ c'.status = .success
      · simp only [hs, ↓reduceIte, pure, Except.pure, Except.ok.injEq, Prod.mk.injEq] at h
        obtain ⟨rfl, rfl, rfl, rfl⟩ := h
        refine ⟨[c], by simp, ?_⟩
        simpa [leafLogsL] using hR
      · simp only [hs, ↓reduceIte] at h
        cases hl : selLoop t w1 cs with
        | error e => simp [hl] at h
        | ok v2 =>
          obtain ⟨done2, r2, w2, tr2⟩ := v2
          simp only [hl, pure, Except.pure, Except.ok.injEq, Prod.mk.injEq] at h
          obtain ⟨rfl, rfl, rfl, rfl⟩ := h
          have i5 := ih w1 done2 r2 w2 tr2 hw1 ⟨hwf.2, hlo.2⟩ hl
          cases r2 with
          | none =>
            simp only [leafLogsL] at i5 ⊢
            exact forall2_append hR i5
          | some p =>
            obtain ⟨c2, rest⟩ := p
            obtain ⟨pre, h5, h6⟩ := i5
            refine ⟨c :: pre, by simp [h5], ?_⟩
            simp only [leafLogsL, List.append_assoc]
            exact forall2_append hR h6

theorem parLoop_R (t : Tick) (ht : TickOK t) (hr : TickR t) (sync : Bool) :
    ∀ (cs : List Node) (w : Store) (cs' : List Node) (w' : Store) (tr : List Ev),
      WOK w → GoodL cs → parLoop t sync w cs = .ok (cs', w', tr) →
      Zip2 R (leafLogsL cs) (leafLogsL cs') := by
  intro cs
  induction cs with
  | nil =>
    intro w cs' w' tr hw _ h
    simp [parLoop, pure, Except.pure] at h; obtain ⟨rfl, rfl, rfl⟩ := h
    simp only [leafLogsL]; exact .nil
  | cons c cs ih =>
    intro w cs' w' tr hw hg h
    obtain ⟨hwf, hlo⟩ := hg
    simp only [wfL, Bool.and_eq_true] at hwf
    simp only [leavesOKL, Bool.and_eq_true] at hlo
    simp only [parLoop, bind, Except.bind] at h
    split at h
    · cases hl : parLoop t sync w cs with
      | error e => simp [hl] at h
      | ok v2 =>
        obtain ⟨cs2, w2, tr2⟩ := v2
        simp only [hl, pure, Except.pure, Except.ok.injEq, Prod.mk.injEq] at h
        obtain ⟨rfl, rfl, rfl⟩ := h
        simp only [leafLogsL]
        exact forall2_append (zip_refl R_refl _) (ih w cs2 w2 tr2 hw ⟨hwf.2, hlo.2⟩ hl)
    · cases htc : t w c with
      | error e => simp [htc] at h
      | ok v =>
        obtain ⟨c', w1, trc⟩ := v
        obtain ⟨hc1, hc2, hc3, hw1⟩ := ht w c c' w1 trc hw ⟨hwf.1, hlo.1⟩ htc
        have hR := hr w c c' w1 trc hw ⟨hwf.1, hlo.1⟩ htc
        simp only [htc] at h
        cases hl : parLoop t sync w1 cs with
        | error e => simp [hl] at h
        | ok v2 =>
          obtain ⟨cs2, w2, tr2⟩ := v2
          simp only [hl, pure, Except.pure, Except.ok.injEq, Prod.mk.injEq] at h
          obtain ⟨rfl, rfl, rfl⟩ := h
          simp only [leafLogsL]
          exact forall2_append hR (ih w1 cs2 w2 tr2 hw1 ⟨hwf.2, hlo.2⟩ hl)

/-! ### the run helpers -/

theorem seqRun_R (t : Tick) (ht : TickOK t) (hr : TickR t) (w : Store) (i : Nat) (m : Bool)
    (before rest : List Node) (trR : List Ev) (n' : Node) (w' : Store) (tr : List Ev) (LA : List LL)
    (hw : WOK w) (hb : Zip2 R LA (leafLogsL before)) (hrest : GoodL rest)
    (h : seqRun t w i m before rest trR = .ok (n', w', tr)) :
    Zip2 R (LA ++ leafLogsL rest) (leafLogs n') := by
  simp only [seqRun, bind, Except.bind] at h
  cases hl : seqLoop t w rest with
  | error e => simp [hl] at h
  | ok v =>
    obtain ⟨done, r, w1, trl⟩ := v
    simp only [hl] at h
    have hr' := seqLoop_R t ht hr rest w done r w1 trl hw hrest hl
    cases r with
    | none =>
      simp only [pure, Except.pure, Except.ok.injEq, Prod.mk.injEq] at h
      obtain ⟨rfl, rfl, _⟩ := h
      simp only at hr'
      simp only [leafLogs, leafLogsL_append]
      exact forall2_append hb hr'
    | some p =>
      obtain ⟨c', untouched⟩ := p
      obtain ⟨pre, hpre, hz⟩ := hr'
      simp only [pure, Except.pure, Except.ok.injEq, Prod.mk.injEq] at h
      obtain ⟨rfl, rfl, _⟩ := h
      have hwu : GoodL untouched := by rw [hpre, GoodL_append] at hrest; exact hrest.2
      have hT : Zip2 R (leafLogsL untouched)
          (leafLogsL (if m = true then (untouched, []) else stopInvNonInvalid untouched).1) := by
        by_cases hmm : m = true
        · simp only [hmm, ↓reduceIte]; exact zip_refl R_refl _
        · simp only [hmm, Bool.false_eq_true, ↓reduceIte]
          exact zip_mono (stopInvNonInvalid_SE untouched hwu.1) (fun _ _ h => R_of_SE h)
      generalize (if m = true then (untouched, []) else stopInvNonInvalid untouched).1 = tail at hT
      subst hpre
      have := forall2_append hb (forall2_append hz hT)
      simpa [leafLogs, leafLogsL, leafLogsL_append, List.append_assoc] using this

theorem selRun_R (t : Tick) (ht : TickOK t) (hr : TickR t) (w : Store) (i : Nat) (m : Bool) (cur0 : Option Nat)
    (before rest : List Node) (trP : List Ev) (n' : Node) (w' : Store) (tr : List Ev) (LA : List LL)
    (hw : WOK w) (hb : Zip2 R LA (leafLogsL before)) (hrest : GoodL rest)
    (h : selRun t w i m cur0 before rest trP = .ok (n', w', tr)) :
    Zip2 R (LA ++ leafLogsL rest) (leafLogs n') := by
  simp only [selRun, bind, Except.bind] at h
  cases hl : selLoop t w rest with
  | error e => simp [hl] at h
  | ok v =>
    obtain ⟨failed, r, w1, trl⟩ := v
    simp only [hl] at h
    have hr' := selLoop_R t ht hr rest w failed r w1 trl hw hrest hl
    cases r with
    | none =>
      simp only [pure, Except.pure, Except.ok.injEq, Prod.mk.injEq] at h
      obtain ⟨rfl, rfl, _⟩ := h
      simp only at hr'
      simp only [leafLogs, leafLogsL_append]
      exact forall2_append hb hr'
    | some p =>
      obtain ⟨c', untouched⟩ := p
      obtain ⟨pre, hpre, hz⟩ := hr'
      simp only [pure, Except.pure, Except.ok.injEq, Prod.mk.injEq] at h
      obtain ⟨rfl, rfl, _⟩ := h
      have hwu : GoodL untouched := by rw [hpre, GoodL_append] at hrest; exact hrest.2
      have hT : Zip2 R (leafLogsL untouched)
          (leafLogsL (if cur0 = some c'.id then (untouched, []) else stopInvNonInvalid untouched).1) := by
        by_cases hsame : cur0 = some c'.id
        · simp only [hsame, ↓reduceIte]; exact zip_refl R_refl _
        · simp only [hsame, ↓reduceIte]
          exact zip_mono (stopInvNonInvalid_SE untouched hwu.1) (fun _ _ h => R_of_SE h)
      generalize (if cur0 = some c'.id then (untouched, []) else stopInvNonInvalid untouched).1 = tail at hT
      subst hpre
      have := forall2_append hb (forall2_append hz hT)
      simpa [leafLogs, leafLogsL, leafLogsL_append, List.append_assoc] using this

theorem parRun_R (t : Tick) (ht : TickOK t) (hr : TickR t) (w : Store) (i : Nat) (p : Policy) (cs0 : List Node)
    (trR : List Ev) (n' : Node) (w' : Store) (tr : List Ev) (hw : WOK w) (hg : GoodL cs0)
    (h : parRun t w i p cs0 trR = .ok (n', w', tr)) :
    Zip2 R (leafLogsL cs0) (leafLogs n') := by
  simp only [parRun, bind, Except.bind] at h
  cases hl : parLoop t p.sync w cs0 with
  | error e => simp [hl] at h
  | ok v =>
    obtain ⟨cs1, w1, trl⟩ := v
    simp only [hl] at h
    obtain ⟨hg1, _, _, _⟩ := parLoop_spec t ht p.sync cs0 w cs1 w1 trl hw hg hl
    have hz := parLoop_R t ht hr p.sync cs0 w cs1 w1 trl hw hg hl
    split at h
    · simp only [pure, Except.pure, Except.ok.injEq, Prod.mk.injEq] at h
      obtain ⟨rfl, rfl, _⟩ := h
      simp only [leafLogs]
      exact zip_comp hz (stopRunning_SE cs1 hg1.1) (fun _ _ _ => R_SE)
    · simp only [pure, Except.pure, Except.ok.injEq, Prod.mk.injEq] at h
      obtain ⟨rfl, rfl, _⟩ := h
      simpa [leafLogs] using hz

theorem decBounce_R (w : Store) (i : Nat) (k : DecKind) (s : Status) (c n' : Node) (w' : Store) (tr : List Ev)
    (hg : Good c) (h : decBounce w i k s c = .ok (n', w', tr)) :
    Zip2 R (leafLogs c) (leafLogs n') := by
  simp only [decBounce, pure, Except.pure, Except.ok.injEq, Prod.mk.injEq] at h
  obtain ⟨rfl, rfl, _⟩ := h
  simp only [leafLogs]
  exact zip_mono (stopIf_SE c hg.1 _) (fun _ _ h => R_of_SE h)

theorem decRun_R (t : Tick) (ht : TickOK t) (hr : TickR t) (e : Env) (w : Store) (i : Nat) (k : DecKind)
    (st : Status) (c n' : Node) (w' : Store) (tr : List Ev) (hw : WOK w) (hg : Good c)
    (h : decRun t e w i k st c = .ok (n', w', tr)) :
    Zip2 R (leafLogs c) (leafLogs n') := by
  simp only [decRun, bind, Except.bind] at h
  cases htc : t w c with
  | error err => simp [htc] at h
  | ok v =>
    obtain ⟨c1, w1, trc⟩ := v
    obtain ⟨hc1, hc2, _, hw1⟩ := ht w c c1 w1 trc hw hg htc
    have hR := hr w c c1 w1 trc hw hg htc
    simp only [htc] at h
    generalize (if st ≠ .running then decInit e k else k) = k0 at h
    cases hp : decPublish k0 c1.status w1 with
    | error err => simp [hp] at h
    | ok w2 =>
      simp only [hp] at h
      have hc2' : Good (if (decUpdate e k0 c1.status).2.2 = true then stopInv c1 else (c1, [])).1 ∧
          Zip2 R (leafLogs c) (leafLogs (if (decUpdate e k0 c1.status).2.2 = true then stopInv c1 else (c1, [])).1) := by
        refine ⟨?_, zip_comp hR (stopIf_SE c1 hc1.1 _) (fun _ _ _ => R_SE)⟩
        split
        · exact stopInv_Good c1 hc1
        · exact hc1
      generalize (if (decUpdate e k0 c1.status).2.2 = true then stopInv c1 else (c1, [])) = cc at h hc2'
      split at h
      · simp only [pure, Except.pure, Except.ok.injEq, Prod.mk.injEq] at h
        obtain ⟨rfl, rfl, _⟩ := h
        simp only [leafLogs]
        exact zip_comp hc2'.2 (stopIf_SE cc.1 hc2'.1.1 _) (fun _ _ _ => R_SE)
      · simp only [pure, Except.pure, Except.ok.injEq, Prod.mk.injEq] at h
        obtain ⟨rfl, rfl, _⟩ := h
        simpa [leafLogs] using hc2'.2

/-! ### the entry blocks -/

theorem seqEntry_shape (st : Status) (m : Bool) (cur : Option Nat) (cs before rest : List Node) (trR : List Ev)
    (h : seqEntry st m cur cs = .ok (before, rest, trR)) :
    (st ≠ .running ∧ before = [] ∧ rest = (stopInvNonInvalid cs).1) ∨ cs = before ++ rest := by
  unfold seqEntry at h
  split at h
  · rename_i hst
    simp only [pure, Except.pure, Except.ok.injEq, Prod.mk.injEq] at h
    obtain ⟨rfl, rfl, rfl⟩ := h
    exact Or.inl ⟨hst, rfl, rfl⟩
  · right
    split at h
    · cases cur with
      | none =>
        simp only [pure, Except.pure, Except.ok.injEq, Prod.mk.injEq] at h
        obtain ⟨rfl, rfl, rfl⟩ := h
        exact (splitAtNonSuccess_spec cs).1
      | some cid =>
        simp only at h
        split at h
        · rename_i a b hsp
          simp only [pure, Except.pure, Except.ok.injEq, Prod.mk.injEq] at h
          obtain ⟨rfl, rfl, rfl⟩ := h
          exact (splitAtId_spec cid cs _ _ hsp).1
        · simp [throw, throwThe, MonadExceptOf.throw] at h
    · simp only [pure, Except.pure, Except.ok.injEq, Prod.mk.injEq] at h
      obtain ⟨rfl, rfl, rfl⟩ := h
      simp

theorem selEntry_shape (st : Status) (m : Bool) (cur cur0 : Option Nat) (cs before rest : List Node) (trP : List Ev)
    (hwf : wfL cs = true) (h : selEntry st m cur cs = .ok (cur0, before, rest, trP)) :
    ∃ a, cs = a ++ rest ∧ Zip2 SE (leafLogsL a) (leafLogsL before) := by
  unfold selEntry at h
  generalize (if st ≠ .running then cs.head?.map Node.id else cur) = c0 at h
  simp only at h
  split at h
  · cases c0 with
    | none =>
      simp only [pure, Except.pure, Except.ok.injEq, Prod.mk.injEq] at h
      obtain ⟨rfl, rfl, rfl, rfl⟩ := h
      exact ⟨[], by simp, .nil⟩
    | some cid =>
      simp only at h
      split at h
      · rename_i a b hsp
        simp only [pure, Except.pure, Except.ok.injEq, Prod.mk.injEq] at h
        obtain ⟨rfl, rfl, rfl, rfl⟩ := h
        obtain ⟨e1, _, _⟩ := splitAtId_spec cid cs _ _ hsp
        refine ⟨a, e1, stopInvAll_SE a ?_⟩
        rw [e1, wfL_append] at hwf; exact hwf.1
      · simp [throw, throwThe, MonadExceptOf.throw] at h
  · simp only [pure, Except.pure, Except.ok.injEq, Prod.mk.injEq] at h
    obtain ⟨rfl, rfl, rfl, rfl⟩ := h
    exact ⟨[], by simp, .nil⟩

/-! ### the main induction -/

theorem tickF_R (e : Env) (he : ValidEnv e) : ∀ (f : Nat) (w : Store) (n n' : Node) (w' : Store) (tr : List Ev),
    WOK w → Good n → tickF f e w n = .ok (n', w', tr) → Zip2 R (leafLogs n) (leafLogs n') := by
  intro f
  induction f with
  | zero => intro w n n' w' tr _ _ h; simp [tickF] at h
  | succ f ih =>
    have ht : TickOK (tickF f e) := fun w c c' w' tr hw hg h => tickF_good e he f w c c' w' tr hw hg h
    have hr : TickR (tickF f e) := fun w c c' w' tr hw hg h => ih w c c' w' tr hw hg h
    intro w n n' w' tr hw hg h
    cases n with
    | leaf i st k log =>
      simp only [tickF] at h
      exact leafTick_R e w i st k log n' w' tr h
    | seq i m st cur cs =>
      obtain ⟨hwf, hlo⟩ := hg
      simp only [wf, Bool.and_eq_true, decide_eq_true_eq, Bool.or_eq_true, beq_iff_eq] at hwf
      obtain ⟨⟨⟨⟨⟨hwl, hrun⟩, hoc⟩, hnd⟩, _⟩, _⟩ := hwf
      simp only [leavesOK] at hlo
      simp only [tickF, bind, Except.bind] at h
      cases hen : seqEntry st m cur cs with
      | error err => simp [hen] at h
      | ok v =>
        obtain ⟨before, rest, trR⟩ := v
        simp only [hen] at h
        split at h
        · simp only [pure, Except.pure, Except.ok.injEq, Prod.mk.injEq] at h
          obtain ⟨rfl, rfl, _⟩ := h
          simp only [leafLogs]; exact zip_refl R_refl _
        · rcases seqEntry_shape st m cur cs before rest trR hen with ⟨hst, rfl, rfl⟩ | hsh
          · -- fresh entry: nothing below is RUNNING; the children are reset, then ticked
            have hn : noRunL cs = true := by
              rcases hrun with h1 | h1
              · exact absurd h1 hst
              · exact h1
            have h2 := seqRun_R (tickF f e) ht hr w i m [] _ trR n' w' tr [] hw .nil
              (stopInvNonInvalid_GoodL cs ⟨hwl, hlo⟩) h
            simp only [List.nil_append] at h2
            simp only [leafLogs]
            exact zipR_of_noRunning (noRunL_leafLogsL cs hn)
              (zip_comp (stopInvNonInvalid_leafLogs cs hwl) h2
                (fun _ _ _ h1 h2 => IdRel_trans (StopRel_id h1) (R_id h2)))
          · subst hsh
            have hG : GoodL (before ++ rest) := ⟨hwl, hlo⟩
            rw [GoodL_append] at hG
            have h2 := seqRun_R (tickF f e) ht hr w i m before rest trR n' w' tr _ hw
              (zip_refl R_refl _) hG.2 h
            simpa [leafLogs, leafLogsL_append] using h2
    | sel i m st cur cs =>
      obtain ⟨hwf, hlo⟩ := hg
      simp only [wf, Bool.and_eq_true, decide_eq_true_eq, Bool.or_eq_true, beq_iff_eq] at hwf
      obtain ⟨⟨⟨⟨⟨hwl, hrun⟩, hoc⟩, hnd⟩, _⟩, _⟩ := hwf
      simp only [leavesOK] at hlo
      simp only [tickF, bind, Except.bind] at h
      split at h
      · simp only [pure, Except.pure, Except.ok.injEq, Prod.mk.injEq] at h
        obtain ⟨rfl, rfl, _⟩ := h
        simp only [leafLogs]; exact zip_refl R_refl _
      · cases hen : selEntry st m cur cs with
        | error err => simp [hen] at h
        | ok v =>
          obtain ⟨cur0, before, rest, trP⟩ := v
          simp only [hen] at h
          obtain ⟨a, hsh, hz⟩ := selEntry_shape st m cur cur0 cs before rest trP hwl hen
          subst hsh
          have hG : GoodL (a ++ rest) := ⟨hwl, hlo⟩
          rw [GoodL_append] at hG
          have h2 := selRun_R (tickF f e) ht hr w i m cur0 before rest trP n' w' tr _ hw
            (zip_mono hz (fun _ _ h => R_of_SE h)) hG.2 h
          simpa [leafLogs, leafLogsL_append] using h2
    | par i p st cur cs =>
      obtain ⟨hwf, hlo⟩ := hg
      simp only [wf, Bool.and_eq_true, Bool.or_eq_true, beq_iff_eq, decide_eq_true_eq] at hwf
      obtain ⟨⟨⟨⟨hwl, hrun⟩, hnd⟩, _⟩, _⟩ := hwf
      simp only [leavesOK] at hlo
      simp only [tickF, bind, Except.bind] at h
      split at h
      · simp [throw, throwThe, MonadExceptOf.throw] at h
      · by_cases hst : st = .running
        · simp only [hst, ne_eq, not_true_eq_false, ↓reduceIte, pure, Except.pure] at h
          split at h
          · simp only [Except.ok.injEq, Prod.mk.injEq] at h
            obtain ⟨rfl, rfl, _⟩ := h
            simp only [leafLogs]; exact zip_refl R_refl _
          · simpa [leafLogs] using parRun_R (tickF f e) ht hr w i p cs [] n' w' tr hw ⟨hwl, hlo⟩ h
        · -- fresh entry: nothing below is RUNNING; the children are reset, then ticked
          have hn : noRunL cs = true := by
            rcases hrun with h1 | h1
            · exact absurd h1 hst
            · exact h1
          simp only [ne_eq, hst, not_false_eq_true, ↓reduceIte, pure, Except.pure] at h
          have hS := stopInvNonInvalid_leafLogs cs hwl
          split at h
          · simp only [Except.ok.injEq, Prod.mk.injEq] at h
            obtain ⟨rfl, rfl, _⟩ := h
            simp only [leafLogs]
            exact zip_mono hS (fun _ _ h => R_of_SE (Or.inl h))
          · have h2 := parRun_R (tickF f e) ht hr w i p _ _ n' w' tr hw
              (stopInvNonInvalid_GoodL cs ⟨hwl, hlo⟩) h
            simp only [leafLogs]
            exact zipR_of_noRunning (noRunL_leafLogsL cs hn)
              (zip_comp hS h2 (fun _ _ _ h1 h2 => IdRel_trans (StopRel_id h1) (R_id h2)))
    | dec i k st c =>
      obtain ⟨hwf, hlo⟩ := hg
      simp only [wf, Bool.and_eq_true, Bool.or_eq_true, beq_iff_eq] at hwf
      obtain ⟨⟨⟨hwc, hrun⟩, hk⟩, _⟩ := hwf
      simp only [leavesOK] at hlo
      simp only [tickF] at h
      simp only [leafLogs]
      split at h
      · split at h
        · exact decRun_R (tickF f e) ht hr e w i _ st c n' w' tr hw ⟨hwc, hlo⟩ h
        · exact decBounce_R w i _ .failure c n' w' tr ⟨hwc, hlo⟩ h
      · exact decBounce_R w i _ _ c n' w' tr ⟨hwc, hlo⟩ h
      · exact decRun_R (tickF f e) ht hr e w i _ st c n' w' tr hw ⟨hwc, hlo⟩ h

end C01b

/-- **C01 (RUNNING ⇒ update alone)**: one tick (any fuel) of a good subtree on a sane blackboard keeps the leaves in
    place, and a leaf that is RUNNING before and after the tick has either not been touched or has received exactly
    one `update` (returning RUNNING) — no `terminate`, no `initialise`, no second `update`. -/
theorem C01_running_update_alone (e : Env) (he : ValidEnv e) (f : Nat) (w : Store) (n n' : Node) (w' : Store)
    (tr : List Ev) (hw : WOK w) (hg : Good n) (h : tickF f e w n = .ok (n', w', tr)) :
    Zip2 TickRel (leafLogs n) (leafLogs n') :=
  C01b.zip_mono (C01b.tickF_R e he f w n n' w' tr hw hg h) (fun _ _ h => C01b.R_TickRel h)

/-- the same for every reachable state of a history and one further tick of the root -/
theorem C01_running_update_alone_reachable (ops : List Op) (n0 n : Node) (w : Store) (hf : isFresh n0 = true)
    (hops : ∀ op ∈ ops, ValidOp op) (hrun : run ops n0 Store.empty = .ok (n, w))
    (e : Env) (he : ValidEnv e) (n' : Node) (w' : Store) (tr : List Ev) (h : tick e w n = .ok (n', w', tr)) :
    Zip2 TickRel (leafLogs n) (leafLogs n') := by
  obtain ⟨hg, hw⟩ := reachable_good ops n0 n w hf hops hrun
  exact C01_running_update_alone e he _ w n n' w' tr hw hg h

/-! non-vacuity: a memory Sequence over two probes; first tick (SUCCESS, RUNNING), second tick (_, RUNNING) -/
def C01b_example : Node :=
  .seq 1 true .invalid none [.leaf 2 .invalid .probe [], .leaf 3 .invalid .probe []]
def C01b_env (o2 o3 : Status) : Env :=
  { outcome := fun i => if i = 2 then o2 else o3, guard := fun _ => true, now := 0 }
example : isFresh C01b_example = true := by decide
example : ValidEnv (C01b_env .success .running) := by
  intro i; simp only [C01b_env]; split <;> simp
/-- before the second tick: the first leaf has completed, the second is RUNNING -/
example : (run [.tick (C01b_env .success .running)] C01b_example Store.empty).toOption.map (fun r => leafLogs r.1)
    = some [(2, .success, [.init, .upd .success, .term .success]), (3, .running, [.init, .upd .running])] := by decide
/-- after it: nothing on the first leaf, exactly one more `update` on the second -/
example : (run [.tick (C01b_env .success .running), .tick (C01b_env .failure .running)] C01b_example
      Store.empty).toOption.map (fun r => leafLogs r.1)
    = some [(2, .success, [.init, .upd .success, .term .success]),
            (3, .running, [.init, .upd .running, .upd .running])] := by decide
/-- the relation holds on that pair of states, with the RUNNING premise true and the second disjunct used -/
example : Zip2 TickRel
    [(2, .success, [.init, .upd .success, .term .success]), (3, .running, [.init, .upd .running])]
    [(2, .success, [.init, .upd .success, .term .success]), (3, .running, [.init, .upd .running, .upd .running])] :=
  .cons (by unfold TickRel; decide) (.cons (by unfold TickRel; decide) .nil)
/-- and it is not trivial: an interrupted-and-restarted RUNNING leaf violates it -/
example : ¬ TickRel (3, .running, [.init, .upd .running])
    (3, .running, [.init, .upd .running, .term .invalid, .init, .upd .running]) := by unfold TickRel; decide
/-- nor is a RUNNING leaf updated twice accepted -/
example : ¬ TickRel (3, .running, [.init, .upd .running])
    (3, .running, [.init, .upd .running, .upd .running, .upd .running]) := by unfold TickRel; decide
