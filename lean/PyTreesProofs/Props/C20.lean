import PyTreesModel.Display
open DTree

/-!
  C20 (structure part): "The text form has exactly one line per behaviour in depth-first order with indentation
  proportional to depth, and the dot graph has exactly one uniquely named node per displayed behaviour and one
  edge per displayed parent-child link even when behaviour names collide, a subtree hidden by a
  blackbox/visibility level or a collapsed decorator being omitted as a whole."

  The read-only clause of C20 (rendering never changes statuses, feedback messages, the blackboard or the
  activity stream) holds trivially in this functional model: rendering is a function whose only result is the
  rendering, there is no state it could change. It is therefore NOT claimed as a theorem here; the
  correspondence harness checks it on the real code in every runtime state.
-/

namespace DTree

/-! ### independent specifications -/

mutual
/-- depth-first pre-order list of (depth, name) -/
def pre (d : Nat) : DTree → List (Nat × Name)
| node n _ _ cs => (d, n) :: preL (d + 1) cs
def preL (d : Nat) : List DTree → List (Nat × Name)
| [] => []
| c :: cs => pre d c ++ preL d cs
end

mutual
/-- number of displayed behaviours: a subtree below a collapsed decorator or below a blackbox at or above the
    visibility level is omitted as a whole (its root is still shown) -/
def shown (vis : Nat) (collapse : Bool) : DTree → Nat
| node _ bb isDec cs =>
    1 + (if (isDec && collapse) || !(decide (vis < bb)) then 0 else shownL vis collapse cs)
def shownL (vis : Nat) (collapse : Bool) : List DTree → Nat
| [] => 0
| c :: cs => shown vis collapse c + shownL vis collapse cs
end

/-! ### text tree -/

mutual
theorem textLines_length (indent : Nat) : ∀ (t : DTree) (depth : Nat),
    (textLines indent depth t).length = size t
  | node n bb d cs, depth => by
      simp only [textLines, size, List.length_cons, textLinesL_length indent cs (depth + 1)]
      omega
theorem textLinesL_length (indent : Nat) : ∀ (cs : List DTree) (depth : Nat),
    (textLinesL indent depth cs).length = sizeL cs
  | [], depth => by simp [textLinesL, sizeL]
  | c :: cs, depth => by
      simp only [textLinesL, sizeL, List.length_append, textLines_length indent c depth,
        textLinesL_length indent cs depth]
end

mutual
theorem textLines_pre (indent : Nat) : ∀ (t : DTree) (depth : Nat),
    textLines indent depth t
      = (pre depth t).map (fun p => (4 * (indent + p.1), oneLine p.2))
  | node n bb d cs, depth => by
      simp only [textLines, pre, List.map_cons, textLinesL_pre indent cs (depth + 1)]
theorem textLinesL_pre (indent : Nat) : ∀ (cs : List DTree) (depth : Nat),
    textLinesL indent depth cs
      = (preL depth cs).map (fun p => (4 * (indent + p.1), oneLine p.2))
  | [], depth => by simp [textLinesL, preL]
  | c :: cs, depth => by
      simp only [textLinesL, preL, List.map_append, textLines_pre indent c depth,
        textLinesL_pre indent cs depth]
end

/-! ### fresh names -/

/-- the `k`-th candidate of the de-duplication loop -/
def star (n : Name) (k : Nat) : Name := n ++ List.replicate k '*'

theorem star_succ (n : Name) (k : Nat) : star (n ++ ['*']) k = star n (k+1) := by
  simp [star, List.replicate_succ]

theorem star_inj (n : Name) {a b : Nat} (h : star n a = star n b) : a = b := by
  have := congrArg List.length h
  simp [star] at this; exact this

/-- the result is `n` with some stars; all shorter candidates were taken -/
theorem freshName_spec (used : List Name) : ∀ (f : Nat) (n : Name),
    ∃ k, k ≤ f ∧ freshName used n f = star n k ∧ (∀ j < k, star n j ∈ used) ∧
      (k < f → star n k ∉ used)
| 0, n => ⟨0, Nat.le_refl _, by simp [freshName, star], by simp, by simp⟩
| f+1, n => by
    by_cases h : n ∈ used
    · obtain ⟨k, hk, he, hall, hlt⟩ := freshName_spec used f (n ++ ['*'])
      refine ⟨k+1, by omega, by simp [freshName, h, he, star_succ], ?_, ?_⟩
      · intro j hj
        cases j with
        | zero => simpa [star] using h
        | succ j => rw [← star_succ]; exact hall j (by omega)
      · intro hkf; rw [← star_succ]; exact hlt (by omega)
    · exact ⟨0, by omega, by simp [freshName, h, star], by simp, by intro _; simpa [star] using h⟩

/-- pigeonhole: the candidates `star n 0 … star n m` are pairwise distinct, so they cannot all lie in a list of
    length `m` -/
theorem not_all_in (used : List Name) (n : Name) : ∃ k, k ≤ used.length ∧ star n k ∉ used := by
  by_cases h : ∀ k, k ≤ used.length → star n k ∈ used
  · exfalso
    have hnd : ((List.range (used.length + 1)).map (star n)).Nodup := by
      have hr : (List.range (used.length + 1)).Nodup := List.nodup_range
      unfold List.Nodup at hr ⊢
      exact List.Pairwise.map (star n) (fun a b hab e => hab (star_inj n e)) hr
    have hsub : (List.range (used.length + 1)).map (star n) ⊆ used := by
      intro x hx
      simp only [List.mem_map, List.mem_range] at hx
      obtain ⟨k, hk, rfl⟩ := hx
      exact h k (by omega)
    have := hnd.length_le_of_subset hsub
    simp at this
    omega
  · have : ∃ k, ¬ (k ≤ used.length → star n k ∈ used) := Classical.not_forall.mp h
    obtain ⟨k, hk⟩ := this
    exact ⟨k, Classical.byContradiction (fun hc => hk (fun h' => absurd h' hc)),
      fun hm => hk (fun _ => hm)⟩

theorem freshName_not_mem (used : List Name) (n : Name) :
    freshName used n (used.length + 1) ∉ used := by
  obtain ⟨k, hk, he, hall, hlt⟩ := freshName_spec used (used.length + 1) n
  obtain ⟨k0, hk0, hn0⟩ := not_all_in used n
  rw [he]
  by_cases hkk : k < used.length + 1
  · exact hlt hkk
  · exact absurd (hall k0 (by omega)) hn0

theorem freshName_id (used : List Name) (n : Name) (f : Nat) (h : n ∉ used) :
    freshName used n f = n := by
  cases f with
  | zero => rfl
  | succ f => simp [freshName, h]

/-! ### dot graph -/

theorem addChildren_leaf (vis : Nat) (collapse : Bool) (g : Dot) (nm n : Name) (bb : Nat) (d : Bool) :
    addChildren vis collapse g nm (node n bb d []) = g := by
  simp [addChildren, addChildrenL]

/-- one step of `addChildrenL` without the childless-child shortcut -/
theorem addChildrenL_cons (vis : Nat) (collapse : Bool) (g : Dot) (rn : Name) (c : DTree)
    (cs : List DTree) :
    addChildrenL vis collapse g rn (c :: cs)
      = addChildrenL vis collapse
          (addChildren vis collapse
            { used := g.used ++ [freshName g.used c.name (g.used.length + 1)],
              edges := g.edges ++ [(rn, freshName g.used c.name (g.used.length + 1))] }
            (freshName g.used c.name (g.used.length + 1)) c) rn cs := by
  cases c with
  | node n bb d cs' =>
    cases cs' with
    | nil => simp only [addChildrenL, addChildren_leaf]
    | cons c' cs'' => simp only [addChildrenL]

/-- the invariant of the graph under construction -/
structure Inv (g : Dot) : Prop where
  nodup : g.used.Nodup
  shape : g.edges.length + 1 = g.used.length
  ends : ∀ e ∈ g.edges, e.1 ∈ g.used ∧ e.2 ∈ g.used

theorem Inv_step {g : Dot} (hi : Inv g) {rn : Name} (hr : rn ∈ g.used) (n : Name) :
    Inv { used := g.used ++ [freshName g.used n (g.used.length + 1)],
          edges := g.edges ++ [(rn, freshName g.used n (g.used.length + 1))] } := by
  have hf := freshName_not_mem g.used n
  refine ⟨?_, ?_, ?_⟩
  · show (g.used ++ [_]).Nodup
    rw [List.nodup_append]
    refine ⟨hi.nodup, by simp, ?_⟩
    intro a ha b hb
    simp only [List.mem_singleton] at hb
    subst hb
    intro hab; subst hab; exact hf ha
  · have := hi.shape
    simp only [List.length_append, List.length_singleton]
    omega
  · intro e he
    simp only [List.mem_append, List.mem_singleton] at he ⊢
    rcases he with he | rfl
    · exact ⟨Or.inl (hi.ends e he).1, Or.inl (hi.ends e he).2⟩
    · exact ⟨Or.inl hr, Or.inr rfl⟩

mutual
theorem addChildren_spec (vis : Nat) (collapse : Bool) : ∀ (t : DTree) (g : Dot) (rn : Name),
    Inv g → rn ∈ g.used →
      Inv (addChildren vis collapse g rn t) ∧
      g.used ⊆ (addChildren vis collapse g rn t).used ∧
      (addChildren vis collapse g rn t).used.length + 1 = g.used.length + shown vis collapse t
  | node n bb d cs, g, rn, hi, hr => by
      simp only [addChildren, shown]
      by_cases h1 : (d && collapse) = true
      · simp [h1, hi]
      · by_cases h2 : vis < bb
        · have ih := addChildrenL_spec vis collapse cs g rn hi hr
          simp only [Bool.not_eq_true] at h1
          simp only [h1, h2, if_true, Bool.false_eq_true, if_false, decide_true, Bool.not_true,
            Bool.or_self]
          refine ⟨ih.1, ih.2.1, ?_⟩
          have := ih.2.2
          omega
        · simp [h1, h2, hi]
theorem addChildrenL_spec (vis : Nat) (collapse : Bool) : ∀ (cs : List DTree) (g : Dot) (rn : Name),
    Inv g → rn ∈ g.used →
      Inv (addChildrenL vis collapse g rn cs) ∧
      g.used ⊆ (addChildrenL vis collapse g rn cs).used ∧
      (addChildrenL vis collapse g rn cs).used.length = g.used.length + shownL vis collapse cs
  | [], g, rn, hi, hr => by simp [addChildrenL, shownL, hi]
  | c :: cs, g, rn, hi, hr => by
      rw [addChildrenL_cons]
      have h1 := addChildren_spec vis collapse c _ (freshName g.used c.name (g.used.length + 1))
        (Inv_step hi hr c.name) (by simp)
      have h2 := addChildrenL_spec vis collapse cs _ rn h1.1
        (h1.2.1 (List.mem_append_left _ hr))
      refine ⟨h2.1, ?_, ?_⟩
      · intro x hx
        exact h2.2.1 (h1.2.1 (List.mem_append_left _ hx))
      · have e1 := h1.2.2
        have e2 := h2.2.2
        simp only [List.length_append, List.length_singleton] at e1
        simp only [shownL]
        omega
end

theorem Inv_init (n : Name) : Inv { used := [n], edges := [] } :=
  ⟨by simp, by simp, by simp⟩

theorem dotTree_spec (vis : Nat) (collapse : Bool) (t : DTree) :
    Inv (dotTree vis collapse t) ∧
      (dotTree vis collapse t).used.length = shown vis collapse t := by
  have h := addChildren_spec vis collapse t { used := [t.name], edges := [] } t.name
    (Inv_init t.name) (by simp)
  refine ⟨h.1, ?_⟩
  have := h.2.2
  simp only [List.length_singleton] at this
  unfold dotTree
  omega

end DTree

/-! ## C20 theorems -/

/-- exactly one line per behaviour -/
theorem C20_lines_count (indent depth : Nat) (t : DTree) :
    (textLines indent depth t).length = size t :=
  DTree.textLines_length indent t depth

/-- the i-th line belongs to the i-th behaviour in depth-first pre-order, is indented by `4·(indent + depth)`
    space symbols and shows the name with newlines replaced by blanks -/
theorem C20_lines_preorder (indent depth : Nat) (t : DTree) :
    textLines indent depth t
      = (pre depth t).map (fun p => (4 * (indent + p.1), oneLine p.2)) :=
  DTree.textLines_pre indent t depth

/-- a rendered name never contains a newline: one line per behaviour even for multi-line names -/
theorem C20_oneLine_no_newline (n : Name) : '\n' ∉ oneLine n := by
  unfold oneLine
  intro h
  simp only [List.mem_map] at h
  obtain ⟨c, _, hc⟩ := h
  split at hc
  · exact absurd hc (by decide)
  · rename_i hne; exact hne hc

/-- every line of the text tree is a single line -/
theorem C20_lines_no_newline (indent depth : Nat) (t : DTree) :
    ∀ l ∈ textLines indent depth t, '\n' ∉ l.2 := by
  intro l hl
  rw [C20_lines_preorder] at hl
  simp only [List.mem_map] at hl
  obtain ⟨p, _, rfl⟩ := hl
  exact C20_oneLine_no_newline p.2

/-- the de-duplication loop terminates within its fuel with a name that is not in use, for any names
    (duplicates, names already ending in `*`, …) -/
theorem C20_fresh_not_used (used : List Name) (n : Name) :
    freshName used n (used.length + 1) ∉ used :=
  DTree.freshName_not_mem used n

/-- no suffix is added unless needed -/
theorem C20_fresh_id (used : List Name) (n : Name) (f : Nat) (h : n ∉ used) :
    freshName used n f = n :=
  DTree.freshName_id used n f h

/-- the de-duplicated name is the behaviour's name followed by stars only -/
theorem C20_fresh_is_starred (used : List Name) (n : Name) (f : Nat) :
    ∃ k, freshName used n f = n ++ List.replicate k '*' := by
  obtain ⟨k, _, he, _⟩ := DTree.freshName_spec used f n
  exact ⟨k, he⟩

/-- dot node names are pairwise distinct for any assignment of behaviour names -/
theorem C20_dot_unique (vis : Nat) (collapse : Bool) (t : DTree) :
    (dotTree vis collapse t).used.Nodup :=
  (DTree.dotTree_spec vis collapse t).1.nodup

/-- #edges = #nodes − 1 and every edge joins two nodes of the graph -/
theorem C20_dot_tree_shape (vis : Nat) (collapse : Bool) (t : DTree) :
    (dotTree vis collapse t).edges.length + 1 = (dotTree vis collapse t).used.length ∧
    ∀ e ∈ (dotTree vis collapse t).edges,
      e.1 ∈ (dotTree vis collapse t).used ∧ e.2 ∈ (dotTree vis collapse t).used :=
  ⟨(DTree.dotTree_spec vis collapse t).1.shape, (DTree.dotTree_spec vis collapse t).1.ends⟩

/-- the number of dot nodes is the number of displayed behaviours -/
theorem C20_dot_count (vis : Nat) (collapse : Bool) (t : DTree) :
    (dotTree vis collapse t).used.length = shown vis collapse t :=
  (DTree.dotTree_spec vis collapse t).2

/-- `addChildren` on a behaviour without children adds nothing (so the shortcut in `addChildrenL` is harmless) -/
theorem C20_dot_leaf (vis : Nat) (collapse : Bool) (g : Dot) (nm n : Name) (bb : Nat) (d : Bool) :
    addChildren vis collapse g nm (node n bb d []) = g :=
  DTree.addChildren_leaf vis collapse g nm n bb d

/-! ## non-vacuity -/

section Examples

/-- three children named "A", "A", "A*" under one root -/
private def collide : DTree :=
  node "root".toList 4 false
    [node "A".toList 4 false [], node "A".toList 4 false [], node "A*".toList 4 false []]

example : (dotTree 0 false collide).used
    = ["root".toList, "A".toList, "A*".toList, "A**".toList] := by decide
example : (dotTree 0 false collide).edges
    = [("root".toList, "A".toList), ("root".toList, "A*".toList), ("root".toList, "A**".toList)] := by
  decide
example : (dotTree 0 false collide).used.Nodup := by decide
example : shown 0 false collide = 4 := by decide
example : (textLines 0 0 collide).length = 4 := by decide

/-- the loop really needs its fuel: two stars are appended -/
example : freshName ["A".toList, "A*".toList] "A".toList 3 = "A**".toList := by decide
example : freshName ["B".toList] "A".toList 2 = "A".toList := by decide

/-- a two-line name renders as one line -/
example : textLines 1 0 (node "two\nlines".toList 4 false [node "x".toList 4 false []])
    = [(4, "two lines".toList), (8, "x".toList)] := by decide
example : '\n' ∈ "two\nlines".toList := by decide

/-- a decorator over a sequence with two leaves, itself under a root -/
private def deco : DTree :=
  node "root".toList 4 false
    [node "dec".toList 4 true
      [node "seq".toList 4 false [node "a".toList 4 false [], node "b".toList 4 false []]]]

/-- shown in full -/
example : (dotTree 0 false deco).used
    = ["root".toList, "dec".toList, "seq".toList, "a".toList, "b".toList] := by decide
example : (dotTree 0 false deco).edges
    = [("root".toList, "dec".toList), ("dec".toList, "seq".toList),
       ("seq".toList, "a".toList), ("seq".toList, "b".toList)] := by decide
/-- a collapsed decorator hides its whole subtree, but is itself shown -/
example : (dotTree 0 true deco).used = ["root".toList, "dec".toList] := by decide
example : (dotTree 0 true deco).edges = [("root".toList, "dec".toList)] := by decide
example : shown 0 true deco = 2 ∧ shown 0 false deco = 5 := by decide

/-- a blackbox (level 2) at or above the visibility level 2 hides its children; at level 1 they are shown -/
private def bbox : DTree :=
  node "root".toList 4 false
    [node "box".toList 2 false [node "in".toList 4 false [node "deep".toList 4 false []]],
     node "in".toList 4 false []]

example : (dotTree 2 false bbox).used = ["root".toList, "box".toList, "in".toList] := by decide
example : (dotTree 1 false bbox).used
    = ["root".toList, "box".toList, "in".toList, "deep".toList, "in*".toList] := by decide
example : (dotTree 1 false bbox).edges
    = [("root".toList, "box".toList), ("box".toList, "in".toList), ("in".toList, "deep".toList),
       ("root".toList, "in*".toList)] := by decide
example : shown 2 false bbox = 3 ∧ shown 1 false bbox = 5 := by decide

end Examples
