/-
  C14 — the blackboard's per-location metadata and its client registry mirror the live registrations.
  (K4 / K5: the property is false in two corners; the preservation theorems carry explicit excluding hypotheses and
  the corners are exhibited as machine-checked counterexamples.)
-/
import PyTreesModel.BlackboardOps
set_option linter.unusedVariables false
set_option linter.unusedSimpArgs false

/-! ### 1. association lists and sets -/

namespace AL

/-- the keys of the association list are distinct -/
def NoDup {β : Type} (l : List (String × β)) : Prop := (l.map (·.1)).Nodup

theorem get_eq_none_iff {β : Type} (k : String) (l : List (String × β)) :
    get k l = none ↔ k ∉ l.map (·.1) := by
  induction l with
  | nil => simp [get]
  | cons a l ih =>
    obtain ⟨k', v⟩ := a
    simp only [get, List.map_cons, List.mem_cons, not_or]
    by_cases h : k' = k
    · simp [h]
    · simp only [h, if_false, ih]
      constructor
      · intro hh; exact ⟨fun e => h e.symm, hh⟩
      · intro hh; exact hh.2

theorem has_iff_mem {β : Type} (k : String) (l : List (String × β)) :
    has k l = true ↔ k ∈ l.map (·.1) := by
  unfold has
  cases h : get k l with
  | none => simp [(get_eq_none_iff k l).1 h]
  | some v =>
    simp only [Option.isSome_some, true_iff]
    apply Classical.byContradiction
    intro hn
    rw [(get_eq_none_iff k l).2 hn] at h
    cases h

theorem get_put_same {β : Type} (k : String) (v : β) (l : List (String × β)) :
    get k (put k v l) = some v := by
  induction l with
  | nil => simp [put, get]
  | cons a l ih =>
    obtain ⟨k', v'⟩ := a
    by_cases h : k' = k <;> simp [put, get, h, ih]

theorem get_put_other {β : Type} (k k' : String) (v : β) (l : List (String × β)) (hne : k' ≠ k) :
    get k' (put k v l) = get k' l := by
  induction l with
  | nil => simp [put, get, Ne.symm hne]
  | cons a l ih =>
    obtain ⟨k₁, v₁⟩ := a
    by_cases h : k₁ = k
    · subst h
      simp [put, get, Ne.symm hne]
    · by_cases h' : k₁ = k'
      · subst h'; simp [put, get, h]
      · simp [put, get, h, h', ih]

theorem get_put {β : Type} (k k' : String) (v : β) (l : List (String × β)) :
    get k' (put k v l) = if k' = k then some v else get k' l := by
  by_cases h : k' = k
  · subst h; simp [get_put_same]
  · simp [h, get_put_other k k' v l h]

theorem get_del_other {β : Type} (k k' : String) (l : List (String × β)) (hne : k' ≠ k) :
    get k' (del k l) = get k' l := by
  induction l with
  | nil => simp [del, get]
  | cons a l ih =>
    obtain ⟨k₁, v₁⟩ := a
    by_cases h : k₁ = k
    · subst h
      simp [del, get, Ne.symm hne]
    · by_cases h' : k₁ = k'
      · subst h'; simp [del, get, h]
      · simp [del, get, h, h', ih]

theorem keys_del_sub {β : Type} (k x : String) (l : List (String × β)) :
    x ∈ (del k l).map (·.1) → x ∈ l.map (·.1) := by
  induction l with
  | nil => simp [del]
  | cons a l ih =>
    obtain ⟨k₁, v₁⟩ := a
    by_cases h : k₁ = k
    · simp only [del, h, if_true, List.map_cons, List.mem_cons]
      intro hx; exact Or.inr hx
    · simp only [del, h, if_false, List.map_cons, List.mem_cons]
      rintro (hx | hx)
      · exact Or.inl hx
      · exact Or.inr (ih hx)

theorem get_del_same {β : Type} (k : String) (l : List (String × β)) (hnd : NoDup l) :
    get k (del k l) = none := by
  induction l with
  | nil => simp [del, get]
  | cons a l ih =>
    obtain ⟨k₁, v₁⟩ := a
    simp only [NoDup, List.map_cons, List.nodup_cons] at hnd
    by_cases h : k₁ = k
    · subst h
      simp only [del, if_true]
      exact (get_eq_none_iff _ _).2 hnd.1
    · simp only [del, h, if_false, get]
      exact ih hnd.2

theorem get_del {β : Type} (k k' : String) (l : List (String × β)) (hnd : NoDup l) :
    get k' (del k l) = if k' = k then none else get k' l := by
  by_cases h : k' = k
  · subst h; simp [get_del_same _ _ hnd]
  · simp [h, get_del_other k k' l h]

theorem has_put {β : Type} (k k' : String) (v : β) (l : List (String × β)) :
    has k' (put k v l) = (decide (k' = k) || has k' l) := by
  unfold has
  rw [get_put]
  by_cases h : k' = k <;> simp [h]

theorem has_del {β : Type} (k k' : String) (l : List (String × β)) (hnd : NoDup l) :
    has k' (del k l) = (!decide (k' = k) && has k' l) := by
  unfold has
  rw [get_del _ _ _ hnd]
  by_cases h : k' = k <;> simp [h]

theorem keys_put_sub {β : Type} (k x : String) (v : β) (l : List (String × β)) :
    x ∈ (put k v l).map (·.1) → x = k ∨ x ∈ l.map (·.1) := by
  intro hx
  have h1 := (has_iff_mem x (put k v l)).2 hx
  rw [has_put] at h1
  simp only [Bool.or_eq_true, decide_eq_true_eq] at h1
  rcases h1 with h1 | h1
  · exact Or.inl h1
  · exact Or.inr ((has_iff_mem x l).1 h1)

theorem NoDup_put {β : Type} (k : String) (v : β) (l : List (String × β)) (hnd : NoDup l) :
    NoDup (put k v l) := by
  induction l with
  | nil => simp [put, NoDup]
  | cons a l ih =>
    obtain ⟨k₁, v₁⟩ := a
    simp only [NoDup, List.map_cons, List.nodup_cons] at hnd
    by_cases h : k₁ = k
    · subst h
      simp only [put, if_true, NoDup, List.map_cons, List.nodup_cons]
      exact hnd
    · simp only [put, h, if_false, NoDup, List.map_cons, List.nodup_cons]
      refine ⟨?_, ih hnd.2⟩
      intro hx
      rcases keys_put_sub k k₁ v l hx with hx | hx
      · exact h hx
      · exact hnd.1 hx

theorem NoDup_del {β : Type} (k : String) (l : List (String × β)) (hnd : NoDup l) :
    NoDup (del k l) := by
  induction l with
  | nil => simp [del, NoDup]
  | cons a l ih =>
    obtain ⟨k₁, v₁⟩ := a
    simp only [NoDup, List.map_cons, List.nodup_cons] at hnd
    by_cases h : k₁ = k
    · simp only [del, h, if_true]
      exact hnd.2
    · simp only [del, h, if_false, NoDup, List.map_cons, List.nodup_cons]
      exact ⟨fun hx => hnd.1 (keys_del_sub k k₁ l hx), ih hnd.2⟩

/-- under `NoDup`, `get` agrees with the list entry -/
theorem get_of_mem {β : Type} (k : String) (v : β) (l : List (String × β)) (hnd : NoDup l)
    (hm : (k, v) ∈ l) : get k l = some v := by
  induction l with
  | nil => cases hm
  | cons a l ih =>
    obtain ⟨k₁, v₁⟩ := a
    simp only [NoDup, List.map_cons, List.nodup_cons] at hnd
    simp only [List.mem_cons, Prod.mk.injEq] at hm
    rcases hm with ⟨rfl, rfl⟩ | hm
    · simp [get]
    · have hne : k₁ ≠ k := by
        intro e; subst e
        exact hnd.1 (List.mem_map.2 ⟨(k₁, v), hm, rfl⟩)
      simp only [get, hne, if_false]
      exact ih hnd.2 hm

theorem mem_of_get {β : Type} (k : String) (v : β) (l : List (String × β))
    (hg : get k l = some v) : (k, v) ∈ l := by
  induction l with
  | nil => simp [get] at hg
  | cons a l ih =>
    obtain ⟨k₁, v₁⟩ := a
    by_cases h : k₁ = k
    · simp only [get, h, if_true, Option.some.injEq] at hg
      subst h; subst hg; simp
    · simp only [get, h, if_false] at hg
      exact List.mem_cons_of_mem _ (ih hg)

end AL

namespace SetL

theorem mem_add {α : Type} [DecidableEq α] (x y : α) (s : List α) : x ∈ add y s ↔ x = y ∨ x ∈ s := by
  unfold add
  by_cases h : y ∈ s
  · simp only [h, if_true]
    constructor
    · exact Or.inr
    · rintro (rfl | hx)
      · exact h
      · exact hx
  · simp only [h, if_false, List.mem_append, List.mem_singleton]
    constructor
    · rintro (hx | hx)
      · exact Or.inr hx
      · exact Or.inl hx
    · rintro (hx | hx)
      · exact Or.inr hx
      · exact Or.inl hx

theorem mem_discard {α : Type} [DecidableEq α] (x y : α) (s : List α) : x ∈ discard y s ↔ x ≠ y ∧ x ∈ s := by
  unfold discard
  simp only [List.mem_filter, decide_eq_true_eq]
  exact And.comm

end SetL

/-! ### the mirror invariant -/

/-- client `cl` uses location `loc` with access `lvl`: one of its keys registered with `lvl` is remapped to `loc` -/
def usesAs (cl : Client) (lvl : Access) (loc : String) : Prop :=
  ∃ k, (match lvl with | .read => k ∈ cl.read | .write => k ∈ cl.write | .exclusive => k ∈ cl.excl) ∧
    AL.get k cl.remap = some loc

/-- the per-location metadata is exactly the set of live registrations -/
def Mirror (s : BB) : Prop :=
  (∀ loc c, c ∈ (BB.metaOf s loc).read ↔ ∃ cl, s.client? c = some cl ∧ usesAs cl .read loc) ∧
  (∀ loc c, c ∈ (BB.metaOf s loc).write ↔ ∃ cl, s.client? c = some cl ∧ usesAs cl .write loc) ∧
  (∀ loc c, c ∈ (BB.metaOf s loc).excl ↔ ∃ cl, s.client? c = some cl ∧ usesAs cl .exclusive loc) ∧
  (∀ loc, AL.has loc s.metadata = true ↔ ∃ c cl lvl, s.client? c = some cl ∧ usesAs cl lvl loc)

/-- `Mirror` plus the well-formedness facts: metadata keys distinct, every registered key has a remap entry, every
    remap entry belongs to a registered key, remap keys distinct.  (Named `BB.Inv` because core Lean already has a
    class called `Inv`.) -/
def BB.Inv (s : BB) : Prop :=
  Mirror s ∧ AL.NoDup s.metadata ∧
  (∀ c cl, s.client? c = some cl → ∀ k, k ∈ cl.read ∨ k ∈ cl.write ∨ k ∈ cl.excl → (AL.get k cl.remap).isSome) ∧
  (∀ c cl, s.client? c = some cl → ∀ k loc, AL.get k cl.remap = some loc → k ∈ cl.read ∨ k ∈ cl.write ∨ k ∈ cl.excl) ∧
  (∀ c cl, s.client? c = some cl → AL.NoDup cl.remap)

/-- K4 excluded: the call does not change an existing remapping of `key` -/
def NoRemapChange (cl : Client) (key loc : String) : Prop :=
  AL.get key cl.remap = none ∨ AL.get key cl.remap = some loc
/-- K5 excluded: no OTHER key of this client maps to `loc` -/
def NoSelfAlias (cl : Client) (key loc : String) : Prop := ∀ k, k ≠ key → AL.get k cl.remap ≠ some loc

namespace C14

/-- the registered keys of a client at one access level -/
def kset (cl : Client) : Access → List String
| .read => cl.read
| .write => cl.write
| .exclusive => cl.excl

/-- the recorded clients of a location at one access level -/
def mset (m : Meta) : Access → List Nat
| .read => m.read
| .write => m.write
| .exclusive => m.excl

theorem usesAs_iff (cl : Client) (lvl : Access) (loc : String) :
    usesAs cl lvl loc ↔ ∃ k, k ∈ kset cl lvl ∧ AL.get k cl.remap = some loc := by
  cases lvl <;> exact Iff.rfl

/-- executable `usesAs` -/
def usesAsB (cl : Client) (lvl : Access) (loc : String) : Bool :=
  (kset cl lvl).any (fun k => AL.get k cl.remap == some loc)

theorem usesAsB_iff (cl : Client) (lvl : Access) (loc : String) :
    usesAsB cl lvl loc = true ↔ usesAs cl lvl loc := by
  rw [usesAs_iff]
  simp [usesAsB, List.any_eq_true]

/-- the uniform reading of `Mirror` -/
theorem mirror_iff (s : BB) :
    Mirror s ↔ (∀ lvl loc c, c ∈ mset (BB.metaOf s loc) lvl ↔ ∃ cl, s.client? c = some cl ∧ usesAs cl lvl loc) ∧
      (∀ loc, AL.has loc s.metadata = true ↔ ∃ c cl lvl, s.client? c = some cl ∧ usesAs cl lvl loc) := by
  constructor
  · rintro ⟨h1, h2, h3, h4⟩
    refine ⟨?_, h4⟩
    intro lvl
    cases lvl
    · exact h1
    · exact h2
    · exact h3
  · rintro ⟨h, h4⟩
    exact ⟨h .read, h .write, h .exclusive, h4⟩

/-- Boolean recognisers for results (`Res` has no `DecidableEq`) -/
def isOk : Res → Bool
| .ok => true
| _ => false
def isAttrError : Res → Bool
| .attrError => true
| _ => false
def isKeyError : Res → Bool
| .keyError => true
| _ => false

theorem isOk_eq {r : Res} (h : isOk r = true) : r = .ok := by
  unfold isOk at h; split at h
  · rfl
  · cases h
theorem isAttrError_eq {r : Res} (h : isAttrError r = true) : r = .attrError := by
  unfold isAttrError at h; split at h
  · rfl
  · cases h
theorem isKeyError_eq {r : Res} (h : isKeyError r = true) : r = .keyError := by
  unfold isKeyError at h; split at h
  · rfl
  · cases h

end C14

/-! ### 5. the client registry -/

theorem C14_registry_new (s : BB) (ns : String) : (s.newClient ns).2 ∈ (s.newClient ns).1.registry := by
  simp only [BB.newClient]
  exact (SetL.mem_add _ _ _).2 (Or.inl rfl)

theorem C14_registry_unregister (s : BB) (c : Nat) (clear : Bool) (order : List String → List String)
    (h : (s.unregister c clear order).2 = .ok) : c ∉ (s.unregister c clear order).1.registry := by
  unfold BB.unregister at h ⊢
  rcases hr : BB.unregisterAll s c clear order with ⟨s1, r1⟩
  rw [hr] at h
  cases r1 <;> simp only at h ⊢ <;> try (cases h; done)
  all_goals
    by_cases hc : c ∈ s1.registry
    · simp only [hc, if_true]
      intro hm
      exact ((SetL.mem_discard _ _ _).1 hm).1 rfl
    · simp [hc] at h

theorem C14_registry (s : BB) (ns : String) (c : Nat) (clear : Bool) :
    (s.newClient ns).2 ∈ (s.newClient ns).1.registry ∧
    ((s.unregister c clear).2 = .ok → c ∉ (s.unregister c clear).1.registry) :=
  ⟨C14_registry_new s ns, C14_registry_unregister s c clear id⟩

/-! ### 6. key listings -/

theorem BB.mem_keys_iff (s : BB) (k : String) : k ∈ s.keys ↔ AL.has k s.metadata = true := by
  rw [AL.has_iff_mem]; rfl

/-- under `NoDup`, `metaOf` agrees with the list entry -/
theorem BB.metaOf_of_mem (s : BB) (k : String) (m : Meta) (hnd : AL.NoDup s.metadata) (hm : (k, m) ∈ s.metadata) :
    BB.metaOf s k = m := by
  simp [BB.metaOf, AL.get_of_mem k m s.metadata hnd hm]

theorem C14_filters_clients (s : BB) (ids : List Nat) (k : String) (hnd : AL.NoDup s.metadata) :
    k ∈ s.keysByClients ids ↔
      k ∈ s.keys ∧ ∃ c ∈ ids, c ∈ (BB.metaOf s k).read ∨ c ∈ (BB.metaOf s k).write ∨ c ∈ (BB.metaOf s k).excl := by
  unfold BB.keysByClients BB.keys
  simp only [List.mem_map, List.mem_filter, List.any_eq_true, List.mem_append, decide_eq_true_eq]
  constructor
  · rintro ⟨⟨k', m⟩, ⟨hm, c, hc, hids⟩, rfl⟩
    refine ⟨⟨(k', m), hm, rfl⟩, c, hids, ?_⟩
    rw [BB.metaOf_of_mem s k' m hnd hm]
    rcases hc with (hc | hc) | hc
    · exact Or.inl hc
    · exact Or.inr (Or.inl hc)
    · exact Or.inr (Or.inr hc)
  · rintro ⟨⟨⟨k', m⟩, hm, rfl⟩, c, hids, hc⟩
    rw [BB.metaOf_of_mem s k' m hnd hm] at hc
    refine ⟨(k', m), ⟨hm, c, ?_, hids⟩, rfl⟩
    rcases hc with hc | hc | hc
    · exact Or.inl (Or.inl hc)
    · exact Or.inl (Or.inr hc)
    · exact Or.inr hc

/-- the literal-pattern test is the substring relation -/
theorem BB.isInfix_iff (p l : List Char) : BB.isInfix p l = true ↔ ∃ a b, l = a ++ p ++ b := by
  induction l with
  | nil =>
    simp only [BB.isInfix, List.isEmpty_iff]
    constructor
    · rintro rfl; exact ⟨[], [], rfl⟩
    · rintro ⟨a, b, h⟩
      have h' := congrArg List.length h
      simp only [List.length_nil, List.length_append] at h'
      exact List.eq_nil_of_length_eq_zero (by omega)
  | cons c t ih =>
    simp only [BB.isInfix, Bool.or_eq_true, List.isPrefixOf_iff_prefix, ih]
    constructor
    · rintro (⟨b, hb⟩ | ⟨a, b, h⟩)
      · exact ⟨[], b, by simpa using hb.symm⟩
      · exact ⟨c :: a, b, by simp [h]⟩
    · rintro ⟨a, b, h⟩
      cases a with
      | nil => exact Or.inl ⟨b, by simpa using h.symm⟩
      | cons x a' =>
        simp only [List.cons_append, List.cons.injEq] at h
        exact Or.inr ⟨a', b, h.2⟩

theorem C14_filters_literal (s : BB) (lit k : String) :
    k ∈ s.keysByLiteral lit ↔ k ∈ s.keys ∧ BB.isInfix lit.toList k.toList = true := by
  unfold BB.keysByLiteral
  simp only [List.mem_filter]

theorem C14_filters (s : BB) (hnd : AL.NoDup s.metadata) :
    (∀ ids k, k ∈ s.keysByClients ids ↔
      k ∈ s.keys ∧ ∃ c ∈ ids, c ∈ (BB.metaOf s k).read ∨ c ∈ (BB.metaOf s k).write ∨ c ∈ (BB.metaOf s k).excl) ∧
    (∀ lit k, k ∈ s.keysByLiteral lit ↔ k ∈ s.keys ∧ ∃ a b, k.toList = a ++ lit.toList ++ b) := by
  refine ⟨fun ids k => C14_filters_clients s ids k hnd, fun lit k => ?_⟩
  rw [C14_filters_literal, BB.isInfix_iff]

/-! ### 8. K4 / K5: the two corners where the mirror property is false -/

namespace C14

/-- K4: one client registers the same key twice with different remap targets -/
def k4ops : List BOp :=
  [.new "", .register 0 "k" (some .write) false (some "/L"), .register 0 "k" (some .write) false (some "/M")]

/-- K5: one client maps two of its keys onto one location and unregisters one of them -/
def k5ops : List BOp :=
  [.new "", .register 0 "k1" (some .exclusive) false (some "/L"), .register 0 "k2" (some .read) false (some "/L"),
   .unregisterKey 0 "k2" false]

/-- no client-0 key of access `lvl` maps to `loc` (executable) -/
def unusedBy0 (s : BB) (lvl : Access) (loc : String) : Bool := (s.client? 0).all (fun cl => !usesAsB cl lvl loc)

theorem unusedBy0_spec {s : BB} {lvl : Access} {loc : String} (h : unusedBy0 s lvl loc = true) :
    ¬ ∃ cl, s.client? 0 = some cl ∧ usesAs cl lvl loc := by
  rintro ⟨cl, hcl, hu⟩
  simp only [unusedBy0, hcl, Option.all_some, Bool.not_eq_true', ] at h
  rw [(usesAsB_iff cl lvl loc).2 hu] at h
  cases h

/-- client 0 uses `loc` with access `lvl` (executable) -/
def usedBy0 (s : BB) (lvl : Access) (loc : String) : Bool := (s.client? 0).any (fun cl => usesAsB cl lvl loc)

theorem usedBy0_spec {s : BB} {lvl : Access} {loc : String} (h : usedBy0 s lvl loc = true) :
    ∃ cl, s.client? 0 = some cl ∧ usesAs cl lvl loc := by
  unfold usedBy0 at h
  cases hc : s.client? 0 with
  | none => simp [hc] at h
  | some cl =>
    simp only [hc, Option.any_some] at h
    exact ⟨cl, rfl, (usesAsB_iff cl lvl loc).1 h⟩

end C14

/-- K4, the concrete stale entry: after the second registration client 0 is still recorded as a writer of "/L"
    although none of its keys maps to "/L" any more -/
theorem C14_remap_change_stale :
    0 ∈ (BB.metaOf (BB.runOps C14.k4ops) "/L").write ∧
    ¬ ∃ cl, (BB.runOps C14.k4ops).client? 0 = some cl ∧ usesAs cl .write "/L" :=
  ⟨by decide +kernel, C14.unusedBy0_spec (by decide +kernel)⟩

theorem C14_remap_change_counterexample : ∃ ops, ¬ Mirror (BB.runOps ops) := by
  refine ⟨C14.k4ops, fun h => ?_⟩
  exact C14_remap_change_stale.2 ((h.2.1 "/L" 0).1 C14_remap_change_stale.1)

/-- the K4 history violates exactly the excluding hypothesis `NoRemapChange` at its last call -/
example : ((BB.runOps (C14.k4ops.take 2)).client? 0).all
    (fun cl => AL.get (absNameS cl.ns "k") cl.remap == some "/L") = true := by decide +kernel

/-- K5, the concrete missing entry: after `unregister_key("k2")` client 0 still holds "/k1" exclusively on "/L" but
    the metadata of "/L" is gone altogether -/
theorem C14_alias_unregister_missing :
    (∃ cl, (BB.runOps C14.k5ops).client? 0 = some cl ∧ usesAs cl .exclusive "/L") ∧
    0 ∉ (BB.metaOf (BB.runOps C14.k5ops) "/L").excl ∧ AL.has "/L" (BB.runOps C14.k5ops).metadata = false :=
  ⟨C14.usedBy0_spec (by decide +kernel), by decide +kernel, by decide +kernel⟩

theorem C14_alias_unregister_counterexample : ∃ ops, ¬ Mirror (BB.runOps ops) := by
  refine ⟨C14.k5ops, fun h => ?_⟩
  exact C14_alias_unregister_missing.2.1 ((h.2.2.1 "/L" 0).2 C14_alias_unregister_missing.1)

/-- K5, the consequence: a second client can now register WRITE on the exclusively held location -/
theorem C14_alias_unregister_lock_lost :
    ((BB.runOps (C14.k5ops ++ [.new "other"])).register 1 "x" (some .write) false (some "/L")).2 = .ok :=
  C14.isOk_eq (by decide +kernel)

/-! ### 2. `register_key` preserves the invariant (K4 excluded) -/

namespace C14

def regClient1 (cl : Client) (key : String) : Access → Client
| .read => { cl with read := SetL.add key cl.read }
| .write => { cl with write := SetL.add key cl.write }
| .exclusive => { cl with excl := SetL.add key cl.excl }

/-- the client after an accepted registration -/
def regClient (cl : Client) (key loc : String) (acc : Access) (req : Bool) : Client :=
  { regClient1 cl key acc with
    remap := AL.put key loc (regClient1 cl key acc).remap,
    required := if req then SetL.add key (regClient1 cl key acc).required else (regClient1 cl key acc).required,
    namespaces := (nsClosureS key).foldl (fun a n => SetL.add n a) (regClient1 cl key acc).namespaces }

/-- the location's metadata after an accepted registration -/
def regMeta (m : Meta) (c : Nat) : Access → Meta
| .read => { m with read := SetL.add c m.read }
| .write => { m with write := SetL.add c m.write }
| .exclusive => { m with excl := SetL.add c m.excl }

def conflict (s : BB) (loc : String) : Access → Bool
| .read => false
| .write => BB.writeConflict s loc
| .exclusive => BB.exclConflict s loc

theorem register_eq (s : BB) (c : Nat) (cl : Client) (name : String) (acc : Access) (req : Bool)
    (remapTo : Option String) (hc : s.client? c = some cl) :
    s.register c name (some acc) req remapTo =
      if conflict s (remapTo.getD (absNameS cl.ns name)) acc then (s, .attrError)
      else (BB.setClient { s with metadata := (AL.put (remapTo.getD (absNameS cl.ns name))
              (regMeta (BB.metaOf s (remapTo.getD (absNameS cl.ns name))) c acc) s.metadata) } c
              (regClient cl (absNameS cl.ns name) (remapTo.getD (absNameS cl.ns name)) acc req), .ok) := by
  unfold BB.register
  simp only [hc]
  cases acc <;> rfl

theorem kmem_iff (cl : Client) (k : String) :
    (k ∈ cl.read ∨ k ∈ cl.write ∨ k ∈ cl.excl) ↔ ∃ lvl, k ∈ kset cl lvl := by
  constructor
  · rintro (h | h | h)
    · exact ⟨.read, h⟩
    · exact ⟨.write, h⟩
    · exact ⟨.exclusive, h⟩
  · rintro ⟨lvl, h⟩
    cases lvl
    · exact Or.inl h
    · exact Or.inr (Or.inl h)
    · exact Or.inr (Or.inr h)

theorem mem_kset_regClient (cl : Client) (key loc : String) (acc : Access) (req : Bool) (lvl : Access) (k : String) :
    k ∈ kset (regClient cl key loc acc req) lvl ↔ k ∈ kset cl lvl ∨ (lvl = acc ∧ k = key) := by
  cases acc <;> cases lvl <;> simp [regClient, regClient1, kset, SetL.mem_add, or_comm]

theorem remap_regClient (cl : Client) (key loc : String) (acc : Access) (req : Bool) :
    (regClient cl key loc acc req).remap = AL.put key loc cl.remap := by
  cases acc <;> rfl

theorem mem_mset_regMeta (m : Meta) (c : Nat) (acc lvl : Access) (c0 : Nat) :
    c0 ∈ mset (regMeta m c acc) lvl ↔ c0 ∈ mset m lvl ∨ (lvl = acc ∧ c0 = c) := by
  cases acc <;> cases lvl <;> simp [regMeta, mset, SetL.mem_add, or_comm]

theorem client?_setClient (s : BB) (c : Nat) (cl cl' : Client) (hc : s.client? c = some cl) (c0 : Nat) :
    (s.setClient c cl').client? c0 = if c0 = c then some cl' else s.client? c0 := by
  unfold BB.client? at hc ⊢
  simp only [BB.setClient, List.getElem?_set]
  have hlt : c < s.clients.length := by
    apply Classical.byContradiction
    intro hn
    rw [List.getElem?_eq_none (by omega)] at hc
    cases hc
  by_cases h : c = c0
  · subst h; simp [hlt]
  · simp [h, Ne.symm h]

/-- how the new registration changes what the client uses -/
theorem usesAs_regClient (cl : Client) (key loc : String) (acc : Access) (req : Bool)
    (hk1 : ∀ k, (∃ lvl, k ∈ kset cl lvl) → (AL.get k cl.remap).isSome)
    (hnr : NoRemapChange cl key loc) (lvl : Access) (l : String) :
    usesAs (regClient cl key loc acc req) lvl l ↔ usesAs cl lvl l ∨ (lvl = acc ∧ l = loc) := by
  simp only [usesAs_iff, mem_kset_regClient, remap_regClient, AL.get_put]
  constructor
  · rintro ⟨k, hk, hg⟩
    by_cases hkk : k = key
    · subst hkk
      simp only [if_true, Option.some.injEq] at hg
      subst hg
      rcases hk with hk | ⟨hl, _⟩
      · left
        refine ⟨k, hk, ?_⟩
        rcases hnr with hn | hn
        · have := hk1 k ⟨lvl, hk⟩
          rw [hn] at this
          cases this
        · exact hn
      · exact Or.inr ⟨hl, rfl⟩
    · simp only [hkk, if_false] at hg
      rcases hk with hk | ⟨_, hk⟩
      · exact Or.inl ⟨k, hk, hg⟩
      · exact absurd hk hkk
  · rintro (⟨k, hk, hg⟩ | ⟨rfl, rfl⟩)
    · refine ⟨k, Or.inl hk, ?_⟩
      by_cases hkk : k = key
      · subst hkk
        rcases hnr with hn | hn
        · rw [hn] at hg; cases hg
        · rw [hn] at hg; simp [hg]
      · simp [hkk, hg]
    · exact ⟨key, Or.inr ⟨rfl, rfl⟩, by simp⟩

theorem metaOf_put (s : BB) (loc : String) (m : Meta) (l : String) :
    BB.metaOf { s with metadata := AL.put loc m s.metadata } l = if l = loc then m else BB.metaOf s l := by
  simp only [BB.metaOf, AL.get_put]
  by_cases h : l = loc <;> simp [h]

end C14

open C14 in
/-- `_partial`: the statement carries the excluding hypothesis `NoRemapChange` (finding K4); without it the
    conclusion is false, see `C14_remap_change_counterexample`. -/
theorem C14_register_mirror_partial (s : BB) (c : Nat) (cl : Client) (name : String) (acc : Access) (req : Bool)
    (remapTo : Option String) (hinv : BB.Inv s) (hc : s.client? c = some cl)
    (hnr : NoRemapChange cl (absNameS cl.ns name) (remapTo.getD (absNameS cl.ns name)))
    (hok : (s.register c name (some acc) req remapTo).2 = .ok) :
    BB.Inv (s.register c name (some acc) req remapTo).1 := by
  obtain ⟨hm, hnd, hk1, hk2, hk3⟩ := hinv
  rw [register_eq s c cl name acc req remapTo hc] at hok ⊢
  generalize absNameS cl.ns name = key at *
  generalize remapTo.getD key = loc at *
  by_cases hconf : conflict s loc acc = true
  · simp [hconf] at hok
  rw [if_neg hconf]
  simp only
  obtain ⟨hmu, hm4⟩ := (mirror_iff s).1 hm
  -- abbreviations
  generalize hm1 : regMeta (BB.metaOf s loc) c acc = m1
  generalize hcl2 : regClient cl key loc acc req = cl2
  generalize hs0 : ({ s with metadata := AL.put loc m1 s.metadata } : BB) = s0
  have hc0 : s0.client? c = some cl := by subst hs0; exact hc
  have hcl' : ∀ c0, (s0.setClient c cl2).client? c0 = if c0 = c then some cl2 else s.client? c0 := by
    intro c0
    rw [client?_setClient s0 c cl cl2 hc0 c0]
    subst hs0; rfl
  have hmeta : ∀ l, BB.metaOf (s0.setClient c cl2) l = if l = loc then m1 else BB.metaOf s l := by
    intro l
    subst hs0
    exact metaOf_put s loc m1 l
  have hmd : (s0.setClient c cl2).metadata = AL.put loc m1 s.metadata := by subst hs0; rfl
  have hk1c : ∀ k, (∃ lvl, k ∈ kset cl lvl) → (AL.get k cl.remap).isSome :=
    fun k hk => hk1 c cl hc k ((kmem_iff cl k).2 hk)
  have huse : ∀ lvl l, usesAs cl2 lvl l ↔ usesAs cl lvl l ∨ (lvl = acc ∧ l = loc) := by
    intro lvl l; subst hcl2; exact usesAs_regClient cl key loc acc req hk1c hnr lvl l
  have hold : ∀ lvl l, c ∈ mset (BB.metaOf s l) lvl ↔ usesAs cl lvl l := by
    intro lvl l
    rw [hmu lvl l c]
    constructor
    · rintro ⟨cl0, h0, hu⟩
      rw [hc] at h0; cases h0; exact hu
    · intro hu; exact ⟨cl, hc, hu⟩
  refine ⟨(mirror_iff _).2 ⟨?_, ?_⟩, ?_, ?_, ?_, ?_⟩
  · -- the three sets
    intro lvl l c0
    rw [hmeta l, hcl' c0]
    by_cases hl : l = loc
    · subst hl
      simp only [if_true]
      rw [← hm1, mem_mset_regMeta]
      by_cases hcc : c0 = c
      · subst hcc
        simp only [if_true, Option.some.injEq, exists_eq_left', huse, hold]
      · simp only [hcc, if_false, and_false, or_false]
        exact hmu lvl l c0
    · simp only [hl, if_false]
      by_cases hcc : c0 = c
      · subst hcc
        simp only [if_true, Option.some.injEq, exists_eq_left', huse, hold, hl, and_false, or_false]
      · simp only [hcc, if_false]
        exact hmu lvl l c0
  · -- the key set
    intro l
    rw [hmd, AL.has_put]
    simp only [Bool.or_eq_true, decide_eq_true_eq]
    constructor
    · rintro (hl | hl)
      · subst hl
        exact ⟨c, cl2, acc, by rw [hcl' c]; simp, (huse acc l).2 (Or.inr ⟨rfl, rfl⟩)⟩
      · obtain ⟨c0, cl0, lvl, h0, hu⟩ := (hm4 l).1 hl
        by_cases hcc : c0 = c
        · subst hcc
          rw [hc] at h0; cases h0
          exact ⟨c0, cl2, lvl, by rw [hcl' c0]; simp, (huse lvl l).2 (Or.inl hu)⟩
        · exact ⟨c0, cl0, lvl, by rw [hcl' c0]; simp [hcc, h0], hu⟩
    · rintro ⟨c0, cl0, lvl, h0, hu⟩
      rw [hcl' c0] at h0
      by_cases hcc : c0 = c
      · subst hcc
        simp only [if_true, Option.some.injEq] at h0
        subst h0
        rcases (huse lvl l).1 hu with hu | ⟨_, hl⟩
        · exact Or.inr ((hm4 l).2 ⟨c0, cl, lvl, hc, hu⟩)
        · exact Or.inl hl
      · simp only [hcc, if_false] at h0
        exact Or.inr ((hm4 l).2 ⟨c0, cl0, lvl, h0, hu⟩)
  · rw [hmd]; exact AL.NoDup_put _ _ _ hnd
  · intro c0 cl0 h0 k hk
    rw [hcl' c0] at h0
    by_cases hcc : c0 = c
    · subst hcc
      simp only [if_true, Option.some.injEq] at h0
      subst h0
      obtain ⟨lvl, hk⟩ := (kmem_iff _ k).1 hk
      rw [← hcl2, remap_regClient, AL.get_put]
      rw [← hcl2, mem_kset_regClient] at hk
      by_cases hkk : k = key
      · simp [hkk]
      · simp only [hkk, if_false]
        rcases hk with hk | ⟨_, hk⟩
        · exact hk1c k ⟨lvl, hk⟩
        · exact absurd hk hkk
    · simp only [hcc, if_false] at h0
      exact hk1 c0 cl0 h0 k hk
  · intro c0 cl0 h0 k l hg
    rw [hcl' c0] at h0
    by_cases hcc : c0 = c
    · subst hcc
      simp only [if_true, Option.some.injEq] at h0
      subst h0
      rw [kmem_iff]
      rw [← hcl2, remap_regClient, AL.get_put] at hg
      by_cases hkk : k = key
      · exact ⟨acc, by rw [← hcl2, mem_kset_regClient]; exact Or.inr ⟨rfl, hkk⟩⟩
      · simp only [hkk, if_false] at hg
        obtain ⟨lvl, hk⟩ := (kmem_iff cl k).1 (hk2 c0 cl hc k l hg)
        exact ⟨lvl, by rw [← hcl2, mem_kset_regClient]; exact Or.inl hk⟩
    · simp only [hcc, if_false] at h0
      exact hk2 c0 cl0 h0 k l hg
  · intro c0 cl0 h0
    rw [hcl' c0] at h0
    by_cases hcc : c0 = c
    · subst hcc
      simp only [if_true, Option.some.injEq] at h0
      subst h0
      rw [← hcl2, remap_regClient]
      exact AL.NoDup_put _ _ _ (hk3 c0 cl hc)
    · simp only [hcc, if_false] at h0
      exact hk3 c0 cl0 h0

/-! ### 3. `unregister_key` preserves the invariant (K5 excluded) -/

namespace C14

/-- the client after `unregister_key(key)` -/
def unregClient (cl : Client) (key : String) (upd : Bool) : Client :=
  let cl2 : Client := { cl with read := SetL.discard key cl.read, write := SetL.discard key cl.write,
                                excl := SetL.discard key cl.excl, required := SetL.discard key cl.required,
                                remap := AL.del key cl.remap }
  if upd then BB.rebuildNamespaces cl2 else cl2

def unregMeta (m : Meta) (c : Nat) : Meta :=
  { read := SetL.discard c m.read, write := SetL.discard c m.write, excl := SetL.discard c m.excl }

def emptyMeta (m : Meta) : Bool := m.read.isEmpty && m.write.isEmpty && m.excl.isEmpty

/-- the blackboard statics after `unregister_key` -/
def unregState (s : BB) (loc : String) (m1 : Meta) (clear : Bool) : BB :=
  if emptyMeta m1 then
    { s with metadata := AL.del loc s.metadata, storage := if clear then AL.del loc s.storage else s.storage }
  else { s with metadata := AL.put loc m1 s.metadata }

theorem unregisterKey_eq (s : BB) (c : Nat) (cl : Client) (name : String) (clear upd : Bool) (loc : String) (m : Meta)
    (hc : s.client? c = some cl) (hg : AL.get (absNameS cl.ns name) cl.remap = some loc)
    (hmd : AL.get loc s.metadata = some m) :
    s.unregisterKey c name clear upd =
      (BB.setClient (unregState s loc (unregMeta m c) clear) c (unregClient cl (absNameS cl.ns name) upd), .ok) := by
  unfold BB.unregisterKey
  simp only [hc, hg, hmd]
  rfl

theorem mem_kset_unregClient (cl : Client) (key : String) (upd : Bool) (lvl : Access) (k : String) :
    k ∈ kset (unregClient cl key upd) lvl ↔ k ≠ key ∧ k ∈ kset cl lvl := by
  cases upd <;> cases lvl <;> simp [unregClient, BB.rebuildNamespaces, kset, SetL.mem_discard]

theorem remap_unregClient (cl : Client) (key : String) (upd : Bool) :
    (unregClient cl key upd).remap = AL.del key cl.remap := by
  cases upd <;> rfl

theorem required_unregClient (cl : Client) (key : String) (upd : Bool) :
    (unregClient cl key upd).required = SetL.discard key cl.required := by
  cases upd <;> rfl

theorem mem_mset_unregMeta (m : Meta) (c : Nat) (lvl : Access) (c0 : Nat) :
    c0 ∈ mset (unregMeta m c) lvl ↔ c0 ≠ c ∧ c0 ∈ mset m lvl := by
  cases lvl <;> simp [unregMeta, mset, SetL.mem_discard]

theorem emptyMeta_false_iff (m : Meta) : emptyMeta m = false ↔ ∃ lvl c0, c0 ∈ mset m lvl := by
  obtain ⟨r, w, e⟩ := m
  constructor
  · intro h
    cases r with
    | cons a _ => exact ⟨.read, a, by simp [mset]⟩
    | nil =>
      cases w with
      | cons a _ => exact ⟨.write, a, by simp [mset]⟩
      | nil =>
        cases e with
        | cons a _ => exact ⟨.exclusive, a, by simp [mset]⟩
        | nil => simp [emptyMeta] at h
  · rintro ⟨lvl, c0, h⟩
    cases lvl
    · cases r with
      | nil => simp [mset] at h
      | cons a _ => simp [emptyMeta]
    · cases w with
      | nil => simp [mset] at h
      | cons a _ => simp [emptyMeta]
    · cases e with
      | nil => simp [mset] at h
      | cons a _ => simp [emptyMeta]

theorem emptyMeta_true_mset (m : Meta) (h : emptyMeta m = true) (lvl : Access) : mset m lvl = [] := by
  simp only [emptyMeta, Bool.and_eq_true, List.isEmpty_iff] at h
  cases lvl
  · exact h.1.1
  · exact h.1.2
  · exact h.2

theorem mem_metaOf_unregState (s : BB) (loc : String) (m1 : Meta) (clear : Bool) (hnd : AL.NoDup s.metadata)
    (lvl : Access) (l : String) (c0 : Nat) :
    c0 ∈ mset (BB.metaOf (unregState s loc m1 clear) l) lvl ↔
      if l = loc then c0 ∈ mset m1 lvl else c0 ∈ mset (BB.metaOf s l) lvl := by
  unfold unregState
  cases he : emptyMeta m1 with
  | true =>
    simp only [if_true, BB.metaOf, AL.get_del _ _ _ hnd]
    by_cases hl : l = loc
    · simp only [hl, if_true, Option.getD_none, emptyMeta_true_mset m1 he lvl]
      cases lvl <;> simp [mset]
    · simp only [hl, if_false]
  | false =>
    simp only [Bool.false_eq_true, if_false, BB.metaOf, AL.get_put]
    by_cases hl : l = loc <;> simp [hl]

theorem has_unregState (s : BB) (loc : String) (m1 : Meta) (clear : Bool) (hnd : AL.NoDup s.metadata) (l : String) :
    AL.has l (unregState s loc m1 clear).metadata = if l = loc then !emptyMeta m1 else AL.has l s.metadata := by
  unfold unregState
  cases he : emptyMeta m1 with
  | true =>
    simp only [if_true, AL.has_del _ _ _ hnd]
    by_cases hl : l = loc <;> simp [hl]
  | false =>
    simp only [Bool.false_eq_true, if_false, AL.has_put]
    by_cases hl : l = loc <;> simp [hl]

theorem NoDup_unregState (s : BB) (loc : String) (m1 : Meta) (clear : Bool) (hnd : AL.NoDup s.metadata) :
    AL.NoDup (unregState s loc m1 clear).metadata := by
  unfold unregState
  cases he : emptyMeta m1 with
  | true => exact AL.NoDup_del _ _ hnd
  | false => exact AL.NoDup_put _ _ _ hnd

theorem clients_unregState (s : BB) (loc : String) (m1 : Meta) (clear : Bool) :
    (unregState s loc m1 clear).clients = s.clients := by
  unfold unregState
  cases emptyMeta m1 <;> rfl

theorem storage_unregState (s : BB) (loc : String) (m1 : Meta) (clear : Bool) :
    (unregState s loc m1 clear).storage = if emptyMeta m1 && clear then AL.del loc s.storage else s.storage := by
  unfold unregState
  cases emptyMeta m1 <;> cases clear <;> rfl

/-- what the client uses after `unregister_key(key)` -/
theorem usesAs_unregClient (cl : Client) (key loc : String) (upd : Bool)
    (hg : AL.get key cl.remap = some loc) (hns : NoSelfAlias cl key loc) (lvl : Access) (l : String) :
    usesAs (unregClient cl key upd) lvl l ↔ usesAs cl lvl l ∧ l ≠ loc := by
  simp only [usesAs_iff, mem_kset_unregClient, remap_unregClient]
  constructor
  · rintro ⟨k, ⟨hk, hks⟩, hgk⟩
    rw [AL.get_del_other key k cl.remap hk] at hgk
    refine ⟨⟨k, hks, hgk⟩, ?_⟩
    rintro rfl
    exact hns k hk hgk
  · rintro ⟨⟨k, hks, hgk⟩, hl⟩
    have hk : k ≠ key := by
      rintro rfl
      rw [hg] at hgk
      exact hl (Option.some.inj hgk).symm
    exact ⟨k, ⟨hk, hks⟩, by rw [AL.get_del_other key k cl.remap hk]; exact hgk⟩

/-- under the invariant, the remapped location of a registered key has a metadata entry -/
theorem metadata_of_remap (s : BB) (c : Nat) (cl : Client) (key loc : String) (hinv : BB.Inv s)
    (hc : s.client? c = some cl) (hg : AL.get key cl.remap = some loc) :
    AL.get loc s.metadata = some (BB.metaOf s loc) := by
  obtain ⟨hm, hnd, hk1, hk2, hk3⟩ := hinv
  obtain ⟨lvl, hk⟩ := (kmem_iff cl key).1 (hk2 c cl hc key loc hg)
  have hu : usesAs cl lvl loc := (usesAs_iff cl lvl loc).2 ⟨key, hk, hg⟩
  have hh := (hm.2.2.2 loc).2 ⟨c, cl, lvl, hc, hu⟩
  unfold AL.has at hh
  unfold BB.metaOf
  cases hx : AL.get loc s.metadata with
  | none => rw [hx] at hh; cases hh
  | some m => rfl

/-- the location stays in the key set exactly when another client uses it -/
theorem has_after_unreg (s : BB) (c : Nat) (loc : String) (hm : Mirror s) :
    (!emptyMeta (unregMeta (BB.metaOf s loc) c)) = true ↔
      ∃ c' cl' lvl, c' ≠ c ∧ s.client? c' = some cl' ∧ usesAs cl' lvl loc := by
  obtain ⟨hmu, hm4⟩ := (mirror_iff s).1 hm
  simp only [Bool.not_eq_true', emptyMeta_false_iff, mem_mset_unregMeta]
  constructor
  · rintro ⟨lvl, c0, hne, hmem⟩
    obtain ⟨cl0, h0, hu⟩ := (hmu lvl loc c0).1 hmem
    exact ⟨c0, cl0, lvl, hne, h0, hu⟩
  · rintro ⟨c0, cl0, lvl, hne, h0, hu⟩
    exact ⟨lvl, c0, hne, (hmu lvl loc c0).2 ⟨cl0, h0, hu⟩⟩

end C14

open C14 in
/-- `_partial`: the statement carries the excluding hypothesis `NoSelfAlias` (finding K5); without it the
    conclusion is false, see `C14_alias_unregister_counterexample`.  `upd` is the `update_namespace_cache` flag
    (`true` for a direct call, `false` inside `unregister_all_keys`). -/
theorem C14_unregisterKey_mirror_partial (s : BB) (c : Nat) (cl : Client) (name : String) (clear upd : Bool)
    (loc : String) (hinv : BB.Inv s) (hc : s.client? c = some cl)
    (hg : AL.get (absNameS cl.ns name) cl.remap = some loc) (hns : NoSelfAlias cl (absNameS cl.ns name) loc) :
    BB.Inv (s.unregisterKey c name clear upd).1 := by
  have hmd := metadata_of_remap s c cl _ loc hinv hc hg
  obtain ⟨hm, hnd, hk1, hk2, hk3⟩ := hinv
  rw [unregisterKey_eq s c cl name clear upd loc _ hc hg hmd]
  generalize absNameS cl.ns name = key at *
  simp only
  obtain ⟨hmu, hm4⟩ := (mirror_iff s).1 hm
  generalize hm1 : unregMeta (BB.metaOf s loc) c = m1
  generalize hcl3 : unregClient cl key upd = cl3
  generalize hs0 : unregState s loc m1 clear = s0
  have hc0 : s0.client? c = some cl := by
    subst hs0; unfold BB.client?; rw [clients_unregState]; exact hc
  have hcl' : ∀ c0, (s0.setClient c cl3).client? c0 = if c0 = c then some cl3 else s.client? c0 := by
    intro c0
    rw [client?_setClient s0 c cl cl3 hc0 c0]
    subst hs0; unfold BB.client?; rw [clients_unregState]
  have hmeta : ∀ lvl l c0, c0 ∈ mset (BB.metaOf (s0.setClient c cl3) l) lvl ↔
      if l = loc then c0 ∈ mset m1 lvl else c0 ∈ mset (BB.metaOf s l) lvl := by
    intro lvl l c0
    subst hs0
    exact mem_metaOf_unregState s loc m1 clear hnd lvl l c0
  have hhas : ∀ l, AL.has l (s0.setClient c cl3).metadata = if l = loc then !emptyMeta m1 else AL.has l s.metadata := by
    intro l; subst hs0; exact has_unregState s loc m1 clear hnd l
  have huse : ∀ lvl l, usesAs cl3 lvl l ↔ usesAs cl lvl l ∧ l ≠ loc := by
    intro lvl l; subst hcl3; exact usesAs_unregClient cl key loc upd hg hns lvl l
  have hold : ∀ lvl l, c ∈ mset (BB.metaOf s l) lvl ↔ usesAs cl lvl l := by
    intro lvl l
    rw [hmu lvl l c]
    constructor
    · rintro ⟨cl0, h0, hu⟩
      rw [hc] at h0; cases h0; exact hu
    · intro hu; exact ⟨cl, hc, hu⟩
  refine ⟨(mirror_iff _).2 ⟨?_, ?_⟩, ?_, ?_, ?_, ?_⟩
  · intro lvl l c0
    rw [hmeta lvl l c0, hcl' c0]
    by_cases hl : l = loc
    · subst hl
      simp only [if_true]
      rw [← hm1, mem_mset_unregMeta]
      by_cases hcc : c0 = c
      · subst hcc
        simp only [if_true, Option.some.injEq, exists_eq_left', huse, ne_eq, not_true_eq_false, false_and, and_false]
      · simp only [hcc, if_false, ne_eq, not_false_eq_true, true_and]
        exact hmu lvl l c0
    · simp only [hl, if_false]
      by_cases hcc : c0 = c
      · subst hcc
        simp only [if_true, Option.some.injEq, exists_eq_left', huse, hold, ne_eq, hl, not_false_eq_true, and_true]
      · simp only [hcc, if_false]
        exact hmu lvl l c0
  · intro l
    rw [hhas l]
    by_cases hl : l = loc
    · subst hl
      simp only [if_true]
      rw [← hm1, has_after_unreg s c l hm]
      constructor
      · rintro ⟨c0, cl0, lvl, hne, h0, hu⟩
        exact ⟨c0, cl0, lvl, by rw [hcl' c0]; simp [hne, h0], hu⟩
      · rintro ⟨c0, cl0, lvl, h0, hu⟩
        rw [hcl' c0] at h0
        by_cases hcc : c0 = c
        · subst hcc
          simp only [if_true, Option.some.injEq] at h0
          subst h0
          exact absurd rfl ((huse lvl l).1 hu).2
        · simp only [hcc, if_false] at h0
          exact ⟨c0, cl0, lvl, hcc, h0, hu⟩
    · simp only [hl, if_false]
      rw [hm4 l]
      constructor
      · rintro ⟨c0, cl0, lvl, h0, hu⟩
        by_cases hcc : c0 = c
        · subst hcc
          rw [hc] at h0; cases h0
          exact ⟨c0, cl3, lvl, by rw [hcl' c0]; simp, (huse lvl l).2 ⟨hu, hl⟩⟩
        · exact ⟨c0, cl0, lvl, by rw [hcl' c0]; simp [hcc, h0], hu⟩
      · rintro ⟨c0, cl0, lvl, h0, hu⟩
        rw [hcl' c0] at h0
        by_cases hcc : c0 = c
        · subst hcc
          simp only [if_true, Option.some.injEq] at h0
          subst h0
          exact ⟨c0, cl, lvl, hc, ((huse lvl l).1 hu).1⟩
        · simp only [hcc, if_false] at h0
          exact ⟨c0, cl0, lvl, h0, hu⟩
  · subst hs0; exact NoDup_unregState s loc m1 clear hnd
  · intro c0 cl0 h0 k hk
    rw [hcl' c0] at h0
    by_cases hcc : c0 = c
    · subst hcc
      simp only [if_true, Option.some.injEq] at h0
      subst h0
      obtain ⟨lvl, hk⟩ := (kmem_iff _ k).1 hk
      rw [← hcl3, mem_kset_unregClient] at hk
      rw [← hcl3, remap_unregClient, AL.get_del_other key k cl.remap hk.1]
      exact hk1 c0 cl hc k ((kmem_iff cl k).2 ⟨lvl, hk.2⟩)
    · simp only [hcc, if_false] at h0
      exact hk1 c0 cl0 h0 k hk
  · intro c0 cl0 h0 k l hgk
    rw [hcl' c0] at h0
    by_cases hcc : c0 = c
    · subst hcc
      simp only [if_true, Option.some.injEq] at h0
      subst h0
      rw [← hcl3, remap_unregClient, AL.get_del _ _ _ (hk3 c0 cl hc)] at hgk
      by_cases hkk : k = key
      · simp [hkk] at hgk
      · simp only [hkk, if_false] at hgk
        obtain ⟨lvl, hk⟩ := (kmem_iff cl k).1 (hk2 c0 cl hc k l hgk)
        rw [kmem_iff]
        exact ⟨lvl, by rw [← hcl3, mem_kset_unregClient]; exact ⟨hkk, hk⟩⟩
    · simp only [hcc, if_false] at h0
      exact hk2 c0 cl0 h0 k l hgk
  · intro c0 cl0 h0
    rw [hcl' c0] at h0
    by_cases hcc : c0 = c
    · subst hcc
      simp only [if_true, Option.some.injEq] at h0
      subst h0
      rw [← hcl3, remap_unregClient]
      exact AL.NoDup_del _ _ (hk3 c0 cl hc)
    · simp only [hcc, if_false] at h0
      exact hk3 c0 cl0 h0

/-! ### 4. the last user: the location leaves the key set, its value is deleted exactly when clearing was requested -/

open C14 in
theorem C14_last_user (s : BB) (c : Nat) (cl : Client) (name : String) (clear upd : Bool) (loc : String)
    (hinv : BB.Inv s) (hc : s.client? c = some cl) (hg : AL.get (absNameS cl.ns name) cl.remap = some loc)
    (hsd : AL.NoDup s.storage) :
    (loc ∈ (s.unregisterKey c name clear upd).1.keys ↔
      ∃ c' cl' lvl, c' ≠ c ∧ s.client? c' = some cl' ∧ usesAs cl' lvl loc) ∧
    AL.get loc (s.unregisterKey c name clear upd).1.storage =
      (if loc ∉ (s.unregisterKey c name clear upd).1.keys ∧ clear = true then none else AL.get loc s.storage) := by
  have hmd := metadata_of_remap s c cl _ loc hinv hc hg
  obtain ⟨hm, hnd, hk1, hk2, hk3⟩ := hinv
  rw [unregisterKey_eq s c cl name clear upd loc _ hc hg hmd]
  simp only
  generalize hm1 : unregMeta (BB.metaOf s loc) c = m1
  have hkeys : loc ∈ (BB.setClient (unregState s loc m1 clear) c (unregClient cl (absNameS cl.ns name) upd)).keys ↔
      (!emptyMeta m1) = true := by
    rw [BB.mem_keys_iff]
    show AL.has loc (unregState s loc m1 clear).metadata = true ↔ _
    rw [has_unregState s loc m1 clear hnd loc]
    simp
  refine ⟨?_, ?_⟩
  · rw [hkeys, ← hm1]
    exact has_after_unreg s c loc hm
  · show AL.get loc (unregState s loc m1 clear).storage = _
    rw [storage_unregState]
    cases he : emptyMeta m1 with
    | false =>
      have : loc ∈ (BB.setClient (unregState s loc m1 clear) c (unregClient cl (absNameS cl.ns name) upd)).keys :=
        hkeys.2 (by simp [he])
      simp [this]
    | true =>
      have : loc ∉ (BB.setClient (unregState s loc m1 clear) c (unregClient cl (absNameS cl.ns name) upd)).keys := by
        intro h
        have := hkeys.1 h
        simp [he] at this
      cases clear with
      | false => simp
      | true => simp [this, AL.get_del_same loc s.storage hsd]

/-- the value is kept while any other client still uses the location, and also when clearing was not requested -/
theorem C14_value_kept (s : BB) (c : Nat) (cl : Client) (name : String) (clear upd : Bool) (loc : String)
    (hinv : BB.Inv s) (hc : s.client? c = some cl) (hg : AL.get (absNameS cl.ns name) cl.remap = some loc)
    (hsd : AL.NoDup s.storage)
    (h : clear = false ∨ ∃ c' cl' lvl, c' ≠ c ∧ s.client? c' = some cl' ∧ usesAs cl' lvl loc) :
    AL.get loc (s.unregisterKey c name clear upd).1.storage = AL.get loc s.storage := by
  obtain ⟨h1, h2⟩ := C14_last_user s c cl name clear upd loc hinv hc hg hsd
  rw [h2]
  rcases h with h | h
  · simp [h]
  · simp [h1.2 h]

/-! ### 7. required keys -/

namespace C14

theorem push_none (s : BB) (it : Item) (h : s.stream = none) : s.push it = s := by
  unfold BB.push; rw [h]

theorem getattr_fst (s : BB) (c : Nat) (name : String) (h : s.stream = none) : (s.getattr c name).1 = s := by
  unfold BB.getattr
  split
  · rfl
  · simp only
    split
    · split
      · rfl
      · exact push_none s _ h
    · split
      · rfl
      · split
        · exact push_none s _ h
        · exact push_none s _ h

theorem get_fst (s : BB) (c : Nat) (name : String) (h : s.stream = none) : (s.get c name).1 = s := by
  have hg := getattr_fst s c (splitName name).1 h
  unfold BB.get
  simp only
  split
  · rename_i heq; rw [heq] at hg; simp only at hg ⊢; split
    · exact hg
    · split <;> exact hg
  · exact hg

/-- with the activity stream disabled `Client.exists` leaves the state literally unchanged -/
theorem exists_fst (s : BB) (c : Nat) (name : String) (h : s.stream = none) : (s.exists_ c name).1 = s := by
  have hg := get_fst s c name h
  unfold BB.exists_
  split <;> rename_i heq <;> (try rw [heq] at hg) <;> exact hg

theorem verifyGo_spec (c : Nat) (s : BB) (hs : s.stream = none) (ks : List String) :
    ∀ (absent : Bool), (∀ k ∈ ks, ∃ b, (s.exists_ c k).2 = .bool b) →
      (BB.verify.go c s ks absent = (s, .keyError) ∧
          (absent = true ∨ ∃ k ∈ ks, (s.exists_ c k).2 = .bool false)) ∨
      (BB.verify.go c s ks absent = (s, .ok) ∧ absent = false ∧ ∀ k ∈ ks, (s.exists_ c k).2 = .bool true) := by
  induction ks with
  | nil =>
    intro absent _
    cases absent <;> simp [BB.verify.go]
  | cons k ks ih =>
    intro absent hall
    obtain ⟨b, hb⟩ := hall k (List.mem_cons_self)
    have hfst := exists_fst s c k hs
    have hall' : ∀ k ∈ ks, ∃ b, (s.exists_ c k).2 = .bool b := fun k' hk' => hall k' (List.mem_cons_of_mem _ hk')
    have hpair : s.exists_ c k = (s, .bool b) := by
      rcases hx : s.exists_ c k with ⟨s1, r1⟩
      rw [hx] at hb hfst
      simp only at hb hfst
      rw [hb, hfst]
    unfold BB.verify.go
    rw [hpair]
    cases b with
    | true =>
      simp only
      rcases ih absent hall' with ⟨h1, h2⟩ | ⟨h1, h2, h3⟩
      · left
        refine ⟨h1, ?_⟩
        rcases h2 with h2 | ⟨k', hk', h2⟩
        · exact Or.inl h2
        · exact Or.inr ⟨k', List.mem_cons_of_mem _ hk', h2⟩
      · right
        refine ⟨h1, h2, ?_⟩
        intro k' hk'
        rcases List.mem_cons.1 hk' with rfl | hk'
        · rw [hpair]
        · exact h3 k' hk'
    | false =>
      simp only
      rcases ih true hall' with ⟨h1, h2⟩ | ⟨h1, h2, h3⟩
      · left
        exact ⟨h1, Or.inr ⟨k, List.mem_cons_self, by rw [hpair]⟩⟩
      · cases h2

end C14

/-- Required-key verification fails (KeyError) exactly when some required key has no value.  Assumptions, stated
    explicitly: the activity stream is disabled (so that `exists` leaves the state literally unchanged and every
    iteration sees the same client and storage), and every required key is readable, i.e. `exists` answers with a
    Boolean rather than raising AttributeError (in Python such an error would propagate out of the loop). -/
theorem C14_required (s : BB) (c : Nat) (cl : Client) (order : List String → List String)
    (hc : s.client? c = some cl) (hs : s.stream = none)
    (hread : ∀ k ∈ order cl.required, ∃ b, (s.exists_ c k).2 = .bool b) :
    ((s.verify c order).2 = .keyError ↔ ∃ k ∈ order cl.required, (s.exists_ c k).2 = .bool false) ∧
    ((s.verify c order).2 = .ok ↔ ∀ k ∈ order cl.required, (s.exists_ c k).2 = .bool true) ∧
    (s.verify c order).1 = s := by
  unfold BB.verify
  simp only [hc]
  rcases C14.verifyGo_spec c s hs (order cl.required) false hread with ⟨h1, h2⟩ | ⟨h1, _, h3⟩
  · rw [h1]
    rcases h2 with h2 | h2
    · cases h2
    · refine ⟨⟨fun _ => h2, fun _ => rfl⟩, ⟨fun h => (by cases h), fun h => ?_⟩, rfl⟩
      obtain ⟨k, hk, hf⟩ := h2
      have := h k hk
      rw [hf] at this
      cases this
  · rw [h1]
    refine ⟨⟨fun h => (by cases h), fun h => ?_⟩, ⟨fun _ => h3, fun _ => rfl⟩, rfl⟩
    obtain ⟨k, hk, hf⟩ := h
    have := h3 k hk
    rw [hf] at this
    cases this

/-- the repaired defect: `unregister_key` also removes the key from the client's `required` set -/
theorem C14_required_removed (s : BB) (c : Nat) (cl : Client) (name : String) (clear upd : Bool) (loc : String)
    (hc : s.client? c = some cl) (hg : AL.get (absNameS cl.ns name) cl.remap = some loc) :
    ∃ cl', (s.unregisterKey c name clear upd).1.client? c = some cl' ∧ absNameS cl.ns name ∉ cl'.required := by
  have hnot : ∀ l : List String, absNameS cl.ns name ∉ SetL.discard (absNameS cl.ns name) l :=
    fun l hm => ((SetL.mem_discard _ _ _).1 hm).1 rfl
  cases hmd : AL.get loc s.metadata with
  | none =>
    refine ⟨{ cl with read := SetL.discard (absNameS cl.ns name) cl.read,
                      write := SetL.discard (absNameS cl.ns name) cl.write,
                      excl := SetL.discard (absNameS cl.ns name) cl.excl,
                      required := SetL.discard (absNameS cl.ns name) cl.required }, ?_, ?_⟩
    · unfold BB.unregisterKey
      simp only [hc, hg, hmd]
      rw [C14.client?_setClient s c cl _ hc c]
      simp only [if_true]
    · exact hnot _
  | some m =>
    rw [C14.unregisterKey_eq s c cl name clear upd loc m hc hg hmd]
    refine ⟨C14.unregClient cl (absNameS cl.ns name) upd, ?_, ?_⟩
    · have hc0 : (C14.unregState s loc (C14.unregMeta m c) clear).client? c = some cl := by
        unfold BB.client?; rw [C14.clients_unregState]; exact hc
      rw [C14.client?_setClient _ c cl _ hc0 c]
      simp
    · rw [C14.required_unregClient]
      exact hnot _

/-! ### histories: the invariant holds after every history that avoids the two corners -/

namespace C14

theorem inv_empty : BB.Inv {} := by
  refine ⟨⟨?_, ?_, ?_, ?_⟩, ?_, ?_, ?_, ?_⟩ <;>
    simp [BB.metaOf, AL.get, BB.client?, AL.has, AL.NoDup]

/-- the invariant only looks at the metadata and the client objects -/
theorem inv_congr (s s' : BB) (hmd : s'.metadata = s.metadata) (hcl : s'.clients = s.clients) (h : BB.Inv s) :
    BB.Inv s' := by
  have h1 : ∀ l, BB.metaOf s' l = BB.metaOf s l := fun l => by unfold BB.metaOf; rw [hmd]
  have h2 : ∀ c, s'.client? c = s.client? c := fun c => by unfold BB.client?; rw [hcl]
  unfold BB.Inv Mirror at *
  simp only [h1, h2, hmd]
  exact h

theorem usesAs_fresh (ns : String) (lvl : Access) (l : String) : ¬ usesAs ({ ns := ns } : Client) lvl l := by
  rintro ⟨k, hk, _⟩
  cases lvl <;> simp at hk

theorem inv_newClient (s : BB) (ns : String) (h : BB.Inv s) : BB.Inv (s.newClient ns).1 := by
  obtain ⟨hm, hnd, hk1, hk2, hk3⟩ := h
  obtain ⟨hmu, hm4⟩ := (mirror_iff s).1 hm
  have hold : ∀ c0 cl0, s.client? c0 = some cl0 → (s.newClient ns).1.client? c0 = some cl0 := by
    intro c0 cl0 h0
    unfold BB.client? at h0 ⊢
    simp only [BB.newClient]
    have hlt : c0 < s.clients.length := by
      apply Classical.byContradiction
      intro hn
      rw [List.getElem?_eq_none (by omega)] at h0
      cases h0
    rw [List.getElem?_append_left hlt]
    exact h0
  have hnew : ∀ c0 cl0, (s.newClient ns).1.client? c0 = some cl0 →
      s.client? c0 = some cl0 ∨ cl0 = { ns := clientNsS ns } := by
    intro c0 cl0 h0
    unfold BB.client? at h0 ⊢
    simp only [BB.newClient] at h0
    by_cases hlt : c0 < s.clients.length
    · rw [List.getElem?_append_left hlt] at h0
      exact Or.inl h0
    · rw [List.getElem?_append_right (by omega)] at h0
      right
      cases hi : c0 - s.clients.length with
      | zero => rw [hi] at h0; simp at h0; exact h0.symm
      | succ n => rw [hi] at h0; simp at h0
  have hmeta : ∀ l, BB.metaOf (s.newClient ns).1 l = BB.metaOf s l := fun l => rfl
  refine ⟨(mirror_iff _).2 ⟨?_, ?_⟩, hnd, ?_, ?_, ?_⟩
  · intro lvl l c0
    rw [hmeta, hmu lvl l c0]
    constructor
    · rintro ⟨cl0, h0, hu⟩
      exact ⟨cl0, hold c0 cl0 h0, hu⟩
    · rintro ⟨cl0, h0, hu⟩
      rcases hnew c0 cl0 h0 with h0 | rfl
      · exact ⟨cl0, h0, hu⟩
      · exact absurd hu (usesAs_fresh _ _ _)
  · intro l
    show AL.has l s.metadata = true ↔ _
    rw [hm4 l]
    constructor
    · rintro ⟨c0, cl0, lvl, h0, hu⟩
      exact ⟨c0, cl0, lvl, hold c0 cl0 h0, hu⟩
    · rintro ⟨c0, cl0, lvl, h0, hu⟩
      rcases hnew c0 cl0 h0 with h0 | rfl
      · exact ⟨c0, cl0, lvl, h0, hu⟩
      · exact absurd hu (usesAs_fresh _ _ _)
  · intro c0 cl0 h0 k hk
    rcases hnew c0 cl0 h0 with h0 | rfl
    · exact hk1 c0 cl0 h0 k hk
    · simp at hk
  · intro c0 cl0 h0 k l hg
    rcases hnew c0 cl0 h0 with h0 | rfl
    · exact hk2 c0 cl0 h0 k l hg
    · simp [AL.get] at hg
  · intro c0 cl0 h0
    rcases hnew c0 cl0 h0 with h0 | rfl
    · exact hk3 c0 cl0 h0
    · simp [AL.NoDup]

theorem push_frame (s : BB) (it : Item) : (s.push it).metadata = s.metadata ∧ (s.push it).clients = s.clients := by
  unfold BB.push
  split <;> exact ⟨rfl, rfl⟩

theorem setattr_frame (s : BB) (c : Nat) (name : String) (v : Val) :
    (s.setattr c name v).1.metadata = s.metadata ∧ (s.setattr c name v).1.clients = s.clients := by
  unfold BB.setattr
  split
  · exact ⟨rfl, rfl⟩
  · simp only
    split
    · exact push_frame _ _
    · split
      · exact ⟨rfl, rfl⟩
      · split <;> exact push_frame _ _

/-- executable `NoSelfAlias` -/
def noSelfAliasB (cl : Client) (key loc : String) : Bool := cl.remap.all (fun p => p.1 == key || p.2 != loc)

theorem noSelfAliasB_spec {cl : Client} {key loc : String} (h : noSelfAliasB cl key loc = true) :
    NoSelfAlias cl key loc := by
  intro k hk hg
  have hm := AL.mem_of_get k loc cl.remap hg
  simp only [noSelfAliasB, List.all_eq_true] at h
  have := h (k, loc) hm
  simp [hk] at this

/-- executable `NoRemapChange` -/
def noRemapChangeB (cl : Client) (key loc : String) : Bool :=
  AL.get key cl.remap == none || AL.get key cl.remap == some loc

theorem noRemapChangeB_spec {cl : Client} {key loc : String} (h : noRemapChangeB cl key loc = true) :
    NoRemapChange cl key loc := by
  simpa [noRemapChangeB, NoRemapChange] using h

/-- the operation is one of `Client()`, `register_key`, `unregister_key`, `__setattr__` and stays out of K4 / K5 -/
def opOK (s : BB) : BOp → Bool
| .new _ => true
| .setattr _ _ _ => true
| .register c name _ _ remapTo =>
    match s.client? c with
    | some cl => noRemapChangeB cl (absNameS cl.ns name) (remapTo.getD (absNameS cl.ns name))
    | none => true
| .unregisterKey c name _ =>
    match s.client? c with
    | some cl =>
        match AL.get (absNameS cl.ns name) cl.remap with
        | some loc => noSelfAliasB cl (absNameS cl.ns name) loc
        | none => true
    | none => true
| _ => false

def histOK (s : BB) : List BOp → Bool
| [] => true
| op :: ops => opOK s op && histOK (s.step op).1 ops

theorem step_inv (s : BB) (op : BOp) (h : BB.Inv s) (hok : opOK s op = true) : BB.Inv (s.step op).1 := by
  cases op <;> simp only [opOK, Bool.false_eq_true] at hok
  case new ns => exact inv_newClient s ns h
  case setattr c name v =>
    exact inv_congr s _ (setattr_frame s c name v).1 (setattr_frame s c name v).2 h
  case register c name acc req remapTo =>
    simp only [BB.step]
    cases hc : s.client? c with
    | none => simp only [BB.register, hc]; exact h
    | some cl =>
      simp only [hc] at hok
      cases acc with
      | none => simp only [BB.register, hc]; exact h
      | some a =>
        by_cases hconf : conflict s (remapTo.getD (absNameS cl.ns name)) a = true
        · rw [register_eq s c cl name a req remapTo hc, if_pos hconf]; exact h
        · apply C14_register_mirror_partial s c cl name a req remapTo h hc (noRemapChangeB_spec hok)
          rw [register_eq s c cl name a req remapTo hc, if_neg hconf]
  case unregisterKey c name clear =>
    simp only [BB.step]
    cases hc : s.client? c with
    | none => simp only [BB.unregisterKey, hc]; exact h
    | some cl =>
      simp only [hc] at hok
      cases hg : AL.get (absNameS cl.ns name) cl.remap with
      | none => simp only [BB.unregisterKey, hc, hg]; exact h
      | some loc =>
        simp only [hg] at hok
        exact C14_unregisterKey_mirror_partial s c cl name clear true loc h hc hg (noSelfAliasB_spec hok)

end C14

/-- every history of client creations, registrations, single-key unregistrations and writes that never changes an
    existing remapping (K4) and never unregisters one of two keys aliased onto one location (K5) ends in a state
    whose metadata mirrors the live registrations -/
theorem C14_history_mirror_partial (ops : List BOp) :
    ∀ s : BB, BB.Inv s → C14.histOK s ops = true → BB.Inv (BB.runOps ops s) := by
  induction ops with
  | nil => intro s h _; exact h
  | cons op ops ih =>
    intro s h hok
    simp only [C14.histOK, Bool.and_eq_true] at hok
    exact ih _ (C14.step_inv s op h hok.1) hok.2

/-! ### non-vacuity -/

namespace C14

/-- two clients in different namespaces share "/L" (one writes it through a remapped key, one reads it by its
    absolute name), client 0 also holds "/a/b" exclusively (required); "/L" has a value -/
def demo : BB := BB.runOps
  [.new "", .new "robot", .register 0 "k" (some .write) false (some "/L"), .register 1 "/L" (some .read) true none,
   .register 0 "a/b" (some .exclusive) true none, .setattr 0 "k" (.int 7)]

theorem demo_inv : BB.Inv demo := C14_history_mirror_partial _ _ inv_empty (by decide +kernel)

end C14

-- the invariant and the hypotheses of the theorems hold in a concrete non-trivial state
example : Mirror C14.demo := C14.demo_inv.1
example : C14.demo.keys = ["/L", "/a/b"] := by decide +kernel
example : (BB.metaOf C14.demo "/L").write = [0] ∧ (BB.metaOf C14.demo "/L").read = [1] := by decide +kernel
example : AL.NoDup C14.demo.storage := by unfold AL.NoDup; decide +kernel
example : (C14.demo.client? 0).map (·.remap) = some [("/k", "/L"), ("/a/b", "/a/b")] := by decide +kernel
-- `NoRemapChange` / `NoSelfAlias` for the next calls
example : (C14.demo.client? 1).all (fun cl => C14.noRemapChangeB cl (absNameS cl.ns "x") "/L") = true := by
  decide +kernel
example : (C14.demo.client? 0).all (fun cl => C14.noSelfAliasB cl (absNameS cl.ns "k") "/L") = true := by
  decide +kernel
-- client 0 unregisters "k" with clear: "/L" stays (client 1 still reads it) and keeps its value
example : "/L" ∈ (C14.demo.unregisterKey 0 "k" true).1.keys := by decide +kernel
example : (AL.get "/L" (C14.demo.unregisterKey 0 "k" true).1.storage).isSome = true := by decide +kernel
-- then client 1 unregisters too: the location leaves the key set; the value goes exactly when clearing is requested
example : "/L" ∉ (BB.runOps [.unregisterKey 0 "k" true, .unregisterKey 1 "/L" true] C14.demo).keys := by
  decide +kernel
example : (AL.get "/L" (BB.runOps [.unregisterKey 0 "k" true, .unregisterKey 1 "/L" true] C14.demo).storage).isSome
    = false := by decide +kernel
example : (AL.get "/L" (BB.runOps [.unregisterKey 0 "k" true, .unregisterKey 1 "/L" false] C14.demo).storage).isSome
    = true := by decide +kernel
-- filters
example : C14.demo.keysByClients [1] = ["/L"] ∧ C14.demo.keysByClients [0] = ["/L", "/a/b"] := by decide +kernel
example : C14.demo.keysByLiteral "a/" = ["/a/b"] ∧ C14.demo.keysByLiteral "/" = ["/L", "/a/b"] := by decide +kernel
-- required keys: client 1 requires "/L" (present): ok; client 0 requires "/a/b" (no value): KeyError
example : C14.demo.stream.isNone = true := by decide +kernel
example : C14.isOk (C14.demo.verify 1).2 = true := by decide +kernel
example : C14.isKeyError (C14.demo.verify 0).2 = true := by decide +kernel

/-! ### 1. (summary) the association-list and set laws used above, as one top-level statement -/

theorem C14_assoc_list_laws {β : Type} (k k' : String) (v : β) (l : List (String × β)) :
    AL.get k (AL.put k v l) = some v ∧
    (k' ≠ k → AL.get k' (AL.put k v l) = AL.get k' l) ∧
    (AL.NoDup l → AL.get k (AL.del k l) = none) ∧
    (k' ≠ k → AL.get k' (AL.del k l) = AL.get k' l) ∧
    AL.has k' (AL.put k v l) = (decide (k' = k) || AL.has k' l) ∧
    (AL.NoDup l → AL.NoDup (AL.put k v l)) ∧ (AL.NoDup l → AL.NoDup (AL.del k l)) :=
  ⟨AL.get_put_same k v l, AL.get_put_other k k' v l, AL.get_del_same k l, AL.get_del_other k k' l,
   AL.has_put k k' v l, AL.NoDup_put k v l, AL.NoDup_del k l⟩

theorem C14_set_laws {α : Type} [DecidableEq α] (x y : α) (s : List α) :
    (x ∈ SetL.add y s ↔ x = y ∨ x ∈ s) ∧ (x ∈ SetL.discard y s ↔ x ≠ y ∧ x ∈ s) :=
  ⟨SetL.mem_add x y s, SetL.mem_discard x y s⟩
