/-
  The "prefix" invariant of RUNNING Sequences / Selectors and its preservation by every history.

  `prefixOK n` (decidable, Bool-valued) says, at every node of the tree:
   * a RUNNING Sequence that remembers child c: every child before c is SUCCESS, every child after c is INVALID
     (with or without memory);
   * a RUNNING memory Sequence that remembers no child (its current child was removed): SUCCESS children, then
     INVALID children (this is what the removal of the remembered child leaves behind; it is needed for the tick of
     such a node to re-establish the first clause);
   * a RUNNING Selector WITHOUT memory that selected child c: every child before c is FAILURE;
   * a RUNNING Selector WITH memory that selected child c: every child before c is FAILURE or INVALID (the
     higher priorities skipped thanks to memory are stop(INVALID)-ed on every re-entry: they do NOT keep their
     FAILURE);
   * nothing about the children AFTER the selected child of a Selector, with or without memory: on fresh entry the
     remembered selection is first reset to the FIRST child, so when the first child is selected again the lower
     priorities keep their stale SUCCESS / FAILURE (finding K1) -- never RUNNING, which `wf` already gives.

  `tickF_prefixOK`, `stopInv_prefixOK`, `fresh_prefixOK`, `run_prefixOK`, `reachable_prefixOK`,
  `prefixOK_of_mem_nodes`.  Second part: the behaviours entered by a tick belong to the ticked subtree
  (`Prefix.tickF_enters`), and the resumed tick of a memory Sequence / Selector enters only the children from the
  remembered one on.
-/
import PyTreesProofs.Lemmas.Run
import PyTreesProofs.Lemmas.Shape
set_option linter.unusedVariables false
set_option linter.unusedSimpArgs false
open Node

namespace Node

def seqPre (c : Nat) : List Node → Bool
| [] => true
| x :: xs => if x.id = c then xs.all (fun y => y.status == .invalid) else x.status == .success && seqPre c xs

def selPre (m : Bool) (c : Nat) : List Node → Bool
| [] => true
| x :: xs => if x.id = c then true else (x.status == .failure || (m && x.status == .invalid)) && selPre m c xs

/-- the ORIGINALLY requested selector clause (memory): FAILURE before, INVALID after -/
def selPreStrict (c : Nat) : List Node → Bool
| [] => true
| x :: xs => if x.id = c then xs.all (fun y => y.status == .invalid) else x.status == .failure && selPreStrict c xs

def seqOK (m : Bool) (st : Status) (cur : Option Nat) (cs : List Node) : Bool :=
  st != .running ||
    (match cur with
     | some c => seqPre c cs
     | none => !m || (splitAtNonSuccess cs).2.all (fun y => y.status == .invalid))

def selOK (m : Bool) (st : Status) (cur : Option Nat) (cs : List Node) : Bool :=
  st != .running || (match cur with | some c => selPre m c cs | none => true)

mutual
def prefixOK : Node → Bool
| leaf _ _ _ _ => true
| seq _ m st cur cs => seqOK m st cur cs && prefixOKL cs
| sel _ m st cur cs => selOK m st cur cs && prefixOKL cs
| par _ _ _ _ cs => prefixOKL cs
| dec _ _ _ c => prefixOK c
def prefixOKL : List Node → Bool
| [] => true
| c :: cs => prefixOK c && prefixOKL cs
end



/-! ### list forms -/

theorem prefixOKL_iff {cs : List Node} : prefixOKL cs = true ↔ ∀ c ∈ cs, prefixOK c = true := by
  induction cs with
  | nil => simp [prefixOKL]
  | cons c cs ih => simp [prefixOKL, ih]

theorem prefixOKL_append {a b : List Node} :
    prefixOKL (a ++ b) = true ↔ prefixOKL a = true ∧ prefixOKL b = true := by
  simp only [prefixOKL_iff, List.mem_append]; constructor
  · intro h; exact ⟨fun c hc => h c (Or.inl hc), fun c hc => h c (Or.inr hc)⟩
  · rintro ⟨h1, h2⟩ c (hc | hc); exact h1 c hc; exact h2 c hc

theorem prefixOKL_cons {c : Node} {cs : List Node} :
    prefixOKL (c :: cs) = true ↔ prefixOK c = true ∧ prefixOKL cs = true := by
  simp [prefixOKL]

/-- the Sequence clause, read on a decomposition of the children at the remembered child -/
theorem seqPre_append (c : Nat) (x : Node) (post : List Node) (hx : x.id = c) :
    ∀ pre : List Node, (∀ y ∈ pre, y.id ≠ c) →
      (seqPre c (pre ++ x :: post) = true ↔
        (∀ y ∈ pre, y.status = .success) ∧ ∀ y ∈ post, y.status = .invalid)
| [], _ => by simp [seqPre, hx]
| p :: pre, h => by
    have hp : p.id ≠ c := h p (by simp)
    have ih := seqPre_append c x post hx pre (fun y hy => h y (by simp [hy]))
    simp [seqPre, hp, ih, and_assoc]

/-- the Selector clause, read on a decomposition of the children at the selected child -/
theorem selPre_append (m : Bool) (c : Nat) (x : Node) (post : List Node) (hx : x.id = c) :
    ∀ pre : List Node, (∀ y ∈ pre, y.id ≠ c) →
      (selPre m c (pre ++ x :: post) = true ↔
        ∀ y ∈ pre, y.status = .failure ∨ (m = true ∧ y.status = .invalid))
| [], _ => by simp [selPre, hx]
| p :: pre, h => by
    have hp : p.id ≠ c := h p (by simp)
    have ih := selPre_append m c x post hx pre (fun y hy => h y (by simp [hy]))
    simp [selPre, hp, ih]

/-- `children.index(current_child)` on a decomposition of the children at the first child with that id -/
theorem splitAtId_append_cons (c : Nat) (x : Node) (post : List Node) (hx : x.id = c) :
    ∀ pre : List Node, (∀ y ∈ pre, y.id ≠ c) → splitAtId c (pre ++ x :: post) = some (pre, x :: post)
| [], _ => by simp [splitAtId, hx]
| p :: pre, h => by
    have hp : p.id ≠ c := h p (by simp)
    simp [splitAtId, hp, splitAtId_append_cons c x post hx pre (fun y hy => h y (by simp [hy]))]

/-- with pairwise distinct sibling ids, the children before a child with id `c` have another id -/
theorem ids_ne_of_nodup {pre post : List Node} {x : Node} {c : Nat} (hx : x.id = c)
    (hnd : ((pre ++ x :: post).map Node.id).Nodup) : ∀ y ∈ pre, y.id ≠ c := by
  intro y hy hyc
  rw [List.map_append, List.map_cons] at hnd
  exact (List.nodup_append.mp hnd).2.2 y.id (List.mem_map.mpr ⟨y, hy, rfl⟩) x.id (by simp) (hyc.trans hx.symm)

/-! ### everything INVALID ⇒ the invariant holds -/

mutual
theorem allInv_prefixOK : ∀ n : Node, allInv n = true → prefixOK n = true
| leaf _ _ _ _, _ => by simp [prefixOK]
| seq _ _ _ _ cs, h => by
    simp only [allInv, Bool.and_eq_true, beq_iff_eq] at h
    simp [prefixOK, seqOK, h.1, allInvL_prefixOKL cs h.2]
| sel _ _ _ _ cs, h => by
    simp only [allInv, Bool.and_eq_true, beq_iff_eq] at h
    simp [prefixOK, selOK, h.1, allInvL_prefixOKL cs h.2]
| par _ _ _ _ cs, h => by
    simp only [allInv, Bool.and_eq_true, beq_iff_eq] at h
    simp [prefixOK, allInvL_prefixOKL cs h.2]
| dec _ _ _ c, h => by
    simp only [allInv, Bool.and_eq_true, beq_iff_eq] at h
    simp [prefixOK, allInv_prefixOK c h.2]
theorem allInvL_prefixOKL : ∀ cs : List Node, allInvL cs = true → prefixOKL cs = true
| [], _ => by simp [prefixOKL]
| c :: cs, h => by
    simp only [allInvL, Bool.and_eq_true] at h
    simp [prefixOKL, allInv_prefixOK c h.1, allInvL_prefixOKL cs h.2]
end

theorem allInvL_status {cs : List Node} (h : allInvL cs = true) : ∀ y ∈ cs, y.status = .invalid := by
  rw [allInvL_iff] at h; intro y hy; exact allInv_status (h y hy)

/-- a freshly constructed tree satisfies the invariant -/
theorem fresh_prefixOK (n : Node) (h : isFresh n = true) : prefixOK n = true :=
  allInv_prefixOK n (fresh_facts n h).2.1

/-! ### stop(INVALID) -/

mutual
/-- `stop(INVALID)` keeps the invariant (every composite it visits becomes INVALID; the INVALID subtrees it skips
    are left as they were) -/
theorem stopInv_prefixOK : ∀ n : Node, prefixOK n = true → prefixOK (stopInv n).1 = true
| leaf _ _ _ _, _ => by simp [stopInv, prefixOK]
| seq _ _ _ _ cs, h => by
    simp only [prefixOK, Bool.and_eq_true] at h
    simp [stopInv, prefixOK, seqOK, stopInvNonInvalid_prefixOKL cs h.2]
| sel _ _ _ _ cs, h => by
    simp only [prefixOK, Bool.and_eq_true] at h
    simp [stopInv, prefixOK, selOK, stopInvNonInvalid_prefixOKL cs h.2]
| par _ _ _ _ cs, h => by
    simp only [prefixOK] at h
    simp [stopInv, prefixOK, stopInvPar_prefixOKL cs h]
| dec _ _ _ c, h => by
    simp only [prefixOK] at h
    simp [stopInv, prefixOK, stopInv_prefixOK c h]
theorem stopInvNonInvalid_prefixOKL : ∀ cs : List Node, prefixOKL cs = true →
    prefixOKL (stopInvNonInvalid cs).1 = true
| [], _ => by simp [stopInvNonInvalid, prefixOKL]
| c :: cs, h => by
    simp only [prefixOKL, Bool.and_eq_true] at h
    simp only [stopInvNonInvalid, prefixOKL, Bool.and_eq_true]
    refine ⟨?_, stopInvNonInvalid_prefixOKL cs h.2⟩
    split
    · exact stopInv_prefixOK c h.1
    · exact h.1
theorem stopInvPar_prefixOKL : ∀ cs : List Node, prefixOKL cs = true → prefixOKL (stopInvPar cs).1 = true
| [], _ => by simp [stopInvPar, prefixOKL]
| c :: cs, h => by
    simp only [prefixOKL, Bool.and_eq_true] at h
    have ih := stopInvPar_prefixOKL cs h.2
    simp only [stopInvPar]
    split
    · simp [prefixOKL, stopInv_prefixOK c h.1, ih]
    · split
      · simp [prefixOKL, stopInv_prefixOK c h.1, ih]
      · simp [prefixOKL, ih, h.1]
end

/-- for a well-formed tree no hypothesis on the state before is needed: everything is INVALID afterwards -/
theorem stopInv_prefixOK_of_wf (n : Node) (h : wf n = true) : prefixOK (stopInv n).1 = true :=
  allInv_prefixOK _ (stopInv_allInv n h)

theorem stopRunning_prefixOKL : ∀ cs : List Node, prefixOKL cs = true → prefixOKL (stopRunning cs).1 = true
| [], _ => by simp [stopRunning, prefixOKL]
| c :: cs, h => by
    simp only [prefixOKL, Bool.and_eq_true] at h
    simp only [stopRunning]
    split
    · simp [prefixOKL, stopInv_prefixOK c h.1, stopRunning_prefixOKL cs h.2]
    · simp [prefixOKL, h.1, stopRunning_prefixOKL cs h.2]

theorem stopInvAll_prefixOKL : ∀ cs : List Node, prefixOKL cs = true → prefixOKL (stopInvAll cs).1 = true
| [], _ => by simp [stopInvAll, prefixOKL]
| c :: cs, h => by
    simp only [prefixOKL, Bool.and_eq_true] at h
    simp [stopInvAll, prefixOKL, stopInv_prefixOK c h.1, stopInvAll_prefixOKL cs h.2]


/-! ### the child loops -/

/-- what a child tick function guarantees about the invariant (the induction hypothesis, packaged) -/
def TickP (t : Tick) : Prop :=
  ∀ w c c' w' tr, WOK w → Good c → prefixOK c = true → t w c = .ok (c', w', tr) → prefixOK c' = true

theorem seqLoop_prefix (t : Tick) (ht : TickOK t) (hp : TickP t) :
    ∀ (cs : List Node) (w : Store) (done : List Node) (r : Option (Node × List Node)) (w' : Store) (tr : List Ev),
      WOK w → GoodL cs → prefixOKL cs = true → seqLoop t w cs = .ok (done, r, w', tr) →
      prefixOKL done = true ∧ ∀ c' rest, r = some (c', rest) → prefixOK c' = true := by
  intro cs
  induction cs with
  | nil =>
    intro w done r w' tr hw _ _ h
    simp [seqLoop, pure, Except.pure] at h; obtain ⟨rfl, rfl, rfl, rfl⟩ := h
    simp [prefixOKL]
  | cons c cs ih =>
    intro w done r w' tr hw hg hpo h
    obtain ⟨hgc, hgcs⟩ := GoodL_cons.mp hg
    obtain ⟨hpc, hpcs⟩ := prefixOKL_cons.mp hpo
    simp only [seqLoop, bind, Except.bind] at h
    cases htc : t w c with
    | error e => simp [htc] at h
    | ok v =>
      obtain ⟨c', w1, trc⟩ := v
      obtain ⟨_, _, _, hw1⟩ := ht w c c' w1 trc hw hgc htc
      have hpc' := hp w c c' w1 trc hw hgc hpc htc
      simp only [htc] at h
      by_cases hs : c'.status = .success
      · simp only [hs, ne_eq, not_true_eq_false, ↓reduceIte] at h
        cases hl : seqLoop t w1 cs with
        | error e => simp [hl] at h
        | ok v2 =>
          obtain ⟨done2, r2, w2, tr2⟩ := v2
          simp only [hl, pure, Except.pure, Except.ok.injEq, Prod.mk.injEq] at h
          obtain ⟨rfl, rfl, rfl, rfl⟩ := h
          obtain ⟨i1, i2⟩ := ih w1 done2 r2 w2 tr2 hw1 hgcs hpcs hl
          exact ⟨prefixOKL_cons.mpr ⟨hpc', i1⟩, i2⟩
      · simp only [ne_eq, hs, not_false_eq_true, ↓reduceIte, pure, Except.pure, Except.ok.injEq, Prod.mk.injEq] at h
        obtain ⟨rfl, rfl, rfl, rfl⟩ := h
        refine ⟨by simp [prefixOKL], ?_⟩
        intro c2 rest hr
        simp only [Option.some.injEq, Prod.mk.injEq] at hr
        obtain ⟨rfl, _⟩ := hr; exact hpc'

theorem selLoop_prefix (t : Tick) (ht : TickOK t) (hp : TickP t) :
    ∀ (cs : List Node) (w : Store) (failed : List Node) (r : Option (Node × List Node)) (w' : Store) (tr : List Ev),
      WOK w → GoodL cs → prefixOKL cs = true → selLoop t w cs = .ok (failed, r, w', tr) →
      prefixOKL failed = true ∧ (∀ x ∈ failed, x.status ≠ .running ∧ x.status ≠ .success) ∧
      ∀ c' rest, r = some (c', rest) → prefixOK c' = true := by
  intro cs
  induction cs with
  | nil =>
    intro w done r w' tr hw _ _ h
    simp [selLoop, pure, Except.pure] at h; obtain ⟨rfl, rfl, rfl, rfl⟩ := h
    simp [prefixOKL]
  | cons c cs ih =>
    intro w done r w' tr hw hg hpo h
    obtain ⟨hgc, hgcs⟩ := GoodL_cons.mp hg
    obtain ⟨hpc, hpcs⟩ := prefixOKL_cons.mp hpo
    simp only [selLoop, bind, Except.bind] at h
    cases htc : t w c with
    | error e => simp [htc] at h
    | ok v =>
      obtain ⟨c', w1, trc⟩ := v
      obtain ⟨_, _, _, hw1⟩ := ht w c c' w1 trc hw hgc htc
      have hpc' := hp w c c' w1 trc hw hgc hpc htc
      simp only [htc] at h
      by_cases hs : c'.status = .running ∨ c'.status = .success
      · simp only [hs, ↓reduceIte, pure, Except.pure, Except.ok.injEq, Prod.mk.injEq] at h
        obtain ⟨rfl, rfl, rfl, rfl⟩ := h
        refine ⟨by simp [prefixOKL], by simp, ?_⟩
        intro c2 rest hr
        simp only [Option.some.injEq, Prod.mk.injEq] at hr
        obtain ⟨rfl, _⟩ := hr; exact hpc'
      · simp only [hs, ↓reduceIte] at h
        cases hl : selLoop t w1 cs with
        | error e => simp [hl] at h
        | ok v2 =>
          obtain ⟨done2, r2, w2, tr2⟩ := v2
          simp only [hl, pure, Except.pure, Except.ok.injEq, Prod.mk.injEq] at h
          obtain ⟨rfl, rfl, rfl, rfl⟩ := h
          obtain ⟨i1, i2, i3⟩ := ih w1 done2 r2 w2 tr2 hw1 hgcs hpcs hl
          refine ⟨prefixOKL_cons.mpr ⟨hpc', i1⟩, ?_, i3⟩
          intro x hx; simp only [List.mem_cons] at hx
          rcases hx with rfl | hx
          · exact ⟨fun h => hs (Or.inl h), fun h => hs (Or.inr h)⟩
          · exact i2 x hx

theorem parLoop_prefix (t : Tick) (ht : TickOK t) (hp : TickP t) (sync : Bool) :
    ∀ (cs : List Node) (w : Store) (cs' : List Node) (w' : Store) (tr : List Ev),
      WOK w → GoodL cs → prefixOKL cs = true → parLoop t sync w cs = .ok (cs', w', tr) →
      prefixOKL cs' = true := by
  intro cs
  induction cs with
  | nil =>
    intro w cs' w' tr hw _ _ h
    simp [parLoop, pure, Except.pure] at h; obtain ⟨rfl, rfl, rfl⟩ := h
    simp [prefixOKL]
  | cons c cs ih =>
    intro w cs' w' tr hw hg hpo h
    obtain ⟨hgc, hgcs⟩ := GoodL_cons.mp hg
    obtain ⟨hpc, hpcs⟩ := prefixOKL_cons.mp hpo
    simp only [parLoop, bind, Except.bind] at h
    split at h
    · cases hl : parLoop t sync w cs with
      | error e => simp [hl] at h
      | ok v2 =>
        obtain ⟨cs2, w2, tr2⟩ := v2
        simp only [hl, pure, Except.pure, Except.ok.injEq, Prod.mk.injEq] at h
        obtain ⟨rfl, rfl, rfl⟩ := h
        exact prefixOKL_cons.mpr ⟨hpc, ih w cs2 w2 tr2 hw hgcs hpcs hl⟩
    · cases htc : t w c with
      | error e => simp [htc] at h
      | ok v =>
        obtain ⟨c', w1, trc⟩ := v
        obtain ⟨_, _, _, hw1⟩ := ht w c c' w1 trc hw hgc htc
        have hpc' := hp w c c' w1 trc hw hgc hpc htc
        simp only [htc] at h
        cases hl : parLoop t sync w1 cs with
        | error e => simp [hl] at h
        | ok v2 =>
          obtain ⟨cs2, w2, tr2⟩ := v2
          simp only [hl, pure, Except.pure, Except.ok.injEq, Prod.mk.injEq] at h
          obtain ⟨rfl, rfl, rfl⟩ := h
          exact prefixOKL_cons.mpr ⟨hpc', ih w1 cs2 w2 tr2 hw1 hgcs hpcs hl⟩

/-! ### Sequence -/

/-- what the entry block of a Sequence hands to the loop: the skipped children are SUCCESS, and with memory the
    children after the starting child are INVALID -/
theorem seqEntry_prefix (st : Status) (m : Bool) (cur : Option Nat) (cs before rest : List Node) (trR : List Ev)
    (hw : wfL cs = true) (hp : prefixOKL cs = true) (hs : seqOK m st cur cs = true)
    (h : seqEntry st m cur cs = .ok (before, rest, trR)) :
    prefixOKL before = true ∧ prefixOKL rest = true ∧ (∀ y ∈ before, y.status = .success) ∧
    (m = true → ∀ y ∈ rest.tail, y.status = .invalid) := by
  unfold seqEntry at h
  split at h
  · simp only [pure, Except.pure, Except.ok.injEq, Prod.mk.injEq] at h
    obtain ⟨rfl, rfl, rfl⟩ := h
    refine ⟨by simp [prefixOKL], stopInvNonInvalid_prefixOKL cs hp, by simp, ?_⟩
    intro _ y hy
    exact allInvL_status (stopInvNonInvalid_allInvL cs hw) y (List.mem_of_mem_tail hy)
  · rename_i hst
    have hrun : st = .running := by simpa using hst
    subst hrun
    simp only [seqOK, bne_self_eq_false, Bool.false_or] at hs
    split at h
    · rename_i hm
      subst hm
      cases cur with
      | none =>
        simp only [pure, Except.pure, Except.ok.injEq, Prod.mk.injEq] at h
        obtain ⟨rfl, rfl, rfl⟩ := h
        obtain ⟨e1, e2⟩ := splitAtNonSuccess_spec cs
        rw [e1, prefixOKL_append] at hp
        simp only [Bool.not_true, Bool.false_or, List.all_eq_true, beq_iff_eq] at hs
        exact ⟨hp.1, hp.2, e2, fun _ y hy => hs y (List.mem_of_mem_tail hy)⟩
      | some cid =>
        simp only at h
        split at h
        · rename_i a b hsp
          simp only [pure, Except.pure, Except.ok.injEq, Prod.mk.injEq] at h
          obtain ⟨rfl, rfl, rfl⟩ := h
          obtain ⟨e1, e2, c, rest', e3, e4⟩ := splitAtId_spec cid cs _ _ hsp
          subst e3; subst e1
          rw [prefixOKL_append] at hp
          simp only at hs
          rw [seqPre_append cid c rest' e4 _ e2] at hs
          exact ⟨hp.1, hp.2, hs.1, fun _ => by simpa using hs.2⟩
        · simp [throw, throwThe, MonadExceptOf.throw] at h
    · rename_i hm
      simp only [pure, Except.pure, Except.ok.injEq, Prod.mk.injEq] at h
      obtain ⟨rfl, rfl, rfl⟩ := h
      exact ⟨by simp [prefixOKL], hp, by simp, fun hm' => absurd hm' hm⟩

theorem seqRun_prefix (t : Tick) (ht : TickOK t) (hp : TickP t) (w : Store) (i : Nat) (m : Bool)
    (before rest : List Node) (trR : List Ev) (n' : Node) (w' : Store) (tr : List Ev) (hw : WOK w)
    (hr : GoodL rest) (hpb : prefixOKL before = true) (hpr : prefixOKL rest = true)
    (hbs : ∀ y ∈ before, y.status = .success) (hm : m = true → ∀ y ∈ rest.tail, y.status = .invalid)
    (hg' : Good n') (h : seqRun t w i m before rest trR = .ok (n', w', tr)) : prefixOK n' = true := by
  simp only [seqRun, bind, Except.bind] at h
  cases hl : seqLoop t w rest with
  | error e => simp [hl] at h
  | ok v =>
    obtain ⟨done, r, w1, trl⟩ := v
    simp only [hl] at h
    obtain ⟨hd, hdn, hds, hw1, hr'⟩ := seqLoop_spec t ht rest w done r w1 trl hw hr hl
    obtain ⟨hpd, hpc⟩ := seqLoop_prefix t ht hp rest w done r w1 trl hw hr hpr hl
    cases r with
    | none =>
      simp only [pure, Except.pure, Except.ok.injEq, Prod.mk.injEq] at h
      obtain ⟨rfl, rfl, _⟩ := h
      simp [prefixOK, seqOK, prefixOKL_append.mpr ⟨hpb, hpd⟩]
    | some p =>
      obtain ⟨c', untouched⟩ := p
      obtain ⟨hc1, hc2, hc3, hids, pre, hpre, hlen⟩ := hr'
      have hpc' := hpc c' untouched rfl
      have hwu : GoodL untouched := by rw [hpre, GoodL_append] at hr; exact hr.2
      have hpu : prefixOKL untouched = true := by rw [hpre, prefixOKL_append] at hpr; exact hpr.2
      have hut : ∀ y ∈ untouched, y ∈ rest.tail := by
        intro y hy
        cases pre with
        | nil => simp at hlen
        | cons p0 pre' => rw [hpre]; simp [hy]
      -- the tail after the stopping child: INVALID in both cases, and the invariant holds below it
      have hT : prefixOKL (if m = true then (untouched, []) else stopInvNonInvalid untouched).1 = true ∧
          ∀ y ∈ (if m = true then (untouched, []) else stopInvNonInvalid untouched).1, y.status = .invalid := by
        by_cases hmm : m = true
        · simp only [hmm, ↓reduceIte]
          exact ⟨hpu, fun y hy => hm hmm y (hut y hy)⟩
        · simp only [hmm, Bool.false_eq_true, ↓reduceIte]
          exact ⟨stopInvNonInvalid_prefixOKL untouched hpu,
            allInvL_status (stopInvNonInvalid_allInvL untouched hwu.1)⟩
      simp only [pure, Except.pure, Except.ok.injEq, Prod.mk.injEq] at h
      obtain ⟨rfl, rfl, _⟩ := h
      generalize (if m = true then (untouched, []) else stopInvNonInvalid untouched).1 = tail at hT hg'
      obtain ⟨hT1, hT2⟩ := hT
      have hnd : (((before ++ done) ++ c' :: tail).map Node.id).Nodup := by
        have := hg'.1
        simp only [wf, Bool.and_eq_true, decide_eq_true_eq] at this
        exact this.1.1.2
      have hne : ∀ y ∈ before ++ done, y.id ≠ c'.id := by
        intro y hy e
        rw [List.map_append] at hnd
        exact (List.nodup_append.mp hnd).2.2 y.id (List.mem_map.mpr ⟨y, hy, rfl⟩) c'.id (by simp) e
      simp only [prefixOK, Bool.and_eq_true]
      refine ⟨?_, prefixOKL_append.mpr ⟨prefixOKL_append.mpr ⟨hpb, hpd⟩, prefixOKL_cons.mpr ⟨hpc', hT1⟩⟩⟩
      simp only [seqOK, Bool.or_eq_true]
      right
      rw [seqPre_append c'.id c' tail rfl _ hne]
      refine ⟨?_, hT2⟩
      intro y hy; simp only [List.mem_append] at hy
      rcases hy with hy | hy
      · exact hbs y hy
      · exact hds y hy


/-! ### Selector -/

/-- what the entry block of a Selector hands to the loop: the children skipped thanks to memory have been
    stop(INVALID)-ed -/
theorem selEntry_prefix (st : Status) (m : Bool) (cur cur0 : Option Nat) (cs before rest : List Node) (trP : List Ev)
    (hw : wfL cs = true) (hp : prefixOKL cs = true)
    (h : selEntry st m cur cs = .ok (cur0, before, rest, trP)) :
    prefixOKL before = true ∧ prefixOKL rest = true ∧ (∀ y ∈ before, m = true ∧ y.status = .invalid) := by
  unfold selEntry at h
  generalize (if st ≠ .running then cs.head?.map Node.id else cur) = c0 at h
  simp only at h
  split at h
  · rename_i hm
    cases c0 with
    | none =>
      simp only [pure, Except.pure, Except.ok.injEq, Prod.mk.injEq] at h
      obtain ⟨rfl, rfl, rfl, rfl⟩ := h
      exact ⟨by simp [prefixOKL], hp, by simp⟩
    | some cid =>
      simp only at h
      split at h
      · rename_i a b hsp
        simp only [pure, Except.pure, Except.ok.injEq, Prod.mk.injEq] at h
        obtain ⟨rfl, rfl, rfl, rfl⟩ := h
        obtain ⟨e1, _, _⟩ := splitAtId_spec cid cs _ _ hsp
        subst e1
        rw [prefixOKL_append] at hp; rw [wfL_append] at hw
        obtain ⟨_, q2, _⟩ := stopInvAll_spec a hw.1
        exact ⟨allInvL_prefixOKL _ q2, hp.2, fun y hy => ⟨hm, allInvL_status q2 y hy⟩⟩
      · simp [throw, throwThe, MonadExceptOf.throw] at h
  · simp only [pure, Except.pure, Except.ok.injEq, Prod.mk.injEq] at h
    obtain ⟨rfl, rfl, rfl, rfl⟩ := h
    exact ⟨by simp [prefixOKL], hp, by simp⟩

theorem selRun_prefix (t : Tick) (ht : TickOK t) (hp : TickP t) (w : Store) (i : Nat) (m : Bool) (cur0 : Option Nat)
    (before rest : List Node) (trP : List Ev) (n' : Node) (w' : Store) (tr : List Ev) (hw : WOK w)
    (hr : GoodL rest) (hpb : prefixOKL before = true) (hpr : prefixOKL rest = true)
    (hbs : ∀ y ∈ before, m = true ∧ y.status = .invalid)
    (hg' : Good n') (h : selRun t w i m cur0 before rest trP = .ok (n', w', tr)) : prefixOK n' = true := by
  simp only [selRun, bind, Except.bind] at h
  cases hl : selLoop t w rest with
  | error e => simp [hl] at h
  | ok v =>
    obtain ⟨failed, r, w1, trl⟩ := v
    simp only [hl] at h
    obtain ⟨hd, hdn, hds, hw1, hr'⟩ := selLoop_spec t ht rest w failed r w1 trl hw hr hl
    obtain ⟨hpd, hfs, hpc⟩ := selLoop_prefix t ht hp rest w failed r w1 trl hw hr hpr hl
    cases r with
    | none =>
      simp only [pure, Except.pure, Except.ok.injEq, Prod.mk.injEq] at h
      obtain ⟨rfl, rfl, _⟩ := h
      simp [prefixOK, selOK, prefixOKL_append.mpr ⟨hpb, hpd⟩]
    | some p =>
      obtain ⟨c', untouched⟩ := p
      obtain ⟨hc1, hc2, hids, pre, hpre, hlen⟩ := hr'
      have hpc' := hpc c' untouched rfl
      have hpu : prefixOKL untouched = true := by rw [hpre, prefixOKL_append] at hpr; exact hpr.2
      have hT : prefixOKL (if cur0 = some c'.id then (untouched, []) else stopInvNonInvalid untouched).1 = true := by
        split
        · exact hpu
        · exact stopInvNonInvalid_prefixOKL untouched hpu
      simp only [pure, Except.pure, Except.ok.injEq, Prod.mk.injEq] at h
      obtain ⟨rfl, rfl, _⟩ := h
      generalize (if cur0 = some c'.id then (untouched, []) else stopInvNonInvalid untouched).1 = tail at hT hg'
      have hnd : (((before ++ failed) ++ c' :: tail).map Node.id).Nodup := by
        have := hg'.1
        simp only [wf, Bool.and_eq_true, decide_eq_true_eq] at this
        exact this.1.1.2
      have hne : ∀ y ∈ before ++ failed, y.id ≠ c'.id := by
        intro y hy e
        rw [List.map_append] at hnd
        exact (List.nodup_append.mp hnd).2.2 y.id (List.mem_map.mpr ⟨y, hy, rfl⟩) c'.id (by simp) e
      simp only [prefixOK, Bool.and_eq_true]
      refine ⟨?_, prefixOKL_append.mpr ⟨prefixOKL_append.mpr ⟨hpb, hpd⟩, prefixOKL_cons.mpr ⟨hpc', hT⟩⟩⟩
      simp only [selOK, Bool.or_eq_true]
      right
      rw [selPre_append m c'.id c' tail rfl _ hne]
      intro y hy; simp only [List.mem_append] at hy
      rcases hy with hy | hy
      · exact Or.inr (hbs y hy)
      · left
        have h1 := hfs y hy
        have h2 := hds y hy
        cases hst : y.status <;> simp_all

/-! ### Parallel, decorators, leaves -/

theorem parRun_prefix (t : Tick) (ht : TickOK t) (hp : TickP t) (w : Store) (i : Nat) (p : Policy) (cs0 : List Node)
    (trR : List Ev) (n' : Node) (w' : Store) (tr : List Ev) (hw : WOK w) (hg : GoodL cs0)
    (hpo : prefixOKL cs0 = true) (h : parRun t w i p cs0 trR = .ok (n', w', tr)) : prefixOK n' = true := by
  simp only [parRun, bind, Except.bind] at h
  cases hl : parLoop t p.sync w cs0 with
  | error e => simp [hl] at h
  | ok v =>
    obtain ⟨cs1, w1, trl⟩ := v
    simp only [hl] at h
    have h1 := parLoop_prefix t ht hp p.sync cs0 w cs1 w1 trl hw hg hpo hl
    split at h
    · simp only [pure, Except.pure, Except.ok.injEq, Prod.mk.injEq] at h
      obtain ⟨rfl, rfl, _⟩ := h
      simpa [prefixOK] using stopRunning_prefixOKL cs1 h1
    · simp only [pure, Except.pure, Except.ok.injEq, Prod.mk.injEq] at h
      obtain ⟨rfl, rfl, _⟩ := h
      simpa [prefixOK] using h1

theorem decBounce_prefix (w : Store) (i : Nat) (k : DecKind) (s : Status) (c n' : Node) (w' : Store) (tr : List Ev)
    (hpo : prefixOK c = true) (h : decBounce w i k s c = .ok (n', w', tr)) : prefixOK n' = true := by
  simp only [decBounce, pure, Except.pure, Except.ok.injEq, Prod.mk.injEq] at h
  obtain ⟨rfl, rfl, _⟩ := h
  simp only [prefixOK]
  split
  · exact stopInv_prefixOK c hpo
  · exact hpo

theorem decRun_prefix (t : Tick) (ht : TickOK t) (hp : TickP t) (e : Env) (w : Store) (i : Nat) (k : DecKind)
    (st : Status) (c n' : Node) (w' : Store) (tr : List Ev) (hw : WOK w) (hg : Good c) (hpo : prefixOK c = true)
    (h : decRun t e w i k st c = .ok (n', w', tr)) : prefixOK n' = true := by
  simp only [decRun, bind, Except.bind] at h
  cases htc : t w c with
  | error err => simp [htc] at h
  | ok v =>
    obtain ⟨c1, w1, trc⟩ := v
    have hc1 := hp w c c1 w1 trc hw hg hpo htc
    simp only [htc] at h
    generalize (if st ≠ .running then decInit e k else k) = k0 at h
    cases hpb : decPublish k0 c1.status w1 with
    | error err => simp [hpb] at h
    | ok w2 =>
      simp only [hpb] at h
      have hc2 : prefixOK (if (decUpdate e k0 c1.status).2.2 = true then stopInv c1 else (c1, [])).1 = true := by
        split
        · exact stopInv_prefixOK c1 hc1
        · exact hc1
      generalize (if (decUpdate e k0 c1.status).2.2 = true then stopInv c1 else (c1, [])) = cc at h hc2
      split at h
      · simp only [pure, Except.pure, Except.ok.injEq, Prod.mk.injEq] at h
        obtain ⟨rfl, rfl, _⟩ := h
        simp only [prefixOK]
        split
        · exact stopInv_prefixOK _ hc2
        · exact hc2
      · simp only [pure, Except.pure, Except.ok.injEq, Prod.mk.injEq] at h
        obtain ⟨rfl, rfl, _⟩ := h
        simpa [prefixOK] using hc2

theorem leafTick_prefix (e : Env) (w : Store) (i : Nat) (st : Status) (k : LeafKind) (log : List LEv)
    (n' : Node) (w' : Store) (tr : List Ev) (h : leafTick e w i st k log = .ok (n', w', tr)) :
    prefixOK n' = true := by
  simp only [leafTick, bind, Except.bind] at h
  generalize (if st ≠ .running then leafInit e k else k) = k0 at h
  cases hu : leafUpdate i e w k0 with
  | error err => simp [hu] at h
  | ok v =>
    obtain ⟨k1, o, w1⟩ := v
    simp only [hu, pure, Except.pure, Except.ok.injEq, Prod.mk.injEq] at h
    obtain ⟨rfl, _, _⟩ := h
    simp [prefixOK]

/-! ### the invariant is kept by one tick -/

/-- one tick (any fuel) of a good subtree that satisfies the prefix invariant yields a subtree that satisfies it -/
theorem tickF_prefixOK (e : Env) (he : ValidEnv e) : ∀ (f : Nat) (w : Store) (n n' : Node) (w' : Store) (tr : List Ev),
    WOK w → Good n → prefixOK n = true → tickF f e w n = .ok (n', w', tr) → prefixOK n' = true := by
  intro f
  induction f with
  | zero => intro w n n' w' tr _ _ _ h; simp [tickF] at h
  | succ f ih =>
    have ht : TickOK (tickF f e) := fun w c c' w' tr hw hg h => tickF_good e he f w c c' w' tr hw hg h
    have hP : TickP (tickF f e) := fun w c c' w' tr hw hg hp h => ih w c c' w' tr hw hg hp h
    intro w n n' w' tr hw hg hpo h
    have hg' : Good n' := (tickF_good e he (f+1) w n n' w' tr hw hg h).1
    cases n with
    | leaf i st k log =>
      simp only [tickF] at h
      exact leafTick_prefix e w i st k log n' w' tr h
    | seq i m st cur cs =>
      obtain ⟨hwf, hlo⟩ := hg
      simp only [wf, Bool.and_eq_true, decide_eq_true_eq, Bool.or_eq_true, beq_iff_eq] at hwf
      obtain ⟨⟨⟨⟨⟨hwl, hrun⟩, hoc⟩, hnd⟩, _⟩, _⟩ := hwf
      simp only [leavesOK] at hlo
      simp only [prefixOK, Bool.and_eq_true] at hpo
      simp only [tickF, bind, Except.bind] at h
      cases hen : seqEntry st m cur cs with
      | error err => simp [hen] at h
      | ok v =>
        obtain ⟨before, rest, trR⟩ := v
        simp only [hen] at h
        by_cases hemp : cs = []
        · subst hemp
          simp only [List.isEmpty_nil, ↓reduceIte, pure, Except.pure, Except.ok.injEq, Prod.mk.injEq] at h
          obtain ⟨rfl, rfl, _⟩ := h
          simp [prefixOK, seqOK, prefixOKL]
        · have : cs.isEmpty = false := by simpa using hemp
          simp only [this, Bool.false_eq_true, ↓reduceIte] at h
          obtain ⟨s1, s2, s3, s4, s5, s6⟩ :=
            seqEntry_spec st m cur cs before rest trR ⟨hwl, hlo⟩ hrun hoc hnd hemp hen
          obtain ⟨p1, p2, p3, p4⟩ := seqEntry_prefix st m cur cs before rest trR hwl hpo.2 hpo.1 hen
          exact seqRun_prefix (tickF f e) ht hP w i m before rest trR n' w' tr hw s3 p1 p2 p3 p4 hg' h
    | sel i m st cur cs =>
      obtain ⟨hwf, hlo⟩ := hg
      simp only [wf, Bool.and_eq_true, decide_eq_true_eq, Bool.or_eq_true, beq_iff_eq] at hwf
      obtain ⟨⟨⟨⟨⟨hwl, hrun⟩, hoc⟩, hnd⟩, _⟩, _⟩ := hwf
      simp only [leavesOK] at hlo
      simp only [prefixOK, Bool.and_eq_true] at hpo
      simp only [tickF, bind, Except.bind] at h
      by_cases hemp : cs = []
      · subst hemp
        simp only [List.isEmpty_nil, ↓reduceIte, pure, Except.pure, Except.ok.injEq, Prod.mk.injEq] at h
        obtain ⟨rfl, rfl, _⟩ := h
        simp [prefixOK, selOK, prefixOKL]
      · have : cs.isEmpty = false := by simpa using hemp
        simp only [this, Bool.false_eq_true, ↓reduceIte] at h
        cases hen : selEntry st m cur cs with
        | error err => simp [hen] at h
        | ok v =>
          obtain ⟨cur0, before, rest, trP⟩ := v
          simp only [hen] at h
          obtain ⟨s1, s2, s3, s4, s5, s6⟩ := selEntry_spec st m cur cur0 cs before rest trP ⟨hwl, hlo⟩ hrun hoc hemp hen
          obtain ⟨p1, p2, p3⟩ := selEntry_prefix st m cur cur0 cs before rest trP hwl hpo.2 hen
          exact selRun_prefix (tickF f e) ht hP w i m cur0 before rest trP n' w' tr hw s3 p1 p2 p3 hg' h
    | par i p st cur cs =>
      obtain ⟨hwf, hlo⟩ := hg
      simp only [wf, Bool.and_eq_true, Bool.or_eq_true, beq_iff_eq, decide_eq_true_eq] at hwf
      obtain ⟨⟨⟨⟨hwl, hrun⟩, hnd⟩, _⟩, _⟩ := hwf
      simp only [leavesOK] at hlo
      simp only [prefixOK] at hpo
      simp only [tickF, bind, Except.bind] at h
      split at h
      · simp [throw, throwThe, MonadExceptOf.throw] at h
      · have h0 : GoodL (if st ≠ .running then stopInvNonInvalid cs else (cs, [])).1 ∧
            prefixOKL (if st ≠ .running then stopInvNonInvalid cs else (cs, [])).1 = true := by
          split
          · exact ⟨stopInvNonInvalid_GoodL cs ⟨hwl, hlo⟩, stopInvNonInvalid_prefixOKL cs hpo⟩
          · exact ⟨⟨hwl, hlo⟩, hpo⟩
        generalize (if st ≠ .running then stopInvNonInvalid cs else (cs, [])) = r0 at h h0
        simp only [pure, Except.pure] at h
        split at h
        · rename_i hemp
          simp only [Except.ok.injEq, Prod.mk.injEq] at h
          obtain ⟨rfl, rfl, _⟩ := h
          simpa [prefixOK] using h0.2
        · exact parRun_prefix (tickF f e) ht hP w i p r0.1 r0.2 n' w' tr hw h0.1 h0.2 h
    | dec i k st c =>
      obtain ⟨hwf, hlo⟩ := hg
      simp only [wf, Bool.and_eq_true, Bool.or_eq_true, beq_iff_eq] at hwf
      obtain ⟨⟨⟨hwc, hrun⟩, hk⟩, _⟩ := hwf
      simp only [leavesOK] at hlo
      simp only [prefixOK] at hpo
      simp only [tickF] at h
      split at h
      · split at h
        · exact decRun_prefix (tickF f e) ht hP e w i _ st c n' w' tr hw ⟨hwc, hlo⟩ hpo h
        · exact decBounce_prefix w i _ .failure c n' w' tr hpo h
      · exact decBounce_prefix w i _ _ c n' w' tr hpo h
      · exact decRun_prefix (tickF f e) ht hP e w i _ st c n' w' tr hw ⟨hwc, hlo⟩ hpo h

/-! ### histories -/

theorem step_prefixOK (n : Node) (w : Store) (op : Op) (n' : Node) (w' : Store) (tr : List Ev)
    (hop : ValidOp op) (hg : Good n) (hw : WOK w) (hp : prefixOK n = true)
    (h : step n w op = .ok (n', w', tr)) : prefixOK n' = true := by
  cases op with
  | tick e =>
    simp only [step, tick] at h
    exact tickF_prefixOK e hop _ w n n' w' tr hw hg hp h
  | stop =>
    simp only [step, Except.ok.injEq, Prod.mk.injEq] at h
    obtain ⟨rfl, _, _⟩ := h
    exact stopInv_prefixOK n hp
  | poke k v =>
    cases v with
    | some v =>
      simp only [step, Except.ok.injEq, Prod.mk.injEq] at h
      obtain ⟨rfl, _, _⟩ := h; exact hp
    | none =>
      simp only [step, Except.ok.injEq, Prod.mk.injEq] at h
      obtain ⟨rfl, _, _⟩ := h; exact hp

/-- every state reachable from a good state that satisfies the prefix invariant satisfies it -/
theorem run_prefixOK : ∀ (ops : List Op) (n : Node) (w : Store) (n' : Node) (w' : Store),
    (∀ op ∈ ops, ValidOp op) → Good n → WOK w → prefixOK n = true → run ops n w = .ok (n', w') →
    prefixOK n' = true
| [], n, w, n', w', _, _, _, hp, h => by
    simp only [run, Except.ok.injEq, Prod.mk.injEq] at h; obtain ⟨rfl, rfl⟩ := h; exact hp
| op :: ops, n, w, n', w', hops, hg, hw, hp, h => by
    simp only [run] at h
    cases hs : step n w op with
    | error e => simp [hs] at h
    | ok v =>
      obtain ⟨n1, w1, tr⟩ := v
      simp only [hs] at h
      obtain ⟨g1, w1ok, _⟩ := step_good n w op n1 w1 tr (hops op (by simp)) hg hw hs
      have p1 := step_prefixOK n w op n1 w1 tr (hops op (by simp)) hg hw hp hs
      exact run_prefixOK ops n1 w1 n' w' (fun o ho => hops o (by simp [ho])) g1 w1ok p1 h

/-- every state reachable from a freshly constructed tree and an empty blackboard satisfies the prefix invariant -/
theorem reachable_prefixOK (ops : List Op) (n n' : Node) (w' : Store) (hf : isFresh n = true)
    (hops : ∀ op ∈ ops, ValidOp op) (h : run ops n Store.empty = .ok (n', w')) : prefixOK n' = true :=
  run_prefixOK ops n Store.empty n' w' hops (fresh_good n hf) WOK_empty (fresh_prefixOK n hf) h

mutual
/-- the invariant holds for every subtree -/
theorem prefixOK_of_mem_nodes : ∀ (n m : Node), prefixOK n = true → m ∈ nodes n → prefixOK m = true
| leaf i s k l, m, h, hm => by simp only [nodes, List.mem_singleton] at hm; subst hm; exact h
| seq i mm s c cs, m, h, hm => by
    simp only [nodes, List.mem_cons] at hm
    rcases hm with rfl | hm
    · exact h
    · simp only [prefixOK, Bool.and_eq_true] at h; exact prefixOKL_of_mem_nodesL cs m h.2 hm
| sel i mm s c cs, m, h, hm => by
    simp only [nodes, List.mem_cons] at hm
    rcases hm with rfl | hm
    · exact h
    · simp only [prefixOK, Bool.and_eq_true] at h; exact prefixOKL_of_mem_nodesL cs m h.2 hm
| par i p s c cs, m, h, hm => by
    simp only [nodes, List.mem_cons] at hm
    rcases hm with rfl | hm
    · exact h
    · simp only [prefixOK] at h; exact prefixOKL_of_mem_nodesL cs m h hm
| dec i k s c, m, h, hm => by
    simp only [nodes, List.mem_cons] at hm
    rcases hm with rfl | hm
    · exact h
    · simp only [prefixOK] at h; exact prefixOK_of_mem_nodes c m h hm
theorem prefixOKL_of_mem_nodesL : ∀ (cs : List Node) (m : Node), prefixOKL cs = true → m ∈ nodesL cs →
    prefixOK m = true
| [], m, _, hm => by simp [nodesL] at hm
| c :: cs, m, h, hm => by
    simp only [prefixOKL, Bool.and_eq_true] at h
    simp only [nodesL, List.mem_append] at hm
    rcases hm with hm | hm
    · exact prefixOK_of_mem_nodes c m h.1 hm
    · exact prefixOKL_of_mem_nodesL cs m h.2 hm
end

end Node


/-! ## the behaviours entered by a tick -/

namespace Prefix

/-- every `enter` event of the trace is for an id in `S` -/
def Enters (S : List Nat) (tr : List Ev) : Prop := ∀ j, Ev.enter j ∈ tr → j ∈ S

/-- a trace without `enter` events (interrupt traces) -/
def NoEnter (tr : List Ev) : Prop := ∀ j, Ev.enter j ∉ tr

theorem NoEnter.nil : NoEnter [] := by intro j h; simp at h

theorem NoEnter.append {a b : List Ev} (ha : NoEnter a) (hb : NoEnter b) : NoEnter (a ++ b) := by
  intro j h
  simp only [List.mem_append] at h
  rcases h with h | h
  · exact ha j h
  · exact hb j h

theorem NoEnter.enters {tr : List Ev} (h : NoEnter tr) (S : List Nat) : Enters S tr :=
  fun j hj => (h j hj).elim

theorem Enters.nil (S : List Nat) : Enters S [] := by intro j h; simp at h

theorem Enters.append {S : List Nat} {a b : List Ev} (ha : Enters S a) (hb : Enters S b) : Enters S (a ++ b) := by
  intro j h
  simp only [List.mem_append] at h
  rcases h with h | h
  · exact ha j h
  · exact hb j h

theorem Enters.mono {S T : List Nat} {tr : List Ev} (h : Enters S tr) (hST : ∀ j ∈ S, j ∈ T) : Enters T tr :=
  fun j hj => hST j (h j hj)

theorem Enters.cons_enter {S : List Nat} {tr : List Ev} (i : Nat) (h : Enters S tr) :
    Enters (i :: S) (Ev.enter i :: tr) := by
  intro j hj
  simp only [List.mem_cons, Ev.enter.injEq] at hj
  rcases hj with rfl | hj
  · simp
  · exact List.mem_cons_of_mem _ (h j hj)

theorem noEnter_yld (i : Nat) (s : Status) : NoEnter [Ev.yld i s] := by
  intro j h; simp at h

mutual
theorem stopInv_noEnter : ∀ n : Node, NoEnter (stopInv n).2
| leaf i _ _ _ => by intro j h; simp [stopInv] at h
| seq _ _ _ _ cs => by simp only [stopInv]; exact stopInvNonInvalid_noEnter cs
| sel _ _ _ _ cs => by simp only [stopInv]; exact stopInvNonInvalid_noEnter cs
| par _ _ _ _ cs => by
    simp only [stopInv]; exact NoEnter.append (stopInvPar_noEnter cs).1 (stopInvPar_noEnter cs).2
| dec _ _ _ c => by simp only [stopInv]; exact stopInv_noEnter c
theorem stopInvNonInvalid_noEnter : ∀ cs : List Node, NoEnter (stopInvNonInvalid cs).2
| [] => by simp [stopInvNonInvalid, NoEnter.nil]
| c :: cs => by
    simp only [stopInvNonInvalid]
    apply NoEnter.append
    · split
      · exact stopInv_noEnter c
      · exact NoEnter.nil
    · exact stopInvNonInvalid_noEnter cs
theorem stopInvPar_noEnter : ∀ cs : List Node, NoEnter (stopInvPar cs).2.1 ∧ NoEnter (stopInvPar cs).2.2
| [] => by simp [stopInvPar, NoEnter.nil]
| c :: cs => by
    have ih := stopInvPar_noEnter cs
    simp only [stopInvPar]
    split
    · exact ⟨NoEnter.append (stopInv_noEnter c) ih.1, ih.2⟩
    · split
      · exact ⟨ih.1, NoEnter.append (stopInv_noEnter c) ih.2⟩
      · exact ih
end

theorem stopRunning_noEnter : ∀ cs : List Node, NoEnter (stopRunning cs).2
| [] => by simp [stopRunning, NoEnter.nil]
| c :: cs => by
    simp only [stopRunning]
    apply NoEnter.append
    · split
      · exact stopInv_noEnter c
      · exact NoEnter.nil
    · exact stopRunning_noEnter cs

theorem stopInvAll_noEnter : ∀ cs : List Node, NoEnter (stopInvAll cs).2
| [] => by simp [stopInvAll, NoEnter.nil]
| c :: cs => by
    simp only [stopInvAll]
    exact NoEnter.append (stopInv_noEnter c) (stopInvAll_noEnter cs)

theorem idsL_append : ∀ (a b : List Skel), Skel.idsL (a ++ b) = Skel.idsL a ++ Skel.idsL b
| [], b => by simp [Skel.idsL]
| c :: a, b => by simp [Skel.idsL, idsL_append a b]

/-- the `enter`-ids property of a child tick function -/
def EntersOK (t : Tick) : Prop := ∀ w c c' w' tr, t w c = .ok (c', w', tr) → Enters (skel c).ids tr

theorem seqLoop_enters (t : Tick) (ht : EntersOK t) : ∀ (cs : List Node) (w : Store) (done : List Node)
    (r : Option (Node × List Node)) (w' : Store) (tr : List Ev),
    seqLoop t w cs = .ok (done, r, w', tr) → Enters (Skel.idsL (skelL cs)) tr
| [], w, done, r, w', tr, h => by
    simp only [seqLoop, pure, Except.pure, Except.ok.injEq, Prod.mk.injEq] at h
    obtain ⟨_, _, _, rfl⟩ := h
    exact Enters.nil _
| c :: cs, w, done, r, w', tr, h => by
    simp only [seqLoop, bind, Except.bind] at h
    cases htc : t w c with
    | error e => simp [htc] at h
    | ok v =>
      obtain ⟨c1, w1, tr1⟩ := v
      simp only [htc] at h
      have h1 : Enters (Skel.idsL (skelL (c :: cs))) tr1 :=
        (ht w c c1 w1 tr1 htc).mono (by intro j hj; simp [Skel.idsL, hj])
      split at h
      · simp only [pure, Except.pure, Except.ok.injEq, Prod.mk.injEq] at h
        obtain ⟨_, _, _, rfl⟩ := h
        exact h1
      · cases hl : seqLoop t w1 cs with
        | error e => simp [hl] at h
        | ok v =>
          obtain ⟨d2, r2, w2, tr2⟩ := v
          simp only [hl, pure, Except.pure, Except.ok.injEq, Prod.mk.injEq] at h
          obtain ⟨_, _, _, rfl⟩ := h
          exact h1.append ((seqLoop_enters t ht cs w1 d2 r2 w2 tr2 hl).mono
            (by intro j hj; simp [Skel.idsL, hj]))

theorem selLoop_enters (t : Tick) (ht : EntersOK t) : ∀ (cs : List Node) (w : Store) (done : List Node)
    (r : Option (Node × List Node)) (w' : Store) (tr : List Ev),
    selLoop t w cs = .ok (done, r, w', tr) → Enters (Skel.idsL (skelL cs)) tr
| [], w, done, r, w', tr, h => by
    simp only [selLoop, pure, Except.pure, Except.ok.injEq, Prod.mk.injEq] at h
    obtain ⟨_, _, _, rfl⟩ := h
    exact Enters.nil _
| c :: cs, w, done, r, w', tr, h => by
    simp only [selLoop, bind, Except.bind] at h
    cases htc : t w c with
    | error e => simp [htc] at h
    | ok v =>
      obtain ⟨c1, w1, tr1⟩ := v
      simp only [htc] at h
      have h1 : Enters (Skel.idsL (skelL (c :: cs))) tr1 :=
        (ht w c c1 w1 tr1 htc).mono (by intro j hj; simp [Skel.idsL, hj])
      split at h
      · simp only [pure, Except.pure, Except.ok.injEq, Prod.mk.injEq] at h
        obtain ⟨_, _, _, rfl⟩ := h
        exact h1
      · cases hl : selLoop t w1 cs with
        | error e => simp [hl] at h
        | ok v =>
          obtain ⟨d2, r2, w2, tr2⟩ := v
          simp only [hl, pure, Except.pure, Except.ok.injEq, Prod.mk.injEq] at h
          obtain ⟨_, _, _, rfl⟩ := h
          exact h1.append ((selLoop_enters t ht cs w1 d2 r2 w2 tr2 hl).mono
            (by intro j hj; simp [Skel.idsL, hj]))

theorem parLoop_enters (t : Tick) (ht : EntersOK t) (sync : Bool) : ∀ (cs : List Node) (w : Store) (cs' : List Node)
    (w' : Store) (tr : List Ev), parLoop t sync w cs = .ok (cs', w', tr) → Enters (Skel.idsL (skelL cs)) tr
| [], w, cs', w', tr, h => by
    simp only [parLoop, pure, Except.pure, Except.ok.injEq, Prod.mk.injEq] at h
    obtain ⟨_, _, rfl⟩ := h
    exact Enters.nil _
| c :: cs, w, cs', w', tr, h => by
    simp only [parLoop, bind, Except.bind] at h
    split at h
    · cases hl : parLoop t sync w cs with
      | error e => simp [hl] at h
      | ok v =>
        obtain ⟨d2, w2, tr2⟩ := v
        simp only [hl, pure, Except.pure, Except.ok.injEq, Prod.mk.injEq] at h
        obtain ⟨_, _, rfl⟩ := h
        exact (parLoop_enters t ht sync cs w d2 w2 tr2 hl).mono (by intro j hj; simp [Skel.idsL, hj])
    · cases htc : t w c with
      | error e => simp [htc] at h
      | ok v =>
        obtain ⟨c1, w1, tr1⟩ := v
        simp only [htc] at h
        have h1 : Enters (Skel.idsL (skelL (c :: cs))) tr1 :=
          (ht w c c1 w1 tr1 htc).mono (by intro j hj; simp [Skel.idsL, hj])
        cases hl : parLoop t sync w1 cs with
        | error e => simp [hl] at h
        | ok v =>
          obtain ⟨d2, w2, tr2⟩ := v
          simp only [hl, pure, Except.pure, Except.ok.injEq, Prod.mk.injEq] at h
          obtain ⟨_, _, rfl⟩ := h
          exact h1.append ((parLoop_enters t ht sync cs w1 d2 w2 tr2 hl).mono
            (by intro j hj; simp [Skel.idsL, hj]))

/-- the work block of a Sequence enters the Sequence itself and behaviours below the children it starts from -/
theorem seqRun_enters (t : Tick) (ht : EntersOK t) (w : Store) (i : Nat) (m : Bool) (before rest : List Node)
    (trR : List Ev) (n' : Node) (w' : Store) (tr : List Ev) (hR : NoEnter trR)
    (h : seqRun t w i m before rest trR = .ok (n', w', tr)) : Enters (i :: Skel.idsL (skelL rest)) tr := by
  simp only [seqRun, bind, Except.bind] at h
  cases hl : seqLoop t w rest with
  | error e => simp [hl] at h
  | ok v =>
    obtain ⟨done, r, w1, trl⟩ := v
    simp only [hl] at h
    have hs := seqLoop_enters t ht rest w done r w1 trl hl
    cases r with
    | none =>
      simp only [pure, Except.pure, Except.ok.injEq, Prod.mk.injEq] at h
      obtain ⟨_, _, rfl⟩ := h
      simp only [List.singleton_append, List.cons_append]
      exact Enters.cons_enter i (((hR.enters _).append hs).append ((noEnter_yld _ _).enters _))
    | some p =>
      obtain ⟨c', untouched⟩ := p
      simp only [pure, Except.pure, Except.ok.injEq, Prod.mk.injEq] at h
      obtain ⟨_, _, rfl⟩ := h
      have hK : NoEnter (if m = true then (untouched, []) else stopInvNonInvalid untouched).2 := by
        split
        · exact NoEnter.nil
        · exact stopInvNonInvalid_noEnter untouched
      simp only [List.singleton_append, List.cons_append]
      exact Enters.cons_enter i ((((hR.enters _).append hs).append (hK.enters _)).append ((noEnter_yld _ _).enters _))

/-- the work block of a Selector enters the Selector itself and behaviours below the children it starts from -/
theorem selRun_enters (t : Tick) (ht : EntersOK t) (w : Store) (i : Nat) (m : Bool) (cur0 : Option Nat)
    (before rest : List Node) (trP : List Ev) (n' : Node) (w' : Store) (tr : List Ev) (hP : NoEnter trP)
    (h : selRun t w i m cur0 before rest trP = .ok (n', w', tr)) : Enters (i :: Skel.idsL (skelL rest)) tr := by
  simp only [selRun, bind, Except.bind] at h
  cases hl : selLoop t w rest with
  | error e => simp [hl] at h
  | ok v =>
    obtain ⟨done, r, w1, trl⟩ := v
    simp only [hl] at h
    have hs := selLoop_enters t ht rest w done r w1 trl hl
    cases r with
    | none =>
      simp only [pure, Except.pure, Except.ok.injEq, Prod.mk.injEq] at h
      obtain ⟨_, _, rfl⟩ := h
      simp only [List.singleton_append, List.cons_append]
      exact Enters.cons_enter i (((hP.enters _).append hs).append ((noEnter_yld _ _).enters _))
    | some p =>
      obtain ⟨c', untouched⟩ := p
      simp only [pure, Except.pure, Except.ok.injEq, Prod.mk.injEq] at h
      obtain ⟨_, _, rfl⟩ := h
      have hK : NoEnter (if cur0 = some c'.id then (untouched, []) else stopInvNonInvalid untouched).2 := by
        split
        · exact NoEnter.nil
        · exact stopInvNonInvalid_noEnter untouched
      simp only [List.singleton_append, List.cons_append]
      exact Enters.cons_enter i ((((hP.enters _).append hs).append (hK.enters _)).append ((noEnter_yld _ _).enters _))

theorem parRun_enters (t : Tick) (ht : EntersOK t) (w : Store) (i : Nat) (p : Policy) (cs0 : List Node)
    (trR : List Ev) (n' : Node) (w' : Store) (tr : List Ev) (hR : NoEnter trR)
    (h : parRun t w i p cs0 trR = .ok (n', w', tr)) : Enters (i :: Skel.idsL (skelL cs0)) tr := by
  simp only [parRun, bind, Except.bind] at h
  cases hl : parLoop t p.sync w cs0 with
  | error e => simp [hl] at h
  | ok v =>
    obtain ⟨cs1, w1, trl⟩ := v
    simp only [hl] at h
    have hs := parLoop_enters t ht p.sync cs0 w cs1 w1 trl hl
    split at h
    · simp only [pure, Except.pure, Except.ok.injEq, Prod.mk.injEq] at h
      obtain ⟨_, _, rfl⟩ := h
      simp only [List.singleton_append, List.cons_append]
      exact Enters.cons_enter i ((((hR.enters _).append hs).append ((stopRunning_noEnter cs1).enters _)).append
        ((noEnter_yld _ _).enters _))
    · simp only [pure, Except.pure, Except.ok.injEq, Prod.mk.injEq] at h
      obtain ⟨_, _, rfl⟩ := h
      simp only [List.singleton_append, List.cons_append]
      exact Enters.cons_enter i (((hR.enters _).append hs).append ((noEnter_yld _ _).enters _))

theorem decBounce_enters (w : Store) (i : Nat) (k : DecKind) (s : Status) (c n' : Node) (w' : Store) (tr : List Ev)
    (h : decBounce w i k s c = .ok (n', w', tr)) : Enters (i :: (skel c).ids) tr := by
  simp only [decBounce, pure, Except.pure, Except.ok.injEq, Prod.mk.injEq] at h
  obtain ⟨_, _, rfl⟩ := h
  have hS : NoEnter (if c.status = .running then stopInv c else (c, [])).2 := by
    split
    · exact stopInv_noEnter c
    · exact NoEnter.nil
  simp only [List.singleton_append, List.cons_append]
  exact Enters.cons_enter i ((hS.enters _).append ((noEnter_yld _ _).enters _))

theorem decRun_enters (t : Tick) (ht : EntersOK t) (e : Env) (w : Store) (i : Nat) (k : DecKind) (st : Status)
    (c n' : Node) (w' : Store) (tr : List Ev)
    (h : decRun t e w i k st c = .ok (n', w', tr)) : Enters (i :: (skel c).ids) tr := by
  simp only [decRun, bind, Except.bind] at h
  cases htc : t w c with
  | error err => simp [htc] at h
  | ok v =>
    obtain ⟨c1, w1, trc⟩ := v
    have hc := ht w c c1 w1 trc htc
    simp only [htc] at h
    generalize (if st ≠ .running then decInit e k else k) = k0 at h
    cases hp : decPublish k0 c1.status w1 with
    | error err => simp [hp] at h
    | ok w2 =>
      simp only [hp] at h
      have hC : NoEnter (if (decUpdate e k0 c1.status).2.2 = true then stopInv c1 else (c1, [])).2 := by
        split
        · exact stopInv_noEnter c1
        · exact NoEnter.nil
      generalize (if (decUpdate e k0 c1.status).2.2 = true then stopInv c1 else (c1, [])) = cc at h hC
      split at h
      · simp only [pure, Except.pure, Except.ok.injEq, Prod.mk.injEq] at h
        obtain ⟨_, _, rfl⟩ := h
        have hS : NoEnter (if (decUpdate e k0 c1.status).2.1 = .invalid ∨ cc.1.status = .running
            then stopInv cc.1 else (cc.1, [])).2 := by
          split
          · exact stopInv_noEnter _
          · exact NoEnter.nil
        simp only [List.singleton_append, List.cons_append]
        exact Enters.cons_enter i (((hc.append (hC.enters _)).append (hS.enters _)).append
          ((noEnter_yld _ _).enters _))
      · simp only [pure, Except.pure, Except.ok.injEq, Prod.mk.injEq] at h
        obtain ⟨_, _, rfl⟩ := h
        simp only [List.singleton_append, List.cons_append]
        exact Enters.cons_enter i ((hc.append (hC.enters _)).append ((noEnter_yld _ _).enters _))

theorem leafTick_enters (e : Env) (w : Store) (i : Nat) (st : Status) (k : LeafKind) (log : List LEv)
    (n' : Node) (w' : Store) (tr : List Ev) (h : leafTick e w i st k log = .ok (n', w', tr)) : Enters [i] tr := by
  simp only [leafTick, bind, Except.bind] at h
  generalize (if st ≠ .running then leafInit e k else k) = k0 at h
  cases hu : leafUpdate i e w k0 with
  | error err => simp [hu] at h
  | ok v =>
    obtain ⟨k1, o, w1⟩ := v
    simp only [hu, pure, Except.pure, Except.ok.injEq, Prod.mk.injEq] at h
    obtain ⟨_, _, rfl⟩ := h
    intro j hj
    simp only [List.mem_append, List.mem_cons, List.mem_singleton, Ev.enter.injEq, reduceCtorEq, or_false,
      List.not_mem_nil, false_or] at hj
    rcases hj with (hj | hj) | hj
    · simp [hj]
    · split at hj <;> simp at hj
    · split at hj <;> simp at hj

theorem idsL_mono_of_append {a b c : List Node} (h : skelL (a ++ b) = skelL c) :
    ∀ j ∈ Skel.idsL (skelL b), j ∈ Skel.idsL (skelL c) := by
  intro j hj
  rw [← h, skelL_append, idsL_append]
  exact List.mem_append_right _ hj

theorem seqEntry_noEnter (st : Status) (m : Bool) (cur : Option Nat) (cs before rest : List Node) (trR : List Ev)
    (hen : seqEntry st m cur cs = .ok (before, rest, trR)) : NoEnter trR := by
  unfold seqEntry at hen
  split at hen
  · simp only [pure, Except.pure, Except.ok.injEq, Prod.mk.injEq] at hen
    obtain ⟨_, _, rfl⟩ := hen
    exact stopInvNonInvalid_noEnter cs
  · split at hen
    · split at hen
      · simp only [pure, Except.pure, Except.ok.injEq, Prod.mk.injEq] at hen
        obtain ⟨_, _, rfl⟩ := hen
        exact NoEnter.nil
      · split at hen
        · simp only [pure, Except.pure, Except.ok.injEq, Prod.mk.injEq] at hen
          obtain ⟨_, _, rfl⟩ := hen
          exact NoEnter.nil
        · simp [throw, throwThe, MonadExceptOf.throw] at hen
    · simp only [pure, Except.pure, Except.ok.injEq, Prod.mk.injEq] at hen
      obtain ⟨_, _, rfl⟩ := hen
      exact NoEnter.nil

theorem selEntry_noEnter (st : Status) (m : Bool) (cur cur0 : Option Nat) (cs before rest : List Node)
    (trP : List Ev) (hen : selEntry st m cur cs = .ok (cur0, before, rest, trP)) : NoEnter trP := by
  unfold selEntry at hen
  generalize (if st ≠ .running then cs.head?.map Node.id else cur) = c0 at hen
  simp only at hen
  split at hen
  · cases c0 with
    | none =>
      simp only [pure, Except.pure, Except.ok.injEq, Prod.mk.injEq] at hen
      obtain ⟨_, _, _, rfl⟩ := hen
      exact NoEnter.nil
    | some cid =>
      simp only at hen
      split at hen
      · simp only [pure, Except.pure, Except.ok.injEq, Prod.mk.injEq] at hen
        obtain ⟨_, _, _, rfl⟩ := hen
        exact stopInvAll_noEnter _
      · simp [throw, throwThe, MonadExceptOf.throw] at hen
  · simp only [pure, Except.pure, Except.ok.injEq, Prod.mk.injEq] at hen
    obtain ⟨_, _, _, rfl⟩ := hen
    exact NoEnter.nil

/-- **the behaviours a tick enters are behaviours of the ticked subtree** -/
theorem tickF_enters (e : Env) : ∀ (f : Nat) (w : Store) (n n' : Node) (w' : Store) (tr : List Ev),
    tickF f e w n = .ok (n', w', tr) → Enters (skel n).ids tr := by
  intro f
  induction f with
  | zero => intro w n n' w' tr h; simp [tickF] at h
  | succ f ih =>
    have hE : EntersOK (tickF f e) := fun w c c' w' tr h => ih w c c' w' tr h
    intro w n n' w' tr h
    cases n with
    | leaf i st k log =>
      simp only [tickF] at h
      simpa [skel, Skel.ids] using leafTick_enters e w i st k log n' w' tr h
    | seq i m st cur cs =>
      simp only [tickF, bind, Except.bind] at h
      cases hen : seqEntry st m cur cs with
      | error err => simp [hen] at h
      | ok v =>
        obtain ⟨before, rest, trR⟩ := v
        simp only [hen] at h
        have hRn := seqEntry_noEnter st m cur cs before rest trR hen
        by_cases hemp : cs.isEmpty = true
        · simp only [hemp, ↓reduceIte, pure, Except.pure, Except.ok.injEq, Prod.mk.injEq] at h
          obtain ⟨_, _, rfl⟩ := h
          simp only [List.singleton_append, List.cons_append, skel, Skel.ids]
          exact Enters.cons_enter i ((hRn.enters _).append ((noEnter_yld _ _).enters _))
        · simp only [hemp, Bool.false_eq_true, ↓reduceIte] at h
          have hs := seqEntry_skelL st m cur cs before rest trR hen
          refine (seqRun_enters (tickF f e) hE w i m before rest trR n' w' tr hRn h).mono ?_
          intro j hj
          simp only [List.mem_cons] at hj
          simp only [skel, Skel.ids, List.mem_cons]
          rcases hj with hj | hj
          · exact Or.inl hj
          · exact Or.inr (idsL_mono_of_append hs j hj)
    | sel i m st cur cs =>
      simp only [tickF, bind, Except.bind] at h
      split at h
      · simp only [pure, Except.pure, Except.ok.injEq, Prod.mk.injEq] at h
        obtain ⟨_, _, rfl⟩ := h
        intro j hj
        simp only [List.mem_cons, Ev.enter.injEq, reduceCtorEq, List.not_mem_nil, or_false] at hj
        simp [skel, Skel.ids, hj]
      · cases hen : selEntry st m cur cs with
        | error err => simp [hen] at h
        | ok v =>
          obtain ⟨cur0, before, rest, trP⟩ := v
          simp only [hen] at h
          have hs := selEntry_skelL st m cur cur0 cs before rest trP hen
          have hPn := selEntry_noEnter st m cur cur0 cs before rest trP hen
          refine (selRun_enters (tickF f e) hE w i m cur0 before rest trP n' w' tr hPn h).mono ?_
          intro j hj
          simp only [List.mem_cons] at hj
          simp only [skel, Skel.ids, List.mem_cons]
          rcases hj with hj | hj
          · exact Or.inl hj
          · exact Or.inr (idsL_mono_of_append hs j hj)
    | par i p st cur cs =>
      simp only [tickF, bind, Except.bind] at h
      split at h
      · simp [throw, throwThe, MonadExceptOf.throw] at h
      · have h0 : skelL (if st ≠ .running then stopInvNonInvalid cs else (cs, [])).1 = skelL cs ∧
            NoEnter (if st ≠ .running then stopInvNonInvalid cs else (cs, [])).2 := by
          split
          · exact ⟨stopInvNonInvalid_skelL cs, stopInvNonInvalid_noEnter cs⟩
          · exact ⟨rfl, NoEnter.nil⟩
        generalize (if st ≠ .running then stopInvNonInvalid cs else (cs, [])) = r0 at h h0
        simp only [pure, Except.pure] at h
        split at h
        · simp only [Except.ok.injEq, Prod.mk.injEq] at h
          obtain ⟨_, _, rfl⟩ := h
          simp only [List.singleton_append, List.cons_append]
          simp only [skel, Skel.ids]
          exact Enters.cons_enter i ((h0.2.enters _).append ((noEnter_yld _ _).enters _))
        · have := parRun_enters (tickF f e) hE w i p r0.1 r0.2 n' w' tr h0.2 h
          rw [h0.1] at this
          simpa [skel, Skel.ids] using this
    | dec i k st c =>
      simp only [tickF] at h
      split at h
      · split at h
        · simpa [skel, Skel.ids] using decRun_enters (tickF f e) hE e w i _ st c n' w' tr h
        · simpa [skel, Skel.ids] using decBounce_enters w i _ .failure c n' w' tr h
      · simpa [skel, Skel.ids] using decBounce_enters w i _ _ c n' w' tr h
      · simpa [skel, Skel.ids] using decRun_enters (tickF f e) hE e w i _ st c n' w' tr h

theorem tickF_EntersOK (e : Env) (f : Nat) : EntersOK (tickF f e) :=
  fun w c c' w' tr h => tickF_enters e f w c c' w' tr h

/-- **the resumed tick of a memory Sequence** enters the Sequence and behaviours below the children from the
    remembered one on — nothing below the children skipped thanks to memory -/
theorem seqResume_enters (f : Nat) (e : Env) (w : Store) (i c : Nat) (cs a b : List Node) (n' : Node) (w' : Store)
    (tr : List Ev) (hsp : splitAtId c cs = some (a, b))
    (h : tickF (f+1) e w (seq i true .running (some c) cs) = .ok (n', w', tr)) :
    Enters (i :: Skel.idsL (skelL b)) tr := by
  have hne : cs.isEmpty = false := by
    cases cs with
    | nil => simp [splitAtId] at hsp
    | cons x xs => rfl
  simp only [tickF, seqEntry, ne_eq, not_true_eq_false, ↓reduceIte, hsp, bind, Except.bind, pure, Except.pure, hne,
    Bool.false_eq_true] at h
  exact seqRun_enters (tickF f e) (tickF_EntersOK e f) w i true a b [] n' w' tr NoEnter.nil h

/-- **the resumed tick of a memory Selector** enters the Selector and behaviours below the children from the
    remembered one on — nothing below the higher priorities skipped thanks to memory -/
theorem selResume_enters (f : Nat) (e : Env) (w : Store) (i c : Nat) (cs a b : List Node) (n' : Node) (w' : Store)
    (tr : List Ev) (hsp : splitAtId c cs = some (a, b))
    (h : tickF (f+1) e w (sel i true .running (some c) cs) = .ok (n', w', tr)) :
    Enters (i :: Skel.idsL (skelL b)) tr := by
  have hne : cs.isEmpty = false := by
    cases cs with
    | nil => simp [splitAtId] at hsp
    | cons x xs => rfl
  simp only [tickF, selEntry, ne_eq, not_true_eq_false, ↓reduceIte, hsp, bind, Except.bind, pure, Except.pure, hne,
    Bool.false_eq_true] at h
  exact selRun_enters (tickF f e) (tickF_EntersOK e f) w i true (some c) (stopInvAll a).1 b (stopInvAll a).2 n' w' tr
    (stopInvAll_noEnter a) h

/-! ### ids of subtrees -/

theorem nodesL_append : ∀ (a b : List Node), nodesL (a ++ b) = nodesL a ++ nodesL b
| [], b => by simp [nodesL]
| c :: a, b => by simp [nodesL, nodesL_append a b]

theorem mem_nodesL {cs : List Node} {y z : Node} (hy : y ∈ cs) (hz : z ∈ nodes y) : z ∈ nodesL cs := by
  induction cs with
  | nil => simp at hy
  | cons c cs ih =>
    simp only [List.mem_cons] at hy
    simp only [nodesL, List.mem_append]
    rcases hy with rfl | hy
    · exact Or.inl hz
    · exact Or.inr (ih hy)

mutual
theorem nodes_sublist_of_mem : ∀ (n m : Node), m ∈ nodes n → (nodes m).Sublist (nodes n)
| leaf i s k l, m, hm => by simp only [nodes, List.mem_singleton] at hm; subst hm; exact List.Sublist.refl _
| seq i mm s c cs, m, hm => by
    simp only [nodes, List.mem_cons] at hm
    rcases hm with rfl | hm
    · exact List.Sublist.refl _
    · simp only [nodes]; exact (nodesL_sublist_of_mem cs m hm).cons _
| sel i mm s c cs, m, hm => by
    simp only [nodes, List.mem_cons] at hm
    rcases hm with rfl | hm
    · exact List.Sublist.refl _
    · simp only [nodes]; exact (nodesL_sublist_of_mem cs m hm).cons _
| par i p s c cs, m, hm => by
    simp only [nodes, List.mem_cons] at hm
    rcases hm with rfl | hm
    · exact List.Sublist.refl _
    · simp only [nodes]; exact (nodesL_sublist_of_mem cs m hm).cons _
| dec i k s c, m, hm => by
    simp only [nodes, List.mem_cons] at hm
    rcases hm with rfl | hm
    · exact List.Sublist.refl _
    · simp only [nodes]; exact (nodes_sublist_of_mem c m hm).cons _
theorem nodesL_sublist_of_mem : ∀ (cs : List Node) (m : Node), m ∈ nodesL cs → (nodes m).Sublist (nodesL cs)
| [], m, hm => by simp [nodesL] at hm
| c :: cs, m, hm => by
    simp only [nodesL, List.mem_append] at hm
    simp only [nodesL]
    rcases hm with hm | hm
    · exact (nodes_sublist_of_mem c m hm).trans (List.sublist_append_left _ _)
    · exact (nodesL_sublist_of_mem cs m hm).trans (List.sublist_append_right _ _)
end

/-- if the behaviours of a tree have pairwise distinct ids, so have those of every subtree -/
theorem ids_nodup_of_mem_nodes {n m : Node} (h : ((nodes n).map Node.id).Nodup) (hm : m ∈ nodes n) :
    ((nodes m).map Node.id).Nodup :=
  List.Nodup.sublist ((nodes_sublist_of_mem n m hm).map Node.id) h

/-- a trace that enters only `i` and behaviours below `b` enters nothing below `a`, when the ids of
    `i`, `a`, `b` are pairwise distinct -/
theorem not_enter_before (i : Nat) (a b : List Node) (tr : List Ev) (hE : Enters (i :: Skel.idsL (skelL b)) tr)
    (hnd : (i :: (nodesL (a ++ b)).map Node.id).Nodup) :
    ∀ y ∈ a, ∀ z ∈ nodes y, Ev.enter z.id ∉ tr := by
  intro y hy z hz hmem
  have hj := hE z.id hmem
  rw [← nodesL_ids, List.mem_cons] at hj
  have hza : z.id ∈ (nodesL a).map Node.id := List.mem_map.mpr ⟨z, mem_nodesL hy hz, rfl⟩
  rw [nodesL_append, List.map_append, List.nodup_cons] at hnd
  rcases hj with hj | hj
  · exact hnd.1 (by rw [← hj]; exact List.mem_append_left _ hza)
  · exact (List.nodup_append.mp hnd.2).2.2 z.id hza z.id hj rfl

end Prefix


/-! ## non-vacuity and the clauses that do NOT hold -/

namespace Prefix

def probe (i : Nat) : Node := .leaf i .invalid .probe []

/-- outcomes of the probes 2, 3 and (any other id) 4 -/
def env3 (o2 o3 o4 : Status) : Env :=
  { outcome := fun i => if i = 2 then o2 else if i = 3 then o3 else o4, guard := fun _ => true, now := 0 }

theorem env3_valid (o2 o3 o4 : Status) (h2 : o2 ≠ .invalid) (h3 : o3 ≠ .invalid) (h4 : o4 ≠ .invalid) :
    ValidEnv (env3 o2 o3 o4) := by
  intro i; simp only [env3]; split
  · exact h2
  · split
    · exact h3
    · exact h4

/-- the tree reached by a history from an empty blackboard -/
def reach (ops : List Op) (n : Node) : Option Node := (run ops n Store.empty).toOption.map (·.1)

/-- ids and statuses, pre-order -/
def view (n : Node) : List (Nat × Status) := (nodes n).map (fun m => (m.id, m.status))

def seqMem : Node := .seq 1 true .invalid none [probe 2, probe 3, probe 4]
def seqNoMem : Node := .seq 1 false .invalid none [probe 2, probe 3, probe 4]
def selMem : Node := .sel 1 true .invalid none [probe 2, probe 3, probe 4]
def selNoMem : Node := .sel 1 false .invalid none [probe 2, probe 3, probe 4]
/-- a memory sequence below a parallel below a decorator, next to a memoryless selector -/
def nested : Node :=
  .par 1 (.onAll false) .invalid none
    [.dec 5 .inverter .invalid (.seq 6 true .invalid none [probe 2, probe 3, probe 4]),
     .sel 7 false .invalid none [probe 8, probe 9]]

/-- probe 2 succeeds, probe 8 fails, every other probe is RUNNING -/
def envN : Env :=
  { outcome := fun i => if i = 2 then .success else if i = 8 then .failure else .running, guard := fun _ => true,
    now := 0 }

example : isFresh seqMem = true ∧ isFresh seqNoMem = true ∧ isFresh selMem = true ∧ isFresh selNoMem = true ∧
    isFresh nested = true := by decide
example : ((nodes nested).map Node.id).Nodup := by decide

-- a memory sequence RUNNING at its second child: S, R, I
example : (reach [.tick (env3 .success .running .failure)] seqMem).map (fun n => (view n, prefixOK n)) =
    some ([(1, .running), (2, .success), (3, .running), (4, .invalid)], true) := by decide
-- … re-entered while RUNNING: the child before the remembered one is untouched (its probe would now fail)
example : (reach [.tick (env3 .success .running .failure), .tick (env3 .failure .success .running)] seqMem).map
    (fun n => (view n, prefixOK n)) =
    some ([(1, .running), (2, .success), (3, .success), (4, .running)], true) := by decide
-- a sequence WITHOUT memory RUNNING at child 3 after having been RUNNING at child 4: the children before were
-- ticked in this tick (SUCCESS), the child after was stopped (INVALID)
example : (reach [.tick (env3 .success .success .running), .tick (env3 .success .running .failure)] seqNoMem).map
    (fun n => (view n, prefixOK n)) =
    some ([(1, .running), (2, .success), (3, .running), (4, .invalid)], true) := by decide
-- interrupt, then tick again
example : (reach [.tick (env3 .success .success .running), .stop, .tick (env3 .success .running .failure)]
    seqMem).map (fun n => (view n, prefixOK n)) =
    some ([(1, .running), (2, .success), (3, .running), (4, .invalid)], true) := by decide
-- a selector without memory: FAILURE before the selected child
example : (reach [.tick (env3 .failure .failure .running), .tick (env3 .failure .running .failure)] selNoMem).map
    (fun n => (view n, prefixOK n)) =
    some ([(1, .running), (2, .failure), (3, .running), (4, .invalid)], true) := by decide
-- nested composites
example : (reach [.tick envN, .poke "x" (some (.bool true)), .tick envN] nested).map
    (fun n => (view n, prefixOK n)) =
    some ([(1, .running), (5, .running), (6, .running), (2, .success), (3, .running), (4, .invalid),
           (7, .running), (8, .failure), (9, .running)], true) := by decide

-- the invariant is not trivially true: these (unreachable) states violate it
example : prefixOK (.seq 1 true .running (some 3)
    [.leaf 2 .failure .probe [], .leaf 3 .running .probe [], .leaf 4 .invalid .probe []]) = false := by decide
example : prefixOK (.seq 1 true .running (some 3)
    [.leaf 2 .success .probe [], .leaf 3 .running .probe [], .leaf 4 .success .probe []]) = false := by decide
example : prefixOK (.sel 1 false .running (some 3)
    [.leaf 2 .invalid .probe [], .leaf 3 .running .probe [], .leaf 4 .invalid .probe []]) = false := by decide
example : prefixOK (.sel 1 true .running (some 3)
    [.leaf 2 .success .probe [], .leaf 3 .running .probe [], .leaf 4 .invalid .probe []]) = false := by decide

/-- **the requested clause "memory Selector: FAILURE before the selected child" is false in the model**: after a
    re-entry the skipped higher priority shows INVALID (it was stop(INVALID)-ed), `selPreStrict` fails -/
theorem selMem_before_not_failure :
    (reach [.tick (env3 .failure .running .failure), .tick (env3 .success .running .failure)] selMem).map
      (fun n => (view n, n.children.map Node.status, selPreStrict 3 n.children, prefixOK n)) =
    some ([(1, .running), (2, .invalid), (3, .running), (4, .invalid)], [.invalid, .running, .invalid], false, true) := by
  decide

/-- **the requested clause "memory Selector: INVALID after the selected child" is false in the model** (finding K1
    applies with memory too): all three fail, then the first child is RUNNING on the fresh re-entry — the lower
    priorities keep their stale FAILURE (or a stale SUCCESS, second history) -/
theorem selMem_after_not_invalid :
    (reach [.tick (env3 .failure .failure .failure), .tick (env3 .running .running .failure)] selMem).map
      (fun n => (view n, selPreStrict 2 n.children, prefixOK n)) =
    some ([(1, .running), (2, .running), (3, .failure), (4, .failure)], false, true) ∧
    (reach [.tick (env3 .failure .success .failure), .tick (env3 .running .running .failure)] selMem).map
      (fun n => (view n, selPreStrict 2 n.children, prefixOK n)) =
    some ([(1, .running), (2, .running), (3, .success), (4, .invalid)], false, true) := by
  decide

/-- an ill-formed tree (an INVALID sequence above a RUNNING selector) whose violation survives `stop(INVALID)`:
    the INVALID child is skipped by `Composite.stop`.  So `stopInv_prefixOK` needs a hypothesis (`prefixOK n`, or
    `wf n`: `stopInv_prefixOK_of_wf`). -/
def illFormed : Node :=
  .seq 1 false .running (some 2)
    [.leaf 2 .running .probe [.init, .upd .running],
     .seq 3 false .invalid none
       [.sel 4 true .running (some 6) [.leaf 5 .success .probe [], .leaf 6 .running .probe [.init, .upd .running]]]]

theorem stopInv_prefixOK_needs_hypothesis :
    wf illFormed = false ∧ prefixOK illFormed = false ∧ prefixOK (stopInv illFormed).1 = false := by decide

end Prefix
