/-
  Invariants of tree states and their preservation by `stop(INVALID)`.

  `wf n` (decidable, Bool-valued) is the conjunction, at every node of the tree, of
   * Closed       a node that is not RUNNING has no RUNNING node below it
   * InvDown      an INVALID node has only INVALID nodes below it
   * OnlyCurRuns  (seq/sel) a child whose subtree contains a RUNNING node is the current child
   * CurOK        INVALID composites remember no child; a remembered child exists and is not INVALID
   * DistinctKids sibling ids are pairwise distinct
   * DecOK        a latched one-shot status is SUCCESS or FAILURE
   * LeafProto    a leaf's callback log is accepted by the lifecycle automaton and the automaton is in
                  its Running state exactly when the leaf's status is RUNNING
-/
import PyTreesModel.Tree
set_option linter.unusedVariables false
set_option linter.unusedSimpArgs false
open Node

/-! ### the lifecycle automaton of C01 -/

inductive PState | idle | entered | running | closing (s : Status)
deriving DecidableEq, Repr

/-- one transition; `none` = protocol violation -/
def protoStep : Option PState → LEv → Option PState
| some .idle, .init => some .entered
| some .entered, .upd s => if s = .running then some .running else some (.closing s)
| some .running, .upd s => if s = .running then some .running else some (.closing s)
| some (.closing s), .term s' => if s = s' then some .idle else none
| some .running, .term s => if s = .invalid then some .idle else none
| some .idle, .term s => if s = .invalid then some .idle else none   -- redundant invalidation of an idle leaf
| _, _ => none

def protoRun (log : List LEv) : Option PState := log.foldl protoStep (some .idle)

/-- the log is accepted, the leaf is between rounds or RUNNING, and that agrees with its status -/
def protoOK (st : Status) (log : List LEv) : Bool :=
  match protoRun log with
  | some .idle => st != .running
  | some .running => st == .running
  | _ => false

theorem protoRun_append (a b : List LEv) : protoRun (a ++ b) = b.foldl protoStep (protoRun a) := by
  simp [protoRun, List.foldl_append]

namespace Node

mutual
def noRun : Node → Bool
| leaf _ s _ _ => s != .running
| seq _ _ s _ cs => s != .running && noRunL cs
| sel _ _ s _ cs => s != .running && noRunL cs
| par _ _ s _ cs => s != .running && noRunL cs
| dec _ _ s c => s != .running && noRun c
def noRunL : List Node → Bool
| [] => true
| c :: cs => noRun c && noRunL cs
end

mutual
/-- every node of the subtree is INVALID -/
def allInv : Node → Bool
| leaf _ s _ _ => s == .invalid
| seq _ _ s _ cs => s == .invalid && allInvL cs
| sel _ _ s _ cs => s == .invalid && allInvL cs
| par _ _ s _ cs => s == .invalid && allInvL cs
| dec _ _ s c => s == .invalid && allInv c
def allInvL : List Node → Bool
| [] => true
| c :: cs => allInv c && allInvL cs
end

/-- decorator state sanity: a latched one-shot status is SUCCESS or FAILURE -/
def decOK : DecKind → Bool
| .oneShot _ (some f) => f == .success || f == .failure
| _ => true

/-- every child that contains a RUNNING node is the current child -/
def onlyCur (cur : Option Nat) : List Node → Bool
| [] => true
| c :: cs => (noRun c || cur == some c.id) && onlyCur cur cs

/-- the remembered child exists and is not INVALID -/
def curOK (cur : Option Nat) (cs : List Node) : Bool :=
  match cur with
  | none => true
  | some c => cs.any (fun x => x.id == c && x.status != .invalid)

mutual
def wf : Node → Bool
| leaf _ s _ log => protoOK s log
| seq _ _ s cur cs => wfL cs && (s == .running || noRunL cs) && onlyCur cur cs && decide ((cs.map Node.id).Nodup)
    && (s != .invalid || (allInvL cs && cur.isNone)) && curOK cur cs
| sel _ _ s cur cs => wfL cs && (s == .running || noRunL cs) && onlyCur cur cs && decide ((cs.map Node.id).Nodup)
    && (s != .invalid || (allInvL cs && cur.isNone)) && curOK cur cs
| par _ _ s cur cs => wfL cs && (s == .running || noRunL cs) && decide ((cs.map Node.id).Nodup)
    && (s != .invalid || (allInvL cs && cur.isNone)) && curOK cur cs
| dec _ k s c => wf c && (s == .running || noRun c) && decOK k && (s != .invalid || allInv c)
def wfL : List Node → Bool
| [] => true
| c :: cs => wf c && wfL cs
end

/-! ### list forms -/

theorem noRunL_iff {cs : List Node} : noRunL cs = true ↔ ∀ c ∈ cs, noRun c = true := by
  induction cs with
  | nil => simp [noRunL]
  | cons c cs ih => simp [noRunL, ih]

theorem allInvL_iff {cs : List Node} : allInvL cs = true ↔ ∀ c ∈ cs, allInv c = true := by
  induction cs with
  | nil => simp [allInvL]
  | cons c cs ih => simp [allInvL, ih]

theorem wfL_iff {cs : List Node} : wfL cs = true ↔ ∀ c ∈ cs, wf c = true := by
  induction cs with
  | nil => simp [wfL]
  | cons c cs ih => simp [wfL, ih]

theorem onlyCur_iff {cur : Option Nat} {cs : List Node} :
    onlyCur cur cs = true ↔ ∀ c ∈ cs, noRun c = true ∨ cur = some c.id := by
  induction cs with
  | nil => simp [onlyCur]
  | cons c cs ih => simp [onlyCur, ih]

theorem curOK_iff {cur : Option Nat} {cs : List Node} :
    curOK cur cs = true ↔ ∀ c, cur = some c → ∃ x ∈ cs, x.id = c ∧ x.status ≠ .invalid := by
  cases cur with
  | none => simp [curOK]
  | some c => simp [curOK, List.any_eq_true]

theorem wfL_append {a b : List Node} : wfL (a ++ b) = true ↔ wfL a = true ∧ wfL b = true := by
  simp only [wfL_iff, List.mem_append]; constructor
  · intro h; exact ⟨fun c hc => h c (Or.inl hc), fun c hc => h c (Or.inr hc)⟩
  · rintro ⟨h1, h2⟩ c (hc | hc); exact h1 c hc; exact h2 c hc

theorem noRunL_append {a b : List Node} : noRunL (a ++ b) = true ↔ noRunL a = true ∧ noRunL b = true := by
  simp only [noRunL_iff, List.mem_append]; constructor
  · intro h; exact ⟨fun c hc => h c (Or.inl hc), fun c hc => h c (Or.inr hc)⟩
  · rintro ⟨h1, h2⟩ c (hc | hc); exact h1 c hc; exact h2 c hc

theorem allInvL_append {a b : List Node} : allInvL (a ++ b) = true ↔ allInvL a = true ∧ allInvL b = true := by
  simp only [allInvL_iff, List.mem_append]; constructor
  · intro h; exact ⟨fun c hc => h c (Or.inl hc), fun c hc => h c (Or.inr hc)⟩
  · rintro ⟨h1, h2⟩ c (hc | hc); exact h1 c hc; exact h2 c hc

theorem onlyCur_append {cur} {a b : List Node} :
    onlyCur cur (a ++ b) = true ↔ onlyCur cur a = true ∧ onlyCur cur b = true := by
  simp only [onlyCur_iff, List.mem_append]; constructor
  · intro h; exact ⟨fun c hc => h c (Or.inl hc), fun c hc => h c (Or.inr hc)⟩
  · rintro ⟨h1, h2⟩ c (hc | hc); exact h1 c hc; exact h2 c hc

/-! ### basic consequences -/

theorem noRun_status {n : Node} (h : noRun n = true) : n.status ≠ .running := by
  cases n <;> simp_all [noRun, status]

theorem allInv_status {n : Node} (h : allInv n = true) : n.status = .invalid := by
  cases n <;> simp_all [allInv, status]

mutual
theorem allInv_noRun : ∀ n : Node, allInv n = true → noRun n = true
| leaf _ _ _ _, h => by simp_all [allInv, noRun]
| seq _ _ _ _ cs, h => by
    simp only [allInv, Bool.and_eq_true, beq_iff_eq] at h
    simp [noRun, h.1, allInvL_noRunL cs h.2]
| sel _ _ _ _ cs, h => by
    simp only [allInv, Bool.and_eq_true, beq_iff_eq] at h
    simp [noRun, h.1, allInvL_noRunL cs h.2]
| par _ _ _ _ cs, h => by
    simp only [allInv, Bool.and_eq_true, beq_iff_eq] at h
    simp [noRun, h.1, allInvL_noRunL cs h.2]
| dec _ _ _ c, h => by
    simp only [allInv, Bool.and_eq_true, beq_iff_eq] at h
    simp [noRun, h.1, allInv_noRun c h.2]
theorem allInvL_noRunL : ∀ cs : List Node, allInvL cs = true → noRunL cs = true
| [], _ => by simp [noRunL]
| c :: cs, h => by
    simp only [allInvL, Bool.and_eq_true] at h
    simp [noRunL, allInv_noRun c h.1, allInvL_noRunL cs h.2]
end

/-- a well-formed node that is not RUNNING contains no RUNNING node -/
theorem wf_noRun {n : Node} (h : wf n = true) (hs : n.status ≠ .running) : noRun n = true := by
  cases n <;> simp_all [wf, noRun, status]

/-- a well-formed INVALID node contains only INVALID nodes -/
theorem wf_allInv {n : Node} (h : wf n = true) (hs : n.status = .invalid) : allInv n = true := by
  cases n <;> simp_all [wf, allInv, status]

theorem onlyCur_of_noRunL {cur : Option Nat} {cs : List Node} (h : noRunL cs = true) : onlyCur cur cs = true := by
  rw [onlyCur_iff]; rw [noRunL_iff] at h; intro c hc; exact Or.inl (h c hc)

theorem onlyCur_noRun_of_ne {cur : Option Nat} {cs : List Node} (h : onlyCur cur cs = true)
    (hne : ∀ c ∈ cs, cur ≠ some c.id) : noRunL cs = true := by
  rw [noRunL_iff]; rw [onlyCur_iff] at h
  intro c hc; rcases h c hc with h | h
  · exact h
  · exact absurd h (hne c hc)

/-! ### decorator state -/

theorem decOK_terminate (s : Status) (k : DecKind) (h : decOK k = true) : decOK (decTerminate s k) = true := by
  cases k with
  | oneShot b fin =>
    cases fin with
    | some f => simpa [decTerminate] using h
    | none => cases s <;> cases b <;> simp [decTerminate, decOK]
  | count t r su f i => cases s <;> simp [decTerminate, decOK]
  | _ => simp [decTerminate, decOK]

theorem decOK_init (e : Env) (k : DecKind) (h : decOK k = true) : decOK (decInit e k) = true := by
  cases k <;> simp_all [decInit, decOK]

theorem decOK_update (e : Env) (k : DecKind) (s : Status) (h : decOK k = true) : decOK (decUpdate e k s).1 = true := by
  cases k with
  | retry n f => cases s <;> simp only [decUpdate] <;> (try split) <;> simp [decOK]
  | repeat_ n f => cases s <;> simp only [decUpdate] <;> (try split) <;> simp [decOK]
  | timeout d fin => simp only [decUpdate]; split <;> simp [decOK]
  | oneShot b fin => simpa [decUpdate] using h
  | _ => simp [decUpdate, decOK]

/-! ### the leaf protocol under `stop(INVALID)` -/

theorem protoOK_stopInv (st : Status) (log : List LEv) (h : protoOK st log = true) :
    protoOK .invalid (log ++ [.term .invalid]) = true := by
  unfold protoOK at *
  rw [protoRun_append]
  cases hp : protoRun log with
  | none => simp [hp] at h
  | some p => cases p <;> simp_all [protoStep]

/-! ### stopInv -/

theorem stopInv_status (n : Node) : (stopInv n).1.status = .invalid := by
  cases n <;> simp [stopInv, status]

theorem stopInv_id (n : Node) : (stopInv n).1.id = n.id := by
  cases n <;> simp [stopInv, id]

mutual
/-- `stop(INVALID)` leaves every node of a well-formed subtree INVALID (C02, second clause) -/
theorem stopInv_allInv : ∀ n : Node, wf n = true → allInv (stopInv n).1 = true
| leaf _ _ _ _, _ => by simp [stopInv, allInv]
| seq _ _ _ _ cs, h => by
    simp only [wf, Bool.and_eq_true] at h
    simp [stopInv, allInv, stopInvNonInvalid_allInvL cs h.1.1.1.1.1]
| sel _ _ _ _ cs, h => by
    simp only [wf, Bool.and_eq_true] at h
    simp [stopInv, allInv, stopInvNonInvalid_allInvL cs h.1.1.1.1.1]
| par _ _ _ _ cs, h => by
    simp only [wf, Bool.and_eq_true] at h
    simp [stopInv, allInv, stopInvPar_allInvL cs h.1.1.1.1]
| dec _ _ _ c, h => by
    simp only [wf, Bool.and_eq_true] at h
    simp [stopInv, allInv, stopInv_allInv c h.1.1.1]
theorem stopInvNonInvalid_allInvL : ∀ cs : List Node, wfL cs = true → allInvL (stopInvNonInvalid cs).1 = true
| [], _ => by simp [stopInvNonInvalid, allInvL]
| c :: cs, h => by
    simp only [wfL, Bool.and_eq_true] at h
    simp only [stopInvNonInvalid, allInvL, Bool.and_eq_true]
    refine ⟨?_, stopInvNonInvalid_allInvL cs h.2⟩
    split
    · exact stopInv_allInv c h.1
    · rename_i hs
      exact wf_allInv h.1 (by simpa using hs)
theorem stopInvPar_allInvL : ∀ cs : List Node, wfL cs = true → allInvL (stopInvPar cs).1 = true
| [], _ => by simp [stopInvPar, allInvL]
| c :: cs, h => by
    simp only [wfL, Bool.and_eq_true] at h
    have ih := stopInvPar_allInvL cs h.2
    simp only [stopInvPar]
    split
    · simp [allInvL, stopInv_allInv c h.1, ih]
    · split
      · simp [allInvL, stopInv_allInv c h.1, ih]
      · rename_i h1 h2
        simp [allInvL, ih, wf_allInv h.1 (by simpa using h2)]
end

theorem stopInv_noRun (n : Node) (h : wf n = true) : noRun (stopInv n).1 = true :=
  allInv_noRun _ (stopInv_allInv n h)

theorem stopInvNonInvalid_noRunL (cs : List Node) (h : wfL cs = true) : noRunL (stopInvNonInvalid cs).1 = true :=
  allInvL_noRunL _ (stopInvNonInvalid_allInvL cs h)

theorem stopInvNonInvalid_ids : ∀ cs : List Node, (stopInvNonInvalid cs).1.map Node.id = cs.map Node.id
| [] => by simp [stopInvNonInvalid]
| c :: cs => by
    simp only [stopInvNonInvalid, List.map_cons, stopInvNonInvalid_ids cs]
    split <;> simp [stopInv_id]

theorem stopInvPar_ids : ∀ cs : List Node, (stopInvPar cs).1.map Node.id = cs.map Node.id
| [] => by simp [stopInvPar]
| c :: cs => by
    simp only [stopInvPar]
    split
    · simp [stopInv_id, stopInvPar_ids cs]
    · split <;> simp [stopInv_id, stopInvPar_ids cs]

mutual
theorem stopInv_wf : ∀ n : Node, wf n = true → wf (stopInv n).1 = true
| leaf _ s _ log, h => by simp only [wf] at h; simp [stopInv, wf, protoOK_stopInv s log h]
| seq _ _ _ _ cs, h => by
    simp only [wf, Bool.and_eq_true, decide_eq_true_eq] at h
    have hw := h.1.1.1.1.1
    have hn := stopInvNonInvalid_noRunL cs hw
    simp [stopInv, wf, stopInvNonInvalid_wfL cs hw, hn, onlyCur_of_noRunL hn, stopInvNonInvalid_ids, h.1.1.2,
      stopInvNonInvalid_allInvL cs hw, curOK]
| sel _ _ _ _ cs, h => by
    simp only [wf, Bool.and_eq_true, decide_eq_true_eq] at h
    have hw := h.1.1.1.1.1
    have hn := stopInvNonInvalid_noRunL cs hw
    simp [stopInv, wf, stopInvNonInvalid_wfL cs hw, hn, onlyCur_of_noRunL hn, stopInvNonInvalid_ids, h.1.1.2,
      stopInvNonInvalid_allInvL cs hw, curOK]
| par _ _ _ _ cs, h => by
    simp only [wf, Bool.and_eq_true, decide_eq_true_eq] at h
    have hw := h.1.1.1.1
    simp [stopInv, wf, stopInvPar_wfL cs hw, allInvL_noRunL _ (stopInvPar_allInvL cs hw), stopInvPar_allInvL cs hw,
      curOK, stopInvPar_ids, h.1.1.2]
| dec _ k _ c, h => by
    simp only [wf, Bool.and_eq_true] at h
    simp [stopInv, wf, stopInv_wf c h.1.1.1, stopInv_noRun c h.1.1.1, decOK_terminate _ _ h.1.2,
      stopInv_allInv c h.1.1.1]
theorem stopInvNonInvalid_wfL : ∀ cs : List Node, wfL cs = true → wfL (stopInvNonInvalid cs).1 = true
| [], _ => by simp [stopInvNonInvalid, wfL]
| c :: cs, h => by
    simp only [wfL, Bool.and_eq_true] at h
    simp only [stopInvNonInvalid, wfL, Bool.and_eq_true]
    refine ⟨?_, stopInvNonInvalid_wfL cs h.2⟩
    split
    · exact stopInv_wf c h.1
    · exact h.1
theorem stopInvPar_wfL : ∀ cs : List Node, wfL cs = true → wfL (stopInvPar cs).1 = true
| [], _ => by simp [stopInvPar, wfL]
| c :: cs, h => by
    simp only [wfL, Bool.and_eq_true] at h
    have ih := stopInvPar_wfL cs h.2
    simp only [stopInvPar]
    split
    · simp [wfL, stopInv_wf c h.1, ih]
    · split
      · simp [wfL, stopInv_wf c h.1, ih]
      · simp [wfL, ih, h.1]
end

theorem stopInvNonInvalid_spec (cs : List Node) (h : wfL cs = true) :
    wfL (stopInvNonInvalid cs).1 = true ∧ allInvL (stopInvNonInvalid cs).1 = true ∧
    (stopInvNonInvalid cs).1.map Node.id = cs.map Node.id :=
  ⟨stopInvNonInvalid_wfL cs h, stopInvNonInvalid_allInvL cs h, stopInvNonInvalid_ids cs⟩

theorem stopInvAll_spec : ∀ cs : List Node, wfL cs = true →
    wfL (stopInvAll cs).1 = true ∧ allInvL (stopInvAll cs).1 = true ∧ (stopInvAll cs).1.map Node.id = cs.map Node.id
| [], _ => by simp [stopInvAll, wfL, allInvL]
| c :: cs, h => by
    simp only [wfL, Bool.and_eq_true] at h
    have ih := stopInvAll_spec cs h.2
    simp [stopInvAll, wfL, allInvL, stopInv_wf c h.1, stopInv_allInv c h.1, ih.1, ih.2.1, ih.2.2, stopInv_id]

/-- `stopRunning` keeps untouched children as they are: statuses other than RUNNING are preserved -/
theorem stopRunning_spec : ∀ cs : List Node, wfL cs = true →
    wfL (stopRunning cs).1 = true ∧ noRunL (stopRunning cs).1 = true ∧
    (stopRunning cs).1.map Node.id = cs.map Node.id ∧
    (∀ x ∈ cs, x.status ≠ .running → x ∈ (stopRunning cs).1)
| [], _ => by simp [stopRunning, wfL, noRunL]
| c :: cs, h => by
    simp only [wfL, Bool.and_eq_true] at h
    obtain ⟨i1, i2, i3, i4⟩ := stopRunning_spec cs h.2
    simp only [stopRunning]
    split
    · rename_i hr
      refine ⟨by simp [wfL, stopInv_wf c h.1, i1], by simp [noRunL, stopInv_noRun c h.1, i2],
        by simp [stopInv_id, i3], ?_⟩
      intro x hx hxr
      simp only [List.mem_cons] at hx
      rcases hx with rfl | hx
      · exact absurd hr hxr
      · exact List.mem_cons_of_mem _ (i4 x hx hxr)
    · rename_i hr
      refine ⟨by simp [wfL, h.1, i1], by simp [noRunL, wf_noRun h.1 hr, i2], by simp [i3], ?_⟩
      intro x hx hxr
      simp only [List.mem_cons] at hx
      rcases hx with rfl | hx
      · exact List.mem_cons_self
      · exact List.mem_cons_of_mem _ (i4 x hx hxr)

end Node
