/-
  One tick preserves the state invariant: `tickF_good`, by induction on the fuel with one
  specification lemma per entry / run helper.
-/
import PyTreesProofs.Lemmas.Loops
set_option linter.unusedVariables false
set_option linter.unusedSimpArgs false
open Node

namespace Node

/-- splitting at an id keeps the list -/
theorem splitAtId_spec : ∀ (cid : Nat) (cs a b : List Node), splitAtId cid cs = some (a, b) →
    cs = a ++ b ∧ (∀ x ∈ a, x.id ≠ cid) ∧ ∃ c rest, b = c :: rest ∧ c.id = cid := by
  intro cid cs
  induction cs with
  | nil => intro a b h; simp [splitAtId] at h
  | cons c cs ih =>
    intro a b h
    simp only [splitAtId] at h
    by_cases hc : c.id = cid
    · simp [hc] at h; obtain ⟨rfl, rfl⟩ := h; exact ⟨by simp, by simp, c, cs, rfl, hc⟩
    · simp only [hc, ↓reduceIte, Option.map_eq_some_iff] at h
      obtain ⟨⟨a', b'⟩, h1, h2⟩ := h
      simp only [Prod.mk.injEq] at h2; obtain ⟨rfl, rfl⟩ := h2
      obtain ⟨e1, e2, e3⟩ := ih a' b' h1
      exact ⟨by simp [e1], by intro x hx; simp at hx; rcases hx with rfl | hx; exact hc; exact e2 x hx, e3⟩

theorem splitAtNonSuccess_spec : ∀ cs : List Node,
    cs = (splitAtNonSuccess cs).1 ++ (splitAtNonSuccess cs).2 ∧ ∀ x ∈ (splitAtNonSuccess cs).1, x.status = .success
| [] => by simp [splitAtNonSuccess]
| c :: cs => by
    obtain ⟨i1, i2⟩ := splitAtNonSuccess_spec cs
    simp only [splitAtNonSuccess]
    split
    · simp
    · rename_i hs
      refine ⟨by simp [← i1], ?_⟩
      intro x hx; simp only [List.mem_cons] at hx
      rcases hx with rfl | hx
      · simpa using hs
      · exact i2 x hx

theorem GoodL_append {a b : List Node} : GoodL (a ++ b) ↔ GoodL a ∧ GoodL b := by
  simp only [GoodL, wfL_append, leavesOKL_append]; constructor
  · rintro ⟨⟨h1, h2⟩, h3, h4⟩; exact ⟨⟨h1, h3⟩, h2, h4⟩
  · rintro ⟨⟨h1, h3⟩, h2, h4⟩; exact ⟨⟨h1, h2⟩, h3, h4⟩

theorem GoodL_cons {c : Node} {cs : List Node} : GoodL (c :: cs) ↔ Good c ∧ GoodL cs := by
  simp only [GoodL, Good, wfL, leavesOKL, Bool.and_eq_true]; constructor
  · rintro ⟨⟨h1, h2⟩, h3, h4⟩; exact ⟨⟨h1, h3⟩, h2, h4⟩
  · rintro ⟨⟨h1, h3⟩, h2, h4⟩; exact ⟨⟨h1, h2⟩, h3, h4⟩

theorem GoodL_nil : GoodL [] := by simp [GoodL, wfL, leavesOKL]

theorem stopInvNonInvalid_GoodL (cs : List Node) (h : GoodL cs) : GoodL (stopInvNonInvalid cs).1 :=
  ⟨stopInvNonInvalid_wfL cs h.1, stopInvNonInvalid_leavesOKL cs h.2⟩

theorem stopInv_Good (n : Node) (h : Good n) : Good (stopInv n).1 :=
  ⟨stopInv_wf n h.1, stopInv_leavesOK n h.2⟩

/-- the last id of a list belongs to a member, and with a condition on the members we learn about it -/
theorem lastId?_mem {l : List Node} {c : Nat} (h : lastId? l = some c) : ∃ x ∈ l, x.id = c ∧ l.getLast? = some x := by
  simp only [lastId?, Option.map_eq_some_iff] at h
  obtain ⟨x, hx, rfl⟩ := h
  exact ⟨x, List.mem_of_getLast? hx, rfl, hx⟩

theorem curOK_lastId {l : List Node} (h : ∀ x, l.getLast? = some x → x.status ≠ .invalid) :
    curOK (lastId? l) l = true := by
  rw [curOK_iff]
  intro c hc
  obtain ⟨x, hx, rfl, hl⟩ := lastId?_mem hc
  exact ⟨x, hx, rfl, h x hl⟩

theorem curOK_mem {l : List Node} {x : Node} (hx : x ∈ l) (hs : x.status ≠ .invalid) :
    curOK (some x.id) l = true := by
  rw [curOK_iff]; intro c hc; simp only [Option.some.injEq] at hc; subst hc; exact ⟨x, hx, rfl, hs⟩

/-! ### Sequence -/

theorem seqEntry_spec (st : Status) (m : Bool) (cur : Option Nat) (cs before rest : List Node) (trR : List Ev)
    (hg : GoodL cs) (hrun : st = .running ∨ noRunL cs = true) (hoc : onlyCur cur cs = true)
    (hnd : (cs.map Node.id).Nodup) (hne : cs ≠ []) (h : seqEntry st m cur cs = .ok (before, rest, trR)) :
    GoodL before ∧ noRunL before = true ∧ GoodL rest ∧
    (before ++ rest).map Node.id = cs.map Node.id ∧ (m = true → noRunL rest.tail = true) ∧
    (rest ≠ [] ∨ ∀ x ∈ before, x.status = .success) := by
  unfold seqEntry at h
  split at h
  · -- fresh entry
    simp only [pure, Except.pure, Except.ok.injEq, Prod.mk.injEq] at h
    obtain ⟨rfl, rfl, rfl⟩ := h
    have := stopInvNonInvalid_noRunL cs hg.1
    refine ⟨GoodL_nil, by simp [noRunL], stopInvNonInvalid_GoodL cs hg, by simp [stopInvNonInvalid_ids], ?_, ?_⟩
    · intro _; rw [noRunL_iff] at this ⊢; intro c hc; exact this c (List.mem_of_mem_tail hc)
    · left; intro he
      have := stopInvNonInvalid_ids cs; rw [he] at this
      cases cs with
      | nil => exact hne rfl
      | cons c cs => simp at this
  · split at h
    · -- memory, RUNNING
      cases cur with
      | none =>
        -- the current child was removed: no child contains a RUNNING node
        simp only [pure, Except.pure, Except.ok.injEq, Prod.mk.injEq] at h
        obtain ⟨rfl, rfl, rfl⟩ := h
        obtain ⟨e1, e2⟩ := splitAtNonSuccess_spec cs
        have hn : noRunL cs = true := onlyCur_noRun_of_ne hoc (by simp)
        rw [e1] at hg hn
        rw [GoodL_append] at hg; rw [noRunL_append] at hn
        refine ⟨hg.1, hn.1, hg.2, by rw [← e1], ?_, ?_⟩
        · intro _; have := hn.2; rw [noRunL_iff] at this ⊢
          intro c hc; exact this c (List.mem_of_mem_tail hc)
        · right; exact e2
      | some cid =>
        simp only at h
        split at h
        · rename_i a b hsp
          simp only [pure, Except.pure, Except.ok.injEq, Prod.mk.injEq] at h
          obtain ⟨rfl, rfl, rfl⟩ := h
          obtain ⟨e1, e2, c, rest', e3, e4⟩ := splitAtId_spec cid cs _ _ hsp
          subst e3; subst e1
          rw [GoodL_append] at hg; rw [onlyCur_append] at hoc
          simp only [List.map_append, List.map_cons] at hnd
          refine ⟨hg.1, ?_, hg.2, rfl, ?_, Or.inl (by simp)⟩
          · exact onlyCur_noRun_of_ne hoc.1 (fun x hx => by simpa using (e2 x hx).symm)
          · intro _
            simp only [List.tail_cons]
            have hoc2 := hoc.2; simp only [onlyCur, Bool.and_eq_true] at hoc2
            apply onlyCur_noRun_of_ne hoc2.2
            intro x hx
            have : x.id ≠ c.id := by
              have hn := (List.nodup_append.mp hnd).2.1
              simp only [List.nodup_cons, List.mem_map, not_exists, not_and] at hn
              exact fun e => hn.1 x hx e
            intro e; apply this; rw [← e4] at e; exact (Option.some.inj e).symm
        · simp [throw, throwThe, MonadExceptOf.throw] at h
    · simp only [pure, Except.pure, Except.ok.injEq, Prod.mk.injEq] at h
      obtain ⟨rfl, rfl, rfl⟩ := h
      rename_i hm
      exact ⟨GoodL_nil, by simp [noRunL], hg, rfl, fun hm' => absurd hm' hm, Or.inl hne⟩

theorem seqRun_spec (t : Tick) (ht : TickOK t) (w : Store) (i : Nat) (m : Bool) (before rest : List Node)
    (trR : List Ev) (n' : Node) (w' : Store) (tr : List Ev) (hw : WOK w)
    (hb : GoodL before) (hbn : noRunL before = true) (hr : GoodL rest)
    (hm : m = true → noRunL rest.tail = true) (hnd : ((before ++ rest).map Node.id).Nodup)
    (hlast : rest ≠ [] ∨ ∀ x ∈ before, x.status = .success)
    (h : seqRun t w i m before rest trR = .ok (n', w', tr)) :
    Good n' ∧ n'.status ≠ .invalid ∧ n'.id = i ∧ WOK w' := by
  simp only [seqRun, bind, Except.bind] at h
  cases hl : seqLoop t w rest with
  | error e => simp [hl] at h
  | ok v =>
    obtain ⟨done, r, w1, trl⟩ := v
    simp only [hl] at h
    obtain ⟨hd, hdn, hds, hw1, hr'⟩ := seqLoop_spec t ht rest w done r w1 trl hw hr hl
    cases r with
    | none =>
      simp only [pure, Except.pure, Except.ok.injEq, Prod.mk.injEq] at h
      obtain ⟨rfl, rfl, _⟩ := h
      simp only at hr'
      have hn : noRunL (before ++ done) = true := noRunL_append.mpr ⟨hbn, hdn⟩
      have hG : GoodL (before ++ done) := GoodL_append.mpr ⟨hb, hd⟩
      refine ⟨⟨?_, by simpa [leavesOK] using hG.2⟩, by simp [status], by simp [id], hw1⟩
      simp only [wf, Bool.and_eq_true, decide_eq_true_eq, Bool.or_eq_true, beq_iff_eq, bne_iff_ne]
      refine ⟨⟨⟨⟨⟨hG.1, Or.inr hn⟩, onlyCur_of_noRunL hn⟩, ?_⟩, Or.inl (by simp)⟩, ?_⟩
      · simpa [hr'] using hnd
      · apply curOK_lastId
        intro x hx
        rw [List.getLast?_append] at hx
        cases hdl : done.getLast? with
        | some y =>
          simp only [hdl, Option.some_or, Option.some.injEq] at hx; subst hx
          rw [hds y (List.mem_of_getLast? hdl)]; simp
        | none =>
          simp only [hdl, Option.none_or] at hx
          have hdone : done = [] := by simpa using hdl
          have hrest : rest = [] := by
            subst hdone; cases rest with
            | nil => rfl
            | cons a b => simp at hr'
          rcases hlast with hh | hh
          · exact absurd hrest hh
          · rw [hh x (List.mem_of_getLast? hx)]; simp
    | some p =>
      obtain ⟨c', untouched⟩ := p
      obtain ⟨hc1, hc2, hc3, hids, pre, hpre, hlen⟩ := hr'
      simp only [pure, Except.pure, Except.ok.injEq, Prod.mk.injEq] at h
      obtain ⟨rfl, rfl, _⟩ := h
      have hwu : GoodL untouched := by rw [hpre, GoodL_append] at hr; exact hr.2
      have htail : ∃ p pre', pre = p :: pre' := by
        cases pre with
        | nil => simp at hlen
        | cons p pre' => exact ⟨p, pre', rfl⟩
      obtain ⟨p0, pre', rfl⟩ := htail
      have hT : GoodL (if m = true then (untouched, []) else stopInvNonInvalid untouched).1 ∧
                noRunL (if m = true then (untouched, []) else stopInvNonInvalid untouched).1 = true ∧
                (if m = true then (untouched, []) else stopInvNonInvalid untouched).1.map Node.id = untouched.map Node.id := by
        by_cases hmm : m = true
        · simp only [hmm, ↓reduceIte]
          have := hm hmm
          rw [hpre] at this; simp only [List.cons_append, List.tail_cons] at this
          exact ⟨hwu, (noRunL_append.mp this).2, trivial⟩
        · simp only [hmm, Bool.false_eq_true, ↓reduceIte]
          exact ⟨stopInvNonInvalid_GoodL untouched hwu, stopInvNonInvalid_noRunL untouched hwu.1,
            stopInvNonInvalid_ids untouched⟩
      generalize (if m = true then (untouched, []) else stopInvNonInvalid untouched).1 = tail at hT
      obtain ⟨hT1, hT2, hT3⟩ := hT
      have hG : GoodL (before ++ done ++ c' :: tail) :=
        GoodL_append.mpr ⟨GoodL_append.mpr ⟨hb, hd⟩, GoodL_cons.mpr ⟨hc1, hT1⟩⟩
      refine ⟨⟨?_, by simpa [leavesOK] using hG.2⟩, by simpa [status] using hc2, by simp [id], hw1⟩
      simp only [wf, Bool.and_eq_true, decide_eq_true_eq, Bool.or_eq_true, beq_iff_eq, bne_iff_ne]
      refine ⟨⟨⟨⟨⟨hG.1, ?_⟩, ?_⟩, ?_⟩, Or.inl hc2⟩, ?_⟩
      · by_cases hrn : c'.status = .running
        · exact Or.inl hrn
        · right; rw [noRunL_append, noRunL_append]
          exact ⟨⟨hbn, hdn⟩, by simp [noRunL, wf_noRun hc1.1 hrn, hT2]⟩
      · rw [onlyCur_append, onlyCur_append]
        exact ⟨⟨onlyCur_of_noRunL hbn, onlyCur_of_noRunL hdn⟩, by simp [onlyCur, onlyCur_of_noRunL hT2]⟩
      · simp only [List.map_append, List.map_cons, hT3, List.append_assoc]
        rw [hids]; simpa using hnd
      · exact curOK_mem (by simp) hc2

/-! ### Selector -/

theorem selEntry_spec (st : Status) (m : Bool) (cur cur0 : Option Nat) (cs before rest : List Node) (trP : List Ev)
    (hg : GoodL cs) (hrun : st = .running ∨ noRunL cs = true) (hoc : onlyCur cur cs = true) (hne : cs ≠ [])
    (h : selEntry st m cur cs = .ok (cur0, before, rest, trP)) :
    GoodL before ∧ noRunL before = true ∧ GoodL rest ∧
    (before ++ rest).map Node.id = cs.map Node.id ∧ onlyCur cur0 rest = true ∧ rest ≠ [] := by
  unfold selEntry at h
  have hoc0 : onlyCur (if st ≠ .running then cs.head?.map Node.id else cur) cs = true := by
    by_cases hs : st = .running
    · simpa [hs] using hoc
    · rcases hrun with h1 | h1
      · exact absurd h1 hs
      · exact onlyCur_of_noRunL h1
  generalize (if st ≠ .running then cs.head?.map Node.id else cur) = c0 at h hoc0
  simp only at h
  split at h
  · cases c0 with
    | none =>
      simp only [pure, Except.pure, Except.ok.injEq, Prod.mk.injEq] at h
      obtain ⟨rfl, rfl, rfl, rfl⟩ := h
      exact ⟨GoodL_nil, by simp [noRunL], hg, rfl, hoc0, hne⟩
    | some cid =>
      simp only at h
      split at h
      · rename_i a b hsp
        simp only [pure, Except.pure, Except.ok.injEq, Prod.mk.injEq] at h
        obtain ⟨rfl, rfl, rfl, rfl⟩ := h
        obtain ⟨e1, e2, c, rest', e3, e4⟩ := splitAtId_spec cid cs _ _ hsp
        subst e1
        rw [GoodL_append] at hg; rw [onlyCur_append] at hoc0
        obtain ⟨q1, q2, q3⟩ := stopInvAll_spec a hg.1.1
        exact ⟨⟨q1, stopInvAll_leavesOKL a hg.1.2⟩, allInvL_noRunL _ q2, hg.2, by simp [q3], hoc0.2, by simp [e3]⟩
      · simp [throw, throwThe, MonadExceptOf.throw] at h
  · simp only [pure, Except.pure, Except.ok.injEq, Prod.mk.injEq] at h
    obtain ⟨rfl, rfl, rfl, rfl⟩ := h
    exact ⟨GoodL_nil, by simp [noRunL], hg, rfl, hoc0, hne⟩

theorem selRun_spec (t : Tick) (ht : TickOK t) (w : Store) (i : Nat) (m : Bool) (cur0 : Option Nat)
    (before rest : List Node) (trP : List Ev) (n' : Node) (w' : Store) (tr : List Ev) (hw : WOK w)
    (hb : GoodL before) (hbn : noRunL before = true) (hr : GoodL rest)
    (hoc : onlyCur cur0 rest = true) (hnd : ((before ++ rest).map Node.id).Nodup) (hne : rest ≠ [])
    (h : selRun t w i m cur0 before rest trP = .ok (n', w', tr)) :
    Good n' ∧ n'.status ≠ .invalid ∧ n'.id = i ∧ WOK w' := by
  simp only [selRun, bind, Except.bind] at h
  cases hl : selLoop t w rest with
  | error e => simp [hl] at h
  | ok v =>
    obtain ⟨failed, r, w1, trl⟩ := v
    simp only [hl] at h
    obtain ⟨hd, hdn, hds, hw1, hr'⟩ := selLoop_spec t ht rest w failed r w1 trl hw hr hl
    cases r with
    | none =>
      simp only [pure, Except.pure, Except.ok.injEq, Prod.mk.injEq] at h
      obtain ⟨rfl, rfl, _⟩ := h
      simp only at hr'
      have hn : noRunL (before ++ failed) = true := noRunL_append.mpr ⟨hbn, hdn⟩
      have hG : GoodL (before ++ failed) := GoodL_append.mpr ⟨hb, hd⟩
      refine ⟨⟨?_, by simpa [leavesOK] using hG.2⟩, by simp [status], by simp [id], hw1⟩
      simp only [wf, Bool.and_eq_true, decide_eq_true_eq, Bool.or_eq_true, beq_iff_eq, bne_iff_ne]
      refine ⟨⟨⟨⟨⟨hG.1, Or.inr hn⟩, onlyCur_of_noRunL hn⟩, ?_⟩, Or.inl (by simp)⟩, ?_⟩
      · simpa [hr'] using hnd
      · apply curOK_lastId
        intro x hx
        rw [List.getLast?_append] at hx
        cases hdl : failed.getLast? with
        | some y =>
          simp only [hdl, Option.some_or, Option.some.injEq] at hx; subst hx
          exact hds y (List.mem_of_getLast? hdl)
        | none =>
          have hdone : failed = [] := by simpa using hdl
          subst hdone
          cases rest with
          | nil => exact absurd rfl hne
          | cons a b => simp at hr'
    | some p =>
      obtain ⟨c', untouched⟩ := p
      obtain ⟨hc1, hc2, hids, pre, hpre, hlen⟩ := hr'
      simp only [pure, Except.pure, Except.ok.injEq, Prod.mk.injEq] at h
      obtain ⟨rfl, rfl, _⟩ := h
      have hwu : GoodL untouched := by rw [hpre, GoodL_append] at hr; exact hr.2
      have hocu : onlyCur cur0 untouched = true := by rw [hpre, onlyCur_append] at hoc; exact hoc.2
      have hneid : ∀ x ∈ untouched, x.id ≠ c'.id := by
        intro x hx
        have h1 : ((before.map Node.id ++ failed.map Node.id) ++ c'.id :: untouched.map Node.id).Nodup := by
          have := hnd; simp only [List.map_append] at this; rw [← hids] at this; simpa using this
        have := (List.nodup_append.mp h1).2.1
        simp only [List.nodup_cons, List.mem_map, not_exists, not_and] at this
        exact fun e => this.1 x hx e
      have hT : GoodL (if cur0 = some c'.id then (untouched, []) else stopInvNonInvalid untouched).1 ∧
                noRunL (if cur0 = some c'.id then (untouched, []) else stopInvNonInvalid untouched).1 = true ∧
                (if cur0 = some c'.id then (untouched, []) else stopInvNonInvalid untouched).1.map Node.id = untouched.map Node.id := by
        by_cases hsame : cur0 = some c'.id
        · simp only [hsame, ↓reduceIte]
          refine ⟨hwu, ?_, trivial⟩
          apply onlyCur_noRun_of_ne hocu
          intro x hx e; rw [hsame] at e; exact hneid x hx (Option.some.inj e).symm
        · simp only [hsame, ↓reduceIte]
          exact ⟨stopInvNonInvalid_GoodL untouched hwu, stopInvNonInvalid_noRunL untouched hwu.1,
            stopInvNonInvalid_ids untouched⟩
      generalize (if cur0 = some c'.id then (untouched, []) else stopInvNonInvalid untouched).1 = tail at hT
      obtain ⟨hT1, hT2, hT3⟩ := hT
      have hni : c'.status ≠ .invalid := by rcases hc2 with h | h <;> simp [h]
      have hG : GoodL (before ++ failed ++ c' :: tail) :=
        GoodL_append.mpr ⟨GoodL_append.mpr ⟨hb, hd⟩, GoodL_cons.mpr ⟨hc1, hT1⟩⟩
      refine ⟨⟨?_, by simpa [leavesOK] using hG.2⟩, by simpa [status] using hni, by simp [id], hw1⟩
      simp only [wf, Bool.and_eq_true, decide_eq_true_eq, Bool.or_eq_true, beq_iff_eq, bne_iff_ne]
      refine ⟨⟨⟨⟨⟨hG.1, ?_⟩, ?_⟩, ?_⟩, Or.inl hni⟩, ?_⟩
      · by_cases hrn : c'.status = .running
        · exact Or.inl hrn
        · right; rw [noRunL_append, noRunL_append]
          exact ⟨⟨hbn, hdn⟩, by simp [noRunL, wf_noRun hc1.1 hrn, hT2]⟩
      · rw [onlyCur_append, onlyCur_append]
        exact ⟨⟨onlyCur_of_noRunL hbn, onlyCur_of_noRunL hdn⟩, by simp [onlyCur, onlyCur_of_noRunL hT2]⟩
      · simp only [List.map_append, List.map_cons, hT3, List.append_assoc]
        rw [hids]; simpa using hnd
      · exact curOK_mem (by simp) hni

/-! ### Parallel -/

theorem parResult_ne_invalid (p : Policy) (cs : List Node) : (parResult p cs).1 ≠ .invalid := by
  unfold parResult
  split
  · simp
  · split
    · split <;> simp
    · split <;> simp
    · split <;> simp

/-- the child a Parallel remembers exists, is not INVALID, and is not RUNNING when the Parallel completed -/
theorem parResult_cur (p : Policy) (cs : List Node) (hni : ∀ x ∈ cs, x.status ≠ .invalid) :
    ∀ c, (parResult p cs).2 = some c →
      ∃ x ∈ cs, x.id = c ∧ x.status ≠ .invalid ∧ ((parResult p cs).1 ≠ .running → x.status ≠ .running) := by
  intro c hc
  have hlast : ∀ c, lastId? cs = some c → ∃ x ∈ cs, x.id = c ∧ x.status ≠ .invalid ∧ cs.getLast? = some x := by
    intro c h; obtain ⟨x, hx, e, hl⟩ := lastId?_mem h; exact ⟨x, hx, e, hni x hx, hl⟩
  cases hfind : cs.find? (fun c => c.status = .failure) with
  | some f =>
    simp only [parResult, hfind] at hc ⊢
    simp only [Option.some.injEq] at hc; subst hc
    have hfm := List.mem_of_find?_eq_some hfind
    have hfs := List.find?_some hfind
    simp only [decide_eq_true_eq] at hfs
    exact ⟨f, hfm, rfl, by simp [hfs], fun _ => by simp [hfs]⟩
  | none =>
    cases p with
    | onAll sync =>
      simp only [parResult, hfind] at hc ⊢
      by_cases hall : cs.all (fun c => c.status = .success) = true
      · simp only [hall, ↓reduceIte] at hc ⊢
        obtain ⟨x, hx, e, hs, _⟩ := hlast c hc
        simp only [List.all_eq_true, decide_eq_true_eq] at hall
        exact ⟨x, hx, e, hs, fun _ => by rw [hall x hx]; simp⟩
      · simp only [hall, Bool.false_eq_true, ↓reduceIte] at hc ⊢
        obtain ⟨x, hx, e, hs, _⟩ := hlast c hc
        exact ⟨x, hx, e, hs, fun h => by simp at h⟩
    | onOne =>
      simp only [parResult, hfind] at hc ⊢
      cases hs : (cs.filter (fun c => c.status = .success)).getLast? with
      | some s =>
        simp only [hs, Option.some.injEq] at hc ⊢; subst hc
        have hm := List.mem_of_getLast? hs
        simp only [List.mem_filter, decide_eq_true_eq] at hm
        exact ⟨s, hm.1, rfl, by simp [hm.2], fun _ => by simp [hm.2]⟩
      | none =>
        simp only [hs] at hc ⊢
        obtain ⟨x, hx, e, hsx, _⟩ := hlast c hc
        exact ⟨x, hx, e, hsx, fun h => by simp at h⟩
    | onSelected ids sync =>
      simp only [parResult, hfind] at hc ⊢
      by_cases hall : ids.all (fun i => statusOfId i cs = some .success) = true
      · simp only [hall, ↓reduceIte] at hc ⊢
        have hmem := List.mem_of_getLast? hc
        simp only [List.all_eq_true, decide_eq_true_eq] at hall
        have := hall c hmem
        simp only [statusOfId, Option.map_eq_some_iff] at this
        obtain ⟨x, hx, hxs⟩ := this
        have hxm := List.mem_of_find?_eq_some hx
        have hxi := List.find?_some hx
        simp only [decide_eq_true_eq] at hxi
        exact ⟨x, hxm, hxi, by simp [hxs], fun _ => by simp [hxs]⟩
      · simp only [hall, Bool.false_eq_true, ↓reduceIte] at hc ⊢
        obtain ⟨x, hx, e, hsx, _⟩ := hlast c hc
        exact ⟨x, hx, e, hsx, fun h => by simp at h⟩

theorem parRun_spec (t : Tick) (ht : TickOK t) (w : Store) (i : Nat) (p : Policy) (cs0 : List Node) (trR : List Ev)
    (n' : Node) (w' : Store) (tr : List Ev) (hw : WOK w) (hg : GoodL cs0) (hnd : (cs0.map Node.id).Nodup)
    (h : parRun t w i p cs0 trR = .ok (n', w', tr)) :
    Good n' ∧ n'.status ≠ .invalid ∧ n'.id = i ∧ WOK w' := by
  simp only [parRun, bind, Except.bind] at h
  cases hl : parLoop t p.sync w cs0 with
  | error e => simp [hl] at h
  | ok v =>
    obtain ⟨cs1, w1, trl⟩ := v
    simp only [hl] at h
    obtain ⟨hg1, hni1, hids1, hw1⟩ := parLoop_spec t ht p.sync cs0 w cs1 w1 trl hw hg hl
    have hni := parResult_ne_invalid p cs1
    have hcur := parResult_cur p cs1 hni1
    split at h
    · rename_i hns
      simp only [pure, Except.pure, Except.ok.injEq, Prod.mk.injEq] at h
      obtain ⟨rfl, rfl, _⟩ := h
      obtain ⟨q1, q2, q3, q4⟩ := stopRunning_spec cs1 hg1.1
      refine ⟨⟨?_, by simpa [leavesOK] using stopRunning_leavesOKL cs1 hg1.2⟩, by simpa [status] using hni,
        by simp [id], hw1⟩
      simp only [wf, Bool.and_eq_true, Bool.or_eq_true, beq_iff_eq, bne_iff_ne, decide_eq_true_eq]
      refine ⟨⟨⟨⟨q1, Or.inr q2⟩, by rw [q3, hids1]; exact hnd⟩, Or.inl hni⟩, ?_⟩
      rw [curOK_iff]; intro c hc
      obtain ⟨x, hx, e, hs, hr⟩ := hcur c hc
      exact ⟨x, q4 x hx (hr hns), e, hs⟩
    · rename_i hns
      simp only [pure, Except.pure, Except.ok.injEq, Prod.mk.injEq] at h
      obtain ⟨rfl, rfl, _⟩ := h
      have hrun : (parResult p cs1).1 = .running := by simpa using hns
      refine ⟨⟨?_, by simpa [leavesOK] using hg1.2⟩, by simpa [status] using hni, by simp [id], hw1⟩
      simp only [wf, Bool.and_eq_true, Bool.or_eq_true, beq_iff_eq, bne_iff_ne, decide_eq_true_eq]
      refine ⟨⟨⟨⟨hg1.1, Or.inl hrun⟩, by rw [hids1]; exact hnd⟩, Or.inl hni⟩, ?_⟩
      rw [curOK_iff]; intro c hc
      obtain ⟨x, hx, e, hs, _⟩ := hcur c hc
      exact ⟨x, hx, e, hs⟩

/-! ### Decorators -/

theorem decUpdate_ne_invalid (e : Env) (k : DecKind) (s : Status) (hs : s ≠ .invalid)
    (hk : ∀ b f, k = .oneShot b (some f) → f ≠ .invalid) : (decUpdate e k s).2.1 ≠ .invalid := by
  cases k <;> simp only [decUpdate]
  case inverter => cases s <;> simp_all
  case runningIsFailure => split <;> simp_all
  case runningIsSuccess => split <;> simp_all
  case failureIsSuccess => split <;> simp_all
  case failureIsRunning => split <;> simp_all
  case successIsFailure => split <;> simp_all
  case successIsRunning => split <;> simp_all
  case passThrough => simpa using hs
  case condition => split <;> simp
  case retry n f => cases s <;> simp <;> split <;> simp
  case repeat_ n f => cases s <;> simp <;> split <;> simp
  case timeout d fin => split <;> simp_all
  case guard => simpa using hs
  case oneShot b fin => cases fin <;> simp_all
  case count => simpa using hs
  case statusToBB => simpa using hs

theorem decPublish_WOK (k : DecKind) (cs : Status) (w w' : Store) (hw : WOK w) (hcs : cs ≠ .invalid)
    (h : decPublish k cs w = .ok w') : WOK w' := by
  cases k <;> simp only [decPublish, pure, Except.pure, Except.ok.injEq] at h <;> try (subst h; exact hw)
  case statusToBB key path =>
    have hv : (Val.status cs).valid = true := by simpa [Val.valid] using hcs
    cases path with
    | nil => simp only [pure, Except.pure, Except.ok.injEq] at h; subst h; exact WOK_set hw hv
    | cons a p =>
      simp only at h
      cases hk : w key with
      | none => simp [hk, throw, throwThe, MonadExceptOf.throw] at h
      | some v =>
        simp only [hk] at h
        cases hsp : v.setPath (a :: p) (.status cs) with
        | none => simp only [hsp, pure, Except.pure, Except.ok.injEq] at h; subst h; exact hw
        | some v' =>
          simp only [hsp, pure, Except.pure, Except.ok.injEq] at h; subst h
          exact WOK_set hw (Val.setPath_valid _ v _ v' (hw key v hk) hv hsp)

theorem decBounce_spec (w : Store) (i : Nat) (k : DecKind) (s : Status) (c n' : Node) (w' : Store) (tr : List Ev)
    (hs : s ≠ .invalid) (hg : Good c) (hk : decOK k = true) (hw : WOK w)
    (h : decBounce w i k s c = .ok (n', w', tr)) :
    Good n' ∧ n'.status ≠ .invalid ∧ n'.id = i ∧ WOK w' := by
  simp only [decBounce, pure, Except.pure, Except.ok.injEq, Prod.mk.injEq] at h
  obtain ⟨rfl, rfl, _⟩ := h
  refine ⟨?_, by simpa [status] using hs, by simp [id], hw⟩
  by_cases hr : c.status = .running
  · exact ⟨by simp [wf, hr, stopInv_wf c hg.1, stopInv_noRun c hg.1, decOK_terminate _ _ hk, hs],
      by simpa [leavesOK, hr] using stopInv_leavesOK c hg.2⟩
  · exact ⟨by simp [wf, hr, hg.1, wf_noRun hg.1 hr, decOK_terminate _ _ hk, hs], by simpa [leavesOK, hr] using hg.2⟩

theorem decRun_spec (t : Tick) (ht : TickOK t) (e : Env) (w : Store) (i : Nat) (k : DecKind) (st : Status)
    (c n' : Node) (w' : Store) (tr : List Ev) (hw : WOK w) (hg : Good c) (hk : decOK k = true)
    (h : decRun t e w i k st c = .ok (n', w', tr)) :
    Good n' ∧ n'.status ≠ .invalid ∧ n'.id = i ∧ WOK w' := by
  simp only [decRun, bind, Except.bind] at h
  cases htc : t w c with
  | error err => simp [htc] at h
  | ok v =>
    obtain ⟨c1, w1, trc⟩ := v
    obtain ⟨hc1, hc2, _, hw1⟩ := ht w c c1 w1 trc hw hg htc
    simp only [htc] at h
    have hk0 : decOK (if st ≠ .running then decInit e k else k) = true := by
      split
      · exact decOK_init e k hk
      · exact hk
    generalize (if st ≠ .running then decInit e k else k) = k0 at h hk0
    cases hp : decPublish k0 c1.status w1 with
    | error err => simp [hp] at h
    | ok w2 =>
      simp only [hp] at h
      have hw2 := decPublish_WOK k0 c1.status w1 w2 hw1 hc2 hp
      have hk1 := decOK_update e k0 c1.status hk0
      have hns : (decUpdate e k0 c1.status).2.1 ≠ .invalid := by
        apply decUpdate_ne_invalid e k0 c1.status hc2
        intro b f hkk; subst hkk
        simp only [decOK, Bool.or_eq_true, beq_iff_eq] at hk0
        rcases hk0 with h | h <;> simp [h]
      have hc2' : Good (if (decUpdate e k0 c1.status).2.2 = true then stopInv c1 else (c1, [])).1 := by
        split
        · exact stopInv_Good c1 hc1
        · exact hc1
      generalize (if (decUpdate e k0 c1.status).2.2 = true then stopInv c1 else (c1, [])) = cc at h hc2'
      split at h
      · simp only [hns, false_or, pure, Except.pure, Except.ok.injEq, Prod.mk.injEq] at h
        obtain ⟨rfl, rfl, _⟩ := h
        refine ⟨?_, by simpa [status] using hns, by simp [id], hw2⟩
        by_cases hr : cc.1.status = .running
        · exact ⟨by simp [wf, hr, stopInv_wf _ hc2'.1, stopInv_noRun _ hc2'.1, decOK_terminate _ _ hk1, hns],
            by simpa [leavesOK, hr] using stopInv_leavesOK _ hc2'.2⟩
        · exact ⟨by simp [wf, hr, hc2'.1, wf_noRun hc2'.1 hr, decOK_terminate _ _ hk1, hns],
            by simpa [leavesOK, hr] using hc2'.2⟩
      · rename_i hrun
        simp only [pure, Except.pure, Except.ok.injEq, Prod.mk.injEq] at h
        obtain ⟨rfl, rfl, _⟩ := h
        have : (decUpdate e k0 c1.status).2.1 = .running := by simpa using hrun
        exact ⟨⟨by simp [wf, hc2'.1, this, hk1], by simpa [leavesOK] using hc2'.2⟩,
          by show (decUpdate e k0 c1.status).2.1 ≠ .invalid; exact hns, by simp [id], hw2⟩

/-! ### the main invariant theorem -/

/-- one tick (any fuel) of a good subtree on a sane blackboard yields a good subtree with the same id
    whose status is not INVALID, and a sane blackboard -/
theorem tickF_good (e : Env) (he : ValidEnv e) : ∀ (f : Nat) (w : Store) (n n' : Node) (w' : Store) (tr : List Ev),
    WOK w → Good n → tickF f e w n = .ok (n', w', tr) →
    Good n' ∧ n'.status ≠ .invalid ∧ n'.id = n.id ∧ WOK w' := by
  intro f
  induction f with
  | zero => intro w n n' w' tr _ _ h; simp [tickF] at h
  | succ f ih =>
    have ht : TickOK (tickF f e) := fun w c c' w' tr hw hg h => ih w c c' w' tr hw hg h
    intro w n n' w' tr hw hg h
    cases n with
    | leaf i st k log =>
      simp only [tickF] at h
      exact leafTick_spec e w i st k log n' w' tr he hw hg h
    | seq i m st cur cs =>
      obtain ⟨hwf, hlo⟩ := hg
      simp only [wf, Bool.and_eq_true, decide_eq_true_eq, Bool.or_eq_true, beq_iff_eq] at hwf
      obtain ⟨⟨⟨⟨⟨hwl, hrun⟩, hoc⟩, hnd⟩, _⟩, _⟩ := hwf
      simp only [leavesOK] at hlo
      simp only [tickF, bind, Except.bind] at h
      by_cases hemp : cs = []
      · subst hemp
        cases hen : seqEntry st m cur [] with
        | error err => simp [hen] at h
        | ok v =>
          simp only [hen, List.isEmpty_nil, ↓reduceIte, pure, Except.pure, Except.ok.injEq, Prod.mk.injEq] at h
          obtain ⟨rfl, rfl, _⟩ := h
          exact ⟨⟨by simp [wf, wfL, noRunL, onlyCur, curOK], by simp [leavesOK, leavesOKL]⟩, by simp [status],
            by simp [id], hw⟩
      · cases hen : seqEntry st m cur cs with
        | error err => simp [hen] at h
        | ok v =>
          obtain ⟨before, rest, trR⟩ := v
          simp only [hen] at h
          obtain ⟨s1, s2, s3, s4, s5, s6⟩ :=
            seqEntry_spec st m cur cs before rest trR ⟨hwl, hlo⟩ hrun hoc hnd hemp hen
          have : cs.isEmpty = false := by simpa using hemp
          simp only [this, Bool.false_eq_true, ↓reduceIte] at h
          exact seqRun_spec (tickF f e) ht w i m before rest trR n' w' tr hw s1 s2 s3 s5 (by rw [s4]; exact hnd) s6 h
    | sel i m st cur cs =>
      obtain ⟨hwf, hlo⟩ := hg
      simp only [wf, Bool.and_eq_true, decide_eq_true_eq, Bool.or_eq_true, beq_iff_eq] at hwf
      obtain ⟨⟨⟨⟨⟨hwl, hrun⟩, hoc⟩, hnd⟩, _⟩, _⟩ := hwf
      simp only [leavesOK] at hlo
      simp only [tickF, bind, Except.bind] at h
      by_cases hemp : cs = []
      · subst hemp
        simp only [List.isEmpty_nil, ↓reduceIte, pure, Except.pure, Except.ok.injEq, Prod.mk.injEq] at h
        obtain ⟨rfl, rfl, _⟩ := h
        exact ⟨⟨by simp [wf, wfL, noRunL, onlyCur, curOK], by simp [leavesOK, leavesOKL]⟩, by simp [status],
          by simp [id], hw⟩
      · have : cs.isEmpty = false := by simpa using hemp
        simp only [this, Bool.false_eq_true, ↓reduceIte] at h
        cases hen : selEntry st m cur cs with
        | error err => simp [hen] at h
        | ok v =>
          obtain ⟨cur0, before, rest, trP⟩ := v
          simp only [hen] at h
          obtain ⟨s1, s2, s3, s4, s5, s6⟩ := selEntry_spec st m cur cur0 cs before rest trP ⟨hwl, hlo⟩ hrun hoc hemp hen
          exact selRun_spec (tickF f e) ht w i m cur0 before rest trP n' w' tr hw s1 s2 s3 s5
            (by rw [s4]; exact hnd) s6 h
    | par i p st cur cs =>
      obtain ⟨hwf, hlo⟩ := hg
      simp only [wf, Bool.and_eq_true, Bool.or_eq_true, beq_iff_eq, decide_eq_true_eq] at hwf
      obtain ⟨⟨⟨⟨hwl, hrun⟩, hnd⟩, _⟩, _⟩ := hwf
      simp only [leavesOK] at hlo
      simp only [tickF, bind, Except.bind] at h
      split at h
      · simp [throw, throwThe, MonadExceptOf.throw] at h
      · have h0 : GoodL (if st ≠ .running then stopInvNonInvalid cs else (cs, [])).1 ∧
            ((if st ≠ .running then stopInvNonInvalid cs else (cs, [])).1.map Node.id).Nodup := by
          split
          · exact ⟨stopInvNonInvalid_GoodL cs ⟨hwl, hlo⟩, by rw [stopInvNonInvalid_ids]; exact hnd⟩
          · exact ⟨⟨hwl, hlo⟩, hnd⟩
        generalize (if st ≠ .running then stopInvNonInvalid cs else (cs, [])) = r0 at h h0
        simp only [pure, Except.pure] at h
        split at h
        · rename_i hemp
          simp only [Except.ok.injEq, Prod.mk.injEq] at h
          obtain ⟨rfl, rfl, _⟩ := h
          have : r0.1 = [] := by simpa using hemp
          exact ⟨⟨by simp [wf, this, wfL, noRunL, curOK], by simp [leavesOK, this, leavesOKL]⟩, by simp [status],
            by simp [id], hw⟩
        · exact parRun_spec (tickF f e) ht w i p r0.1 r0.2 n' w' tr hw h0.1 h0.2 h
    | dec i k st c =>
      obtain ⟨hwf, hlo⟩ := hg
      simp only [wf, Bool.and_eq_true, Bool.or_eq_true, beq_iff_eq] at hwf
      obtain ⟨⟨⟨hwc, hrun⟩, hk⟩, _⟩ := hwf
      simp only [leavesOK] at hlo
      simp only [tickF] at h
      split at h
      · split at h
        · exact decRun_spec (tickF f e) ht e w i _ st c n' w' tr hw ⟨hwc, hlo⟩ hk h
        · exact decBounce_spec w i _ .failure c n' w' tr (by simp) ⟨hwc, hlo⟩ hk hw h
      · rename_i b fin
        have : fin ≠ .invalid := by
          simp only [decOK, Bool.or_eq_true, beq_iff_eq] at hk
          rcases hk with h | h <;> simp [h]
        exact decBounce_spec w i _ fin c n' w' tr this ⟨hwc, hlo⟩ hk hw h
      · exact decRun_spec (tickF f e) ht e w i _ st c n' w' tr hw ⟨hwc, hlo⟩ hk h

end Node
