/-
  What `stop(INVALID)` does to the leaves of a well-formed subtree: every leaf ends INVALID, a leaf
  that was not INVALID gets exactly one `terminate(INVALID)` appended to its callback log, and a leaf
  that is left untouched was INVALID already.
-/
import PyTreesProofs.Lemmas.Run
set_option linter.unusedVariables false
set_option linter.unusedSimpArgs false
open Node

namespace Node

mutual
/-- the leaves of a tree in pre-order: id, status, callback log -/
def leafLogs : Node → List (Nat × Status × List LEv)
| leaf i s _ l => [(i, s, l)]
| seq _ _ _ _ cs => leafLogsL cs
| sel _ _ _ _ cs => leafLogsL cs
| par _ _ _ _ cs => leafLogsL cs
| dec _ _ _ c => leafLogs c
def leafLogsL : List Node → List (Nat × Status × List LEv)
| [] => []
| c :: cs => leafLogs c ++ leafLogsL cs
end

/-- relation between a leaf before and after `stop(INVALID)` of an ancestor -/
def StopRel (a b : Nat × Status × List LEv) : Prop :=
  b.1 = a.1 ∧ b.2.1 = .invalid ∧
  (b.2.2 = a.2.2 ++ [.term .invalid] ∨ (a.2.1 = .invalid ∧ b.2.2 = a.2.2)) ∧
  (a.2.1 = .running → b.2.2 = a.2.2 ++ [.term .invalid])

/-- the two lists have the same length and corresponding elements are related -/
inductive Zip2 {α : Type} (R : α → α → Prop) : List α → List α → Prop
| nil : Zip2 R [] []
| cons {a b : α} {as bs : List α} : R a b → Zip2 R as bs → Zip2 R (a :: as) (b :: bs)

theorem forall2_append {α} {R : α → α → Prop} {a b c d : List α}
    (h1 : Zip2 R a b) (h2 : Zip2 R c d) : Zip2 R (a ++ c) (b ++ d) := by
  induction h1 with
  | nil => simpa using h2
  | cons h _ ih => exact Zip2.cons h ih

mutual
/-- leaves of an all-INVALID subtree are INVALID -/
theorem allInv_leafLogs : ∀ n : Node, allInv n = true → ∀ x ∈ leafLogs n, x.2.1 = .invalid
| leaf _ _ _ _, h, x, hx => by
    simp only [leafLogs, List.mem_singleton] at hx; subst hx; simpa [allInv] using h
| seq _ _ _ _ cs, h, x, hx => by
    simp only [allInv, Bool.and_eq_true] at h; exact allInvL_leafLogsL cs h.2 x hx
| sel _ _ _ _ cs, h, x, hx => by
    simp only [allInv, Bool.and_eq_true] at h; exact allInvL_leafLogsL cs h.2 x hx
| par _ _ _ _ cs, h, x, hx => by
    simp only [allInv, Bool.and_eq_true] at h; exact allInvL_leafLogsL cs h.2 x hx
| dec _ _ _ c, h, x, hx => by
    simp only [allInv, Bool.and_eq_true] at h; exact allInv_leafLogs c h.2 x hx
theorem allInvL_leafLogsL : ∀ cs : List Node, allInvL cs = true → ∀ x ∈ leafLogsL cs, x.2.1 = .invalid
| [], _, x, hx => by simp [leafLogsL] at hx
| c :: cs, h, x, hx => by
    simp only [allInvL, Bool.and_eq_true] at h
    simp only [leafLogsL, List.mem_append] at hx
    rcases hx with hx | hx
    · exact allInv_leafLogs c h.1 x hx
    · exact allInvL_leafLogsL cs h.2 x hx
end

theorem stopRel_refl_of_invalid (l : List (Nat × Status × List LEv)) (h : ∀ x ∈ l, x.2.1 = .invalid) :
    Zip2 StopRel l l := by
  induction l with
  | nil => exact .nil
  | cons a l ih =>
    refine .cons ⟨rfl, h a (by simp), Or.inr ⟨h a (by simp), rfl⟩, ?_⟩ (ih (fun x hx => h x (by simp [hx])))
    intro hr; rw [h a (by simp)] at hr; cases hr

mutual
theorem stopInv_leafLogs : ∀ n : Node, wf n = true → Zip2 StopRel (leafLogs n) (leafLogs (stopInv n).1)
| leaf i s k l, _ => by
    simp only [stopInv, leafLogs]
    exact .cons ⟨rfl, rfl, Or.inl rfl, fun _ => rfl⟩ .nil
| seq _ _ _ _ cs, h => by
    simp only [wf, Bool.and_eq_true] at h
    simpa [stopInv, leafLogs] using stopInvNonInvalid_leafLogs cs h.1.1.1.1.1
| sel _ _ _ _ cs, h => by
    simp only [wf, Bool.and_eq_true] at h
    simpa [stopInv, leafLogs] using stopInvNonInvalid_leafLogs cs h.1.1.1.1.1
| par _ _ _ _ cs, h => by
    simp only [wf, Bool.and_eq_true] at h
    simpa [stopInv, leafLogs] using stopInvPar_leafLogs cs h.1.1.1.1
| dec _ _ _ c, h => by
    simp only [wf, Bool.and_eq_true] at h
    simpa [stopInv, leafLogs] using stopInv_leafLogs c h.1.1.1
theorem stopInvNonInvalid_leafLogs : ∀ cs : List Node, wfL cs = true →
    Zip2 StopRel (leafLogsL cs) (leafLogsL (stopInvNonInvalid cs).1)
| [], _ => by simp only [stopInvNonInvalid, leafLogsL]; exact .nil
| c :: cs, h => by
    simp only [wfL, Bool.and_eq_true] at h
    simp only [stopInvNonInvalid, leafLogsL]
    apply forall2_append _ (stopInvNonInvalid_leafLogs cs h.2)
    split
    · exact stopInv_leafLogs c h.1
    · rename_i hs
      have : c.status = .invalid := by simpa using hs
      exact stopRel_refl_of_invalid _ (allInv_leafLogs c (wf_allInv h.1 this))
theorem stopInvPar_leafLogs : ∀ cs : List Node, wfL cs = true →
    Zip2 StopRel (leafLogsL cs) (leafLogsL (stopInvPar cs).1)
| [], _ => by simp only [stopInvPar, leafLogsL]; exact .nil
| c :: cs, h => by
    simp only [wfL, Bool.and_eq_true] at h
    have ih := stopInvPar_leafLogs cs h.2
    simp only [stopInvPar]
    split
    · simp only [leafLogsL]; exact forall2_append (stopInv_leafLogs c h.1) ih
    · split
      · simp only [leafLogsL]; exact forall2_append (stopInv_leafLogs c h.1) ih
      · rename_i h1 h2
        have : c.status = .invalid := by simpa using h2
        simp only [leafLogsL]
        exact forall2_append (stopRel_refl_of_invalid _ (allInv_leafLogs c (wf_allInv h.1 this))) ih
end

mutual
/-- every leaf listed by `leafLogs` is a leaf node of the tree and vice versa (membership form) -/
theorem leafLogs_mem_nodes : ∀ (n : Node) (x : Nat × Status × List LEv), x ∈ leafLogs n →
    ∃ k, leaf x.1 x.2.1 k x.2.2 ∈ nodes n
| leaf i s k l, x, hx => by
    simp only [leafLogs, List.mem_singleton] at hx; subst hx; exact ⟨k, by simp [nodes]⟩
| seq _ _ _ _ cs, x, hx => by
    obtain ⟨k, hk⟩ := leafLogsL_mem_nodesL cs x hx; exact ⟨k, by simp [nodes, hk]⟩
| sel _ _ _ _ cs, x, hx => by
    obtain ⟨k, hk⟩ := leafLogsL_mem_nodesL cs x hx; exact ⟨k, by simp [nodes, hk]⟩
| par _ _ _ _ cs, x, hx => by
    obtain ⟨k, hk⟩ := leafLogsL_mem_nodesL cs x hx; exact ⟨k, by simp [nodes, hk]⟩
| dec _ _ _ c, x, hx => by
    obtain ⟨k, hk⟩ := leafLogs_mem_nodes c x hx; exact ⟨k, by simp [nodes, hk]⟩
theorem leafLogsL_mem_nodesL : ∀ (cs : List Node) (x : Nat × Status × List LEv), x ∈ leafLogsL cs →
    ∃ k, leaf x.1 x.2.1 k x.2.2 ∈ nodesL cs
| [], x, hx => by simp [leafLogsL] at hx
| c :: cs, x, hx => by
    simp only [leafLogsL, List.mem_append] at hx
    rcases hx with hx | hx
    · obtain ⟨k, hk⟩ := leafLogs_mem_nodes c x hx; exact ⟨k, by simp [nodesL, hk]⟩
    · obtain ⟨k, hk⟩ := leafLogsL_mem_nodesL cs x hx; exact ⟨k, by simp [nodesL, hk]⟩
end

end Node
