/-
  Specifications of the three child loops and of the leaf tick, relative to an arbitrary child tick
  function `t` that satisfies `TickOK` (the packaged induction hypothesis).
-/
import PyTreesProofs.Lemmas.Inv
set_option linter.unusedVariables false
set_option linter.unusedSimpArgs false
open Node

/-- probe outcomes are SUCCESS / FAILURE / RUNNING -/
def ValidEnv (e : Env) : Prop := ∀ i, e.outcome i ≠ .invalid

/-- no INVALID status is stored anywhere on the blackboard -/
def WOK (w : Store) : Prop := ∀ k v, w k = some v → v.valid = true

namespace Val

mutual
theorem lookupField_valid : ∀ (fs : List (String × Val)) (a : String) (v : Val),
    validL fs = true → lookupField a fs = some v → valid v = true
| [], _, _, _, h => by simp [lookupField] at h
| (k, x) :: fs, a, v, hv, h => by
    simp only [validL, Bool.and_eq_true] at hv
    simp only [lookupField] at h
    split at h
    · simp only [Option.some.injEq] at h; subst h; exact hv.1
    · exact lookupField_valid fs a v hv.2 h
end

theorem getAttr_valid (v x : Val) (a : String) (hv : valid v = true) (h : v.getAttr a = some x) : valid x = true := by
  cases v <;> simp [getAttr] at h
  case obj fs => simp only [valid] at hv; exact lookupField_valid fs a x hv h

theorem getPath_valid : ∀ (p : List String) (v x : Val), valid v = true → v.getPath p = some x → valid x = true
| [], v, x, hv, h => by simp [getPath] at h; subst h; exact hv
| a :: p, v, x, hv, h => by
    simp only [getPath] at h
    cases ha : v.getAttr a with
    | none => simp [ha] at h
    | some v' => simp only [ha] at h; exact getPath_valid p v' x (getAttr_valid v v' a hv ha) h

theorem setField_valid : ∀ (fs : List (String × Val)) (a : String) (x : Val),
    validL fs = true → valid x = true → validL (setField a x fs) = true
| [], a, x, _, hx => by simp [setField, validL, hx]
| (k, v) :: fs, a, x, hv, hx => by
    simp only [validL, Bool.and_eq_true] at hv
    simp only [setField]
    split
    · simp [validL, hx, hv.2]
    · simp [validL, hv.1, setField_valid fs a x hv.2 hx]

theorem setPath_valid : ∀ (p : List String) (v x r : Val), valid v = true → valid x = true →
    v.setPath p x = some r → valid r = true
| [], v, x, r, _, hx, h => by simp [setPath] at h; subst h; exact hx
| [a], v, x, r, hv, hx, h => by
    cases v <;> simp [setPath] at h
    case obj fs => subst h; simp only [valid] at hv ⊢; exact setField_valid fs a x hv hx
| a :: b :: p, v, x, r, hv, hx, h => by
    cases v <;> simp only [setPath] at h <;> try (simp at h)
    case obj fs =>
      simp only [valid] at hv
      cases hl : lookupField a fs with
      | none => simp [hl] at h
      | some v' =>
        simp only [hl] at h
        cases hs : v'.setPath (b :: p) x with
        | none => simp [hs] at h
        | some v'' =>
          simp only [hs, Option.some.injEq] at h; subst h
          simp only [valid]
          exact setField_valid fs a v'' hv (setPath_valid (b :: p) v' x v'' (lookupField_valid fs a v' hv hl) hx hs)

end Val

theorem WOK_set {w : Store} {k : String} {v : Val} (hw : WOK w) (hv : v.valid = true) : WOK (w.set k v) := by
  intro k' v' h
  simp only [Store.set] at h
  split at h
  · simp only [Option.some.injEq] at h; subst h; exact hv
  · exact hw k' v' h

theorem WOK_unset {w : Store} {k : String} (hw : WOK w) : WOK (w.unset k) := by
  intro k' v' h
  simp only [Store.unset] at h
  split at h
  · simp at h
  · exact hw k' v' h

theorem WOK_getPath {w : Store} {k : String} {p : List String} {v : Val} (hw : WOK w)
    (h : w.getPath k p = some v) : v.valid = true := by
  simp only [Store.getPath] at h
  cases hk : w k with
  | none => simp [hk] at h
  | some x => simp only [hk] at h; exact Val.getPath_valid p x v (hw k x hk) h

theorem WOK_empty : WOK Store.empty := by intro k v h; simp [Store.empty] at h

namespace Node

/-- static sanity of a leaf's parameters: it can never be told to return INVALID -/
def leafOK : LeafKind → Bool
| .const s => s != .invalid
| .tickCounter _ c _ => c != .invalid
| .statusQueue q ev cur => q.all (· != .invalid) && cur.all (· != .invalid) && (ev != some .invalid)
| .setVar _ _ v _ => v.valid
| _ => true

mutual
/-- every leaf of the tree has sane parameters -/
def leavesOK : Node → Bool
| leaf _ _ k _ => leafOK k
| seq _ _ _ _ cs => leavesOKL cs
| sel _ _ _ _ cs => leavesOKL cs
| par _ _ _ _ cs => leavesOKL cs
| dec _ _ _ c => leavesOK c
def leavesOKL : List Node → Bool
| [] => true
| c :: cs => leavesOK c && leavesOKL cs
end

theorem leavesOKL_iff {cs : List Node} : leavesOKL cs = true ↔ ∀ c ∈ cs, leavesOK c = true := by
  induction cs with
  | nil => simp [leavesOKL]
  | cons c cs ih => simp [leavesOKL, ih]

theorem leavesOKL_append {a b : List Node} :
    leavesOKL (a ++ b) = true ↔ leavesOKL a = true ∧ leavesOKL b = true := by
  simp only [leavesOKL_iff, List.mem_append]; constructor
  · intro h; exact ⟨fun c hc => h c (Or.inl hc), fun c hc => h c (Or.inr hc)⟩
  · rintro ⟨h1, h2⟩ c (hc | hc); exact h1 c hc; exact h2 c hc

mutual
theorem stopInv_leavesOK : ∀ n : Node, leavesOK n = true → leavesOK (stopInv n).1 = true
| leaf _ _ _ _, h => by simpa [stopInv, leavesOK] using h
| seq _ _ _ _ cs, h => by simp only [leavesOK] at h; simp [stopInv, leavesOK, stopInvNonInvalid_leavesOKL cs h]
| sel _ _ _ _ cs, h => by simp only [leavesOK] at h; simp [stopInv, leavesOK, stopInvNonInvalid_leavesOKL cs h]
| par _ _ _ _ cs, h => by simp only [leavesOK] at h; simp [stopInv, leavesOK, stopInvPar_leavesOKL cs h]
| dec _ _ _ c, h => by simp only [leavesOK] at h; simp [stopInv, leavesOK, stopInv_leavesOK c h]
theorem stopInvNonInvalid_leavesOKL : ∀ cs : List Node, leavesOKL cs = true → leavesOKL (stopInvNonInvalid cs).1 = true
| [], _ => by simp [stopInvNonInvalid, leavesOKL]
| c :: cs, h => by
    simp only [leavesOKL, Bool.and_eq_true] at h
    simp only [stopInvNonInvalid, leavesOKL, Bool.and_eq_true]
    refine ⟨?_, stopInvNonInvalid_leavesOKL cs h.2⟩
    split
    · exact stopInv_leavesOK c h.1
    · exact h.1
theorem stopInvPar_leavesOKL : ∀ cs : List Node, leavesOKL cs = true → leavesOKL (stopInvPar cs).1 = true
| [], _ => by simp [stopInvPar, leavesOKL]
| c :: cs, h => by
    simp only [leavesOKL, Bool.and_eq_true] at h
    have ih := stopInvPar_leavesOKL cs h.2
    simp only [stopInvPar]
    split
    · simp [leavesOKL, stopInv_leavesOK c h.1, ih]
    · split
      · simp [leavesOKL, stopInv_leavesOK c h.1, ih]
      · simp [leavesOKL, ih, h.1]
end

theorem stopRunning_leavesOKL : ∀ cs : List Node, leavesOKL cs = true → leavesOKL (stopRunning cs).1 = true
| [], _ => by simp [stopRunning, leavesOKL]
| c :: cs, h => by
    simp only [leavesOKL, Bool.and_eq_true] at h
    simp only [stopRunning]
    split
    · simp [leavesOKL, stopInv_leavesOK c h.1, stopRunning_leavesOKL cs h.2]
    · simp [leavesOKL, h.1, stopRunning_leavesOKL cs h.2]

theorem stopInvAll_leavesOKL : ∀ cs : List Node, leavesOKL cs = true → leavesOKL (stopInvAll cs).1 = true
| [], _ => by simp [stopInvAll, leavesOKL]
| c :: cs, h => by
    simp only [leavesOKL, Bool.and_eq_true] at h
    simp [stopInvAll, leavesOKL, stopInv_leavesOK c h.1, stopInvAll_leavesOKL cs h.2]

/-- full state invariant -/
def Good (n : Node) : Prop := wf n = true ∧ leavesOK n = true
def GoodL (cs : List Node) : Prop := wfL cs = true ∧ leavesOKL cs = true

/-- what a child tick function guarantees (the induction hypothesis, packaged) -/
def TickOK (t : Tick) : Prop :=
  ∀ w c c' w' tr, WOK w → Good c → t w c = .ok (c', w', tr) →
    Good c' ∧ c'.status ≠ .invalid ∧ c'.id = c.id ∧ WOK w'

/-! ### leaves -/

theorem publishResults_WOK : ∀ (ks : List String) (rs : List Bool) (w : Store), WOK w → WOK (publishResults w ks rs)
| [], _, w, h => by cases ‹List Bool› <;> simpa [publishResults] using h
| k :: ks, [], w, h => by simpa [publishResults] using h
| k :: ks, r :: rs, w, h => by
    simp only [publishResults]
    exact publishResults_WOK ks rs _ (WOK_set h (by simp [Val.valid]))

/-- `update()` of a sane leaf on a sane blackboard never returns INVALID and keeps both sane -/
theorem leafUpdate_spec (i : Nat) (e : Env) (w : Store) (k k' : LeafKind) (o : Status) (w' : Store)
    (he : ValidEnv e) (hw : WOK w) (hk : leafOK k = true) (h : leafUpdate i e w k = .ok (k', o, w')) :
    o ≠ .invalid ∧ WOK w' ∧ leafOK k' = true := by
  cases k with
  | probe =>
    simp only [leafUpdate, pure, Except.pure, Except.ok.injEq, Prod.mk.injEq] at h
    obtain ⟨rfl, rfl, rfl⟩ := h; exact ⟨he i, hw, by simp [leafOK]⟩
  | const s =>
    simp only [leafUpdate, pure, Except.pure, Except.ok.injEq, Prod.mk.injEq] at h
    obtain ⟨rfl, rfl, rfl⟩ := h; exact ⟨by simpa [leafOK] using hk, hw, hk⟩
  | tickCounter d c n =>
    simp only [leafUpdate, pure, Except.pure, Except.ok.injEq, Prod.mk.injEq] at h
    obtain ⟨rfl, rfl, rfl⟩ := h
    refine ⟨?_, hw, by simpa [leafOK] using hk⟩
    split
    · simp
    · simpa [leafOK] using hk
  | statusQueue q ev cur =>
    simp only [leafOK, Bool.and_eq_true, List.all_eq_true, bne_iff_ne, ne_eq] at hk
    obtain ⟨⟨hq, hc⟩, hev⟩ := hk
    cases cur with
    | cons s rest =>
      simp only [leafUpdate, pure, Except.pure, Except.ok.injEq, Prod.mk.injEq] at h
      obtain ⟨rfl, rfl, rfl⟩ := h
      refine ⟨hc s (by simp), hw, ?_⟩
      simp only [leafOK, Bool.and_eq_true, List.all_eq_true, bne_iff_ne, ne_eq]
      exact ⟨⟨hq, fun x hx => hc x (by simp [hx])⟩, hev⟩
    | nil =>
      cases ev with
      | some s =>
        simp only [leafUpdate, pure, Except.pure, Except.ok.injEq, Prod.mk.injEq] at h
        obtain ⟨rfl, rfl, rfl⟩ := h
        refine ⟨by intro hh; subst hh; simp at hev, hw, ?_⟩
        simp only [leafOK, Bool.and_eq_true, List.all_eq_true, bne_iff_ne, ne_eq]
        exact ⟨⟨hq, by simp⟩, hev⟩
      | none =>
        cases q with
        | nil => simp [leafUpdate, throw, throwThe, MonadExceptOf.throw] at h
        | cons s rest =>
          simp only [leafUpdate, pure, Except.pure, Except.ok.injEq, Prod.mk.injEq] at h
          obtain ⟨rfl, rfl, rfl⟩ := h
          refine ⟨hq s (by simp), hw, ?_⟩
          simp only [leafOK, Bool.and_eq_true, List.all_eq_true, bne_iff_ne, ne_eq]
          exact ⟨⟨hq, fun x hx => hq x (by simp [hx])⟩, hev⟩
  | successEveryN n c =>
    simp only [leafUpdate] at h
    split at h
    · simp [throw, throwThe, MonadExceptOf.throw] at h
    · simp only [pure, Except.pure, Except.ok.injEq, Prod.mk.injEq] at h
      obtain ⟨rfl, rfl, rfl⟩ := h
      exact ⟨by split <;> simp, hw, by simp [leafOK]⟩
  | timer d fin =>
    simp only [leafUpdate, pure, Except.pure, Except.ok.injEq, Prod.mk.injEq] at h
    obtain ⟨rfl, rfl, rfl⟩ := h
    exact ⟨by split <;> simp, hw, by simp [leafOK]⟩
  | checkExists key p =>
    simp only [leafUpdate, pure, Except.pure, Except.ok.injEq, Prod.mk.injEq] at h
    obtain ⟨rfl, rfl, rfl⟩ := h
    exact ⟨by split <;> simp, hw, by simp [leafOK]⟩
  | waitFor key p =>
    simp only [leafUpdate, pure, Except.pure, Except.ok.injEq, Prod.mk.injEq] at h
    obtain ⟨rfl, rfl, rfl⟩ := h
    exact ⟨by split <;> simp, hw, by simp [leafOK]⟩
  | checkValue c =>
    simp only [leafUpdate] at h
    split at h
    · simp only [pure, Except.pure, Except.ok.injEq, Prod.mk.injEq] at h
      obtain ⟨rfl, rfl, rfl⟩ := h; exact ⟨by simp, hw, by simp [leafOK]⟩
    · simp only [bind, Except.bind] at h
      split at h
      · simp at h
      · simp only [pure, Except.pure, Except.ok.injEq, Prod.mk.injEq] at h
        obtain ⟨rfl, rfl, rfl⟩ := h; exact ⟨by split <;> simp, hw, by simp [leafOK]⟩
  | waitValue c =>
    simp only [leafUpdate] at h
    split at h
    · simp only [pure, Except.pure, Except.ok.injEq, Prod.mk.injEq] at h
      obtain ⟨rfl, rfl, rfl⟩ := h; exact ⟨by simp, hw, by simp [leafOK]⟩
    · simp only [bind, Except.bind] at h
      split at h
      · simp at h
      · simp only [pure, Except.pure, Except.ok.injEq, Prod.mk.injEq] at h
        obtain ⟨rfl, rfl, rfl⟩ := h; exact ⟨by split <;> simp, hw, by simp [leafOK]⟩
  | checkValues cs op res =>
    simp only [leafUpdate, bind, Except.bind] at h
    split at h
    · simp at h
    · split at h
      · simp only [pure, Except.pure, Except.ok.injEq, Prod.mk.injEq] at h
        obtain ⟨rfl, rfl, rfl⟩ := h; exact ⟨by simp, hw, by simp [leafOK]⟩
      · simp only [pure, Except.pure, Except.ok.injEq, Prod.mk.injEq] at h
        obtain ⟨rfl, rfl, rfl⟩ := h
        refine ⟨by split <;> simp, ?_, by simp [leafOK]⟩
        cases res with
        | none => exact hw
        | some ks => exact publishResults_WOK ks _ w hw
  | setVar key p v ow =>
    simp only [leafOK] at hk
    simp only [leafUpdate] at h
    split at h
    · simp only [pure, Except.pure, Except.ok.injEq, Prod.mk.injEq] at h
      obtain ⟨rfl, rfl, rfl⟩ := h; exact ⟨by simp, hw, by simpa [leafOK] using hk⟩
    · split at h
      · simp only [pure, Except.pure, Except.ok.injEq, Prod.mk.injEq] at h
        obtain ⟨rfl, rfl, rfl⟩ := h; exact ⟨by simp, WOK_set hw hk, by simpa [leafOK] using hk⟩
      · split at h
        · simp [throw, throwThe, MonadExceptOf.throw] at h
        · rename_i old hold
          split at h
          · rename_i new hnew
            simp only [pure, Except.pure, Except.ok.injEq, Prod.mk.injEq] at h
            obtain ⟨rfl, rfl, rfl⟩ := h
            exact ⟨by simp, WOK_set hw (Val.setPath_valid _ old v new (hw key old hold) hk hnew),
              by simpa [leafOK] using hk⟩
          · simp only [pure, Except.pure, Except.ok.injEq, Prod.mk.injEq] at h
            obtain ⟨rfl, rfl, rfl⟩ := h; exact ⟨by simp, hw, by simpa [leafOK] using hk⟩
  | unsetVar key =>
    simp only [leafUpdate, pure, Except.pure, Except.ok.injEq, Prod.mk.injEq] at h
    obtain ⟨rfl, rfl, rfl⟩ := h; exact ⟨by simp, WOK_unset hw, by simp [leafOK]⟩
  | bbToStatus key p =>
    simp only [leafUpdate] at h
    split at h
    · simp [throw, throwThe, MonadExceptOf.throw] at h
    · rename_i s hs
      simp only [pure, Except.pure, Except.ok.injEq, Prod.mk.injEq] at h
      obtain ⟨rfl, rfl, rfl⟩ := h
      have := WOK_getPath hw hs
      exact ⟨by simpa [Val.valid] using this, hw, by simp [leafOK]⟩
    · simp [throw, throwThe, MonadExceptOf.throw] at h

theorem leafOK_init (e : Env) (k : LeafKind) (h : leafOK k = true) : leafOK (leafInit e k) = true := by
  cases k <;> simp_all [leafInit, leafOK]

/-- the callback log of one leaf tick keeps the lifecycle protocol -/
theorem protoOK_tick (st o : Status) (log : List LEv) (h : protoOK st log = true) :
    protoOK o ((if o ≠ .running then
        ((if st ≠ .running then log ++ [.init] else log) ++ [.upd o]) ++ [.term o]
      else (if st ≠ .running then log ++ [.init] else log) ++ [.upd o])) = true := by
  unfold protoOK at *
  cases hp : protoRun log with
  | none => simp [hp] at h
  | some p =>
    cases p with
    | idle =>
      have hst : st ≠ .running := by simpa [hp] using h
      by_cases ho : o = .running
      · subst ho; simp [hst, protoRun_append, hp, protoStep]
      · simp [hst, ho, protoRun_append, hp, protoStep]
    | running =>
      have hst : st = .running := by simpa [hp] using h
      by_cases ho : o = .running
      · subst ho; simp [hst, protoRun_append, hp, protoStep]
      · simp [hst, ho, protoRun_append, hp, protoStep]
    | entered => simp [hp] at h
    | closing s => simp [hp] at h

theorem leafTick_spec (e : Env) (w : Store) (i : Nat) (st : Status) (k : LeafKind) (log : List LEv)
    (n' : Node) (w' : Store) (tr : List Ev) (he : ValidEnv e) (hw : WOK w)
    (hg : Good (leaf i st k log)) (h : leafTick e w i st k log = .ok (n', w', tr)) :
    Good n' ∧ n'.status ≠ .invalid ∧ n'.id = i ∧ WOK w' := by
  obtain ⟨hwf, hlk⟩ := hg
  simp only [wf] at hwf; simp only [leavesOK] at hlk
  simp only [leafTick, bind, Except.bind] at h
  have hk0 : leafOK (if st ≠ .running then leafInit e k else k) = true := by
    split
    · exact leafOK_init e k hlk
    · exact hlk
  generalize (if st ≠ .running then leafInit e k else k) = k0 at h hk0
  cases hu : leafUpdate i e w k0 with
  | error err => simp [hu] at h
  | ok v =>
    obtain ⟨k1, o, w1⟩ := v
    simp only [hu, pure, Except.pure, Except.ok.injEq, Prod.mk.injEq] at h
    obtain ⟨rfl, rfl, _⟩ := h
    obtain ⟨ho, hw1, hk1⟩ := leafUpdate_spec i e w k0 k1 o w1 he hw hk0 hu
    refine ⟨⟨?_, by simpa [leavesOK] using hk1⟩, by simpa [status] using ho, by simp [id], hw1⟩
    simp only [wf]
    exact protoOK_tick st o log hwf

/-! ### the Sequence loop -/

theorem seqLoop_spec (t : Tick) (ht : TickOK t) :
    ∀ (cs : List Node) (w : Store) (done : List Node) (r : Option (Node × List Node)) (w' : Store) (tr : List Ev),
      WOK w → GoodL cs → seqLoop t w cs = .ok (done, r, w', tr) →
      GoodL done ∧ noRunL done = true ∧ (∀ x ∈ done, x.status = .success) ∧ WOK w' ∧
      (match r with
       | none => done.map Node.id = cs.map Node.id
       | some (c', rest) => Good c' ∧ c'.status ≠ .invalid ∧ c'.status ≠ .success ∧
            (done.map Node.id ++ c'.id :: rest.map Node.id = cs.map Node.id) ∧
            ∃ pre, cs = pre ++ rest ∧ pre.length = done.length + 1) := by
  intro cs
  induction cs with
  | nil =>
    intro w done r w' tr hw _ h
    simp [seqLoop, pure, Except.pure] at h; obtain ⟨rfl, rfl, rfl, rfl⟩ := h
    simp [GoodL, wfL, noRunL, leavesOKL, hw]
  | cons c cs ih =>
    intro w done r w' tr hw hg h
    obtain ⟨hwf, hlo⟩ := hg
    simp only [wfL, Bool.and_eq_true] at hwf
    simp only [leavesOKL, Bool.and_eq_true] at hlo
    simp only [seqLoop, bind, Except.bind] at h
    cases htc : t w c with
    | error e => simp [htc] at h
    | ok v =>
      obtain ⟨c', w1, trc⟩ := v
      obtain ⟨hc1, hc2, hc3, hw1⟩ := ht w c c' w1 trc hw ⟨hwf.1, hlo.1⟩ htc
      simp only [htc] at h
      by_cases hs : c'.status = .success
      · simp only [hs, ne_eq, not_true_eq_false, ↓reduceIte] at h
        cases hl : seqLoop t w1 cs with
        | error e => simp [hl] at h
        | ok v2 =>
          obtain ⟨done2, r2, w2, tr2⟩ := v2
          simp only [hl, pure, Except.pure, Except.ok.injEq, Prod.mk.injEq] at h
          obtain ⟨rfl, rfl, rfl, rfl⟩ := h
          obtain ⟨i1, i2, i3, i4, i5⟩ := ih w1 done2 r2 w2 tr2 hw1 ⟨hwf.2, hlo.2⟩ hl
          refine ⟨⟨by simp [wfL, hc1.1, i1.1], by simp [leavesOKL, hc1.2, i1.2]⟩,
            by simp [noRunL, i2, wf_noRun hc1.1 (by simp [hs])], ?_, i4, ?_⟩
          · intro x hx; simp only [List.mem_cons] at hx; rcases hx with rfl | hx; exact hs; exact i3 x hx
          · cases r2 with
            | none => simpa [hc3] using i5
            | some p =>
              obtain ⟨c2, rest⟩ := p
              obtain ⟨h1, h2, h3, h4, pre, h5, h6⟩ := i5
              exact ⟨h1, h2, h3, by simp [hc3, h4], c :: pre, by simp [h5], by simp [h6]⟩
      · simp only [ne_eq, hs, not_false_eq_true, ↓reduceIte, pure, Except.pure, Except.ok.injEq, Prod.mk.injEq] at h
        obtain ⟨rfl, rfl, rfl, rfl⟩ := h
        exact ⟨⟨by simp [wfL], by simp [leavesOKL]⟩, by simp [noRunL], by simp, hw1,
          hc1, hc2, hs, by simp [hc3], [c], by simp, by simp⟩

/-! ### the Selector loop -/

theorem selLoop_spec (t : Tick) (ht : TickOK t) :
    ∀ (cs : List Node) (w : Store) (failed : List Node) (r : Option (Node × List Node)) (w' : Store) (tr : List Ev),
      WOK w → GoodL cs → selLoop t w cs = .ok (failed, r, w', tr) →
      GoodL failed ∧ noRunL failed = true ∧ (∀ x ∈ failed, x.status ≠ .invalid) ∧ WOK w' ∧
      (match r with
       | none => failed.map Node.id = cs.map Node.id
       | some (c', rest) => Good c' ∧ (c'.status = .running ∨ c'.status = .success) ∧
            (failed.map Node.id ++ c'.id :: rest.map Node.id = cs.map Node.id) ∧
            ∃ pre, cs = pre ++ rest ∧ pre.length = failed.length + 1) := by
  intro cs
  induction cs with
  | nil =>
    intro w done r w' tr hw _ h
    simp [selLoop, pure, Except.pure] at h; obtain ⟨rfl, rfl, rfl, rfl⟩ := h
    simp [GoodL, wfL, noRunL, leavesOKL, hw]
  | cons c cs ih =>
    intro w done r w' tr hw hg h
    obtain ⟨hwf, hlo⟩ := hg
    simp only [wfL, Bool.and_eq_true] at hwf
    simp only [leavesOKL, Bool.and_eq_true] at hlo
    simp only [selLoop, bind, Except.bind] at h
    cases htc : t w c with
    | error e => simp [htc] at h
    | ok v =>
      obtain ⟨c', w1, trc⟩ := v
      obtain ⟨hc1, hc2, hc3, hw1⟩ := ht w c c' w1 trc hw ⟨hwf.1, hlo.1⟩ htc
      simp only [htc] at h
      by_cases hs : c'.status = .running ∨ c'.status = .success
      · simp only [hs, ↓reduceIte, pure, Except.pure, Except.ok.injEq, Prod.mk.injEq] at h
        obtain ⟨rfl, rfl, rfl, rfl⟩ := h
        exact ⟨⟨by simp [wfL], by simp [leavesOKL]⟩, by simp [noRunL], by simp, hw1,
          hc1, hs, by simp [hc3], [c], by simp, by simp⟩
      · simp only [hs, ↓reduceIte] at h
        cases hl : selLoop t w1 cs with
        | error e => simp [hl] at h
        | ok v2 =>
          obtain ⟨done2, r2, w2, tr2⟩ := v2
          simp only [hl, pure, Except.pure, Except.ok.injEq, Prod.mk.injEq] at h
          obtain ⟨rfl, rfl, rfl, rfl⟩ := h
          obtain ⟨i1, i2, i3, i4, i5⟩ := ih w1 done2 r2 w2 tr2 hw1 ⟨hwf.2, hlo.2⟩ hl
          have hnr : c'.status ≠ .running := fun h => hs (Or.inl h)
          refine ⟨⟨by simp [wfL, hc1.1, i1.1], by simp [leavesOKL, hc1.2, i1.2]⟩,
            by simp [noRunL, i2, wf_noRun hc1.1 hnr], ?_, i4, ?_⟩
          · intro x hx; simp only [List.mem_cons] at hx; rcases hx with rfl | hx; exact hc2; exact i3 x hx
          · cases r2 with
            | none => simpa [hc3] using i5
            | some p =>
              obtain ⟨c2, rest⟩ := p
              obtain ⟨h1, h2, h4, pre, h5, h6⟩ := i5
              exact ⟨h1, h2, by simp [hc3, h4], c :: pre, by simp [h5], by simp [h6]⟩

/-! ### the Parallel sweep -/

theorem parLoop_spec (t : Tick) (ht : TickOK t) (sync : Bool) :
    ∀ (cs : List Node) (w : Store) (cs' : List Node) (w' : Store) (tr : List Ev),
      WOK w → GoodL cs → parLoop t sync w cs = .ok (cs', w', tr) →
      GoodL cs' ∧ (∀ x ∈ cs', x.status ≠ .invalid) ∧ cs'.map Node.id = cs.map Node.id ∧ WOK w' := by
  intro cs
  induction cs with
  | nil =>
    intro w cs' w' tr hw _ h
    simp [parLoop, pure, Except.pure] at h; obtain ⟨rfl, rfl, rfl⟩ := h
    simp [GoodL, wfL, leavesOKL, hw]
  | cons c cs ih =>
    intro w cs' w' tr hw hg h
    obtain ⟨hwf, hlo⟩ := hg
    simp only [wfL, Bool.and_eq_true] at hwf
    simp only [leavesOKL, Bool.and_eq_true] at hlo
    simp only [parLoop, bind, Except.bind] at h
    split at h
    · rename_i hskip
      cases hl : parLoop t sync w cs with
      | error e => simp [hl] at h
      | ok v2 =>
        obtain ⟨cs2, w2, tr2⟩ := v2
        simp only [hl, pure, Except.pure, Except.ok.injEq, Prod.mk.injEq] at h
        obtain ⟨rfl, rfl, rfl⟩ := h
        obtain ⟨i1, i2, i3, i4⟩ := ih w cs2 w2 tr2 hw ⟨hwf.2, hlo.2⟩ hl
        have hcs : c.status = .success := by
          simp only [Bool.and_eq_true, decide_eq_true_eq] at hskip; exact hskip.2
        refine ⟨⟨by simp [wfL, hwf.1, i1.1], by simp [leavesOKL, hlo.1, i1.2]⟩, ?_, by simp [i3], i4⟩
        intro x hx; simp only [List.mem_cons] at hx; rcases hx with rfl | hx
        · simp [hcs]
        · exact i2 x hx
    · cases htc : t w c with
      | error e => simp [htc] at h
      | ok v =>
        obtain ⟨c', w1, trc⟩ := v
        obtain ⟨hc1, hc2, hc3, hw1⟩ := ht w c c' w1 trc hw ⟨hwf.1, hlo.1⟩ htc
        simp only [htc] at h
        cases hl : parLoop t sync w1 cs with
        | error e => simp [hl] at h
        | ok v2 =>
          obtain ⟨cs2, w2, tr2⟩ := v2
          simp only [hl, pure, Except.pure, Except.ok.injEq, Prod.mk.injEq] at h
          obtain ⟨rfl, rfl, rfl⟩ := h
          obtain ⟨i1, i2, i3, i4⟩ := ih w1 cs2 w2 tr2 hw1 ⟨hwf.2, hlo.2⟩ hl
          refine ⟨⟨by simp [wfL, hc1.1, i1.1], by simp [leavesOKL, hc1.2, i1.2]⟩, ?_, by simp [i3, hc3], i4⟩
          intro x hx; simp only [List.mem_cons] at hx; rcases hx with rfl | hx
          · exact hc2
          · exact i2 x hx

end Node
