/-
  A tick of a good tree never runs out of fuel and never raises an INTERNAL error.

   (A) `tickF_no_fuel` / `tick_no_fuel`: `height n + 1` units of fuel always suffice.
   (B) `tickF_no_internal` / `tick_no_internal`: on a state satisfying the invariant `Good` and the
       static leaf sanity `leavesSafe` (preserved by `stop` and by ticks: `tickF_leavesSafe`), no
       `Err.internal` (AssertionError / ValueError / IndexError / ZeroDivisionError) escapes a tick.

  Every helper of `tickF` gets one "where can an error come from" lemma (`*_error`); the three child
  loops are handled once, for an arbitrary error and an arbitrary invariant of the threaded store.
-/
import PyTreesProofs.Lemmas.Tick
set_option linter.unusedVariables false
set_option linter.unusedSimpArgs false
open Node

namespace Node

/-! ### height -/

theorem heightL_mem : ∀ {cs : List Node} {c : Node}, c ∈ cs → height c ≤ heightL cs
| [], _, h => by simp at h
| d :: cs, c, h => by
    simp only [List.mem_cons] at h
    simp only [heightL]
    rcases h with rfl | h
    · exact Nat.le_max_left _ _
    · exact Nat.le_trans (heightL_mem h) (Nat.le_max_right _ _)

theorem heightL_append : ∀ (a b : List Node), heightL (a ++ b) = max (heightL a) (heightL b)
| [], b => by simp [heightL]
| c :: a, b => by simp [heightL, heightL_append a b, Nat.max_assoc]

mutual
theorem stopInv_height : ∀ n : Node, height (stopInv n).1 = height n
| leaf _ _ _ _ => by simp [stopInv, height]
| seq _ _ _ _ cs => by simp [stopInv, height, stopInvNonInvalid_heightL cs]
| sel _ _ _ _ cs => by simp [stopInv, height, stopInvNonInvalid_heightL cs]
| par _ _ _ _ cs => by simp [stopInv, height, stopInvPar_heightL cs]
| dec _ _ _ c => by simp [stopInv, height, stopInv_height c]
theorem stopInvNonInvalid_heightL : ∀ cs : List Node, heightL (stopInvNonInvalid cs).1 = heightL cs
| [] => by simp [stopInvNonInvalid]
| c :: cs => by
    simp only [stopInvNonInvalid, heightL, stopInvNonInvalid_heightL cs]
    split <;> simp [stopInv_height c]
theorem stopInvPar_heightL : ∀ cs : List Node, heightL (stopInvPar cs).1 = heightL cs
| [] => by simp [stopInvPar]
| c :: cs => by
    have ih := stopInvPar_heightL cs
    simp only [stopInvPar]
    split
    · simp [heightL, stopInv_height c, ih]
    · split <;> simp [heightL, stopInv_height c, ih]
end

theorem stopInvAll_heightL : ∀ cs : List Node, heightL (stopInvAll cs).1 = heightL cs
| [] => by simp [stopInvAll]
| c :: cs => by simp [stopInvAll, heightL, stopInv_height c, stopInvAll_heightL cs]

theorem stopRunning_heightL : ∀ cs : List Node, heightL (stopRunning cs).1 = heightL cs
| [] => by simp [stopRunning]
| c :: cs => by
    simp only [stopRunning, heightL, stopRunning_heightL cs]
    split <;> simp [stopInv_height c]

/-! ### static leaf sanity: nothing a leaf's `update()` can trip over -/

/-- a `StatusQueue` can always produce a status (its queue is non-empty or it has an `eventually`);
    `SuccessEveryN` does not divide by zero -/
def leafSafe : LeafKind → Bool
| .statusQueue q ev _ => !(q.isEmpty && ev.isNone)
| .successEveryN n _ => n != 0
| _ => true

mutual
def leavesSafe : Node → Bool
| leaf _ _ k _ => leafSafe k
| seq _ _ _ _ cs => leavesSafeL cs
| sel _ _ _ _ cs => leavesSafeL cs
| par _ _ _ _ cs => leavesSafeL cs
| dec _ _ _ c => leavesSafe c
def leavesSafeL : List Node → Bool
| [] => true
| c :: cs => leavesSafe c && leavesSafeL cs
end

theorem leavesSafeL_iff {cs : List Node} : leavesSafeL cs = true ↔ ∀ c ∈ cs, leavesSafe c = true := by
  induction cs with
  | nil => simp [leavesSafeL]
  | cons c cs ih => simp [leavesSafeL, ih]

theorem leavesSafeL_append {a b : List Node} :
    leavesSafeL (a ++ b) = true ↔ leavesSafeL a = true ∧ leavesSafeL b = true := by
  simp only [leavesSafeL_iff, List.mem_append]; constructor
  · intro h; exact ⟨fun c hc => h c (Or.inl hc), fun c hc => h c (Or.inr hc)⟩
  · rintro ⟨h1, h2⟩ c (hc | hc); exact h1 c hc; exact h2 c hc

mutual
theorem stopInv_leavesSafe : ∀ n : Node, leavesSafe n = true → leavesSafe (stopInv n).1 = true
| leaf _ _ _ _, h => by simpa [stopInv, leavesSafe] using h
| seq _ _ _ _ cs, h => by simp only [leavesSafe] at h; simp [stopInv, leavesSafe, stopInvNonInvalid_leavesSafeL cs h]
| sel _ _ _ _ cs, h => by simp only [leavesSafe] at h; simp [stopInv, leavesSafe, stopInvNonInvalid_leavesSafeL cs h]
| par _ _ _ _ cs, h => by simp only [leavesSafe] at h; simp [stopInv, leavesSafe, stopInvPar_leavesSafeL cs h]
| dec _ _ _ c, h => by simp only [leavesSafe] at h; simp [stopInv, leavesSafe, stopInv_leavesSafe c h]
theorem stopInvNonInvalid_leavesSafeL : ∀ cs : List Node, leavesSafeL cs = true →
    leavesSafeL (stopInvNonInvalid cs).1 = true
| [], _ => by simp [stopInvNonInvalid, leavesSafeL]
| c :: cs, h => by
    simp only [leavesSafeL, Bool.and_eq_true] at h
    simp only [stopInvNonInvalid, leavesSafeL, Bool.and_eq_true]
    refine ⟨?_, stopInvNonInvalid_leavesSafeL cs h.2⟩
    split
    · exact stopInv_leavesSafe c h.1
    · exact h.1
theorem stopInvPar_leavesSafeL : ∀ cs : List Node, leavesSafeL cs = true → leavesSafeL (stopInvPar cs).1 = true
| [], _ => by simp [stopInvPar, leavesSafeL]
| c :: cs, h => by
    simp only [leavesSafeL, Bool.and_eq_true] at h
    have ih := stopInvPar_leavesSafeL cs h.2
    simp only [stopInvPar]
    split
    · simp [leavesSafeL, stopInv_leavesSafe c h.1, ih]
    · split
      · simp [leavesSafeL, stopInv_leavesSafe c h.1, ih]
      · simp [leavesSafeL, ih, h.1]
end

theorem stopRunning_leavesSafeL : ∀ cs : List Node, leavesSafeL cs = true → leavesSafeL (stopRunning cs).1 = true
| [], _ => by simp [stopRunning, leavesSafeL]
| c :: cs, h => by
    simp only [leavesSafeL, Bool.and_eq_true] at h
    simp only [stopRunning]
    split
    · simp [leavesSafeL, stopInv_leavesSafe c h.1, stopRunning_leavesSafeL cs h.2]
    · simp [leavesSafeL, h.1, stopRunning_leavesSafeL cs h.2]

theorem stopInvAll_leavesSafeL : ∀ cs : List Node, leavesSafeL cs = true → leavesSafeL (stopInvAll cs).1 = true
| [], _ => by simp [stopInvAll, leavesSafeL]
| c :: cs, h => by
    simp only [leavesSafeL, Bool.and_eq_true] at h
    simp [stopInvAll, leavesSafeL, stopInv_leavesSafe c h.1, stopInvAll_leavesSafeL cs h.2]

theorem stopDone_leavesSafe (s : Status) (n : Node) (h : leavesSafe n = true) : leavesSafe (stopDone s n).1 = true := by
  cases n with
  | leaf i st k log => simpa [stopDone, leavesSafe] using h
  | seq i m st cur cs => simpa [stopDone, leavesSafe] using h
  | sel i m st cur cs => simpa [stopDone, leavesSafe] using h
  | par i p st cur cs => simp only [leavesSafe] at h; simp [stopDone, leavesSafe, stopRunning_leavesSafeL cs h]
  | dec i k st c =>
    simp only [leavesSafe] at h
    simp only [stopDone, leavesSafe]
    split
    · exact stopInv_leavesSafe c h
    · exact h

theorem stop_leavesSafe (s : Status) (n : Node) (h : leavesSafe n = true) : leavesSafe (stop s n).1 = true := by
  unfold stop
  split
  · exact stopInv_leavesSafe n h
  · exact stopDone_leavesSafe s n h

theorem leafSafe_init (e : Env) (k : LeafKind) (h : leafSafe k = true) : leafSafe (leafInit e k) = true := by
  cases k <;> simp_all [leafInit, leafSafe]

/-! ### where the errors of the leaf callbacks come from -/

theorem cmpVals_error (op : CmpOp) (a b : Val) (x : Err) (h : cmpVals op a b = .error x) : x = .type := by
  unfold cmpVals at h
  split at h
  · simp [pure, Except.pure] at h
  · simp [pure, Except.pure] at h
  · split at h
    · simp [pure, Except.pure] at h
    · simp only [throw, throwThe, MonadExceptOf.throw, Except.error.injEq] at h; exact h.symm

theorem evalChecks_error (w : Store) : ∀ (cs : List Check) (x : Err), evalChecks w cs = .error x → x = .type
| [], x, h => by simp [evalChecks, pure, Except.pure] at h
| c :: cs, x, h => by
    simp only [evalChecks] at h
    split at h
    · simp [pure, Except.pure] at h
    · rename_i v hv
      simp only [bind, Except.bind] at h
      cases hc : cmpVals c.op v c.value with
      | error err => simp only [hc, Except.error.injEq] at h; subst h; exact cmpVals_error _ _ _ _ hc
      | ok r =>
        simp only [hc] at h
        cases hr : evalChecks w cs with
        | error err => simp only [hr, Except.error.injEq] at h; subst h; exact evalChecks_error w cs _ hr
        | ok o => cases o <;> simp [hr, pure, Except.pure] at h

/-- `update()` of a leaf raises only KeyError / TypeError, or an internal error when the leaf is not `leafSafe` -/
theorem leafUpdate_error (i : Nat) (e : Env) (w : Store) (k : LeafKind) (x : Err)
    (h : leafUpdate i e w k = .error x) : (x = .internal ∧ leafSafe k = false) ∨ x = .key ∨ x = .type := by
  cases k with
  | probe => simp [leafUpdate, pure, Except.pure] at h
  | const s => simp [leafUpdate, pure, Except.pure] at h
  | tickCounter d c n => simp [leafUpdate, pure, Except.pure] at h
  | statusQueue q ev cur =>
    cases cur with
    | cons s rest => simp [leafUpdate, pure, Except.pure] at h
    | nil =>
      cases ev with
      | some s => simp [leafUpdate, pure, Except.pure] at h
      | none =>
        cases q with
        | cons s rest => simp [leafUpdate, pure, Except.pure] at h
        | nil =>
          simp only [leafUpdate, throw, throwThe, MonadExceptOf.throw, Except.error.injEq] at h
          exact Or.inl ⟨h.symm, by simp [leafSafe]⟩
  | successEveryN n c =>
    simp only [leafUpdate] at h
    split at h
    · rename_i hn
      simp only [throw, throwThe, MonadExceptOf.throw, Except.error.injEq] at h
      exact Or.inl ⟨h.symm, by simp [leafSafe, hn]⟩
    · simp [pure, Except.pure] at h
  | timer d fin => simp [leafUpdate, pure, Except.pure] at h
  | checkExists key p => simp [leafUpdate, pure, Except.pure] at h
  | waitFor key p => simp [leafUpdate, pure, Except.pure] at h
  | checkValue c =>
    simp only [leafUpdate] at h
    split at h
    · simp [pure, Except.pure] at h
    · rename_i v hv
      simp only [bind, Except.bind] at h
      cases hc : cmpVals c.op v c.value with
      | error err => simp only [hc, Except.error.injEq] at h; subst h; exact Or.inr (Or.inr (cmpVals_error _ _ _ _ hc))
      | ok r => simp [hc, pure, Except.pure] at h
  | waitValue c =>
    simp only [leafUpdate] at h
    split at h
    · simp [pure, Except.pure] at h
    · rename_i v hv
      simp only [bind, Except.bind] at h
      cases hc : cmpVals c.op v c.value with
      | error err => simp only [hc, Except.error.injEq] at h; subst h; exact Or.inr (Or.inr (cmpVals_error _ _ _ _ hc))
      | ok r => simp [hc, pure, Except.pure] at h
  | checkValues cs op res =>
    simp only [leafUpdate, bind, Except.bind] at h
    cases hc : evalChecks w cs with
    | error err => simp only [hc, Except.error.injEq] at h; subst h; exact Or.inr (Or.inr (evalChecks_error w cs _ hc))
    | ok o => cases o <;> simp [hc, pure, Except.pure] at h
  | setVar key p v ow =>
    simp only [leafUpdate] at h
    split at h
    · simp [pure, Except.pure] at h
    · split at h
      · simp [pure, Except.pure] at h
      · split at h
        · simp only [throw, throwThe, MonadExceptOf.throw, Except.error.injEq] at h; exact Or.inr (Or.inl h.symm)
        · split at h <;> simp [pure, Except.pure] at h
  | unsetVar key => simp [leafUpdate, pure, Except.pure] at h
  | bbToStatus key p =>
    simp only [leafUpdate] at h
    split at h
    · simp only [throw, throwThe, MonadExceptOf.throw, Except.error.injEq] at h; exact Or.inr (Or.inl h.symm)
    · simp [pure, Except.pure] at h
    · simp only [throw, throwThe, MonadExceptOf.throw, Except.error.injEq] at h; exact Or.inr (Or.inr h.symm)

/-- `update()` keeps a leaf `leafSafe` (the queue and `eventually` of a `StatusQueue`, the period of
    `SuccessEveryN` never change) -/
theorem leafUpdate_leafSafe (i : Nat) (e : Env) (w : Store) (k k' : LeafKind) (o : Status) (w' : Store)
    (hk : leafSafe k = true) (h : leafUpdate i e w k = .ok (k', o, w')) : leafSafe k' = true := by
  cases k with
  | probe =>
    simp only [leafUpdate, pure, Except.pure, Except.ok.injEq, Prod.mk.injEq] at h
    obtain ⟨rfl, _, _⟩ := h; exact hk
  | const s =>
    simp only [leafUpdate, pure, Except.pure, Except.ok.injEq, Prod.mk.injEq] at h
    obtain ⟨rfl, _, _⟩ := h; simp [leafSafe]
  | tickCounter d c n =>
    simp only [leafUpdate, pure, Except.pure, Except.ok.injEq, Prod.mk.injEq] at h
    obtain ⟨rfl, _, _⟩ := h; simp [leafSafe]
  | statusQueue q ev cur =>
    cases cur with
    | cons s rest =>
      simp only [leafUpdate, pure, Except.pure, Except.ok.injEq, Prod.mk.injEq] at h
      obtain ⟨rfl, _, _⟩ := h; simpa [leafSafe] using hk
    | nil =>
      cases ev with
      | some s =>
        simp only [leafUpdate, pure, Except.pure, Except.ok.injEq, Prod.mk.injEq] at h
        obtain ⟨rfl, _, _⟩ := h; simp [leafSafe]
      | none =>
        cases q with
        | nil => simp [leafUpdate, throw, throwThe, MonadExceptOf.throw] at h
        | cons s rest =>
          simp only [leafUpdate, pure, Except.pure, Except.ok.injEq, Prod.mk.injEq] at h
          obtain ⟨rfl, _, _⟩ := h; simp [leafSafe]
  | successEveryN n c =>
    simp only [leafUpdate] at h
    split at h
    · simp [throw, throwThe, MonadExceptOf.throw] at h
    · simp only [pure, Except.pure, Except.ok.injEq, Prod.mk.injEq] at h
      obtain ⟨rfl, _, _⟩ := h; simpa [leafSafe] using hk
  | timer d fin =>
    simp only [leafUpdate, pure, Except.pure, Except.ok.injEq, Prod.mk.injEq] at h
    obtain ⟨rfl, _, _⟩ := h; simp [leafSafe]
  | checkExists key p =>
    simp only [leafUpdate, pure, Except.pure, Except.ok.injEq, Prod.mk.injEq] at h
    obtain ⟨rfl, _, _⟩ := h; simp [leafSafe]
  | waitFor key p =>
    simp only [leafUpdate, pure, Except.pure, Except.ok.injEq, Prod.mk.injEq] at h
    obtain ⟨rfl, _, _⟩ := h; simp [leafSafe]
  | checkValue c =>
    simp only [leafUpdate] at h
    split at h
    · simp only [pure, Except.pure, Except.ok.injEq, Prod.mk.injEq] at h
      obtain ⟨rfl, _, _⟩ := h; simp [leafSafe]
    · simp only [bind, Except.bind] at h
      split at h
      · simp at h
      · simp only [pure, Except.pure, Except.ok.injEq, Prod.mk.injEq] at h
        obtain ⟨rfl, _, _⟩ := h; simp [leafSafe]
  | waitValue c =>
    simp only [leafUpdate] at h
    split at h
    · simp only [pure, Except.pure, Except.ok.injEq, Prod.mk.injEq] at h
      obtain ⟨rfl, _, _⟩ := h; simp [leafSafe]
    · simp only [bind, Except.bind] at h
      split at h
      · simp at h
      · simp only [pure, Except.pure, Except.ok.injEq, Prod.mk.injEq] at h
        obtain ⟨rfl, _, _⟩ := h; simp [leafSafe]
  | checkValues cs op res =>
    simp only [leafUpdate, bind, Except.bind] at h
    split at h
    · simp at h
    · split at h
      · simp only [pure, Except.pure, Except.ok.injEq, Prod.mk.injEq] at h
        obtain ⟨rfl, _, _⟩ := h; simp [leafSafe]
      · simp only [pure, Except.pure, Except.ok.injEq, Prod.mk.injEq] at h
        obtain ⟨rfl, _, _⟩ := h; simp [leafSafe]
  | setVar key p v ow =>
    simp only [leafUpdate] at h
    split at h
    · simp only [pure, Except.pure, Except.ok.injEq, Prod.mk.injEq] at h
      obtain ⟨rfl, _, _⟩ := h; simp [leafSafe]
    · split at h
      · simp only [pure, Except.pure, Except.ok.injEq, Prod.mk.injEq] at h
        obtain ⟨rfl, _, _⟩ := h; simp [leafSafe]
      · split at h
        · simp [throw, throwThe, MonadExceptOf.throw] at h
        · split at h
          · simp only [pure, Except.pure, Except.ok.injEq, Prod.mk.injEq] at h
            obtain ⟨rfl, _, _⟩ := h; simp [leafSafe]
          · simp only [pure, Except.pure, Except.ok.injEq, Prod.mk.injEq] at h
            obtain ⟨rfl, _, _⟩ := h; simp [leafSafe]
  | unsetVar key =>
    simp only [leafUpdate, pure, Except.pure, Except.ok.injEq, Prod.mk.injEq] at h
    obtain ⟨rfl, _, _⟩ := h; simp [leafSafe]
  | bbToStatus key p =>
    simp only [leafUpdate] at h
    split at h
    · simp [throw, throwThe, MonadExceptOf.throw] at h
    · simp only [pure, Except.pure, Except.ok.injEq, Prod.mk.injEq] at h
      obtain ⟨rfl, _, _⟩ := h; simp [leafSafe]
    · simp [throw, throwThe, MonadExceptOf.throw] at h

/-- an error of a leaf tick is an error of its `update()` -/
theorem leafTick_error (e : Env) (w : Store) (i : Nat) (st : Status) (k : LeafKind) (log : List LEv) (x : Err)
    (h : leafTick e w i st k log = .error x) :
    leafUpdate i e w (if st ≠ .running then leafInit e k else k) = .error x := by
  simp only [leafTick, bind, Except.bind] at h
  generalize (if st ≠ .running then leafInit e k else k) = k0 at h ⊢
  cases hu : leafUpdate i e w k0 with
  | error err => simp only [hu, Except.error.injEq] at h; subst h; rfl
  | ok v => simp [hu, pure, Except.pure] at h

theorem leafTick_leavesSafe (e : Env) (w : Store) (i : Nat) (st : Status) (k : LeafKind) (log : List LEv)
    (n' : Node) (w' : Store) (tr : List Ev) (hk : leafSafe k = true)
    (h : leafTick e w i st k log = .ok (n', w', tr)) : leavesSafe n' = true := by
  simp only [leafTick, bind, Except.bind] at h
  have hk0 : leafSafe (if st ≠ .running then leafInit e k else k) = true := by
    split
    · exact leafSafe_init e k hk
    · exact hk
  generalize (if st ≠ .running then leafInit e k else k) = k0 at h hk0
  cases hu : leafUpdate i e w k0 with
  | error err => simp [hu] at h
  | ok v =>
    obtain ⟨k1, o, w1⟩ := v
    simp only [hu, pure, Except.pure, Except.ok.injEq, Prod.mk.injEq] at h
    obtain ⟨rfl, _, _⟩ := h
    simpa [leavesSafe] using leafUpdate_leafSafe i e w k0 k1 o w1 hk0 hu

/-! ### the entry blocks -/

theorem GoodL_mem {cs : List Node} {c : Node} (h : GoodL cs) (hc : c ∈ cs) : Good c :=
  ⟨wfL_iff.mp h.1 c hc, leavesOKL_iff.mp h.2 c hc⟩

/-- `children.index(current_child)` succeeds when the remembered child exists -/
theorem splitAtId_isSome (c : Nat) : ∀ cs : List Node, (∃ x ∈ cs, x.id = c) → (splitAtId c cs).isSome = true
| [], h => by obtain ⟨x, hx, _⟩ := h; simp at hx
| d :: cs, h => by
    simp only [splitAtId]
    by_cases hd : d.id = c
    · simp [hd]
    · simp only [hd, ↓reduceIte, Option.isSome_map]
      apply splitAtId_isSome c cs
      obtain ⟨x, hx, hxc⟩ := h
      simp only [List.mem_cons] at hx
      rcases hx with rfl | hx
      · exact absurd hxc hd
      · exact ⟨x, hx, hxc⟩

/-- the only error of the Sequence entry block is the failed `children.index` -/
theorem seqEntry_error (st : Status) (m : Bool) (cur : Option Nat) (cs : List Node) (x : Err)
    (h : seqEntry st m cur cs = .error x) : x = .internal ∧ ∃ c, cur = some c ∧ splitAtId c cs = none := by
  unfold seqEntry at h
  split at h
  · simp [pure, Except.pure] at h
  · split at h
    · cases cur with
      | none => simp [pure, Except.pure] at h
      | some c =>
        simp only at h
        split at h
        · simp [pure, Except.pure] at h
        · rename_i hsp
          simp only [throw, throwThe, MonadExceptOf.throw, Except.error.injEq] at h
          exact ⟨h.symm, c, rfl, hsp⟩
    · simp [pure, Except.pure] at h

theorem seqEntry_no_internal (st : Status) (m : Bool) (cur : Option Nat) (cs : List Node) (x : Err)
    (hc : curOK cur cs = true) : seqEntry st m cur cs ≠ .error x := by
  intro h
  obtain ⟨_, c, rfl, hsp⟩ := seqEntry_error st m _ cs x h
  obtain ⟨y, hy, hyc, _⟩ := curOK_iff.mp hc c rfl
  have := splitAtId_isSome c cs ⟨y, hy, hyc⟩
  rw [hsp] at this; simp at this

theorem selEntry_error (st : Status) (m : Bool) (cur : Option Nat) (cs : List Node) (x : Err)
    (h : selEntry st m cur cs = .error x) :
    x = .internal ∧ ∃ c, (if st ≠ .running then cs.head?.map Node.id else cur) = some c ∧ splitAtId c cs = none := by
  unfold selEntry at h
  generalize (if st ≠ .running then cs.head?.map Node.id else cur) = c0 at h ⊢
  simp only at h
  split at h
  · cases c0 with
    | none => simp [pure, Except.pure] at h
    | some c =>
      simp only at h
      split at h
      · simp [pure, Except.pure] at h
      · rename_i hsp
        simp only [throw, throwThe, MonadExceptOf.throw, Except.error.injEq] at h
        exact ⟨h.symm, c, rfl, hsp⟩
  · simp [pure, Except.pure] at h

theorem selEntry_no_internal (st : Status) (m : Bool) (cur : Option Nat) (cs : List Node) (x : Err)
    (hc : curOK cur cs = true) : selEntry st m cur cs ≠ .error x := by
  intro h
  obtain ⟨_, c, hc0, hsp⟩ := selEntry_error st m cur cs x h
  have hex : ∃ y ∈ cs, y.id = c := by
    split at hc0
    · cases cs with
      | nil => simp at hc0
      | cons d cs => simp at hc0; exact ⟨d, by simp, hc0⟩
    · obtain ⟨y, hy, hyc, _⟩ := curOK_iff.mp hc c hc0
      exact ⟨y, hy, hyc⟩
  have := splitAtId_isSome c cs hex
  rw [hsp] at this; simp at this

/-- the children a Sequence is about to tick are (possibly reset) children of the Sequence -/
theorem seqEntry_heightL (st : Status) (m : Bool) (cur : Option Nat) (cs before rest : List Node) (trR : List Ev)
    (h : seqEntry st m cur cs = .ok (before, rest, trR)) : heightL rest ≤ heightL cs := by
  unfold seqEntry at h
  split at h
  · simp only [pure, Except.pure, Except.ok.injEq, Prod.mk.injEq] at h
    obtain ⟨_, rfl, _⟩ := h
    rw [stopInvNonInvalid_heightL]; exact Nat.le_refl _
  · split at h
    · cases cur with
      | none =>
        simp only [pure, Except.pure, Except.ok.injEq, Prod.mk.injEq] at h
        obtain ⟨_, rfl, _⟩ := h
        have e1 := (splitAtNonSuccess_spec cs).1
        have := heightL_append (splitAtNonSuccess cs).1 (splitAtNonSuccess cs).2
        rw [← e1] at this; rw [this]; exact Nat.le_max_right _ _
      | some c =>
        simp only at h
        split at h
        · rename_i a b hsp
          simp only [pure, Except.pure, Except.ok.injEq, Prod.mk.injEq] at h
          obtain ⟨_, rfl, _⟩ := h
          obtain ⟨e1, _, _⟩ := splitAtId_spec c cs _ _ hsp
          rw [e1, heightL_append]; exact Nat.le_max_right _ _
        · simp [throw, throwThe, MonadExceptOf.throw] at h
    · simp only [pure, Except.pure, Except.ok.injEq, Prod.mk.injEq] at h
      obtain ⟨_, rfl, _⟩ := h
      exact Nat.le_refl _

theorem selEntry_heightL (st : Status) (m : Bool) (cur cur0 : Option Nat) (cs before rest : List Node) (trP : List Ev)
    (h : selEntry st m cur cs = .ok (cur0, before, rest, trP)) : heightL rest ≤ heightL cs := by
  unfold selEntry at h
  generalize (if st ≠ .running then cs.head?.map Node.id else cur) = c0 at h
  simp only at h
  split at h
  · cases c0 with
    | none =>
      simp only [pure, Except.pure, Except.ok.injEq, Prod.mk.injEq] at h
      obtain ⟨_, _, rfl, _⟩ := h
      exact Nat.le_refl _
    | some c =>
      simp only at h
      split at h
      · rename_i a b hsp
        simp only [pure, Except.pure, Except.ok.injEq, Prod.mk.injEq] at h
        obtain ⟨_, _, rfl, _⟩ := h
        obtain ⟨e1, _, _⟩ := splitAtId_spec c cs _ _ hsp
        rw [e1, heightL_append]; exact Nat.le_max_right _ _
      · simp [throw, throwThe, MonadExceptOf.throw] at h
  · simp only [pure, Except.pure, Except.ok.injEq, Prod.mk.injEq] at h
    obtain ⟨_, _, rfl, _⟩ := h
    exact Nat.le_refl _

theorem seqEntry_leavesSafeL (st : Status) (m : Bool) (cur : Option Nat) (cs before rest : List Node) (trR : List Ev)
    (hs : leavesSafeL cs = true) (h : seqEntry st m cur cs = .ok (before, rest, trR)) :
    leavesSafeL before = true ∧ leavesSafeL rest = true := by
  unfold seqEntry at h
  split at h
  · simp only [pure, Except.pure, Except.ok.injEq, Prod.mk.injEq] at h
    obtain ⟨rfl, rfl, _⟩ := h
    exact ⟨by simp [leavesSafeL], stopInvNonInvalid_leavesSafeL cs hs⟩
  · split at h
    · cases cur with
      | none =>
        simp only [pure, Except.pure, Except.ok.injEq, Prod.mk.injEq] at h
        obtain ⟨rfl, rfl, _⟩ := h
        have e1 := (splitAtNonSuccess_spec cs).1
        rw [e1, leavesSafeL_append] at hs; exact hs
      | some c =>
        simp only at h
        split at h
        · rename_i a b hsp
          simp only [pure, Except.pure, Except.ok.injEq, Prod.mk.injEq] at h
          obtain ⟨rfl, rfl, _⟩ := h
          obtain ⟨e1, _, _⟩ := splitAtId_spec c cs _ _ hsp
          rw [e1, leavesSafeL_append] at hs; exact hs
        · simp [throw, throwThe, MonadExceptOf.throw] at h
    · simp only [pure, Except.pure, Except.ok.injEq, Prod.mk.injEq] at h
      obtain ⟨rfl, rfl, _⟩ := h
      exact ⟨by simp [leavesSafeL], hs⟩

theorem selEntry_leavesSafeL (st : Status) (m : Bool) (cur cur0 : Option Nat) (cs before rest : List Node)
    (trP : List Ev) (hs : leavesSafeL cs = true) (h : selEntry st m cur cs = .ok (cur0, before, rest, trP)) :
    leavesSafeL before = true ∧ leavesSafeL rest = true := by
  unfold selEntry at h
  generalize (if st ≠ .running then cs.head?.map Node.id else cur) = c0 at h
  simp only at h
  split at h
  · cases c0 with
    | none =>
      simp only [pure, Except.pure, Except.ok.injEq, Prod.mk.injEq] at h
      obtain ⟨_, rfl, rfl, _⟩ := h
      exact ⟨by simp [leavesSafeL], hs⟩
    | some c =>
      simp only at h
      split at h
      · rename_i a b hsp
        simp only [pure, Except.pure, Except.ok.injEq, Prod.mk.injEq] at h
        obtain ⟨_, rfl, rfl, _⟩ := h
        obtain ⟨e1, _, _⟩ := splitAtId_spec c cs _ _ hsp
        rw [e1, leavesSafeL_append] at hs
        exact ⟨stopInvAll_leavesSafeL a hs.1, hs.2⟩
      · simp [throw, throwThe, MonadExceptOf.throw] at h
  · simp only [pure, Except.pure, Except.ok.injEq, Prod.mk.injEq] at h
    obtain ⟨_, rfl, rfl, _⟩ := h
    exact ⟨by simp [leavesSafeL], hs⟩

/-! ### the child loops: an error of a loop is an error of one child tick

  `P` is any invariant of the threaded store that successful child ticks maintain (`True` for the fuel
  argument, `WOK` for the internal-error argument). -/

theorem seqLoop_error (t : Tick) (P : Store → Prop) (x : Err) :
    ∀ (cs : List Node) (w : Store),
      (∀ w c c' w' tr, P w → c ∈ cs → t w c = .ok (c', w', tr) → P w') →
      P w → seqLoop t w cs = .error x → ∃ w' c, P w' ∧ c ∈ cs ∧ t w' c = .error x := by
  intro cs
  induction cs with
  | nil => intro w _ _ h; simp [seqLoop, pure, Except.pure] at h
  | cons c cs ih =>
    intro w hP hw h
    simp only [seqLoop, bind, Except.bind] at h
    cases htc : t w c with
    | error err =>
      simp only [htc, Except.error.injEq] at h; subst h
      exact ⟨w, c, hw, List.mem_cons_self, htc⟩
    | ok v =>
      obtain ⟨c', w1, trc⟩ := v
      have hw1 := hP w c c' w1 trc hw List.mem_cons_self htc
      simp only [htc] at h
      by_cases hs : c'.status = .success
      · simp only [hs, ne_eq, not_true_eq_false, ↓reduceIte] at h
        cases hl : seqLoop t w1 cs with
        | error err2 =>
          simp only [hl, Except.error.injEq] at h; subst h
          obtain ⟨w', d, q1, q2, q3⟩ :=
            ih w1 (fun w c c' w' tr a b => hP w c c' w' tr a (List.mem_cons_of_mem _ b)) hw1 hl
          exact ⟨w', d, q1, List.mem_cons_of_mem _ q2, q3⟩
        | ok v2 => simp [hl, pure, Except.pure] at h
      · simp [hs, pure, Except.pure] at h

theorem selLoop_error (t : Tick) (P : Store → Prop) (x : Err) :
    ∀ (cs : List Node) (w : Store),
      (∀ w c c' w' tr, P w → c ∈ cs → t w c = .ok (c', w', tr) → P w') →
      P w → selLoop t w cs = .error x → ∃ w' c, P w' ∧ c ∈ cs ∧ t w' c = .error x := by
  intro cs
  induction cs with
  | nil => intro w _ _ h; simp [selLoop, pure, Except.pure] at h
  | cons c cs ih =>
    intro w hP hw h
    simp only [selLoop, bind, Except.bind] at h
    cases htc : t w c with
    | error err =>
      simp only [htc, Except.error.injEq] at h; subst h
      exact ⟨w, c, hw, List.mem_cons_self, htc⟩
    | ok v =>
      obtain ⟨c', w1, trc⟩ := v
      have hw1 := hP w c c' w1 trc hw List.mem_cons_self htc
      simp only [htc] at h
      by_cases hs : c'.status = .running ∨ c'.status = .success
      · simp [hs, pure, Except.pure] at h
      · simp only [hs, ↓reduceIte] at h
        cases hl : selLoop t w1 cs with
        | error err2 =>
          simp only [hl, Except.error.injEq] at h; subst h
          obtain ⟨w', d, q1, q2, q3⟩ :=
            ih w1 (fun w c c' w' tr a b => hP w c c' w' tr a (List.mem_cons_of_mem _ b)) hw1 hl
          exact ⟨w', d, q1, List.mem_cons_of_mem _ q2, q3⟩
        | ok v2 => simp [hl, pure, Except.pure] at h

theorem parLoop_error (t : Tick) (sync : Bool) (P : Store → Prop) (x : Err) :
    ∀ (cs : List Node) (w : Store),
      (∀ w c c' w' tr, P w → c ∈ cs → t w c = .ok (c', w', tr) → P w') →
      P w → parLoop t sync w cs = .error x → ∃ w' c, P w' ∧ c ∈ cs ∧ t w' c = .error x := by
  intro cs
  induction cs with
  | nil => intro w _ _ h; simp [parLoop, pure, Except.pure] at h
  | cons c cs ih =>
    intro w hP hw h
    have hP' : ∀ w d d' w' tr, P w → d ∈ cs → t w d = .ok (d', w', tr) → P w' :=
      fun w d d' w' tr a b => hP w d d' w' tr a (List.mem_cons_of_mem _ b)
    simp only [parLoop, bind, Except.bind] at h
    split at h
    · cases hl : parLoop t sync w cs with
      | error err2 =>
        simp only [hl, Except.error.injEq] at h; subst h
        obtain ⟨w', d, q1, q2, q3⟩ := ih w hP' hw hl
        exact ⟨w', d, q1, List.mem_cons_of_mem _ q2, q3⟩
      | ok v2 => simp [hl, pure, Except.pure] at h
    · cases htc : t w c with
      | error err =>
        simp only [htc, Except.error.injEq] at h; subst h
        exact ⟨w, c, hw, List.mem_cons_self, htc⟩
      | ok v =>
        obtain ⟨c', w1, trc⟩ := v
        have hw1 := hP w c c' w1 trc hw List.mem_cons_self htc
        simp only [htc] at h
        cases hl : parLoop t sync w1 cs with
        | error err2 =>
          simp only [hl, Except.error.injEq] at h; subst h
          obtain ⟨w', d, q1, q2, q3⟩ := ih w1 hP' hw1 hl
          exact ⟨w', d, q1, List.mem_cons_of_mem _ q2, q3⟩
        | ok v2 => simp [hl, pure, Except.pure] at h

/-! ### the run blocks: nothing after the loop can fail -/

theorem seqRun_error (t : Tick) (w : Store) (i : Nat) (m : Bool) (before rest : List Node) (trR : List Ev) (x : Err)
    (h : seqRun t w i m before rest trR = .error x) : seqLoop t w rest = .error x := by
  simp only [seqRun, bind, Except.bind] at h
  cases hl : seqLoop t w rest with
  | error err => simp only [hl, Except.error.injEq] at h; subst h; rfl
  | ok v =>
    obtain ⟨done, r, w1, trl⟩ := v
    simp only [hl] at h
    cases r with
    | none => simp [pure, Except.pure] at h
    | some p => simp [pure, Except.pure] at h

theorem selRun_error (t : Tick) (w : Store) (i : Nat) (m : Bool) (cur0 : Option Nat) (before rest : List Node)
    (trP : List Ev) (x : Err) (h : selRun t w i m cur0 before rest trP = .error x) : selLoop t w rest = .error x := by
  simp only [selRun, bind, Except.bind] at h
  cases hl : selLoop t w rest with
  | error err => simp only [hl, Except.error.injEq] at h; subst h; rfl
  | ok v =>
    obtain ⟨done, r, w1, trl⟩ := v
    simp only [hl] at h
    cases r with
    | none => simp [pure, Except.pure] at h
    | some p => simp [pure, Except.pure] at h

theorem parRun_error (t : Tick) (w : Store) (i : Nat) (p : Policy) (cs0 : List Node) (trR : List Ev) (x : Err)
    (h : parRun t w i p cs0 trR = .error x) : parLoop t p.sync w cs0 = .error x := by
  simp only [parRun, bind, Except.bind] at h
  cases hl : parLoop t p.sync w cs0 with
  | error err => simp only [hl, Except.error.injEq] at h; subst h; rfl
  | ok v =>
    obtain ⟨cs1, w1, trl⟩ := v
    simp only [hl] at h
    split at h <;> simp [pure, Except.pure] at h

theorem decPublish_error (k : DecKind) (cs : Status) (w : Store) (x : Err) (h : decPublish k cs w = .error x) :
    x = .key := by
  cases k with
  | statusToBB key path =>
    cases path with
    | nil => simp [decPublish, pure, Except.pure] at h
    | cons a p =>
      simp only [decPublish] at h
      cases hk : w key with
      | none => simp only [hk, throw, throwThe, MonadExceptOf.throw, Except.error.injEq] at h; exact h.symm
      | some v =>
        simp only [hk] at h
        cases hsp : v.setPath (a :: p) (.status cs) <;> simp [hsp, pure, Except.pure] at h
  | _ => simp [decPublish, pure, Except.pure] at h

/-- an error of a decorator tick comes from its child, or is the KeyError of `StatusToBlackboard` -/
theorem decRun_error (t : Tick) (e : Env) (w : Store) (i : Nat) (k : DecKind) (st : Status) (c : Node) (x : Err)
    (h : decRun t e w i k st c = .error x) : t w c = .error x ∨ x = .key := by
  simp only [decRun, bind, Except.bind] at h
  cases htc : t w c with
  | error err => simp only [htc, Except.error.injEq] at h; subst h; exact Or.inl rfl
  | ok v =>
    obtain ⟨c1, w1, trc⟩ := v
    simp only [htc] at h
    generalize (if st ≠ .running then decInit e k else k) = k0 at h
    cases hp : decPublish k0 c1.status w1 with
    | error err =>
      simp only [hp, Except.error.injEq] at h; subst h
      exact Or.inr (decPublish_error _ _ _ _ hp)
    | ok w2 =>
      simp only [hp] at h
      split at h <;> simp [pure, Except.pure] at h

theorem decBounce_error (w : Store) (i : Nat) (k : DecKind) (s : Status) (c : Node) (x : Err) :
    decBounce w i k s c ≠ .error x := by
  intro h; simp [decBounce, pure, Except.pure] at h

/-! ### (A) fuel sufficiency -/

/-- `height n + 1` units of fuel are enough: a tick with more fuel than the height never reports `fuel` -/
theorem tickF_no_fuel (e : Env) : ∀ (f : Nat) (w : Store) (n : Node), height n < f → tickF f e w n ≠ .error .fuel := by
  intro f
  induction f with
  | zero => intro w n hh; exact absurd hh (Nat.not_lt_zero _)
  | succ f ih =>
    intro w n hh h
    have hP : ∀ (l : List Node) (w : Store) (c c' : Node) (w' : Store) (tr : List Ev),
        True → c ∈ l → tickF f e w c = .ok (c', w', tr) → True := fun _ _ _ _ _ _ _ _ _ => trivial
    cases n with
    | leaf i st k log =>
      simp only [tickF] at h
      rcases leafUpdate_error _ _ _ _ _ (leafTick_error e w i st k log _ h) with ⟨h2, _⟩ | h2 | h2 <;> cases h2
    | seq i m st cur cs =>
      simp only [height] at hh
      simp only [tickF, bind, Except.bind] at h
      cases hen : seqEntry st m cur cs with
      | error err =>
        simp only [hen, Except.error.injEq] at h; subst h
        cases (seqEntry_error st m cur cs _ hen).1
      | ok v =>
        obtain ⟨before, rest, trR⟩ := v
        simp only [hen] at h
        split at h
        · simp [pure, Except.pure] at h
        · obtain ⟨w', c, _, hc, hcf⟩ := seqLoop_error (tickF f e) (fun _ => True) .fuel rest w (hP rest) trivial
            (seqRun_error _ _ _ _ _ _ _ _ h)
          have h1 := seqEntry_heightL st m cur cs before rest trR hen
          have h2 := heightL_mem hc
          exact ih w' c (by omega) hcf
    | sel i m st cur cs =>
      simp only [height] at hh
      simp only [tickF, bind, Except.bind] at h
      split at h
      · simp [pure, Except.pure] at h
      · cases hen : selEntry st m cur cs with
        | error err =>
          simp only [hen, Except.error.injEq] at h; subst h
          cases (selEntry_error st m cur cs _ hen).1
        | ok v =>
          obtain ⟨cur0, before, rest, trP⟩ := v
          simp only [hen] at h
          obtain ⟨w', c, _, hc, hcf⟩ := selLoop_error (tickF f e) (fun _ => True) .fuel rest w (hP rest) trivial
            (selRun_error _ _ _ _ _ _ _ _ _ h)
          have h1 := selEntry_heightL st m cur cur0 cs before rest trP hen
          have h2 := heightL_mem hc
          exact ih w' c (by omega) hcf
    | par i p st cur cs =>
      simp only [height] at hh
      simp only [tickF, bind, Except.bind] at h
      split at h
      · simp [throw, throwThe, MonadExceptOf.throw] at h
      · have h0 : heightL (if st ≠ .running then stopInvNonInvalid cs else (cs, [])).1 = heightL cs := by
          split
          · exact stopInvNonInvalid_heightL cs
          · rfl
        generalize (if st ≠ .running then stopInvNonInvalid cs else (cs, [])) = r0 at h h0
        simp only [pure, Except.pure] at h
        split at h
        · simp at h
        · obtain ⟨w', c, _, hc, hcf⟩ := parLoop_error (tickF f e) p.sync (fun _ => True) .fuel r0.1 w (hP r0.1) trivial
            (parRun_error _ _ _ _ _ _ _ h)
          have h2 := heightL_mem hc
          exact ih w' c (by omega) hcf
    | dec i k st c =>
      simp only [height] at hh
      have hc : height c < f := by omega
      have hrun : ∀ k', decRun (tickF f e) e w i k' st c ≠ .error .fuel := by
        intro k' h'
        rcases decRun_error _ _ _ _ _ _ _ _ h' with h2 | h2
        · exact ih w c hc h2
        · cases h2
      simp only [tickF] at h
      split at h
      · split at h
        · exact hrun _ h
        · exact decBounce_error _ _ _ _ _ _ h
      · exact decBounce_error _ _ _ _ _ _ h
      · exact hrun _ h

theorem tick_no_fuel (e : Env) (w : Store) (n : Node) : tick e w n ≠ .error .fuel :=
  tickF_no_fuel e (height n + 1) w n (Nat.lt_succ_self _)

/-! ### (B) no internal error on good states -/

/-- a child tick function never raises an internal error on good, safe inputs -/
def TickSafe (t : Tick) : Prop :=
  ∀ w c, WOK w → Good c → leavesSafe c = true → t w c ≠ .error .internal

/-- one tick (any fuel) of a good, safe subtree on a sane blackboard raises no internal error:
    no failed `children.index`, no pop from an empty queue, no division by zero -/
theorem tickF_no_internal (e : Env) (he : ValidEnv e) : ∀ (f : Nat) (w : Store) (n : Node),
    WOK w → Good n → leavesSafe n = true → tickF f e w n ≠ .error .internal := by
  intro f
  induction f with
  | zero => intro w n _ _ _ h; simp [tickF] at h
  | succ f ih =>
    have ht : TickOK (tickF f e) := fun w c c' w' tr hw hg h => tickF_good e he f w c c' w' tr hw hg h
    have hP : ∀ (l : List Node), GoodL l → ∀ (w : Store) (c c' : Node) (w' : Store) (tr : List Ev),
        WOK w → c ∈ l → tickF f e w c = .ok (c', w', tr) → WOK w' :=
      fun l hl w c c' w' tr hw hc h => (ht w c c' w' tr hw (GoodL_mem hl hc) h).2.2.2
    intro w n hw hg hsafe h
    cases n with
    | leaf i st k log =>
      simp only [tickF] at h
      simp only [leavesSafe] at hsafe
      have hk0 : leafSafe (if st ≠ .running then leafInit e k else k) = true := by
        split
        · exact leafSafe_init e k hsafe
        · exact hsafe
      rcases leafUpdate_error _ _ _ _ _ (leafTick_error e w i st k log _ h) with ⟨_, h2⟩ | h2 | h2
      · rw [hk0] at h2; cases h2
      · cases h2
      · cases h2
    | seq i m st cur cs =>
      obtain ⟨hwf, hlo⟩ := hg
      simp only [wf, Bool.and_eq_true, decide_eq_true_eq, Bool.or_eq_true, beq_iff_eq] at hwf
      obtain ⟨⟨⟨⟨⟨hwl, hrun⟩, hoc⟩, hnd⟩, _⟩, hcur⟩ := hwf
      simp only [leavesOK] at hlo
      simp only [leavesSafe] at hsafe
      simp only [tickF, bind, Except.bind] at h
      cases hen : seqEntry st m cur cs with
      | error err => exact seqEntry_no_internal st m cur cs err hcur hen
      | ok v =>
        obtain ⟨before, rest, trR⟩ := v
        simp only [hen] at h
        by_cases hemp : cs = []
        · subst hemp; simp [pure, Except.pure] at h
        · have : cs.isEmpty = false := by simpa using hemp
          simp only [this, Bool.false_eq_true, ↓reduceIte] at h
          obtain ⟨_, _, s3, _, _, _⟩ :=
            seqEntry_spec st m cur cs before rest trR ⟨hwl, hlo⟩ hrun hoc hnd hemp hen
          obtain ⟨w', c, hw', hc, hcf⟩ := seqLoop_error (tickF f e) WOK .internal rest w (hP rest s3) hw
            (seqRun_error _ _ _ _ _ _ _ _ h)
          exact ih w' c hw' (GoodL_mem s3 hc)
            (leavesSafeL_iff.mp (seqEntry_leavesSafeL st m cur cs before rest trR hsafe hen).2 c hc) hcf
    | sel i m st cur cs =>
      obtain ⟨hwf, hlo⟩ := hg
      simp only [wf, Bool.and_eq_true, decide_eq_true_eq, Bool.or_eq_true, beq_iff_eq] at hwf
      obtain ⟨⟨⟨⟨⟨hwl, hrun⟩, hoc⟩, hnd⟩, _⟩, hcur⟩ := hwf
      simp only [leavesOK] at hlo
      simp only [leavesSafe] at hsafe
      simp only [tickF, bind, Except.bind] at h
      by_cases hemp : cs = []
      · subst hemp; simp [pure, Except.pure] at h
      · have : cs.isEmpty = false := by simpa using hemp
        simp only [this, Bool.false_eq_true, ↓reduceIte] at h
        cases hen : selEntry st m cur cs with
        | error err => exact selEntry_no_internal st m cur cs err hcur hen
        | ok v =>
          obtain ⟨cur0, before, rest, trP⟩ := v
          simp only [hen] at h
          obtain ⟨_, _, s3, _, _, _⟩ := selEntry_spec st m cur cur0 cs before rest trP ⟨hwl, hlo⟩ hrun hoc hemp hen
          obtain ⟨w', c, hw', hc, hcf⟩ := selLoop_error (tickF f e) WOK .internal rest w (hP rest s3) hw
            (selRun_error _ _ _ _ _ _ _ _ _ h)
          exact ih w' c hw' (GoodL_mem s3 hc)
            (leavesSafeL_iff.mp (selEntry_leavesSafeL st m cur cur0 cs before rest trP hsafe hen).2 c hc) hcf
    | par i p st cur cs =>
      obtain ⟨hwf, hlo⟩ := hg
      simp only [wf, Bool.and_eq_true, Bool.or_eq_true, beq_iff_eq, decide_eq_true_eq] at hwf
      obtain ⟨⟨⟨⟨hwl, hrun⟩, hnd⟩, _⟩, _⟩ := hwf
      simp only [leavesOK] at hlo
      simp only [leavesSafe] at hsafe
      simp only [tickF, bind, Except.bind] at h
      split at h
      · simp [throw, throwThe, MonadExceptOf.throw] at h
      · have h0 : GoodL (if st ≠ .running then stopInvNonInvalid cs else (cs, [])).1 ∧
            leavesSafeL (if st ≠ .running then stopInvNonInvalid cs else (cs, [])).1 = true := by
          split
          · exact ⟨stopInvNonInvalid_GoodL cs ⟨hwl, hlo⟩, stopInvNonInvalid_leavesSafeL cs hsafe⟩
          · exact ⟨⟨hwl, hlo⟩, hsafe⟩
        generalize (if st ≠ .running then stopInvNonInvalid cs else (cs, [])) = r0 at h h0
        simp only [pure, Except.pure] at h
        split at h
        · simp at h
        · obtain ⟨w', c, hw', hc, hcf⟩ := parLoop_error (tickF f e) p.sync WOK .internal r0.1 w (hP r0.1 h0.1) hw
            (parRun_error _ _ _ _ _ _ _ h)
          exact ih w' c hw' (GoodL_mem h0.1 hc) (leavesSafeL_iff.mp h0.2 c hc) hcf
    | dec i k st c =>
      obtain ⟨hwf, hlo⟩ := hg
      simp only [wf, Bool.and_eq_true, Bool.or_eq_true, beq_iff_eq] at hwf
      obtain ⟨⟨⟨hwc, hrun⟩, hk⟩, _⟩ := hwf
      simp only [leavesOK] at hlo
      simp only [leavesSafe] at hsafe
      have hrun : ∀ k', decRun (tickF f e) e w i k' st c ≠ .error .internal := by
        intro k' h'
        rcases decRun_error _ _ _ _ _ _ _ _ h' with h2 | h2
        · exact ih w c hw ⟨hwc, hlo⟩ hsafe h2
        · cases h2
      simp only [tickF] at h
      split at h
      · split at h
        · exact hrun _ h
        · exact decBounce_error _ _ _ _ _ _ h
      · exact decBounce_error _ _ _ _ _ _ h
      · exact hrun _ h

theorem tickF_TickSafe (e : Env) (he : ValidEnv e) (f : Nat) : TickSafe (tickF f e) :=
  fun w c hw hg hs => tickF_no_internal e he f w c hw hg hs

theorem tick_no_internal (e : Env) (he : ValidEnv e) (w : Store) (n : Node) :
    WOK w → Good n → leavesSafe n = true → tick e w n ≠ .error .internal :=
  tickF_no_internal e he (height n + 1) w n

/-! ### the loop lemmas in "child tick never raises …" form -/

theorem seqLoop_no_fuel (t : Tick) (cs : List Node) (w : Store) (h : ∀ w c, c ∈ cs → t w c ≠ .error .fuel) :
    seqLoop t w cs ≠ .error .fuel := by
  intro hl
  obtain ⟨w', c, _, hc, hcf⟩ := seqLoop_error t (fun _ => True) .fuel cs w (fun _ _ _ _ _ _ _ _ => trivial) trivial hl
  exact h w' c hc hcf

theorem selLoop_no_fuel (t : Tick) (cs : List Node) (w : Store) (h : ∀ w c, c ∈ cs → t w c ≠ .error .fuel) :
    selLoop t w cs ≠ .error .fuel := by
  intro hl
  obtain ⟨w', c, _, hc, hcf⟩ := selLoop_error t (fun _ => True) .fuel cs w (fun _ _ _ _ _ _ _ _ => trivial) trivial hl
  exact h w' c hc hcf

theorem parLoop_no_fuel (t : Tick) (sync : Bool) (cs : List Node) (w : Store)
    (h : ∀ w c, c ∈ cs → t w c ≠ .error .fuel) : parLoop t sync w cs ≠ .error .fuel := by
  intro hl
  obtain ⟨w', c, _, hc, hcf⟩ :=
    parLoop_error t sync (fun _ => True) .fuel cs w (fun _ _ _ _ _ _ _ _ => trivial) trivial hl
  exact h w' c hc hcf

theorem seqLoop_no_internal (t : Tick) (ht : TickOK t) (hs : TickSafe t) (cs : List Node) (w : Store)
    (hw : WOK w) (hg : GoodL cs) (hsafe : leavesSafeL cs = true) : seqLoop t w cs ≠ .error .internal := by
  intro hl
  obtain ⟨w', c, hw', hc, hcf⟩ := seqLoop_error t WOK .internal cs w
    (fun w c c' w' tr hw hc h => (ht w c c' w' tr hw (GoodL_mem hg hc) h).2.2.2) hw hl
  exact hs w' c hw' (GoodL_mem hg hc) (leavesSafeL_iff.mp hsafe c hc) hcf

theorem selLoop_no_internal (t : Tick) (ht : TickOK t) (hs : TickSafe t) (cs : List Node) (w : Store)
    (hw : WOK w) (hg : GoodL cs) (hsafe : leavesSafeL cs = true) : selLoop t w cs ≠ .error .internal := by
  intro hl
  obtain ⟨w', c, hw', hc, hcf⟩ := selLoop_error t WOK .internal cs w
    (fun w c c' w' tr hw hc h => (ht w c c' w' tr hw (GoodL_mem hg hc) h).2.2.2) hw hl
  exact hs w' c hw' (GoodL_mem hg hc) (leavesSafeL_iff.mp hsafe c hc) hcf

theorem parLoop_no_internal (t : Tick) (ht : TickOK t) (hs : TickSafe t) (sync : Bool) (cs : List Node) (w : Store)
    (hw : WOK w) (hg : GoodL cs) (hsafe : leavesSafeL cs = true) : parLoop t sync w cs ≠ .error .internal := by
  intro hl
  obtain ⟨w', c, hw', hc, hcf⟩ := parLoop_error t sync WOK .internal cs w
    (fun w c c' w' tr hw hc h => (ht w c c' w' tr hw (GoodL_mem hg hc) h).2.2.2) hw hl
  exact hs w' c hw' (GoodL_mem hg hc) (leavesSafeL_iff.mp hsafe c hc) hcf

/-! ### a successful tick keeps the leaves safe -/

/-- a child tick function that keeps `leavesSafe` -/
def TickKeepsSafe (t : Tick) : Prop :=
  ∀ w c c' w' tr, leavesSafe c = true → t w c = .ok (c', w', tr) → leavesSafe c' = true

theorem seqLoop_leavesSafe (t : Tick) (ht : TickKeepsSafe t) :
    ∀ (cs : List Node) (w : Store) (done : List Node) (r : Option (Node × List Node)) (w' : Store) (tr : List Ev),
      leavesSafeL cs = true → seqLoop t w cs = .ok (done, r, w', tr) →
      leavesSafeL done = true ∧
      (match r with
       | none => True
       | some (c', rest) => leavesSafe c' = true ∧ leavesSafeL rest = true) := by
  intro cs
  induction cs with
  | nil =>
    intro w done r w' tr _ h
    simp [seqLoop, pure, Except.pure] at h; obtain ⟨rfl, rfl, _, _⟩ := h
    simp [leavesSafeL]
  | cons c cs ih =>
    intro w done r w' tr hs h
    simp only [leavesSafeL, Bool.and_eq_true] at hs
    simp only [seqLoop, bind, Except.bind] at h
    cases htc : t w c with
    | error e => simp [htc] at h
    | ok v =>
      obtain ⟨c', w1, trc⟩ := v
      have hc' := ht w c c' w1 trc hs.1 htc
      simp only [htc] at h
      by_cases hst : c'.status = .success
      · simp only [hst, ne_eq, not_true_eq_false, ↓reduceIte] at h
        cases hl : seqLoop t w1 cs with
        | error e => simp [hl] at h
        | ok v2 =>
          obtain ⟨done2, r2, w2, tr2⟩ := v2
          simp only [hl, pure, Except.pure, Except.ok.injEq, Prod.mk.injEq] at h
          obtain ⟨rfl, rfl, _, _⟩ := h
          obtain ⟨i1, i2⟩ := ih w1 done2 r2 w2 tr2 hs.2 hl
          exact ⟨by simp [leavesSafeL, hc', i1], i2⟩
      · simp only [ne_eq, hst, not_false_eq_true, ↓reduceIte, pure, Except.pure, Except.ok.injEq, Prod.mk.injEq] at h
        obtain ⟨rfl, rfl, _, _⟩ := h
        exact ⟨by simp [leavesSafeL], hc', hs.2⟩

theorem selLoop_leavesSafe (t : Tick) (ht : TickKeepsSafe t) :
    ∀ (cs : List Node) (w : Store) (failed : List Node) (r : Option (Node × List Node)) (w' : Store) (tr : List Ev),
      leavesSafeL cs = true → selLoop t w cs = .ok (failed, r, w', tr) →
      leavesSafeL failed = true ∧
      (match r with
       | none => True
       | some (c', rest) => leavesSafe c' = true ∧ leavesSafeL rest = true) := by
  intro cs
  induction cs with
  | nil =>
    intro w done r w' tr _ h
    simp [selLoop, pure, Except.pure] at h; obtain ⟨rfl, rfl, _, _⟩ := h
    simp [leavesSafeL]
  | cons c cs ih =>
    intro w done r w' tr hs h
    simp only [leavesSafeL, Bool.and_eq_true] at hs
    simp only [selLoop, bind, Except.bind] at h
    cases htc : t w c with
    | error e => simp [htc] at h
    | ok v =>
      obtain ⟨c', w1, trc⟩ := v
      have hc' := ht w c c' w1 trc hs.1 htc
      simp only [htc] at h
      by_cases hst : c'.status = .running ∨ c'.status = .success
      · simp only [hst, ↓reduceIte, pure, Except.pure, Except.ok.injEq, Prod.mk.injEq] at h
        obtain ⟨rfl, rfl, _, _⟩ := h
        exact ⟨by simp [leavesSafeL], hc', hs.2⟩
      · simp only [hst, ↓reduceIte] at h
        cases hl : selLoop t w1 cs with
        | error e => simp [hl] at h
        | ok v2 =>
          obtain ⟨done2, r2, w2, tr2⟩ := v2
          simp only [hl, pure, Except.pure, Except.ok.injEq, Prod.mk.injEq] at h
          obtain ⟨rfl, rfl, _, _⟩ := h
          obtain ⟨i1, i2⟩ := ih w1 done2 r2 w2 tr2 hs.2 hl
          exact ⟨by simp [leavesSafeL, hc', i1], i2⟩

theorem parLoop_leavesSafe (t : Tick) (ht : TickKeepsSafe t) (sync : Bool) :
    ∀ (cs : List Node) (w : Store) (cs' : List Node) (w' : Store) (tr : List Ev),
      leavesSafeL cs = true → parLoop t sync w cs = .ok (cs', w', tr) → leavesSafeL cs' = true := by
  intro cs
  induction cs with
  | nil =>
    intro w cs' w' tr _ h
    simp [parLoop, pure, Except.pure] at h; obtain ⟨rfl, _, _⟩ := h
    simp [leavesSafeL]
  | cons c cs ih =>
    intro w cs' w' tr hs h
    simp only [leavesSafeL, Bool.and_eq_true] at hs
    simp only [parLoop, bind, Except.bind] at h
    split at h
    · cases hl : parLoop t sync w cs with
      | error e => simp [hl] at h
      | ok v2 =>
        obtain ⟨cs2, w2, tr2⟩ := v2
        simp only [hl, pure, Except.pure, Except.ok.injEq, Prod.mk.injEq] at h
        obtain ⟨rfl, _, _⟩ := h
        simp [leavesSafeL, hs.1, ih w cs2 w2 tr2 hs.2 hl]
    · cases htc : t w c with
      | error e => simp [htc] at h
      | ok v =>
        obtain ⟨c', w1, trc⟩ := v
        have hc' := ht w c c' w1 trc hs.1 htc
        simp only [htc] at h
        cases hl : parLoop t sync w1 cs with
        | error e => simp [hl] at h
        | ok v2 =>
          obtain ⟨cs2, w2, tr2⟩ := v2
          simp only [hl, pure, Except.pure, Except.ok.injEq, Prod.mk.injEq] at h
          obtain ⟨rfl, _, _⟩ := h
          simp [leavesSafeL, hc', ih w1 cs2 w2 tr2 hs.2 hl]

theorem seqRun_leavesSafe (t : Tick) (ht : TickKeepsSafe t) (w : Store) (i : Nat) (m : Bool) (before rest : List Node)
    (trR : List Ev) (n' : Node) (w' : Store) (tr : List Ev)
    (hb : leavesSafeL before = true) (hr : leavesSafeL rest = true)
    (h : seqRun t w i m before rest trR = .ok (n', w', tr)) : leavesSafe n' = true := by
  simp only [seqRun, bind, Except.bind] at h
  cases hl : seqLoop t w rest with
  | error e => simp [hl] at h
  | ok v =>
    obtain ⟨done, r, w1, trl⟩ := v
    simp only [hl] at h
    obtain ⟨hd, hr'⟩ := seqLoop_leavesSafe t ht rest w done r w1 trl hr hl
    cases r with
    | none =>
      simp only [pure, Except.pure, Except.ok.injEq, Prod.mk.injEq] at h
      obtain ⟨rfl, _, _⟩ := h
      simp only [leavesSafe]
      exact leavesSafeL_append.mpr ⟨hb, hd⟩
    | some p =>
      obtain ⟨c', untouched⟩ := p
      obtain ⟨hc', hu⟩ := hr'
      simp only [pure, Except.pure, Except.ok.injEq, Prod.mk.injEq] at h
      obtain ⟨rfl, _, _⟩ := h
      have hT : leavesSafeL (if m = true then (untouched, []) else stopInvNonInvalid untouched).1 = true := by
        split
        · exact hu
        · exact stopInvNonInvalid_leavesSafeL untouched hu
      generalize (if m = true then (untouched, []) else stopInvNonInvalid untouched).1 = tail at hT
      simp only [leavesSafe]
      exact leavesSafeL_append.mpr ⟨leavesSafeL_append.mpr ⟨hb, hd⟩, by simp [leavesSafeL, hc', hT]⟩

theorem selRun_leavesSafe (t : Tick) (ht : TickKeepsSafe t) (w : Store) (i : Nat) (m : Bool) (cur0 : Option Nat)
    (before rest : List Node) (trP : List Ev) (n' : Node) (w' : Store) (tr : List Ev)
    (hb : leavesSafeL before = true) (hr : leavesSafeL rest = true)
    (h : selRun t w i m cur0 before rest trP = .ok (n', w', tr)) : leavesSafe n' = true := by
  simp only [selRun, bind, Except.bind] at h
  cases hl : selLoop t w rest with
  | error e => simp [hl] at h
  | ok v =>
    obtain ⟨failed, r, w1, trl⟩ := v
    simp only [hl] at h
    obtain ⟨hd, hr'⟩ := selLoop_leavesSafe t ht rest w failed r w1 trl hr hl
    cases r with
    | none =>
      simp only [pure, Except.pure, Except.ok.injEq, Prod.mk.injEq] at h
      obtain ⟨rfl, _, _⟩ := h
      simp only [leavesSafe]
      exact leavesSafeL_append.mpr ⟨hb, hd⟩
    | some p =>
      obtain ⟨c', untouched⟩ := p
      obtain ⟨hc', hu⟩ := hr'
      simp only [pure, Except.pure, Except.ok.injEq, Prod.mk.injEq] at h
      obtain ⟨rfl, _, _⟩ := h
      have hT : leavesSafeL (if cur0 = some c'.id then (untouched, []) else stopInvNonInvalid untouched).1 = true := by
        split
        · exact hu
        · exact stopInvNonInvalid_leavesSafeL untouched hu
      generalize (if cur0 = some c'.id then (untouched, []) else stopInvNonInvalid untouched).1 = tail at hT
      simp only [leavesSafe]
      exact leavesSafeL_append.mpr ⟨leavesSafeL_append.mpr ⟨hb, hd⟩, by simp [leavesSafeL, hc', hT]⟩

theorem parRun_leavesSafe (t : Tick) (ht : TickKeepsSafe t) (w : Store) (i : Nat) (p : Policy) (cs0 : List Node)
    (trR : List Ev) (n' : Node) (w' : Store) (tr : List Ev) (hs : leavesSafeL cs0 = true)
    (h : parRun t w i p cs0 trR = .ok (n', w', tr)) : leavesSafe n' = true := by
  simp only [parRun, bind, Except.bind] at h
  cases hl : parLoop t p.sync w cs0 with
  | error e => simp [hl] at h
  | ok v =>
    obtain ⟨cs1, w1, trl⟩ := v
    simp only [hl] at h
    have h1 := parLoop_leavesSafe t ht p.sync cs0 w cs1 w1 trl hs hl
    split at h
    · simp only [pure, Except.pure, Except.ok.injEq, Prod.mk.injEq] at h
      obtain ⟨rfl, _, _⟩ := h
      simpa [leavesSafe] using stopRunning_leavesSafeL cs1 h1
    · simp only [pure, Except.pure, Except.ok.injEq, Prod.mk.injEq] at h
      obtain ⟨rfl, _, _⟩ := h
      simpa [leavesSafe] using h1

theorem decBounce_leavesSafe (w : Store) (i : Nat) (k : DecKind) (s : Status) (c n' : Node) (w' : Store) (tr : List Ev)
    (hs : leavesSafe c = true) (h : decBounce w i k s c = .ok (n', w', tr)) : leavesSafe n' = true := by
  simp only [decBounce, pure, Except.pure, Except.ok.injEq, Prod.mk.injEq] at h
  obtain ⟨rfl, _, _⟩ := h
  by_cases hr : c.status = .running
  · simpa [leavesSafe, hr] using stopInv_leavesSafe c hs
  · simpa [leavesSafe, hr] using hs

theorem decRun_leavesSafe (t : Tick) (ht : TickKeepsSafe t) (e : Env) (w : Store) (i : Nat) (k : DecKind) (st : Status)
    (c n' : Node) (w' : Store) (tr : List Ev) (hs : leavesSafe c = true)
    (h : decRun t e w i k st c = .ok (n', w', tr)) : leavesSafe n' = true := by
  simp only [decRun, bind, Except.bind] at h
  cases htc : t w c with
  | error err => simp [htc] at h
  | ok v =>
    obtain ⟨c1, w1, trc⟩ := v
    have hc1 := ht w c c1 w1 trc hs htc
    simp only [htc] at h
    generalize (if st ≠ .running then decInit e k else k) = k0 at h
    cases hp : decPublish k0 c1.status w1 with
    | error err => simp [hp] at h
    | ok w2 =>
      simp only [hp] at h
      have hc2' : leavesSafe (if (decUpdate e k0 c1.status).2.2 = true then stopInv c1 else (c1, [])).1 = true := by
        split
        · exact stopInv_leavesSafe c1 hc1
        · exact hc1
      generalize (if (decUpdate e k0 c1.status).2.2 = true then stopInv c1 else (c1, [])) = cc at h hc2'
      split at h
      · simp only [pure, Except.pure, Except.ok.injEq, Prod.mk.injEq] at h
        obtain ⟨rfl, _, _⟩ := h
        by_cases hr : (decUpdate e k0 c1.status).2.1 = .invalid ∨ cc.1.status = .running
        · simpa [leavesSafe, hr] using stopInv_leavesSafe _ hc2'
        · simpa [leavesSafe, hr] using hc2'
      · simp only [pure, Except.pure, Except.ok.injEq, Prod.mk.injEq] at h
        obtain ⟨rfl, _, _⟩ := h
        simpa [leavesSafe] using hc2'

/-- a successful tick keeps every leaf safe (so `leavesSafe` holds along any history of ticks and stops) -/
theorem tickF_leavesSafe (e : Env) : ∀ (f : Nat) (w : Store) (n n' : Node) (w' : Store) (tr : List Ev),
    leavesSafe n = true → tickF f e w n = .ok (n', w', tr) → leavesSafe n' = true := by
  intro f
  induction f with
  | zero => intro w n n' w' tr _ h; simp [tickF] at h
  | succ f ih =>
    have ht : TickKeepsSafe (tickF f e) := fun w c c' w' tr hs h => ih w c c' w' tr hs h
    intro w n n' w' tr hs h
    cases n with
    | leaf i st k log =>
      simp only [tickF] at h
      simp only [leavesSafe] at hs
      exact leafTick_leavesSafe e w i st k log n' w' tr hs h
    | seq i m st cur cs =>
      simp only [leavesSafe] at hs
      simp only [tickF, bind, Except.bind] at h
      cases hen : seqEntry st m cur cs with
      | error err => simp [hen] at h
      | ok v =>
        obtain ⟨before, rest, trR⟩ := v
        simp only [hen] at h
        obtain ⟨s1, s2⟩ := seqEntry_leavesSafeL st m cur cs before rest trR hs hen
        split at h
        · simp only [pure, Except.pure, Except.ok.injEq, Prod.mk.injEq] at h
          obtain ⟨rfl, _, _⟩ := h
          simpa [leavesSafe] using hs
        · exact seqRun_leavesSafe (tickF f e) ht w i m before rest trR n' w' tr s1 s2 h
    | sel i m st cur cs =>
      simp only [leavesSafe] at hs
      simp only [tickF, bind, Except.bind] at h
      split at h
      · simp only [pure, Except.pure, Except.ok.injEq, Prod.mk.injEq] at h
        obtain ⟨rfl, _, _⟩ := h
        simpa [leavesSafe] using hs
      · cases hen : selEntry st m cur cs with
        | error err => simp [hen] at h
        | ok v =>
          obtain ⟨cur0, before, rest, trP⟩ := v
          simp only [hen] at h
          obtain ⟨s1, s2⟩ := selEntry_leavesSafeL st m cur cur0 cs before rest trP hs hen
          exact selRun_leavesSafe (tickF f e) ht w i m cur0 before rest trP n' w' tr s1 s2 h
    | par i p st cur cs =>
      simp only [leavesSafe] at hs
      simp only [tickF, bind, Except.bind] at h
      split at h
      · simp [throw, throwThe, MonadExceptOf.throw] at h
      · have h0 : leavesSafeL (if st ≠ .running then stopInvNonInvalid cs else (cs, [])).1 = true := by
          split
          · exact stopInvNonInvalid_leavesSafeL cs hs
          · exact hs
        generalize (if st ≠ .running then stopInvNonInvalid cs else (cs, [])) = r0 at h h0
        simp only [pure, Except.pure] at h
        split at h
        · simp only [Except.ok.injEq, Prod.mk.injEq] at h
          obtain ⟨rfl, _, _⟩ := h
          simpa [leavesSafe] using h0
        · exact parRun_leavesSafe (tickF f e) ht w i p r0.1 r0.2 n' w' tr h0 h
    | dec i k st c =>
      simp only [leavesSafe] at hs
      simp only [tickF] at h
      split at h
      · split at h
        · exact decRun_leavesSafe (tickF f e) ht e w i _ st c n' w' tr hs h
        · exact decBounce_leavesSafe w i _ .failure c n' w' tr hs h
      · exact decBounce_leavesSafe w i _ _ c n' w' tr hs h
      · exact decRun_leavesSafe (tickF f e) ht e w i _ st c n' w' tr hs h

theorem tick_leavesSafe (e : Env) (w : Store) (n n' : Node) (w' : Store) (tr : List Ev)
    (hs : leavesSafe n = true) (h : tick e w n = .ok (n', w', tr)) : leavesSafe n' = true :=
  tickF_leavesSafe e (height n + 1) w n n' w' tr hs h

/-- the packaged form: on a good, safe state a tick keeps the state good and safe and does not raise
    an internal error or run out of fuel -/
theorem tick_safe (e : Env) (he : ValidEnv e) (w : Store) (n : Node) (hw : WOK w) (hg : Good n)
    (hs : leavesSafe n = true) :
    tick e w n ≠ .error .internal ∧ tick e w n ≠ .error .fuel ∧
    ∀ n' w' tr, tick e w n = .ok (n', w', tr) → Good n' ∧ leavesSafe n' = true ∧ WOK w' := by
  refine ⟨tick_no_internal e he w n hw hg hs, tick_no_fuel e w n, ?_⟩
  intro n' w' tr h
  obtain ⟨g1, _, _, g4⟩ := tickF_good e he (height n + 1) w n n' w' tr hw hg h
  exact ⟨g1, tick_leavesSafe e w n n' w' tr hs h, g4⟩

end Node
