/-
  Histories: a fresh tree, then any sequence of ticks (arbitrary environments) and root interrupts.
  `run_good`: every reachable state satisfies the state invariant.
-/
import PyTreesProofs.Lemmas.Tick
set_option linter.unusedVariables false
set_option linter.unusedSimpArgs false
open Node

/-- what can happen to a tree between / as ticks -/
inductive Op
| tick (e : Env)      -- one tick of the root with this environment
| stop                -- stop(INVALID) on the root
| poke (k : String) (v : Option Val)   -- the outside world writes / removes a blackboard variable

namespace Node

mutual
/-- a freshly constructed tree: everything INVALID, nothing remembered, empty logs, initial decorator
    state, pairwise distinct sibling ids, sane leaf parameters -/
def isFresh : Node → Bool
| leaf _ s k log => s == .invalid && log.isEmpty && leafOK k
| seq _ _ s cur cs => s == .invalid && cur.isNone && isFreshL cs && decide ((cs.map Node.id).Nodup)
| sel _ _ s cur cs => s == .invalid && cur.isNone && isFreshL cs && decide ((cs.map Node.id).Nodup)
| par _ _ s cur cs => s == .invalid && cur.isNone && isFreshL cs && decide ((cs.map Node.id).Nodup)
| dec _ k s c => s == .invalid && decOK k && isFresh c
def isFreshL : List Node → Bool
| [] => true
| c :: cs => isFresh c && isFreshL cs
end

mutual
theorem fresh_facts : ∀ n : Node, isFresh n = true → wf n = true ∧ allInv n = true ∧ leavesOK n = true
| leaf _ s k log, h => by
    simp only [isFresh, Bool.and_eq_true, beq_iff_eq, List.isEmpty_iff] at h
    obtain ⟨⟨rfl, rfl⟩, hk⟩ := h
    simp [wf, protoOK, protoRun, allInv, leavesOK, hk]
| seq _ _ s cur cs, h => by
    simp only [isFresh, Bool.and_eq_true, beq_iff_eq, decide_eq_true_eq, Option.isNone_iff_eq_none] at h
    obtain ⟨⟨⟨rfl, rfl⟩, hf⟩, hnd⟩ := h
    obtain ⟨h1, h2, h3⟩ := freshL_facts cs hf
    have hn := allInvL_noRunL cs h2
    simp [wf, allInv, leavesOK, h1, h2, h3, hn, onlyCur_of_noRunL hn, hnd, curOK]
| sel _ _ s cur cs, h => by
    simp only [isFresh, Bool.and_eq_true, beq_iff_eq, decide_eq_true_eq, Option.isNone_iff_eq_none] at h
    obtain ⟨⟨⟨rfl, rfl⟩, hf⟩, hnd⟩ := h
    obtain ⟨h1, h2, h3⟩ := freshL_facts cs hf
    have hn := allInvL_noRunL cs h2
    simp [wf, allInv, leavesOK, h1, h2, h3, hn, onlyCur_of_noRunL hn, hnd, curOK]
| par _ _ s cur cs, h => by
    simp only [isFresh, Bool.and_eq_true, beq_iff_eq, decide_eq_true_eq, Option.isNone_iff_eq_none] at h
    obtain ⟨⟨⟨rfl, rfl⟩, hf⟩, hnd⟩ := h
    obtain ⟨h1, h2, h3⟩ := freshL_facts cs hf
    have hn := allInvL_noRunL cs h2
    simp [wf, allInv, leavesOK, h1, h2, h3, hn, hnd, curOK]
| dec _ k s c, h => by
    simp only [isFresh, Bool.and_eq_true, beq_iff_eq] at h
    obtain ⟨⟨rfl, hk⟩, hf⟩ := h
    obtain ⟨h1, h2, h3⟩ := fresh_facts c hf
    simp [wf, allInv, leavesOK, h1, h2, h3, hk, allInv_noRun c h2]
theorem freshL_facts : ∀ cs : List Node, isFreshL cs = true → wfL cs = true ∧ allInvL cs = true ∧ leavesOKL cs = true
| [], _ => by simp [wfL, allInvL, leavesOKL]
| c :: cs, h => by
    simp only [isFreshL, Bool.and_eq_true] at h
    obtain ⟨a1, a2, a3⟩ := fresh_facts c h.1
    obtain ⟨b1, b2, b3⟩ := freshL_facts cs h.2
    simp [wfL, allInvL, leavesOKL, a1, a2, a3, b1, b2, b3]
end

/-- a freshly constructed tree satisfies the state invariant -/
theorem fresh_good (n : Node) (h : isFresh n = true) : Good n :=
  ⟨(fresh_facts n h).1, (fresh_facts n h).2.2⟩

/-- one operation of a history -/
def step (n : Node) (w : Store) : Op → Except Err (Node × Store × List Ev)
| .tick e => n.tick e w
| .stop => let r := stopInv n; .ok (r.1, w, r.2)
| .poke k (some v) => .ok (n, w.set k v, [])
| .poke k none => .ok (n, w.unset k, [])

/-- a whole history; stops at the first error -/
def run : List Op → Node → Store → Except Err (Node × Store)
| [], n, w => .ok (n, w)
| op :: ops, n, w =>
    match step n w op with
    | .ok (n', w', _) => run ops n' w'
    | .error e => .error e

/-- the outside world behaves: outcomes are S/F/R, poked values contain no INVALID status -/
def ValidOp : Op → Prop
| .tick e => ValidEnv e
| .stop => True
| .poke _ (some v) => v.valid = true
| .poke _ none => True

theorem step_good (n : Node) (w : Store) (op : Op) (n' : Node) (w' : Store) (tr : List Ev)
    (hop : ValidOp op) (hg : Good n) (hw : WOK w) (h : step n w op = .ok (n', w', tr)) :
    Good n' ∧ WOK w' ∧ n'.id = n.id := by
  cases op with
  | tick e =>
    simp only [step, tick] at h
    obtain ⟨a, _, c, d⟩ := tickF_good e hop _ w n n' w' tr hw hg h
    exact ⟨a, d, c⟩
  | stop =>
    simp only [step, Except.ok.injEq, Prod.mk.injEq] at h
    obtain ⟨rfl, rfl, _⟩ := h
    exact ⟨stopInv_Good n hg, hw, stopInv_id n⟩
  | poke k v =>
    cases v with
    | some v =>
      simp only [step, Except.ok.injEq, Prod.mk.injEq] at h
      obtain ⟨rfl, rfl, _⟩ := h
      exact ⟨hg, WOK_set hw hop, rfl⟩
    | none =>
      simp only [step, Except.ok.injEq, Prod.mk.injEq] at h
      obtain ⟨rfl, rfl, _⟩ := h
      exact ⟨hg, WOK_unset hw, rfl⟩

/-- every state reachable from a good state by a well-behaved history is good -/
theorem run_good : ∀ (ops : List Op) (n : Node) (w : Store) (n' : Node) (w' : Store),
    (∀ op ∈ ops, ValidOp op) → Good n → WOK w → run ops n w = .ok (n', w') → Good n' ∧ WOK w'
| [], n, w, n', w', _, hg, hw, h => by
    simp only [run, Except.ok.injEq, Prod.mk.injEq] at h; obtain ⟨rfl, rfl⟩ := h; exact ⟨hg, hw⟩
| op :: ops, n, w, n', w', hops, hg, hw, h => by
    simp only [run] at h
    cases hs : step n w op with
    | error e => simp [hs] at h
    | ok v =>
      obtain ⟨n1, w1, tr⟩ := v
      simp only [hs] at h
      obtain ⟨g1, w1ok, _⟩ := step_good n w op n1 w1 tr (hops op (by simp)) hg hw hs
      exact run_good ops n1 w1 n' w' (fun o ho => hops o (by simp [ho])) g1 w1ok h

/-- every state reachable from a freshly constructed tree and an empty blackboard -/
theorem reachable_good (ops : List Op) (n n' : Node) (w' : Store) (hf : isFresh n = true)
    (hops : ∀ op ∈ ops, ValidOp op) (h : run ops n Store.empty = .ok (n', w')) : Good n' ∧ WOK w' :=
  run_good ops n Store.empty n' w' hops (fresh_good n hf) WOK_empty h

/-! ### views of a tree used by the property statements -/

mutual
/-- every node of the tree, pre-order -/
def nodes : Node → List Node
| leaf i s k l => [leaf i s k l]
| seq i m s c cs => seq i m s c cs :: nodesL cs
| sel i m s c cs => sel i m s c cs :: nodesL cs
| par i p s c cs => par i p s c cs :: nodesL cs
| dec i k s c => dec i k s c :: nodes c
def nodesL : List Node → List Node
| [] => []
| c :: cs => nodes c ++ nodesL cs
end

theorem self_mem_nodes (n : Node) : n ∈ nodes n := by cases n <;> simp [nodes]

mutual
theorem wf_of_mem_nodes : ∀ (n m : Node), wf n = true → m ∈ nodes n → wf m = true
| leaf i s k l, m, h, hm => by simp only [nodes, List.mem_singleton] at hm; subst hm; exact h
| seq i mm s c cs, m, h, hm => by
    simp only [nodes, List.mem_cons] at hm
    rcases hm with rfl | hm
    · exact h
    · simp only [wf, Bool.and_eq_true] at h; exact wfL_of_mem_nodesL cs m h.1.1.1.1.1 hm
| sel i mm s c cs, m, h, hm => by
    simp only [nodes, List.mem_cons] at hm
    rcases hm with rfl | hm
    · exact h
    · simp only [wf, Bool.and_eq_true] at h; exact wfL_of_mem_nodesL cs m h.1.1.1.1.1 hm
| par i p s c cs, m, h, hm => by
    simp only [nodes, List.mem_cons] at hm
    rcases hm with rfl | hm
    · exact h
    · simp only [wf, Bool.and_eq_true] at h; exact wfL_of_mem_nodesL cs m h.1.1.1.1 hm
| dec i k s c, m, h, hm => by
    simp only [nodes, List.mem_cons] at hm
    rcases hm with rfl | hm
    · exact h
    · simp only [wf, Bool.and_eq_true] at h; exact wf_of_mem_nodes c m h.1.1.1 hm
theorem wfL_of_mem_nodesL : ∀ (cs : List Node) (m : Node), wfL cs = true → m ∈ nodesL cs → wf m = true
| [], m, _, hm => by simp [nodesL] at hm
| c :: cs, m, h, hm => by
    simp only [wfL, Bool.and_eq_true] at h
    simp only [nodesL, List.mem_append] at hm
    rcases hm with hm | hm
    · exact wf_of_mem_nodes c m h.1 hm
    · exact wfL_of_mem_nodesL cs m h.2 hm
end

mutual
theorem allInv_of_mem_nodes : ∀ (n m : Node), allInv n = true → m ∈ nodes n → m.status = .invalid
| leaf i s k l, m, h, hm => by
    simp only [nodes, List.mem_singleton] at hm; subst hm; simpa [allInv, status] using h
| seq i mm s c cs, m, h, hm => by
    simp only [allInv, Bool.and_eq_true, beq_iff_eq] at h
    simp only [nodes, List.mem_cons] at hm
    rcases hm with rfl | hm
    · simpa [status] using h.1
    · exact allInvL_of_mem_nodesL cs m h.2 hm
| sel i mm s c cs, m, h, hm => by
    simp only [allInv, Bool.and_eq_true, beq_iff_eq] at h
    simp only [nodes, List.mem_cons] at hm
    rcases hm with rfl | hm
    · simpa [status] using h.1
    · exact allInvL_of_mem_nodesL cs m h.2 hm
| par i p s c cs, m, h, hm => by
    simp only [allInv, Bool.and_eq_true, beq_iff_eq] at h
    simp only [nodes, List.mem_cons] at hm
    rcases hm with rfl | hm
    · simpa [status] using h.1
    · exact allInvL_of_mem_nodesL cs m h.2 hm
| dec i k s c, m, h, hm => by
    simp only [allInv, Bool.and_eq_true, beq_iff_eq] at h
    simp only [nodes, List.mem_cons] at hm
    rcases hm with rfl | hm
    · simpa [status] using h.1
    · exact allInv_of_mem_nodes c m h.2 hm
theorem allInvL_of_mem_nodesL : ∀ (cs : List Node) (m : Node), allInvL cs = true → m ∈ nodesL cs → m.status = .invalid
| [], m, _, hm => by simp [nodesL] at hm
| c :: cs, m, h, hm => by
    simp only [allInvL, Bool.and_eq_true] at h
    simp only [nodesL, List.mem_append] at hm
    rcases hm with hm | hm
    · exact allInv_of_mem_nodes c m h.1 hm
    · exact allInvL_of_mem_nodesL cs m h.2 hm
end

mutual
theorem noRun_of_mem_nodes : ∀ (n m : Node), noRun n = true → m ∈ nodes n → m.status ≠ .running
| leaf i s k l, m, h, hm => by
    simp only [nodes, List.mem_singleton] at hm; subst hm; simpa [noRun, status] using h
| seq i mm s c cs, m, h, hm => by
    simp only [noRun, Bool.and_eq_true, bne_iff_ne] at h
    simp only [nodes, List.mem_cons] at hm
    rcases hm with rfl | hm
    · simpa [status] using h.1
    · exact noRunL_of_mem_nodesL cs m h.2 hm
| sel i mm s c cs, m, h, hm => by
    simp only [noRun, Bool.and_eq_true, bne_iff_ne] at h
    simp only [nodes, List.mem_cons] at hm
    rcases hm with rfl | hm
    · simpa [status] using h.1
    · exact noRunL_of_mem_nodesL cs m h.2 hm
| par i p s c cs, m, h, hm => by
    simp only [noRun, Bool.and_eq_true, bne_iff_ne] at h
    simp only [nodes, List.mem_cons] at hm
    rcases hm with rfl | hm
    · simpa [status] using h.1
    · exact noRunL_of_mem_nodesL cs m h.2 hm
| dec i k s c, m, h, hm => by
    simp only [noRun, Bool.and_eq_true, bne_iff_ne] at h
    simp only [nodes, List.mem_cons] at hm
    rcases hm with rfl | hm
    · simpa [status] using h.1
    · exact noRun_of_mem_nodes c m h.2 hm
theorem noRunL_of_mem_nodesL : ∀ (cs : List Node) (m : Node), noRunL cs = true → m ∈ nodesL cs → m.status ≠ .running
| [], m, _, hm => by simp [nodesL] at hm
| c :: cs, m, h, hm => by
    simp only [noRunL, Bool.and_eq_true] at h
    simp only [nodesL, List.mem_append] at hm
    rcases hm with hm | hm
    · exact noRun_of_mem_nodes c m h.1 hm
    · exact noRunL_of_mem_nodesL cs m h.2 hm
end

end Node
