/-
  "SameShape": ticks, interrupts and blackboard pokes never change the STRUCTURE of a tree —
  node ids, node kinds, configuration parameters (memory flag, policy, decorator kind with its static
  parameters, leaf kind with its static parameters) and child order.  Only the mutable state changes
  (status, remembered current child, decorator counters / latch / deadline, leaf counters / queues /
  deadline, callback logs).

  `skel n` erases the mutable state; `tickF_skel`, `stopInv_skel`, `step_skel`, `run_skel` show it is
  invariant.  Purely structural: no `Good` hypothesis is needed.
-/
import PyTreesProofs.Lemmas.Run
set_option linter.unusedVariables false
set_option linter.unusedSimpArgs false
open Node

/-- a decorator kind without its mutable state -/
inductive DecShape
| inverter | runningIsFailure | runningIsSuccess | failureIsSuccess | failureIsRunning
| successIsFailure | successIsRunning | passThrough
| condition (s : Status)
| retry (n : Int)
| repeat_ (n : Int)
| timeout (dur : Int)
| guard (gid : Nat)
| oneShot (both : Bool)
| count
| statusToBB (key : String) (path : List String)

/-- drop failures / succ / finish / final / the five counters -/
def DecKind.shape : DecKind → DecShape
| .inverter => .inverter
| .runningIsFailure => .runningIsFailure
| .runningIsSuccess => .runningIsSuccess
| .failureIsSuccess => .failureIsSuccess
| .failureIsRunning => .failureIsRunning
| .successIsFailure => .successIsFailure
| .successIsRunning => .successIsRunning
| .passThrough => .passThrough
| .condition s => .condition s
| .retry n _ => .retry n
| .repeat_ n _ => .repeat_ n
| .timeout d _ => .timeout d
| .guard g => .guard g
| .oneShot b _ => .oneShot b
| .count _ _ _ _ _ => .count
| .statusToBB k p => .statusToBB k p

/-- a leaf kind without its mutable state -/
inductive LeafShape
| probe
| const (s : Status)
| tickCounter (dur : Int) (completion : Status)
| statusQueue (queue : List Status) (eventually : Option Status)
| successEveryN (n : Int)
| timer (dur : Int)
| checkExists (key : String) (path : List String)
| waitFor (key : String) (path : List String)
| checkValue (c : Check)
| waitValue (c : Check)
| checkValues (cs : List Check) (op : LogicOp) (results : Option (List String))
| setVar (key : String) (path : List String) (value : Val) (overwrite : Bool)
| unsetVar (key : String)
| bbToStatus (key : String) (path : List String)

/-- drop counter / current queue / count / finish -/
def LeafKind.shape : LeafKind → LeafShape
| .probe => .probe
| .const s => .const s
| .tickCounter d c _ => .tickCounter d c
| .statusQueue q ev _ => .statusQueue q ev
| .successEveryN n _ => .successEveryN n
| .timer d _ => .timer d
| .checkExists k p => .checkExists k p
| .waitFor k p => .waitFor k p
| .checkValue c => .checkValue c
| .waitValue c => .waitValue c
| .checkValues cs op res => .checkValues cs op res
| .setVar k p v ow => .setVar k p v ow
| .unsetVar k => .unsetVar k
| .bbToStatus k p => .bbToStatus k p

/-- the skeleton of a tree: everything that is fixed at construction time -/
inductive Skel
| leaf (id : Nat) (k : LeafShape)
| seq (id : Nat) (mem : Bool) (cs : List Skel)
| sel (id : Nat) (mem : Bool) (cs : List Skel)
| par (id : Nat) (pol : Policy) (cs : List Skel)
| dec (id : Nat) (k : DecShape) (c : Skel)

namespace Skel
mutual
/-- the node ids, pre-order (the order of `Node.nodes`) -/
def ids : Skel → List Nat
| leaf i _ => [i]
| seq i _ cs => i :: idsL cs
| sel i _ cs => i :: idsL cs
| par i _ cs => i :: idsL cs
| dec i _ c => i :: ids c
def idsL : List Skel → List Nat
| [] => []
| c :: cs => ids c ++ idsL cs
end
end Skel

namespace Node

mutual
/-- erase the mutable state of a tree -/
def skel : Node → Skel
| leaf i _ k _ => .leaf i k.shape
| seq i m _ _ cs => .seq i m (skelL cs)
| sel i m _ _ cs => .sel i m (skelL cs)
| par i p _ _ cs => .par i p (skelL cs)
| dec i k _ c => .dec i k.shape (skel c)
def skelL : List Node → List Skel
| [] => []
| c :: cs => skel c :: skelL cs
end

@[simp] theorem skelL_nil : skelL [] = [] := by simp [skelL]
@[simp] theorem skelL_cons (c : Node) (cs : List Node) : skelL (c :: cs) = skel c :: skelL cs := by simp [skelL]

theorem skelL_append : ∀ (a b : List Node), skelL (a ++ b) = skelL a ++ skelL b
| [], b => by simp
| c :: a, b => by simp [skelL_append a b]

theorem skelL_eq_map : ∀ cs : List Node, skelL cs = cs.map skel
| [] => by simp
| c :: cs => by simp [skelL_eq_map cs]

/-! ### 1. callbacks keep the static parameters -/

theorem decInit_shape (e : Env) (k : DecKind) : (decInit e k).shape = k.shape := by
  cases k <;> simp [decInit, DecKind.shape]

theorem decTerminate_shape (s : Status) (k : DecKind) : (decTerminate s k).shape = k.shape := by
  cases k with
  | oneShot b fin => simp only [decTerminate]; split <;> rfl
  | count t r su f i => cases s <;> rfl
  | _ => rfl

theorem decUpdate_shape (e : Env) (k : DecKind) (s : Status) : (decUpdate e k s).1.shape = k.shape := by
  cases k with
  | retry n f =>
    cases s <;> simp only [decUpdate]
    all_goals first | rfl | (split <;> rfl)
  | repeat_ n c =>
    cases s <;> simp only [decUpdate]
    all_goals first | rfl | (split <;> rfl)
  | timeout d fin =>
    simp only [decUpdate]
    split <;> rfl
  | _ => simp [decUpdate, DecKind.shape]

theorem leafInit_shape (e : Env) (k : LeafKind) : (leafInit e k).shape = k.shape := by
  cases k <;> simp [leafInit, LeafKind.shape]

theorem leafUpdate_shape (i : Nat) (e : Env) (w : Store) (k k' : LeafKind) (o : Status) (w' : Store)
    (h : leafUpdate i e w k = .ok (k', o, w')) : k'.shape = k.shape := by
  cases k with
  | statusQueue q ev cur =>
    simp only [leafUpdate] at h
    split at h
    · simp only [pure, Except.pure, Except.ok.injEq, Prod.mk.injEq] at h; obtain ⟨rfl, _, _⟩ := h; rfl
    · split at h
      · simp only [pure, Except.pure, Except.ok.injEq, Prod.mk.injEq] at h; obtain ⟨rfl, _, _⟩ := h; rfl
      · split at h
        · simp only [pure, Except.pure, Except.ok.injEq, Prod.mk.injEq] at h; obtain ⟨rfl, _, _⟩ := h; rfl
        · simp [throw, throwThe, MonadExceptOf.throw] at h
  | successEveryN n c =>
    simp only [leafUpdate] at h
    split at h
    · simp [throw, throwThe, MonadExceptOf.throw] at h
    · simp only [pure, Except.pure, Except.ok.injEq, Prod.mk.injEq] at h; obtain ⟨rfl, _, _⟩ := h; rfl
  | checkValue c =>
    simp only [leafUpdate, bind, Except.bind] at h
    split at h
    · simp only [pure, Except.pure, Except.ok.injEq, Prod.mk.injEq] at h; obtain ⟨rfl, _, _⟩ := h; rfl
    · split at h
      · simp at h
      · simp only [pure, Except.pure, Except.ok.injEq, Prod.mk.injEq] at h; obtain ⟨rfl, _, _⟩ := h; rfl
  | waitValue c =>
    simp only [leafUpdate, bind, Except.bind] at h
    split at h
    · simp only [pure, Except.pure, Except.ok.injEq, Prod.mk.injEq] at h; obtain ⟨rfl, _, _⟩ := h; rfl
    · split at h
      · simp at h
      · simp only [pure, Except.pure, Except.ok.injEq, Prod.mk.injEq] at h; obtain ⟨rfl, _, _⟩ := h; rfl
  | checkValues cs op res =>
    simp only [leafUpdate, bind, Except.bind] at h
    split at h
    · simp at h
    · split at h
      · simp only [pure, Except.pure, Except.ok.injEq, Prod.mk.injEq] at h; obtain ⟨rfl, _, _⟩ := h; rfl
      · simp only [pure, Except.pure, Except.ok.injEq, Prod.mk.injEq] at h; obtain ⟨rfl, _, _⟩ := h; rfl
  | setVar k p v ow =>
    simp only [leafUpdate] at h
    split at h
    · simp only [pure, Except.pure, Except.ok.injEq, Prod.mk.injEq] at h; obtain ⟨rfl, _, _⟩ := h; rfl
    · split at h
      · simp only [pure, Except.pure, Except.ok.injEq, Prod.mk.injEq] at h; obtain ⟨rfl, _, _⟩ := h; rfl
      · split at h
        · simp [throw, throwThe, MonadExceptOf.throw] at h
        · split at h
          · simp only [pure, Except.pure, Except.ok.injEq, Prod.mk.injEq] at h; obtain ⟨rfl, _, _⟩ := h; rfl
          · simp only [pure, Except.pure, Except.ok.injEq, Prod.mk.injEq] at h; obtain ⟨rfl, _, _⟩ := h; rfl
  | bbToStatus k p =>
    simp only [leafUpdate] at h
    split at h
    · simp [throw, throwThe, MonadExceptOf.throw] at h
    · simp only [pure, Except.pure, Except.ok.injEq, Prod.mk.injEq] at h; obtain ⟨rfl, _, _⟩ := h; rfl
    · simp [throw, throwThe, MonadExceptOf.throw] at h
  | _ =>
    simp only [leafUpdate, pure, Except.pure, Except.ok.injEq, Prod.mk.injEq] at h
    obtain ⟨rfl, _, _⟩ := h; rfl

/-! ### 2. interrupts keep the skeleton -/

mutual
theorem stopInv_skel : ∀ n : Node, skel (stopInv n).1 = skel n
| leaf i s k l => by simp [stopInv, skel]
| seq i m s c cs => by simp [stopInv, skel, stopInvNonInvalid_skelL cs]
| sel i m s c cs => by simp [stopInv, skel, stopInvNonInvalid_skelL cs]
| par i p s c cs => by simp [stopInv, skel, stopInvPar_skelL cs]
| dec i k s c => by simp [stopInv, skel, stopInv_skel c, decTerminate_shape]
theorem stopInvNonInvalid_skelL : ∀ cs : List Node, skelL (stopInvNonInvalid cs).1 = skelL cs
| [] => by simp [stopInvNonInvalid]
| c :: cs => by
    simp only [stopInvNonInvalid, skelL_cons, stopInvNonInvalid_skelL cs]
    split <;> simp [stopInv_skel c]
theorem stopInvPar_skelL : ∀ cs : List Node, skelL (stopInvPar cs).1 = skelL cs
| [] => by simp [stopInvPar]
| c :: cs => by
    simp only [stopInvPar]
    split
    · simp [stopInv_skel c, stopInvPar_skelL cs]
    · split
      · simp [stopInv_skel c, stopInvPar_skelL cs]
      · simp [stopInvPar_skelL cs]
end

theorem stopRunning_skelL : ∀ cs : List Node, skelL (stopRunning cs).1 = skelL cs
| [] => by simp [stopRunning]
| c :: cs => by
    simp only [stopRunning, skelL_cons, stopRunning_skelL cs]
    split <;> simp [stopInv_skel c]

theorem stopInvAll_skelL : ∀ cs : List Node, skelL (stopInvAll cs).1 = skelL cs
| [] => by simp [stopInvAll]
| c :: cs => by simp [stopInvAll, stopInv_skel c, stopInvAll_skelL cs]

theorem stopDone_skel (s : Status) (n : Node) : skel (stopDone s n).1 = skel n := by
  cases n with
  | leaf i st k l => simp [stopDone, skel]
  | seq i m st c cs => simp [stopDone, skel]
  | sel i m st c cs => simp [stopDone, skel]
  | par i p st c cs => simp [stopDone, skel, stopRunning_skelL]
  | dec i k st c =>
    simp only [stopDone, skel, decTerminate_shape]
    split <;> simp [stopInv_skel]

theorem stop_skel (s : Status) (n : Node) : skel (stop s n).1 = skel n := by
  unfold stop; split
  · exact stopInv_skel n
  · exact stopDone_skel s n

/-! ### 3. the entry blocks keep the children -/

theorem splitAtId_append : ∀ (cid : Nat) (cs a b : List Node), splitAtId cid cs = some (a, b) → a ++ b = cs
| cid, [], a, b, h => by simp [splitAtId] at h
| cid, c :: cs, a, b, h => by
    simp only [splitAtId] at h
    split at h
    · simp only [Option.some.injEq, Prod.mk.injEq] at h; obtain ⟨rfl, rfl⟩ := h; rfl
    · cases hs : splitAtId cid cs with
      | none => simp [hs] at h
      | some p =>
        obtain ⟨a', b'⟩ := p
        simp only [hs, Option.map_some, Option.some.injEq, Prod.mk.injEq] at h
        obtain ⟨rfl, rfl⟩ := h
        simp [splitAtId_append cid cs a' b' hs]

theorem splitAtNonSuccess_append : ∀ cs : List Node, (splitAtNonSuccess cs).1 ++ (splitAtNonSuccess cs).2 = cs
| [] => by simp [splitAtNonSuccess]
| c :: cs => by
    simp only [splitAtNonSuccess]
    split
    · rfl
    · simp [splitAtNonSuccess_append cs]

theorem splitAtId_skelL (cid : Nat) (cs a b : List Node) (h : splitAtId cid cs = some (a, b)) :
    skelL (a ++ b) = skelL cs := by rw [splitAtId_append cid cs a b h]

theorem splitAtNonSuccess_skelL (cs : List Node) :
    skelL ((splitAtNonSuccess cs).1 ++ (splitAtNonSuccess cs).2) = skelL cs := by
  rw [splitAtNonSuccess_append]

theorem seqEntry_skelL (st : Status) (m : Bool) (cur : Option Nat) (cs before rest : List Node) (trR : List Ev)
    (h : seqEntry st m cur cs = .ok (before, rest, trR)) : skelL (before ++ rest) = skelL cs := by
  unfold seqEntry at h
  split at h
  · simp only [pure, Except.pure, Except.ok.injEq, Prod.mk.injEq] at h
    obtain ⟨rfl, rfl, _⟩ := h
    simpa using stopInvNonInvalid_skelL cs
  · split at h
    · split at h
      · simp only [pure, Except.pure, Except.ok.injEq, Prod.mk.injEq] at h
        obtain ⟨rfl, rfl, _⟩ := h
        rw [splitAtNonSuccess_append]
      · split at h
        · rename_i a b hsp
          simp only [pure, Except.pure, Except.ok.injEq, Prod.mk.injEq] at h
          obtain ⟨rfl, rfl, _⟩ := h
          rw [splitAtId_append _ _ _ _ hsp]
        · simp [throw, throwThe, MonadExceptOf.throw] at h
    · simp only [pure, Except.pure, Except.ok.injEq, Prod.mk.injEq] at h
      obtain ⟨rfl, rfl, _⟩ := h
      rfl

theorem selEntry_skelL (st : Status) (m : Bool) (cur cur0 : Option Nat) (cs before rest : List Node) (trP : List Ev)
    (h : selEntry st m cur cs = .ok (cur0, before, rest, trP)) : skelL (before ++ rest) = skelL cs := by
  unfold selEntry at h
  generalize (if st ≠ .running then cs.head?.map Node.id else cur) = c0 at h
  simp only at h
  split at h
  · cases c0 with
    | none =>
      simp only [pure, Except.pure, Except.ok.injEq, Prod.mk.injEq] at h
      obtain ⟨_, rfl, rfl, _⟩ := h
      rfl
    | some cid =>
      simp only at h
      split at h
      · rename_i a b hsp
        simp only [pure, Except.pure, Except.ok.injEq, Prod.mk.injEq] at h
        obtain ⟨_, rfl, rfl, _⟩ := h
        rw [skelL_append, stopInvAll_skelL, ← skelL_append, splitAtId_append _ _ _ _ hsp]
      · simp [throw, throwThe, MonadExceptOf.throw] at h
  · simp only [pure, Except.pure, Except.ok.injEq, Prod.mk.injEq] at h
    obtain ⟨_, rfl, rfl, _⟩ := h
    rfl

/-! ### 4. the child loops -/

theorem seqLoop_skelL (t : Tick) (ht : ∀ w c c' w' tr, t w c = .ok (c', w', tr) → skel c' = skel c) :
    ∀ (cs : List Node) (w : Store) (done : List Node) (r : Option (Node × List Node)) (w' : Store) (tr : List Ev),
    seqLoop t w cs = .ok (done, r, w', tr) →
    skelL (done ++ (match r with | some (c', rest) => c' :: rest | none => [])) = skelL cs
| [], w, done, r, w', tr, h => by
    simp only [seqLoop, pure, Except.pure, Except.ok.injEq, Prod.mk.injEq] at h
    obtain ⟨rfl, rfl, _, _⟩ := h
    rfl
| c :: cs, w, done, r, w', tr, h => by
    simp only [seqLoop, bind, Except.bind] at h
    cases htc : t w c with
    | error e => simp [htc] at h
    | ok v =>
      obtain ⟨c1, w1, tr1⟩ := v
      simp only [htc] at h
      have hc := ht w c c1 w1 tr1 htc
      split at h
      · simp only [pure, Except.pure, Except.ok.injEq, Prod.mk.injEq] at h
        obtain ⟨rfl, rfl, _, _⟩ := h
        simp [hc]
      · cases hl : seqLoop t w1 cs with
        | error e => simp [hl] at h
        | ok v =>
          obtain ⟨d2, r2, w2, tr2⟩ := v
          simp only [hl, pure, Except.pure, Except.ok.injEq, Prod.mk.injEq] at h
          obtain ⟨rfl, rfl, _, _⟩ := h
          have := seqLoop_skelL t ht cs w1 d2 r2 w2 tr2 hl
          simp only [List.cons_append, skelL_cons, hc, this]

theorem selLoop_skelL (t : Tick) (ht : ∀ w c c' w' tr, t w c = .ok (c', w', tr) → skel c' = skel c) :
    ∀ (cs : List Node) (w : Store) (done : List Node) (r : Option (Node × List Node)) (w' : Store) (tr : List Ev),
    selLoop t w cs = .ok (done, r, w', tr) →
    skelL (done ++ (match r with | some (c', rest) => c' :: rest | none => [])) = skelL cs
| [], w, done, r, w', tr, h => by
    simp only [selLoop, pure, Except.pure, Except.ok.injEq, Prod.mk.injEq] at h
    obtain ⟨rfl, rfl, _, _⟩ := h
    rfl
| c :: cs, w, done, r, w', tr, h => by
    simp only [selLoop, bind, Except.bind] at h
    cases htc : t w c with
    | error e => simp [htc] at h
    | ok v =>
      obtain ⟨c1, w1, tr1⟩ := v
      simp only [htc] at h
      have hc := ht w c c1 w1 tr1 htc
      split at h
      · simp only [pure, Except.pure, Except.ok.injEq, Prod.mk.injEq] at h
        obtain ⟨rfl, rfl, _, _⟩ := h
        simp [hc]
      · cases hl : selLoop t w1 cs with
        | error e => simp [hl] at h
        | ok v =>
          obtain ⟨d2, r2, w2, tr2⟩ := v
          simp only [hl, pure, Except.pure, Except.ok.injEq, Prod.mk.injEq] at h
          obtain ⟨rfl, rfl, _, _⟩ := h
          have := selLoop_skelL t ht cs w1 d2 r2 w2 tr2 hl
          simp only [List.cons_append, skelL_cons, hc, this]

theorem parLoop_skelL (t : Tick) (ht : ∀ w c c' w' tr, t w c = .ok (c', w', tr) → skel c' = skel c) (sync : Bool) :
    ∀ (cs : List Node) (w : Store) (cs' : List Node) (w' : Store) (tr : List Ev),
    parLoop t sync w cs = .ok (cs', w', tr) → skelL cs' = skelL cs
| [], w, cs', w', tr, h => by
    simp only [parLoop, pure, Except.pure, Except.ok.injEq, Prod.mk.injEq] at h
    obtain ⟨rfl, _, _⟩ := h
    rfl
| c :: cs, w, cs', w', tr, h => by
    simp only [parLoop, bind, Except.bind] at h
    split at h
    · cases hl : parLoop t sync w cs with
      | error e => simp [hl] at h
      | ok v =>
        obtain ⟨d2, w2, tr2⟩ := v
        simp only [hl, pure, Except.pure, Except.ok.injEq, Prod.mk.injEq] at h
        obtain ⟨rfl, _, _⟩ := h
        simp [parLoop_skelL t ht sync cs w d2 w2 tr2 hl]
    · cases htc : t w c with
      | error e => simp [htc] at h
      | ok v =>
        obtain ⟨c1, w1, tr1⟩ := v
        simp only [htc] at h
        have hc := ht w c c1 w1 tr1 htc
        cases hl : parLoop t sync w1 cs with
        | error e => simp [hl] at h
        | ok v =>
          obtain ⟨d2, w2, tr2⟩ := v
          simp only [hl, pure, Except.pure, Except.ok.injEq, Prod.mk.injEq] at h
          obtain ⟨rfl, _, _⟩ := h
          simp [hc, parLoop_skelL t ht sync cs w1 d2 w2 tr2 hl]

/-! ### the "actual work" blocks -/

theorem seqRun_skel (t : Tick) (ht : ∀ w c c' w' tr, t w c = .ok (c', w', tr) → skel c' = skel c)
    (w : Store) (i : Nat) (m : Bool) (before rest : List Node) (trR : List Ev) (n' : Node) (w' : Store) (tr : List Ev)
    (h : seqRun t w i m before rest trR = .ok (n', w', tr)) :
    skel n' = .seq i m (skelL (before ++ rest)) := by
  simp only [seqRun, bind, Except.bind] at h
  cases hl : seqLoop t w rest with
  | error e => simp [hl] at h
  | ok v =>
    obtain ⟨done, r, w1, trl⟩ := v
    simp only [hl] at h
    have hs := seqLoop_skelL t ht rest w done r w1 trl hl
    cases r with
    | none =>
      simp only [pure, Except.pure, Except.ok.injEq, Prod.mk.injEq] at h
      obtain ⟨rfl, _, _⟩ := h
      simp only [List.append_nil] at hs
      simp [skel, skelL_append, hs]
    | some p =>
      obtain ⟨c', untouched⟩ := p
      simp only [pure, Except.pure, Except.ok.injEq, Prod.mk.injEq] at h
      obtain ⟨rfl, _, _⟩ := h
      have hT : skelL (if m = true then (untouched, []) else stopInvNonInvalid untouched).1 = skelL untouched := by
        split
        · rfl
        · exact stopInvNonInvalid_skelL untouched
      simp only [skelL_append, skelL_cons] at hs
      simp [skel, skelL_append, hT, ← hs]

theorem selRun_skel (t : Tick) (ht : ∀ w c c' w' tr, t w c = .ok (c', w', tr) → skel c' = skel c)
    (w : Store) (i : Nat) (m : Bool) (cur0 : Option Nat) (before rest : List Node) (trP : List Ev)
    (n' : Node) (w' : Store) (tr : List Ev)
    (h : selRun t w i m cur0 before rest trP = .ok (n', w', tr)) :
    skel n' = .sel i m (skelL (before ++ rest)) := by
  simp only [selRun, bind, Except.bind] at h
  cases hl : selLoop t w rest with
  | error e => simp [hl] at h
  | ok v =>
    obtain ⟨done, r, w1, trl⟩ := v
    simp only [hl] at h
    have hs := selLoop_skelL t ht rest w done r w1 trl hl
    cases r with
    | none =>
      simp only [pure, Except.pure, Except.ok.injEq, Prod.mk.injEq] at h
      obtain ⟨rfl, _, _⟩ := h
      simp only [List.append_nil] at hs
      simp [skel, skelL_append, hs]
    | some p =>
      obtain ⟨c', untouched⟩ := p
      simp only [pure, Except.pure, Except.ok.injEq, Prod.mk.injEq] at h
      obtain ⟨rfl, _, _⟩ := h
      have hT : skelL (if cur0 = some c'.id then (untouched, []) else stopInvNonInvalid untouched).1 = skelL untouched := by
        split
        · rfl
        · exact stopInvNonInvalid_skelL untouched
      simp only [skelL_append, skelL_cons] at hs
      simp [skel, skelL_append, hT, ← hs]

theorem parRun_skel (t : Tick) (ht : ∀ w c c' w' tr, t w c = .ok (c', w', tr) → skel c' = skel c)
    (w : Store) (i : Nat) (p : Policy) (cs0 : List Node) (trR : List Ev) (n' : Node) (w' : Store) (tr : List Ev)
    (h : parRun t w i p cs0 trR = .ok (n', w', tr)) :
    skel n' = .par i p (skelL cs0) := by
  simp only [parRun, bind, Except.bind] at h
  cases hl : parLoop t p.sync w cs0 with
  | error e => simp [hl] at h
  | ok v =>
    obtain ⟨cs1, w1, trl⟩ := v
    simp only [hl] at h
    have hs := parLoop_skelL t ht p.sync cs0 w cs1 w1 trl hl
    split at h
    · simp only [pure, Except.pure, Except.ok.injEq, Prod.mk.injEq] at h
      obtain ⟨rfl, _, _⟩ := h
      simp [skel, stopRunning_skelL, hs]
    · simp only [pure, Except.pure, Except.ok.injEq, Prod.mk.injEq] at h
      obtain ⟨rfl, _, _⟩ := h
      simp [skel, hs]

theorem decBounce_skel (w : Store) (i : Nat) (k : DecKind) (s : Status) (c n' : Node) (w' : Store) (tr : List Ev)
    (h : decBounce w i k s c = .ok (n', w', tr)) : skel n' = .dec i k.shape (skel c) := by
  simp only [decBounce, pure, Except.pure, Except.ok.injEq, Prod.mk.injEq] at h
  obtain ⟨rfl, _, _⟩ := h
  simp only [skel, decTerminate_shape]
  split <;> simp [stopInv_skel]

theorem decRun_skel (t : Tick) (ht : ∀ w c c' w' tr, t w c = .ok (c', w', tr) → skel c' = skel c)
    (e : Env) (w : Store) (i : Nat) (k : DecKind) (st : Status) (c n' : Node) (w' : Store) (tr : List Ev)
    (h : decRun t e w i k st c = .ok (n', w', tr)) : skel n' = .dec i k.shape (skel c) := by
  simp only [decRun, bind, Except.bind] at h
  cases htc : t w c with
  | error err => simp [htc] at h
  | ok v =>
    obtain ⟨c1, w1, trc⟩ := v
    have hc := ht w c c1 w1 trc htc
    simp only [htc] at h
    have hk0 : (if st ≠ .running then decInit e k else k).shape = k.shape := by
      split
      · exact decInit_shape e k
      · rfl
    generalize (if st ≠ .running then decInit e k else k) = k0 at h hk0
    cases hp : decPublish k0 c1.status w1 with
    | error err => simp [hp] at h
    | ok w2 =>
      simp only [hp] at h
      have hk1 := decUpdate_shape e k0 c1.status
      have hc2 : skel (if (decUpdate e k0 c1.status).2.2 = true then stopInv c1 else (c1, [])).1 = skel c := by
        split
        · rw [stopInv_skel, hc]
        · exact hc
      generalize (if (decUpdate e k0 c1.status).2.2 = true then stopInv c1 else (c1, [])) = cc at h hc2
      split at h
      · simp only [pure, Except.pure, Except.ok.injEq, Prod.mk.injEq] at h
        obtain ⟨rfl, _, _⟩ := h
        simp only [skel, decTerminate_shape, hk1, hk0]
        split <;> simp [stopInv_skel, hc2]
      · simp only [pure, Except.pure, Except.ok.injEq, Prod.mk.injEq] at h
        obtain ⟨rfl, _, _⟩ := h
        simp only [skel, hk1, hk0, hc2]

theorem leafTick_skel (e : Env) (w : Store) (i : Nat) (st : Status) (k : LeafKind) (log : List LEv)
    (n' : Node) (w' : Store) (tr : List Ev) (h : leafTick e w i st k log = .ok (n', w', tr)) :
    skel n' = .leaf i k.shape := by
  simp only [leafTick, bind, Except.bind] at h
  have hk0 : (if st ≠ .running then leafInit e k else k).shape = k.shape := by
    split
    · exact leafInit_shape e k
    · rfl
  generalize (if st ≠ .running then leafInit e k else k) = k0 at h hk0
  cases hu : leafUpdate i e w k0 with
  | error err => simp [hu] at h
  | ok v =>
    obtain ⟨k1, o, w1⟩ := v
    simp only [hu, pure, Except.pure, Except.ok.injEq, Prod.mk.injEq] at h
    obtain ⟨rfl, _, _⟩ := h
    simp only [skel, leafUpdate_shape i e w k0 k1 o w1 hu, hk0]

/-! ### 5. the main theorem -/

/-- one tick (any fuel) never changes the skeleton of the tree -/
theorem tickF_skel (e : Env) : ∀ (f : Nat) (w : Store) (n n' : Node) (w' : Store) (tr : List Ev),
    tickF f e w n = .ok (n', w', tr) → skel n' = skel n := by
  intro f
  induction f with
  | zero => intro w n n' w' tr h; simp [tickF] at h
  | succ f ih =>
    intro w n n' w' tr h
    cases n with
    | leaf i st k log =>
      simp only [tickF] at h
      rw [leafTick_skel e w i st k log n' w' tr h]; rfl
    | seq i m st cur cs =>
      simp only [tickF, bind, Except.bind] at h
      cases hen : seqEntry st m cur cs with
      | error err => simp [hen] at h
      | ok v =>
        obtain ⟨before, rest, trR⟩ := v
        simp only [hen] at h
        split at h
        · simp only [pure, Except.pure, Except.ok.injEq, Prod.mk.injEq] at h
          obtain ⟨rfl, _, _⟩ := h
          simp [skel]
        · rw [seqRun_skel (tickF f e) ih w i m before rest trR n' w' tr h,
            seqEntry_skelL st m cur cs before rest trR hen]; rfl
    | sel i m st cur cs =>
      simp only [tickF, bind, Except.bind] at h
      split at h
      · simp only [pure, Except.pure, Except.ok.injEq, Prod.mk.injEq] at h
        obtain ⟨rfl, _, _⟩ := h
        simp [skel]
      · cases hen : selEntry st m cur cs with
        | error err => simp [hen] at h
        | ok v =>
          obtain ⟨cur0, before, rest, trP⟩ := v
          simp only [hen] at h
          rw [selRun_skel (tickF f e) ih w i m cur0 before rest trP n' w' tr h,
            selEntry_skelL st m cur cur0 cs before rest trP hen]; rfl
    | par i p st cur cs =>
      simp only [tickF, bind, Except.bind] at h
      split at h
      · simp [throw, throwThe, MonadExceptOf.throw] at h
      · have h0 : skelL (if st ≠ .running then stopInvNonInvalid cs else (cs, [])).1 = skelL cs := by
          split
          · exact stopInvNonInvalid_skelL cs
          · rfl
        generalize (if st ≠ .running then stopInvNonInvalid cs else (cs, [])) = r0 at h h0
        simp only [pure, Except.pure] at h
        split at h
        · simp only [Except.ok.injEq, Prod.mk.injEq] at h
          obtain ⟨rfl, _, _⟩ := h
          simp [skel, h0]
        · rw [parRun_skel (tickF f e) ih w i p r0.1 r0.2 n' w' tr h, h0]; rfl
    | dec i k st c =>
      simp only [tickF] at h
      split at h
      · split at h
        · rw [decRun_skel (tickF f e) ih e w i _ st c n' w' tr h]; rfl
        · rw [decBounce_skel w i _ .failure c n' w' tr h]; rfl
      · rw [decBounce_skel w i _ _ c n' w' tr h]; rfl
      · rw [decRun_skel (tickF f e) ih e w i _ st c n' w' tr h]; rfl

/-- one tick never changes the skeleton of the tree -/
theorem tick_skel (e : Env) (w : Store) (n n' : Node) (w' : Store) (tr : List Ev)
    (h : tick e w n = .ok (n', w', tr)) : skel n' = skel n :=
  tickF_skel e _ w n n' w' tr h

/-! ### the node ids are a function of the skeleton -/

mutual
theorem nodes_ids : ∀ n : Node, (nodes n).map Node.id = (skel n).ids
| leaf i s k l => by simp [nodes, skel, Skel.ids, id]
| seq i m s c cs => by simp [nodes, skel, Skel.ids, id, nodesL_ids cs]
| sel i m s c cs => by simp [nodes, skel, Skel.ids, id, nodesL_ids cs]
| par i p s c cs => by simp [nodes, skel, Skel.ids, id, nodesL_ids cs]
| dec i k s c => by simp [nodes, skel, Skel.ids, id, nodes_ids c]
theorem nodesL_ids : ∀ cs : List Node, (nodesL cs).map Node.id = Skel.idsL (skelL cs)
| [] => by simp [nodesL, Skel.idsL]
| c :: cs => by simp [nodesL, Skel.idsL, nodes_ids c, nodesL_ids cs]
end

/-- trees with the same skeleton have the same node ids in the same (pre-)order -/
theorem nodes_ids_of_skel {n n' : Node} (h : skel n' = skel n) :
    (nodes n').map Node.id = (nodes n).map Node.id := by
  rw [nodes_ids, nodes_ids, h]

theorem id_of_skel {n n' : Node} (h : skel n' = skel n) : n'.id = n.id := by
  cases n <;> cases n' <;> simp only [skel, Skel.leaf.injEq, Skel.seq.injEq, Skel.sel.injEq, Skel.par.injEq,
    Skel.dec.injEq, reduceCtorEq] at h <;> simp [id, h.1]

end Node

/-! ### 6. histories -/

/-- one operation of a history (tick / interrupt / blackboard poke) keeps the skeleton -/
theorem step_skel (n : Node) (w : Store) (op : Op) (n' : Node) (w' : Store) (tr : List Ev)
    (h : step n w op = .ok (n', w', tr)) : skel n' = skel n := by
  cases op with
  | tick e =>
    simp only [step] at h
    exact tick_skel e w n n' w' tr h
  | stop =>
    simp only [step, Except.ok.injEq, Prod.mk.injEq] at h
    obtain ⟨rfl, _, _⟩ := h
    exact stopInv_skel n
  | poke k v =>
    cases v with
    | some v =>
      simp only [step, Except.ok.injEq, Prod.mk.injEq] at h
      obtain ⟨rfl, _, _⟩ := h; rfl
    | none =>
      simp only [step, Except.ok.injEq, Prod.mk.injEq] at h
      obtain ⟨rfl, _, _⟩ := h; rfl

/-- the structure of a tree is invariant over every history of ticks, interrupts and blackboard pokes -/
theorem run_skel : ∀ (ops : List Op) (n : Node) (w : Store) (n' : Node) (w' : Store),
    run ops n w = .ok (n', w') → skel n' = skel n
| [], n, w, n', w', h => by
    simp only [run, Except.ok.injEq, Prod.mk.injEq] at h; obtain ⟨rfl, _⟩ := h; rfl
| op :: ops, n, w, n', w', h => by
    simp only [run] at h
    cases hs : step n w op with
    | error e => simp [hs] at h
    | ok v =>
      obtain ⟨n1, w1, tr⟩ := v
      simp only [hs] at h
      rw [run_skel ops n1 w1 n' w' h, step_skel n w op n1 w1 tr hs]

/-- … hence so are the node ids, in order -/
theorem step_nodes_ids (n : Node) (w : Store) (op : Op) (n' : Node) (w' : Store) (tr : List Ev)
    (h : step n w op = .ok (n', w', tr)) : (nodes n').map Node.id = (nodes n).map Node.id :=
  nodes_ids_of_skel (step_skel n w op n' w' tr h)

theorem run_nodes_ids (ops : List Op) (n : Node) (w : Store) (n' : Node) (w' : Store)
    (h : run ops n w = .ok (n', w')) : (nodes n').map Node.id = (nodes n).map Node.id :=
  nodes_ids_of_skel (run_skel ops n w n' w' h)

/-! ### non-vacuity -/

/-- a tree with every kind of composite, a decorator with mutable state and a stateful leaf -/
def Shape_example : Node :=
  .sel 1 true .invalid none
    [.seq 2 false .invalid none [.leaf 3 .invalid .probe [], .leaf 4 .invalid (.tickCounter 1 .success 0) []],
     .dec 5 (.retry 2 0) .invalid
       (.par 6 (.onAll true) .invalid none [.leaf 7 .invalid .probe [], .leaf 8 .invalid .probe []])]

def Shape_env (o3 o7 o8 : Status) : Env :=
  { outcome := fun i => if i = 3 then o3 else if i = 7 then o7 else o8, guard := fun _ => true, now := 0 }

def Shape_ops : List Op :=
  [.tick (Shape_env .success .success .running), .tick (Shape_env .failure .failure .running),
   .poke "x" (some (.bool true)), .tick (Shape_env .failure .running .success), .stop,
   .tick (Shape_env .success .success .success)]

-- the history runs without error and really changes the state …
example : (run Shape_ops Shape_example Store.empty).toOption.isSome = true := by decide
example : (run Shape_ops Shape_example Store.empty).toOption.map (fun r => r.1.status) = some .running := by decide
example : (run Shape_ops Shape_example Store.empty).toOption.map (fun r => (nodes r.1).map Node.status) =
    some [.running, .running, .success, .running, .invalid, .invalid, .invalid, .invalid] := by decide
-- … but not the skeleton
example (n' : Node) (w' : Store) (h : run Shape_ops Shape_example Store.empty = .ok (n', w')) :
    skel n' = skel Shape_example := run_skel _ _ _ _ _ h
example (n' : Node) (w' : Store) (h : run Shape_ops Shape_example Store.empty = .ok (n', w')) :
    (nodes n').map Node.id = [1, 2, 3, 4, 5, 6, 7, 8] := by
  rw [run_nodes_ids _ _ _ _ _ h]; decide

-- the skeleton is not trivial: it distinguishes trees that differ in a configuration parameter,
-- an id, a kind or the child order, and identifies trees that differ only in mutable state
example : skel (seq 1 true .invalid none []) ≠ skel (seq 1 false .invalid none []) := by simp [skel]
example : skel (seq 1 true .invalid none []) ≠ skel (sel 1 true .invalid none []) := by simp [skel]
example : skel (leaf 1 .invalid .probe []) ≠ skel (leaf 2 .invalid .probe []) := by simp [skel]
example : skel (dec 1 (.retry 2 0) .invalid (leaf 2 .invalid .probe [])) ≠
          skel (dec 1 (.retry 3 0) .invalid (leaf 2 .invalid .probe [])) := by simp [skel, DecKind.shape]
example : skel (par 1 .onOne .invalid none [leaf 2 .invalid .probe [], leaf 3 .invalid .probe []]) ≠
          skel (par 1 .onOne .invalid none [leaf 3 .invalid .probe [], leaf 2 .invalid .probe []]) := by
  simp [skel]
example : skel (dec 1 (.retry 2 0) .invalid (leaf 2 .invalid (.tickCounter 3 .success 0) [])) =
          skel (dec 1 (.retry 2 1) .running (leaf 2 .running (.tickCounter 3 .success 2) [.init, .upd .running])) := by
  simp [skel, DecKind.shape, LeafKind.shape]
