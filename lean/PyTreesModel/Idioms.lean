/-
  The three idioms of py_trees/idioms.py as tree-building functions.  Node ids are assigned afterwards in
  pre-order (`renumber`), which is how the correspondence harness numbers the tree the library builds.
-/
import PyTreesModel.Tree

namespace Idioms
open Node

/-- Python `name.lower().replace(" ", "_")` -/
def slug (name : String) : String :=
  String.ofList (name.toList.map (fun c => if c = ' ' then '_' else c.toLower))

/-- blackboard key of a relative variable name for a client in the root namespace -/
def rootKey (v : String) : String := if v.startsWith "/" then v else "/" ++ v

/-- `pick_up_where_you_left_off(name, tasks)`; a task is its name and its subtree -/
def pickUp (tasks : List (String × Node)) : Node :=
  let flag (nm : String) := rootKey (slug nm ++ "_done")
  let guarded := tasks.map (fun (nm, t) =>
    sel 0 false .invalid none
      [leaf 0 .invalid (.checkValue { key := flag nm, path := [], op := .eq, value := .bool true }) [],
       seq 0 true .invalid none [t, leaf 0 .invalid (.setVar (flag nm) [] (.bool true) true) []]])
  let clear := tasks.map (fun (nm, _) => leaf 0 .invalid (.unsetVar (flag nm)) [])
  seq 0 true .invalid none (guarded ++ clear)

/-- `either_or(conditions, subtrees, name, namespace)` -/
def eitherOr (conds : List Check) (subtrees : List Node) (ns : String) : Node :=
  let keys := (List.range conds.length).map (fun i => ns ++ "/" ++ toString (i + 1))
  let xor := leaf 0 .invalid (.checkValues conds .xor (some keys)) []
  let options := (keys.zip subtrees).map (fun (k, t) =>
    seq 0 true .invalid none
      [leaf 0 .invalid (.checkValue { key := k, path := [], op := .eq, value := .bool true }) [], t])
  seq 0 true .invalid none [xor, sel 0 false .invalid none options]

/-- `oneshot(behaviour, name, variable_name, policy)`; `both` = ON_COMPLETION.
    When the wrapped behaviour is itself a Sequence the flag setter is appended to it. -/
def oneshot (b : Node) (key : String) (path : List String) (both : Bool) : Node :=
  let setFlag (s : Status) := leaf 0 .invalid (.setVar key path (.status s) true) []
  let notDone := dec 0 .inverter .invalid (leaf 0 .invalid (.checkExists key path) [])
  let work := match b with
    | seq i m s c cs => seq i m s c (cs ++ [setFlag .success])
    | _ => seq 0 true .invalid none [b, setFlag .success]
  let body := if both then
      sel 0 false .invalid none
        [work, seq 0 true .invalid none [setFlag .failure, leaf 0 .invalid (.const .failure) []]]
    else work
  sel 0 false .invalid none
    [seq 0 true .invalid none [notDone, body],
     leaf 0 .invalid (.checkValue { key := key, path := path, op := .eq, value := .status .success }) []]

/-! ### pre-order renumbering (ids 1, 2, 3, …); guard ids follow the node id; selected-children ids are remapped -/

mutual
def renum (next : Nat) : Node → Node × Nat × List (Nat × Nat)
| leaf i s k l => (leaf next s k l, next + 1, [(i, next)])
| seq i m s c cs => let r := renumL (next + 1) cs; (seq next m s c r.1, r.2.1, (i, next) :: r.2.2)
| sel i m s c cs => let r := renumL (next + 1) cs; (sel next m s c r.1, r.2.1, (i, next) :: r.2.2)
| par i p s c cs =>
    let r := renumL (next + 1) cs
    let p' := match p with
      | .onSelected ids sy => .onSelected (ids.map (fun j => ((r.2.2.find? (fun q => q.1 = j)).map (·.2)).getD j)) sy
      | q => q
    (par next p' s c r.1, r.2.1, (i, next) :: r.2.2)
| dec i k s c =>
    let r := renum (next + 1) c
    let k' := match k with | .guard _ => DecKind.guard next | q => q
    (dec next k' s r.1, r.2.1, (i, next) :: r.2.2)
def renumL (next : Nat) : List Node → List Node × Nat × List (Nat × Nat)
| [] => ([], next, [])
| c :: cs => let r := renum next c; let rs := renumL r.2.1 cs; (r.1 :: rs.1, rs.2.1, r.2.2 ++ rs.2.2)
end

def renumber (n : Node) : Node := (renum 1 n).1

end Idioms
