/-
  The behaviour-tree interpreter model.

  Mirrors, at the repaired pinned commit of /repo:
    py_trees/behaviour.py   Behaviour.tick / stop / iterate / tip
    py_trees/composites.py  Composite.stop / tip, Selector.tick, Sequence.tick,
                            Parallel.tick / stop / validate_policy_configuration
    py_trees/decorators.py  Decorator.tick / stop / tip and every decorator's
                            initialise / update / terminate, EternalGuard.tick, OneShot.tick
    py_trees/behaviours.py, py_trees/timers.py   the stock leaves' initialise / update

  A tree is a value; `tick` / `stop` return the new tree, the new blackboard storage and the
  trace of events of that operation.  `tickF` is structurally recursive on a fuel argument
  because `Sequence.tick` / `Parallel.tick` first reset their children and then tick the *reset*
  children (not a structural sub-term); `tick` supplies `height + 1`, which always suffices
  (`PyTreesProofs/Lemmas/Fuel.lean`).  The three child loops are ordinary higher-order list
  recursions over the child tick function.
-/
import PyTreesModel.Status

/-- a leaf's own callback history (what a probe leaf records) -/
inductive LEv | init | upd (s : Status) | term (s : Status)
deriving DecidableEq, Repr

/-- global trace of one operation -/
inductive Ev
| enter (i : Nat)              -- tick() of node i entered
| init (i : Nat)               -- leaf i: initialise()
| upd (i : Nat) (s : Status)   -- leaf i: update() returned s
| term (i : Nat) (s : Status)  -- leaf i: terminate(s)
| yld (i : Nat) (s : Status)   -- node i yielded (visited) with status s
deriving DecidableEq, Repr

inductive Policy | onAll (sync : Bool) | onOne | onSelected (ids : List Nat) (sync : Bool)
deriving DecidableEq, Repr

def Policy.sync : Policy → Bool
| .onAll s => s | .onOne => false | .onSelected _ s => s

inductive DecKind
| inverter | runningIsFailure | runningIsSuccess | failureIsSuccess | failureIsRunning
| successIsFailure | successIsRunning | passThrough
| condition (s : Status)
| retry (n : Int) (failures : Nat)
| repeat_ (n : Int) (succ : Nat)
| timeout (dur : Int) (finish : Int)
| guard (gid : Nat)
| oneShot (both : Bool) (final : Option Status)
| count (total running success failure interrupt : Nat)
| statusToBB (key : String) (path : List String)
deriving DecidableEq, Repr

inductive CmpOp | eq | ne | lt | le | gt | ge
deriving DecidableEq, Repr

inductive LogicOp | and | or | xor
deriving DecidableEq, Repr

/-- `common.ComparisonExpression(variable = key.path, value, operator)` -/
structure Check where
  key : String
  path : List String
  op : CmpOp
  value : Val
deriving Repr

/-- leaf behaviours with their own state -/
inductive LeafKind
| probe                                                     -- outcome scripted by the environment
| const (s : Status)                                        -- Success / Failure / Running / Dummy
| tickCounter (dur : Int) (completion : Status) (counter : Int)
| statusQueue (queue : List Status) (eventually : Option Status) (current : List Status)
| successEveryN (n : Int) (count : Int)
| timer (dur : Int) (finish : Int)
| checkExists (key : String) (path : List String)
| waitFor (key : String) (path : List String)
| checkValue (c : Check)
| waitValue (c : Check)
| checkValues (cs : List Check) (op : LogicOp) (results : Option (List String))
| setVar (key : String) (path : List String) (value : Val) (overwrite : Bool)
| unsetVar (key : String)
| bbToStatus (key : String) (path : List String)
deriving Repr

inductive Node
| leaf (id : Nat) (st : Status) (k : LeafKind) (log : List LEv)
| seq  (id : Nat) (mem : Bool) (st : Status) (cur : Option Nat) (cs : List Node)
| sel  (id : Nat) (mem : Bool) (st : Status) (cur : Option Nat) (cs : List Node)
| par  (id : Nat) (pol : Policy) (st : Status) (cur : Option Nat) (cs : List Node)
| dec  (id : Nat) (k : DecKind) (st : Status) (c : Node)
deriving Repr

/-- errors a tick can raise -/
inductive Err
| internal    -- AssertionError / ValueError / IndexError: must never happen
| policy      -- RuntimeError of Parallel.validate_policy_configuration
| key         -- KeyError escaping a stock behaviour (BlackboardToStatus on a missing variable)
| type        -- TypeError escaping a stock behaviour
| fuel        -- model artefact: out of fuel (unreachable through `tick`)
deriving DecidableEq, Repr

/-- what the outside world supplies for one tick -/
structure Env where
  outcome : Nat → Status   -- probe leaf id ↦ what its update() returns
  guard : Nat → Bool       -- guard id ↦ what the EternalGuard condition returns
  now : Int                -- clock reading (constant during a tick)

namespace Node

def status : Node → Status
| leaf _ s _ _ => s | seq _ _ s _ _ => s | sel _ _ s _ _ => s | par _ _ s _ _ => s | dec _ _ s _ => s

def id : Node → Nat
| leaf i _ _ _ => i | seq i _ _ _ _ => i | sel i _ _ _ _ => i | par i _ _ _ _ => i | dec i _ _ _ => i

def children : Node → List Node
| leaf _ _ _ _ => [] | seq _ _ _ _ cs => cs | sel _ _ _ _ cs => cs | par _ _ _ _ cs => cs
| dec _ _ _ c => [c]

/-! ### decorator callbacks -/

/-- `initialise()` of a decorator (called when status ≠ RUNNING). -/
def decInit (e : Env) : DecKind → DecKind
| .retry n _ => .retry n 0
| .repeat_ n _ => .repeat_ n 0
| .timeout d _ => .timeout d (e.now + d)
| k => k

/-- `terminate(new_status)` of a decorator. -/
def decTerminate (s : Status) : DecKind → DecKind
| .oneShot both final =>
    if final.isNone && (s = .success || (both && s = .failure)) then .oneShot both (some s)
    else .oneShot both final
| .count t r su f i =>
    match s with
    | .invalid => .count t r su f (i+1)
    | .success => .count t r (su+1) f i
    | .failure => .count t r su (f+1) i
    | .running => .count t r su f i
| k => k

/-- `update()` of a decorator given the child's status; third component: the update itself
    cancels the child (`Timeout`). Blackboard effects are in `decPublish`. -/
def decUpdate (e : Env) (k : DecKind) (cs : Status) : DecKind × Status × Bool :=
  match k with
  | .inverter => (k, (match cs with | .success => .failure | .failure => .success | x => x), false)
  | .runningIsFailure => (k, (if cs = .running then .failure else cs), false)
  | .runningIsSuccess => (k, (if cs = .running then .success else cs), false)
  | .failureIsSuccess => (k, (if cs = .failure then .success else cs), false)
  | .failureIsRunning => (k, (if cs = .failure then .running else cs), false)
  | .successIsFailure => (k, (if cs = .success then .failure else cs), false)
  | .successIsRunning => (k, (if cs = .success then .running else cs), false)
  | .passThrough => (k, cs, false)
  | .condition s => (k, (if cs = s then .success else .running), false)
  | .retry n f =>
      match cs with
      | .failure => if ((f + 1 : Nat) : Int) < n then (.retry n (f+1), .running, false)
                    else (.retry n (f+1), .failure, false)
      | .running => (k, .running, false)
      | _ => (k, .success, false)
  | .repeat_ n s =>
      match cs with
      | .failure => (k, .failure, false)
      | .success => if ((s + 1 : Nat) : Int) = n then (.repeat_ n (s+1), .success, false)
                    else (.repeat_ n (s+1), .running, false)
      | _ => (k, .running, false)
  | .timeout _ fin =>
      if cs = .running ∧ e.now > fin then (k, .failure, true) else (k, cs, false)
  | .guard _ => (k, cs, false)
  | .oneShot _ final => (k, (match final with | some s => s | none => cs), false)
  | .count t r su f i => (.count (t+1) (if cs = .running then r+1 else r) su f i, cs, false)
  | .statusToBB _ _ => (k, cs, false)

/-- blackboard effect of a decorator's `update()`: `StatusToBlackboard` does
    `blackboard.set(variable_name, child.status, overwrite=True)`.
    A nested name on a missing key raises KeyError (from `getattr(self, key)`). -/
def decPublish (k : DecKind) (cs : Status) (w : Store) : Except Err Store :=
  match k with
  | .statusToBB key path =>
      match path with
      | [] => pure (w.set key (.status cs))
      | _ =>
        match w key with
        | none => throw .key
        | some v =>
          match v.setPath path (.status cs) with
          | some v' => pure (w.set key v')
          | none => pure w           -- AttributeError swallowed by Client.set
  | _ => pure w

/-! ### leaf callbacks -/

def cmpVals (op : CmpOp) (a b : Val) : Except Err Bool :=
  match op with
  | .eq => pure (a == b)
  | .ne => pure (!(a == b))
  | _ =>
    match a.num?, b.num? with
    | some x, some y =>
        pure (match op with | .lt => decide (x < y) | .le => decide (x ≤ y) | .gt => decide (x > y) | _ => decide (x ≥ y))
    | _, _ => throw .type

def _root_.LogicOp.apply : LogicOp → Bool → Bool → Bool
| .and, a, b => a && b
| .or, a, b => a || b
| .xor, a, b => a != b

/-- `functools.reduce(op, results)`; the constructor guarantees ≥ 2 checks -/
def reduceLogic (op : LogicOp) : List Bool → Bool
| [] => false
| r :: rs => rs.foldl op.apply r

/-- evaluate the checks of `CheckBlackboardVariableValues` in order; `none` = some variable is missing -/
def evalChecks (w : Store) : List Check → Except Err (Option (List Bool))
| [] => pure (some [])
| c :: cs =>
    match w.getPath c.key c.path with
    | none => pure none
    | some v => do
        let r ← cmpVals c.op v c.value
        match ← evalChecks w cs with
        | none => pure none
        | some rs => pure (some (r :: rs))

def publishResults (w : Store) : List String → List Bool → Store
| k :: ks, r :: rs => publishResults (w.set k (.bool r)) ks rs
| _, _ => w

/-- `initialise()` of a leaf -/
def leafInit (e : Env) : LeafKind → LeafKind
| .tickCounter d c _ => .tickCounter d c 0
| .timer d _ => .timer d (e.now + d)
| k => k

/-- `update()` of a leaf: new own state, returned status, new storage -/
def leafUpdate (i : Nat) (e : Env) (w : Store) : LeafKind → Except Err (LeafKind × Status × Store)
| .probe => pure (.probe, e.outcome i, w)
| .const s => pure (.const s, s, w)
| .tickCounter d c n =>
    pure (.tickCounter d c (n+1), (if n + 1 ≤ d then .running else c), w)
| .statusQueue q ev cur =>
    match cur with
    | s :: rest => pure (.statusQueue q ev rest, s, w)
    | [] =>
      match ev with
      | some s => pure (.statusQueue q ev [], s, w)
      | none =>
        match q with
        | s :: rest => pure (.statusQueue q ev rest, s, w)
        | [] => throw .internal          -- pop from an empty list
| .successEveryN n c =>
    if n = 0 then throw .internal         -- ZeroDivisionError
    else pure (.successEveryN n (c+1), (if (c + 1) % n = 0 then .success else .failure), w)
| .timer d fin => pure (.timer d fin, (if e.now > fin then .success else .running), w)
| .checkExists k p =>
    pure (.checkExists k p, (if (w.getPath k p).isSome then .success else .failure), w)
| .waitFor k p =>
    pure (.waitFor k p, (if (w.getPath k p).isSome then .success else .running), w)
| .checkValue c =>
    match w.getPath c.key c.path with
    | none => pure (.checkValue c, .failure, w)
    | some v => do
        let r ← cmpVals c.op v c.value
        pure (.checkValue c, (if r then .success else .failure), w)
| .waitValue c =>
    match w.getPath c.key c.path with
    | none => pure (.waitValue c, .running, w)
    | some v => do
        let r ← cmpVals c.op v c.value
        pure (.waitValue c, (if r then .success else .running), w)
| .checkValues cs op res => do
    match ← evalChecks w cs with
    | none => pure (.checkValues cs op res, .failure, w)
    | some rs =>
        let w' := match res with | some ks => publishResults w ks rs | none => w
        pure (.checkValues cs op res, (if reduceLogic op rs then .success else .failure), w')
| .setVar k p v ow =>
    if !ow && (w k).isSome then pure (.setVar k p v ow, .failure, w)
    else
      match p with
      | [] => pure (.setVar k p v ow, .success, w.set k v)
      | _ =>
        match w k with
        | none => throw .key              -- getattr(self, key) on a missing key
        | some old =>
          match old.setPath p v with
          | some new => pure (.setVar k p v ow, .success, w.set k new)
          | none => pure (.setVar k p v ow, .failure, w)
| .unsetVar k => pure (.unsetVar k, .success, w.unset k)
| .bbToStatus k p =>
    match w.getPath k p with
    | none => throw .key
    | some (.status s) => pure (.bbToStatus k p, s, w)
    | some _ => throw .type

/-! ### stop -/

mutual
/-- `stop(INVALID)` -/
def stopInv : Node → Node × List Ev
| leaf i _ k log => (leaf i .invalid k (log ++ [.term .invalid]), [.term i .invalid])
| seq i m _ _ cs => let r := stopInvNonInvalid cs; (seq i m .invalid none r.1, r.2)
| sel i m _ _ cs => let r := stopInvNonInvalid cs; (sel i m .invalid none r.1, r.2)
| par i p _ _ cs =>
    -- Parallel.stop: first the RUNNING children, then Composite.stop(INVALID) the other non-INVALID ones
    let r := stopInvPar cs
    (par i p .invalid none r.1, r.2.1 ++ r.2.2)
| dec i k _ c =>
    -- Decorator.stop(INVALID): terminate; child.stop(INVALID) unconditionally
    let r := stopInv c
    (dec i (decTerminate .invalid k) .invalid r.1, r.2)
/-- `for child in children: if child.status != INVALID: child.stop(INVALID)` -/
def stopInvNonInvalid : List Node → List Node × List Ev
| [] => ([], [])
| c :: cs =>
    let r := if c.status ≠ .invalid then stopInv c else (c, [])
    let rs := stopInvNonInvalid cs
    (r.1 :: rs.1, r.2 ++ rs.2)
/-- both passes of `Parallel.stop(INVALID)`; events of pass 1 (RUNNING children) and pass 2 -/
def stopInvPar : List Node → List Node × List Ev × List Ev
| [] => ([], [], [])
| c :: cs =>
    let rs := stopInvPar cs
    if c.status = .running then let r := stopInv c; (r.1 :: rs.1, r.2 ++ rs.2.1, rs.2.2)
    else if c.status ≠ .invalid then let r := stopInv c; (r.1 :: rs.1, rs.2.1, r.2 ++ rs.2.2)
    else (c :: rs.1, rs.2.1, rs.2.2)
end

/-- `for child in children: if child.status == RUNNING: child.stop(INVALID)` -/
def stopRunning : List Node → List Node × List Ev
| [] => ([], [])
| c :: cs =>
    let r := if c.status = .running then stopInv c else (c, [])
    let rs := stopRunning cs
    (r.1 :: rs.1, r.2 ++ rs.2)

/-- unconditional `child.stop(INVALID)` for every listed child (memory Selector, children before the start). -/
def stopInvAll : List Node → List Node × List Ev
| [] => ([], [])
| c :: cs => let r := stopInv c; let rs := stopInvAll cs; (r.1 :: rs.1, r.2 ++ rs.2)

/-- `stop(new_status)` for SUCCESS / FAILURE (completion). -/
def stopDone (s : Status) : Node → Node × List Ev
| leaf i _ k log => (leaf i s k (log ++ [.term s]), [.term i s])
| seq i m _ cur cs => (seq i m s cur cs, [])
| sel i m _ cur cs => (sel i m s cur cs, [])
| par i p _ cur cs => let r := stopRunning cs; (par i p s cur r.1, r.2)
| dec i k _ c =>
    let r := if c.status = .running then stopInv c else (c, [])
    (dec i (decTerminate s k) s r.1, r.2)

def stop (s : Status) (n : Node) : Node × List Ev :=
  if s = .invalid then stopInv n else stopDone s n

/-! ### tick -/

abbrev Res := Except Err (Node × Store × List Ev)
abbrev Tick := Store → Node → Res

/-- split the children at the child with id `cid` (Python: `children.index(current_child)`):
    `(before, from)` with `from` starting at that child. -/
def splitAtId (cid : Nat) : List Node → Option (List Node × List Node)
| [] => none
| c :: cs => if c.id = cid then some ([], c :: cs) else (splitAtId cid cs).map (fun (a, b) => (c :: a, b))

/-- split at the first child whose status is not SUCCESS (repaired `Sequence.tick`, current child removed) -/
def splitAtNonSuccess : List Node → List Node × List Node
| [] => ([], [])
| c :: cs => if c.status ≠ .success then ([], c :: cs) else let r := splitAtNonSuccess cs; (c :: r.1, r.2)

/-- Sequence main loop: tick children in order while they return SUCCESS. Result: the ticked
    children that returned SUCCESS and, if one did not, that child and the untouched rest. -/
def seqLoop (t : Tick) (w : Store) :
    List Node → Except Err (List Node × Option (Node × List Node) × Store × List Ev)
| [] => pure ([], none, w, [])
| c :: cs => do
    let (c', w1, tr) ← t w c
    if c'.status ≠ .success then pure ([], some (c', cs), w1, tr)
    else
      let (done, r, w2, tr') ← seqLoop t w1 cs
      pure (c' :: done, r, w2, tr ++ tr')

/-- Selector main loop: tick in order until RUNNING or SUCCESS. Result: the ticked children that
    failed and, if one did not, that child and the untouched rest. -/
def selLoop (t : Tick) (w : Store) :
    List Node → Except Err (List Node × Option (Node × List Node) × Store × List Ev)
| [] => pure ([], none, w, [])
| c :: cs => do
    let (c', w1, tr) ← t w c
    if c'.status = .running ∨ c'.status = .success then pure ([], some (c', cs), w1, tr)
    else
      let (done, r, w2, tr') ← selLoop t w1 cs
      pure (c' :: done, r, w2, tr ++ tr')

/-- Parallel sweep: tick every child (skipping SUCCESS ones when synchronised). -/
def parLoop (t : Tick) (sync : Bool) (w : Store) : List Node → Except Err (List Node × Store × List Ev)
| [] => pure ([], w, [])
| c :: cs => do
    if sync && c.status = .success then
      let (cs', w2, tr') ← parLoop t sync w cs
      pure (c :: cs', w2, tr')
    else
      let (c', w1, tr) ← t w c
      let (cs', w2, tr') ← parLoop t sync w1 cs
      pure (c' :: cs', w2, tr ++ tr')

/-- `validate_policy_configuration` -/
def validPolicy (p : Policy) (cs : List Node) : Bool :=
  match p with
  | .onSelected ids _ => !ids.isEmpty && ids.all (fun i => cs.any (fun c => c.id = i))
  | _ => true

def lastId? (cs : List Node) : Option Nat := cs.getLast?.map Node.id

def statusOfId (i : Nat) (cs : List Node) : Option Status := (cs.find? (fun c => c.id = i)).map Node.status

/-- new status and current child of a Parallel after the sweep. -/
def parResult (p : Policy) (cs : List Node) : Status × Option Nat :=
  match cs.find? (fun c => c.status = .failure) with
  | some f => (.failure, some f.id)
  | none =>
    match p with
    | .onAll _ => if cs.all (fun c => c.status = .success) then (.success, lastId? cs) else (.running, lastId? cs)
    | .onOne =>
        match (cs.filter (fun c => c.status = .success)).getLast? with
        | some s => (.success, some s.id)
        | none => (.running, lastId? cs)
    | .onSelected ids _ =>
        if ids.all (fun i => statusOfId i cs = some .success) then (.success, ids.getLast?) else (.running, lastId? cs)

/-- Sequence entry (`Sequence.tick`, "initialise" block): children before the starting point,
    children from the starting point on (after the entry reset), reset events. -/
def seqEntry (st : Status) (m : Bool) (cur : Option Nat) (cs : List Node) :
    Except Err (List Node × List Node × List Ev) :=
  if st ≠ .running then
    let r := stopInvNonInvalid cs
    pure ([], r.1, r.2)
  else if m then
    match cur with
    | none =>
        -- the child that was running has been removed since the last tick
        let r := splitAtNonSuccess cs
        pure (r.1, r.2, [])
    | some c =>
      match splitAtId c cs with
      | some (a, b) => pure (a, b, [])
      | none => throw Err.internal            -- ValueError from children.index
  else pure ([], cs, [])

/-- Sequence "actual work" block. -/
def seqRun (t : Tick) (w : Store) (i : Nat) (m : Bool) (before rest : List Node) (trReset : List Ev) : Res := do
  let (done, r, w1, tr) ← seqLoop t w rest
  match r with
  | some (c', untouched) =>
      -- halt on the first non-SUCCESS child; without memory kill the remainder
      let (tail, trKill) := if m then (untouched, []) else stopInvNonInvalid untouched
      pure (seq i m c'.status (some c'.id) (before ++ done ++ c' :: tail), w1,
            [.enter i] ++ trReset ++ tr ++ trKill ++ [.yld i c'.status])
  | none =>
      pure (seq i m .success (lastId? (before ++ done)) (before ++ done), w1,
            [.enter i] ++ trReset ++ tr ++ [.yld i .success])

/-- Selector entry: remembered selection (`previous`), children before the start (stopped,
    memory only), children from the start on, events. -/
def selEntry (st : Status) (m : Bool) (cur : Option Nat) (cs : List Node) :
    Except Err (Option Nat × List Node × List Node × List Ev) :=
  let cur0 := if st ≠ .running then cs.head?.map Node.id else cur
  if m then
    match cur0 with
    | none => pure (cur0, [], cs, [])         -- current child removed: re-evaluate every priority
    | some c =>
      match splitAtId c cs with
      | some (a, b) => let r := stopInvAll a; pure (cur0, r.1, b, r.2)
      | none => throw Err.internal
  else pure (cur0, [], cs, [])

def selRun (t : Tick) (w : Store) (i : Nat) (m : Bool) (cur0 : Option Nat) (before rest : List Node)
    (trPre : List Ev) : Res := do
  let (failed, r, w1, tr) ← selLoop t w rest
  match r with
  | some (c', untouched) =>
      -- selected; if the selection changed invalidate everything at a lower priority
      let (tail, trInv) := if cur0 = some c'.id then (untouched, []) else stopInvNonInvalid untouched
      pure (sel i m c'.status (some c'.id) (before ++ failed ++ c' :: tail), w1,
            [.enter i] ++ trPre ++ tr ++ trInv ++ [.yld i c'.status])
  | none =>
      pure (sel i m .failure (lastId? (before ++ failed)) (before ++ failed), w1,
            [.enter i] ++ trPre ++ tr ++ [.yld i .failure])

def parRun (t : Tick) (w : Store) (i : Nat) (p : Policy) (cs0 : List Node) (trReset : List Ev) : Res := do
  let (cs1, w1, tr) ← parLoop t p.sync w cs0
  let (ns, ncur) := parResult p cs1
  if ns ≠ .running then
    let r := stopRunning cs1
    pure (par i p ns ncur r.1, w1, [.enter i] ++ trReset ++ tr ++ r.2 ++ [.yld i ns])
  else
    pure (par i p ns ncur cs1, w1, [.enter i] ++ trReset ++ tr ++ [.yld i ns])

/-- `Decorator.tick` -/
def decRun (t : Tick) (e : Env) (w : Store) (i : Nat) (k : DecKind) (st : Status) (c : Node) : Res := do
  let k0 := if st ≠ .running then decInit e k else k
  let (c1, w1, tr) ← t w c
  let w2 ← decPublish k0 c1.status w1
  let (k1, ns, cancel) := decUpdate e k0 c1.status
  let (c2, trCancel) := if cancel then stopInv c1 else (c1, [])
  if ns ≠ .running then
    -- Decorator.stop(ns): terminate; ns = INVALID stops the child unconditionally (priority-interrupt handling: only
    -- a child that answered INVALID can make a stock decorator's update() answer INVALID), otherwise a RUNNING child
    let (c3, trStop) := if ns = .invalid ∨ c2.status = .running then stopInv c2 else (c2, [])
    pure (dec i (decTerminate ns k1) ns c3, w2, [.enter i] ++ tr ++ trCancel ++ trStop ++ [.yld i ns])
  else
    pure (dec i k1 ns c2, w2, [.enter i] ++ tr ++ trCancel ++ [.yld i ns])

/-- a decorator finishing without ticking its child (guard false / latched one-shot) -/
def decBounce (w : Store) (i : Nat) (k : DecKind) (s : Status) (c : Node) : Res :=
  let (c1, trStop) := if c.status = .running then stopInv c else (c, [])
  pure (dec i (decTerminate s k) s c1, w, [.enter i] ++ trStop ++ [.yld i s])

/-- `Behaviour.tick` of a leaf -/
def leafTick (e : Env) (w : Store) (i : Nat) (st : Status) (k : LeafKind) (log : List LEv) : Res := do
  let k0 := if st ≠ .running then leafInit e k else k
  let log1 := if st ≠ .running then log ++ [.init] else log
  let ev1 := if st ≠ .running then [Ev.init i] else []
  let (k1, o, w1) ← leafUpdate i e w k0
  let log2 := log1 ++ [.upd o]
  let log3 := if o ≠ .running then log2 ++ [.term o] else log2
  let ev3 := if o ≠ .running then [Ev.term i o] else []
  pure (leaf i o k1 log3, w1, [.enter i] ++ ev1 ++ [.upd i o] ++ ev3 ++ [.yld i o])

def tickF : Nat → Env → Store → Node → Res
| 0, _, _, _ => .error .fuel
| f+1, e, w, n =>
  match n with
  | leaf i st k log => leafTick e w i st k log
  | seq i m st cur cs => do
      let (before, rest, trReset) ← seqEntry st m cur cs
      if cs.isEmpty then
        pure (seq i m .success none cs, w, [.enter i] ++ trReset ++ [.yld i .success])
      else seqRun (tickF f e) w i m before rest trReset
  | sel i m st cur cs => do
      if cs.isEmpty then
        pure (sel i m .failure none cs, w, [.enter i, .yld i .failure])
      else
        let (cur0, before, rest, trPre) ← selEntry st m cur cs
        selRun (tickF f e) w i m cur0 before rest trPre
  | par i p st _cur cs => do
      if !validPolicy p cs then throw Err.policy
      let (cs0, trReset) := if st ≠ .running then stopInvNonInvalid cs else (cs, [])
      if cs0.isEmpty then
        pure (par i p .success none cs0, w, [.enter i] ++ trReset ++ [.yld i .success])
      else parRun (tickF f e) w i p cs0 trReset
  | dec i k st c =>
      match k with
      | .guard g => if e.guard g then decRun (tickF f e) e w i k st c else decBounce w i k .failure c
      | .oneShot _ (some fin) => decBounce w i k fin c
      | _ => decRun (tickF f e) e w i k st c

mutual
def height : Node → Nat
| leaf _ _ _ _ => 0
| seq _ _ _ _ cs => heightL cs + 1
| sel _ _ _ _ cs => heightL cs + 1
| par _ _ _ _ cs => heightL cs + 1
| dec _ _ _ c => height c + 1
def heightL : List Node → Nat
| [] => 0
| c :: cs => max (height c) (heightL cs)
end

/-- one tick of the subtree rooted at `n` -/
def tick (e : Env) (w : Store) (n : Node) : Res := tickF (height n + 1) e w n

/-! ### introspection -/

mutual
/-- `Behaviour.iterate()`: every node, children before their parent -/
def iterate : Node → List Node
| leaf i s k l => [leaf i s k l]
| seq i m s c cs => iterateL cs ++ [seq i m s c cs]
| sel i m s c cs => iterateL cs ++ [sel i m s c cs]
| par i p s c cs => iterateL cs ++ [par i p s c cs]
| dec i k s c => iterate c ++ [dec i k s c]
def iterateL : List Node → List Node
| [] => []
| c :: cs => iterate c ++ iterateL cs
end

mutual
/-- `tip()`; the result is the id of the tip behaviour -/
def tip : Node → Option Nat
| leaf i s _ _ => if s ≠ .invalid then some i else none
| seq i _ s cur cs => match cur with
    | some c => tipOf c cs
    | none => if s ≠ .invalid then some i else none
| sel i _ s cur cs => match cur with
    | some c => tipOf c cs
    | none => if s ≠ .invalid then some i else none
| par i _ s cur cs => match cur with
    | some c => tipOf c cs
    | none => if s ≠ .invalid then some i else none
| dec i _ s c => if c.status ≠ .invalid then tip c else if s ≠ .invalid then some i else none
/-- `current_child.tip()` where the current child is found by id -/
def tipOf (cid : Nat) : List Node → Option Nat
| [] => none
| c :: cs => if c.id = cid then tip c else tipOf cid cs
end

end Node
