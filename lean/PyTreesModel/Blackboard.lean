/-
  The blackboard model: `py_trees.blackboard.Blackboard` statics, `Client`, `IntermediateVariableFetcher`,
  `ActivityStream`, at the repaired pinned commit.

  State is a value; maps are association lists, Python sets are duplicate-free lists (printing sorts them).
  One function per public entry point, returning the new state and a result.  Exceptions are results; where the
  Python raises half-way through a method the model performs exactly the mutations that precede the raise.
-/
import PyTreesModel.Status
import PyTreesModel.Names

/-! ### association lists and sets -/

namespace AL
def get {β : Type} (k : String) : List (String × β) → Option β
| [] => none
| (k', v) :: l => if k' = k then some v else get k l
/-- `d[k] = v` -/
def put {β : Type} (k : String) (v : β) : List (String × β) → List (String × β)
| [] => [(k, v)]
| (k', v') :: l => if k' = k then (k, v) :: l else (k', v') :: put k v l
/-- `del d[k]` (no-op when absent) -/
def del {β : Type} (k : String) : List (String × β) → List (String × β)
| [] => []
| (k', v') :: l => if k' = k then l else (k', v') :: del k l
def has {β : Type} (k : String) (l : List (String × β)) : Bool := (get k l).isSome
end AL

namespace SetL
/-- `s.add(x)` -/
def add {α : Type} [DecidableEq α] (x : α) (s : List α) : List α := if x ∈ s then s else s ++ [x]
/-- `s.discard(x)` -/
def discard {α : Type} [DecidableEq α] (x : α) (s : List α) : List α := s.filter (· ≠ x)
end SetL

inductive Access | read | write | exclusive
deriving DecidableEq, Repr

inductive ActType | read | initialised | write | accessed | accessDenied | noKey | noOverwrite | unset
deriving DecidableEq, Repr

/-- `ActivityItem` -/
structure Item where
  key : String
  client : Nat            -- index of the client (stands for client_name and client_id)
  typ : ActType
  prev : Option Val
  cur : Option Val
deriving Repr

/-- `KeyMetaData` -/
structure Meta where
  read : List Nat := []
  write : List Nat := []
  excl : List Nat := []
deriving Repr

/-- a `Client` object (it outlives its registration) -/
structure Client where
  ns : String
  read : List String := []
  write : List String := []
  excl : List String := []
  required : List String := []
  remap : List (String × String) := []
  namespaces : List String := []
deriving Repr

structure BB where
  storage : List (String × Val) := []
  metadata : List (String × Meta) := []
  registry : List Nat := []                 -- `Blackboard.clients`
  clients : List Client := []               -- every client object ever created, by index
  stream : Option (Nat × List Item) := none -- maximum_size, data (earliest first)
deriving Repr

/-- results of operations -/
inductive Res
| ok                       -- returned None
| val (v : Val)
| bool (b : Bool)
| fetcher (ns : String)    -- an IntermediateVariableFetcher for that namespace
| keys (ks : List String)
| keyError | attrError | typeError | indexError
deriving Repr

namespace BB

def client? (s : BB) (c : Nat) : Option Client := s.clients[c]?

def setClient (s : BB) (c : Nat) (cl : Client) : BB := { s with clients := s.clients.set c cl }

/-- `ActivityStream.push` (repaired): append, then drop from the front while over the limit -/
def push (s : BB) (it : Item) : BB :=
  match s.stream with
  | none => s
  | some (mx, data) =>
      let d := data ++ [it]
      { s with stream := some (mx, d.drop (d.length - mx)) }

def canWrite (cl : Client) (key : String) : Bool := key ∈ cl.write || key ∈ cl.excl
def canRead (cl : Client) (key : String) : Bool := key ∈ cl.read || key ∈ cl.write || key ∈ cl.excl

/-- `Client.__init__` -/
def newClient (s : BB) (ns : String) : BB × Nat :=
  let c := s.clients.length
  ({ s with clients := s.clients ++ [{ ns := clientNsS ns }], registry := SetL.add c s.registry }, c)

/-- `Client.__setattr__(name, value)` -/
def setattr (s : BB) (c : Nat) (name : String) (v : Val) : BB × Res :=
  match s.client? c with
  | none => (s, .indexError)
  | some cl =>
    let key := absNameS cl.ns name
    if !canWrite cl key then (s.push ⟨key, c, .accessDenied, none, none⟩, .attrError)
    else
      match AL.get key cl.remap with
      | none => (s, .keyError)
      | some loc =>
        let s1 := match AL.get loc s.storage with
          | some old => s.push ⟨loc, c, .write, some old, some v⟩
          | none => s.push ⟨loc, c, .initialised, none, some v⟩
        ({ s1 with storage := AL.put loc v s1.storage }, .ok)

/-- `Client.__getattr__(name)` -/
def getattr (s : BB) (c : Nat) (name : String) : BB × Res :=
  match s.client? c with
  | none => (s, .indexError)
  | some cl =>
    let key := absNameS cl.ns name
    let isRead := decide (key ∈ cl.read)
    let isWrite := !isRead && (decide (key ∈ cl.write) || decide (key ∈ cl.excl))
    if !isRead && !isWrite then
      if key ∈ cl.namespaces then (s, .fetcher key)
      else (s.push ⟨key, c, .accessDenied, none, none⟩, .attrError)
    else
      match AL.get key cl.remap with
      | none => (s, .keyError)
      | some loc =>
        match AL.get loc s.storage with
        | none => (s.push ⟨loc, c, .noKey, none, none⟩, .keyError)
        | some v =>
          let t := if isWrite && !v.isPrimitive then ActType.accessed else ActType.read
          (s.push ⟨loc, c, t, none, some v⟩, .val v)

/-- `Client.get(name)` with a possibly nested name -/
def get (s : BB) (c : Nat) (name : String) : BB × Res :=
  let (key, path) := splitName name
  match s.getattr c key with
  | (s1, .val v) =>
      if path.isEmpty || path == [""] then (s1, .val v)
      else match v.getPath path with
        | some x => (s1, .val x)
        | none => (s1, .keyError)
  | r => r

/-- `Client.exists(name)` -/
def exists_ (s : BB) (c : Nat) (name : String) : BB × Res :=
  match s.get c name with
  | (s1, .val _) => (s1, .bool true)
  | (s1, .fetcher _) => (s1, .bool true)
  | (s1, .keyError) => (s1, .bool false)
  | r => r

/-- `Client.set(name, value, overwrite)` -/
def set (s : BB) (c : Nat) (name : String) (v : Val) (overwrite : Bool) : BB × Res :=
  match s.client? c with
  | none => (s, .indexError)
  | some cl =>
    let full := absNameS cl.ns name
    let (key, path) := splitName full
    if !canWrite cl key then (s.push ⟨key, c, .accessDenied, none, none⟩, .attrError)
    else
      match AL.get key cl.remap with
      | none => (s, .keyError)
      | some loc =>
        match (if overwrite then none else AL.get loc s.storage) with
        | some old => (s.push ⟨loc, c, .noOverwrite, none, some old⟩, .bool false)
        | none =>
          if path.isEmpty || path == [""] then
            match s.setattr c key v with
            | (s1, .ok) => (s1, .bool true)
            | r => r
          else
            match s.getattr c key with
            | (s1, .val old) =>
                match old.setPath path v with
                | some new => ({ s1 with storage := AL.put loc new s1.storage }, .bool true)
                | none => (s1, .bool false)
            | r => r

/-- `Client.unset(key)` -/
def unset (s : BB) (c : Nat) (name : String) : BB × Res :=
  match s.client? c with
  | none => (s, .indexError)
  | some cl =>
    let key := absNameS cl.ns name
    match AL.get key cl.remap with
    | none => (s, .keyError)
    | some loc =>
      let s1 := s.push ⟨loc, c, .unset, none, none⟩
      if AL.has loc s1.storage then ({ s1 with storage := AL.del loc s1.storage }, .bool true)
      else (s1, .bool false)

/-- namespaced dotted access `client.<ns₁>.<ns₂>.….<key>` (read): `IntermediateVariableFetcher.__getattr__` -/
def dotGet (s : BB) (c : Nat) : List String → BB × Res
| [] => (s, .attrError)
| [k] => s.getattr c k
| k :: rest =>
    match s.getattr c k with
    | (s1, .fetcher ns) => dotFetch s1 c ns rest
    | r => r
where
  dotFetch (s : BB) (c : Nat) (ns : String) : List String → BB × Res
  | [] => (s, .fetcher ns)
  | k :: rest =>
      match s.get c (absNameS ns k) with
      | (s1, .fetcher ns') => dotFetch s1 c ns' rest
      | r => if rest.isEmpty then r else (r.1, match r.2 with | .val _ => .attrError | x => x)

/-- namespaced dotted write `client.<ns₁>.….<key> = v`: `IntermediateVariableFetcher.__setattr__` -/
def dotSet (s : BB) (c : Nat) (path : List String) (v : Val) : BB × Res :=
  match path with
  | [] => (s, .attrError)
  | [k] => s.setattr c k v
  | k :: rest =>
    match s.getattr c k with
    | (s1, .fetcher ns) => go s1 ns rest
    | r => r
where
  go (s : BB) (ns : String) : List String → BB × Res
  | [] => (s, .attrError)
  | [k] => match s.set c (absNameS ns k) v true with
      | (s1, .bool _) => (s1, .ok)
      | r => r
  | k :: rest =>
      match s.get c (absNameS ns k) with
      | (s1, .fetcher ns') => go s1 ns' rest
      | (s1, .val _) => (s1, .attrError)
      | r => r

/-! ### registration -/

def metaOf (s : BB) (loc : String) : Meta := (AL.get loc s.metadata).getD {}

/-- the conflict test of `register_key(access=WRITE)`: iterate the exclusive holders; the first one decides -/
def writeConflict (s : BB) (loc : String) : Bool :=
  match AL.get loc s.metadata with
  | none => false
  | some m => match m.excl with
    | [] => false
    | u :: _ => u ∈ s.registry          -- a holder no longer in the registry raises KeyError, which is swallowed

/-- the conflict test of `register_key(access=EXCLUSIVE_WRITE)` -/
def exclConflict (s : BB) (loc : String) : Bool :=
  match AL.get loc s.metadata with
  | none => false
  | some m =>
    let us := m.write ++ m.excl.filter (· ∉ m.write)
    !us.isEmpty && us.all (· ∈ s.registry)

/-- `Client.register_key(key, access, required, remap_to)`; `access = none` models a bad access argument -/
def register (s : BB) (c : Nat) (name : String) (access : Option Access) (required : Bool)
    (remapTo : Option String) : BB × Res :=
  match s.client? c with
  | none => (s, .indexError)
  | some cl =>
    let key := absNameS cl.ns name
    let loc := remapTo.getD key
    match access with
    | none => (s, .typeError)
    | some acc =>
      let conflict := match acc with
        | .read => false
        | .write => writeConflict s loc
        | .exclusive => exclConflict s loc
      if conflict then (s, .attrError)
      else
        let m := metaOf s loc
        let (cl1, m1) := match acc with
          | .read => ({ cl with read := SetL.add key cl.read }, { m with read := SetL.add c m.read })
          | .write => ({ cl with write := SetL.add key cl.write }, { m with write := SetL.add c m.write })
          | .exclusive => ({ cl with excl := SetL.add key cl.excl }, { m with excl := SetL.add c m.excl })
        let cl2 := { cl1 with
          remap := AL.put key loc cl1.remap
          required := if required then SetL.add key cl1.required else cl1.required
          namespaces := (nsClosureS key).foldl (fun acc n => SetL.add n acc) cl1.namespaces }
        (BB.setClient { s with metadata := AL.put loc m1 s.metadata } c cl2, .ok)

/-- `_update_namespaces()` (complete rebuild) -/
def rebuildNamespaces (cl : Client) : Client :=
  let all := ((cl.read ++ cl.write ++ cl.excl).map nsClosureS).flatten
  { cl with namespaces := all.foldl (fun acc n => SetL.add n acc) [] }

/-- `Client.unregister_key(key, clear, update_namespace_cache)` -/
def unregisterKey (s : BB) (c : Nat) (name : String) (clear : Bool) (updateNs : Bool := true) : BB × Res :=
  match s.client? c with
  | none => (s, .indexError)
  | some cl =>
    let key := absNameS cl.ns name
    match AL.get key cl.remap with
    | none => (s, .keyError)
    | some loc =>
      let cl1 := { cl with read := SetL.discard key cl.read, write := SetL.discard key cl.write,
                           excl := SetL.discard key cl.excl, required := SetL.discard key cl.required }
      match AL.get loc s.metadata with
      | none => (s.setClient c cl1, .keyError)          -- Blackboard.metadata[remapped_key] raises
      | some m =>
        let m1 : Meta := { read := SetL.discard c m.read, write := SetL.discard c m.write, excl := SetL.discard c m.excl }
        let s1 :=
          if m1.read.isEmpty && m1.write.isEmpty && m1.excl.isEmpty then
            { s with metadata := AL.del loc s.metadata, storage := if clear then AL.del loc s.storage else s.storage }
          else { s with metadata := AL.put loc m1 s.metadata }
        let cl2 := { cl1 with remap := AL.del key cl1.remap }
        let cl3 := if updateNs then rebuildNamespaces cl2 else cl2
        (s1.setClient c cl3, .ok)

/-- `Client.unregister_all_keys(clear)`: the keys are visited in the order given (Python: set order) -/
def unregisterKeys (s : BB) (c : Nat) (clear : Bool) : List String → BB × Res
| [] => (s, .ok)
| k :: ks =>
    match s.unregisterKey c k clear false with
    | (s1, .ok) => unregisterKeys s1 c clear ks
    | r => r

def dedup (l : List String) : List String := l.foldl (fun acc x => SetL.add x acc) []

def unregisterAll (s : BB) (c : Nat) (clear : Bool) (order : List String → List String := id) : BB × Res :=
  match s.client? c with
  | none => (s, .indexError)
  | some cl =>
    match unregisterKeys s c clear (order (dedup (cl.read ++ cl.write ++ cl.excl))) with
    | (s1, .ok) =>
        match s1.client? c with
        | some cl1 => (s1.setClient c (rebuildNamespaces cl1), .ok)
        | none => (s1, .ok)
    | r => r

/-- `Client.unregister(clear)` -/
def unregister (s : BB) (c : Nat) (clear : Bool) (order : List String → List String := id) : BB × Res :=
  match s.unregisterAll c clear order with
  | (s1, .ok) =>
      if c ∈ s1.registry then ({ s1 with registry := SetL.discard c s1.registry }, .ok)
      else (s1, .keyError)                               -- `del Blackboard.clients[id]` twice
  | r => r

/-- `Client.verify_required_keys_exist()`; the keys are examined in the order given -/
def verify (s : BB) (c : Nat) (order : List String → List String := id) : BB × Res :=
  match s.client? c with
  | none => (s, .indexError)
  | some cl => go s (order cl.required) false
where
  go (s : BB) : List String → Bool → BB × Res
  | [], absent => (s, if absent then .keyError else .ok)
  | k :: ks, absent =>
      match s.exists_ c k with
      | (s1, .bool true) => go s1 ks absent
      | (s1, .bool false) => go s1 ks true
      | r => r

/-- `Client.is_registered(key, access)` -/
def isRegistered (s : BB) (c : Nat) (name : String) (access : Option Access) : Res :=
  match s.client? c with
  | none => .indexError
  | some cl =>
    let key := absNameS cl.ns name
    .bool (match access with
      | some .read => decide (key ∈ cl.read)
      | some .write => decide (key ∈ cl.write)
      | some .exclusive => decide (key ∈ cl.excl)
      | none => canRead cl key)

/-! ### statics -/

def keys (s : BB) : List String := s.metadata.map (·.1)

/-- `Blackboard.keys_filtered_by_clients(ids)` -/
def keysByClients (s : BB) (ids : List Nat) : List String :=
  (s.metadata.filter (fun (_, m) => (m.read ++ m.write ++ m.excl).any (· ∈ ids))).map (·.1)

/-- `Blackboard.keys_filtered_by_regex(literal)`: the pattern is a literal substring -/
def isInfix (p l : List Char) : Bool :=
  match l with
  | [] => p.isEmpty
  | c :: t => p.isPrefixOf (c :: t) || isInfix p t

def keysByLiteral (s : BB) (lit : String) : List String :=
  (s.keys).filter (fun k => isInfix lit.toList k.toList)

/-- `Blackboard.get(variable_name)` -/
def sget (s : BB) (name : String) : Res :=
  let (key, path) := splitName (absNameS "/" name)
  match AL.get key s.storage with
  | none => .keyError
  | some v =>
    if path.isEmpty || path == [""] then .val v
    else match v.getPath path with
      | some x => .val x
      | none => .keyError

/-- `Blackboard.exists(name)` -/
def sexists (s : BB) (name : String) : Res :=
  match s.sget name with
  | .val _ => .bool true
  | _ => .bool false

/-- `Blackboard.set(variable_name, value)` (repaired nested walk); creates a metadata entry -/
def sset (s : BB) (name : String) (v : Val) : BB × Res :=
  let (key, path) := splitName (absNameS "/" name)
  let withMeta (s : BB) : BB := if AL.has key s.metadata then s else { s with metadata := s.metadata ++ [(key, {})] }
  if path.isEmpty || path == [""] then (withMeta { s with storage := AL.put key v s.storage }, .ok)
  else
    match AL.get key s.storage with
    | none => (s, .keyError)
    | some old =>
      match old.setPath path v with
      | some new => (withMeta { s with storage := AL.put key new s.storage }, .ok)
      | none => (s, .attrError)

/-- `Blackboard.unset(key)` -/
def sunset (s : BB) (name : String) : BB × Res :=
  let key := absNameS "/" name
  if AL.has key s.storage then ({ s with storage := AL.del key s.storage }, .bool true) else (s, .bool false)

/-- `Blackboard.enable_activity_stream(n)` / `disable_activity_stream()` / `activity_stream.clear()` -/
def streamOn (s : BB) (n : Nat) : BB := match s.stream with | none => { s with stream := some (n, []) } | some _ => s
def streamOff (s : BB) : BB := { s with stream := none }
def streamClear (s : BB) : BB := match s.stream with | some (n, _) => { s with stream := some (n, []) } | none => s

end BB
