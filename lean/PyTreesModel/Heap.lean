/-
  A pointer model of behaviours for the child-management API (py_trees/composites.py `add_child`,
  `add_children`, `insert_child`, `prepend_child`, `remove_child`, `remove_child_by_id`, `remove_all_children`,
  `replace_child`; py_trees/decorators.py `Decorator.__init__`), repaired versions.  An inductive tree cannot even
  express "listed under two parents", so objects live in a heap and refer to each other by index.
-/
import PyTreesModel.Status

inductive HKind | seq | sel | par | dec | leaf
deriving DecidableEq, Repr

structure HNode where
  kind : HKind
  parent : Option Nat := none
  children : List Nat := []
  status : Status := .invalid
  cur : Option Nat := none          -- `current_child` (composites only)
deriving Repr

abbrev Heap := List HNode

inductive HErr | typeError | runtimeError | valueError | indexError | attributeError
deriving DecidableEq, Repr

namespace Heap

def get? (h : Heap) (i : Nat) : Option HNode := h[i]?
def upd (h : Heap) (i : Nat) (f : HNode → HNode) : Heap :=
  match h[i]? with
  | some n => h.set i (f n)
  | none => h

def isComposite (h : Heap) (i : Nat) : Bool :=
  match h.get? i with
  | some n => n.kind = .seq || n.kind = .sel || n.kind = .par
  | none => false

/-- `stop(INVALID)` of object `i` and, recursively, of its children as the three `stop` methods prescribe
    (composites: every child that is not INVALID; decorators: the child unconditionally).  Fuel bounds the depth. -/
def stopInv : Nat → Heap → Nat → Heap
| 0, h, _ => h
| f+1, h, i =>
    match h.get? i with
    | none => h
    | some n =>
      let h1 := match n.kind with
        | .leaf => h
        | .dec => n.children.foldl (fun acc c => stopInv f acc c) h
        | _ => n.children.foldl (fun acc c =>
            match acc.get? c with
            | some cn => if cn.status ≠ Status.invalid then stopInv f acc c else acc
            | none => acc) h
      h1.upd i (fun x => { x with status := .invalid, cur := if n.kind = HKind.leaf || n.kind = HKind.dec then x.cur else none })

def stopInvalid (h : Heap) (i : Nat) : Heap := stopInv (h.length + 1) h i

/-- the checks shared by add / insert / prepend / replace / decorate: the argument is a behaviour without a parent -/
def checkNew (h : Heap) (c : Option Nat) : Except HErr Nat :=
  match c with
  | none => .error .typeError                         -- not a Behaviour
  | some c =>
    match h.get? c with
    | none => .error .typeError
    | some n => if n.parent.isSome then .error .runtimeError else .ok c

/-- Python `list.insert` -/
def listInsert (l : List Nat) (idx : Int) (x : Nat) : List Nat :=
  let n : Int := l.length
  let i : Int := if idx < 0 then (if n + idx < 0 then 0 else n + idx) else (if idx > n then n else idx)
  l.take i.toNat ++ x :: l.drop i.toNat

def adopt (h : Heap) (p c : Nat) (place : List Nat → List Nat) : Heap :=
  (h.upd p (fun x => { x with children := place x.children })).upd c (fun x => { x with parent := some p })

/-- `add_child` -/
def addChild (h : Heap) (p : Nat) (c : Option Nat) : Except HErr Heap := do
  let c ← checkNew h c
  pure (adopt h p c (· ++ [c]))

/-- `insert_child(child, index)` / `prepend_child` (= index 0) -/
def insertChild (h : Heap) (p : Nat) (c : Option Nat) (idx : Int) : Except HErr Heap := do
  let c ← checkNew h c
  pure (adopt h p c (fun l => listInsert l idx c))

/-- `add_children`: validate everything first (type, parent, duplicates), then add in order -/
def addChildren (h : Heap) (p : Nat) (cs : List (Option Nat)) : Except HErr Heap := do
  let rec validate : List (Option Nat) → List Nat → Except HErr (List Nat)
    | [], acc => pure acc.reverse
    | c :: rest, acc => do
        let c ← checkNew h c
        if c ∈ acc then throw HErr.runtimeError
        validate rest (c :: acc)
  let ids ← validate cs []
  pure (ids.foldl (fun acc c => adopt acc p c (· ++ [c])) h)

/-- `remove_child(child)`: new heap and the index the child had -/
def removeChild (h : Heap) (p c : Nat) : Except HErr (Heap × Nat) :=
  match h.get? p with
  | none => .error .valueError
  | some pn =>
    match pn.children.idxOf? c with
    | none => .error .valueError                     -- `self.children.index(child)` raises first, nothing changed
    | some i =>
      let h1 := h.upd p (fun x => { x with cur := if x.cur = some c then none else x.cur })
      let h2 := match h1.get? c with
        | some cn => if cn.status = Status.running then stopInvalid h1 c else h1
        | none => h1
      let h3 := (h2.upd p (fun x => { x with children := x.children.erase c })).upd c (fun x => { x with parent := none })
      .ok (h3, i)

/-- `remove_child_by_id` -/
def removeChildById (h : Heap) (p c : Nat) : Except HErr Heap :=
  match h.get? p with
  | none => .error .indexError
  | some pn => if c ∈ pn.children then (removeChild h p c).map (·.1) else .error .indexError

/-- `remove_all_children` -/
def removeAll (h : Heap) (p : Nat) : Heap :=
  match h.get? p with
  | none => h
  | some pn =>
    let h1 := h.upd p (fun x => { x with cur := none })
    let h2 := pn.children.foldl (fun acc c =>
      let a := match acc.get? c with
        | some cn => if cn.status = Status.running then stopInvalid acc c else acc
        | none => acc
      a.upd c (fun x => { x with parent := none })) h1
    h2.upd p (fun x => { x with children := [] })

/-- `replace_child(child, replacement)` -/
def replaceChild (h : Heap) (p c : Nat) (r : Option Nat) : Except HErr Heap :=
  -- the debug log line at the top reads `replacement.name`: anything that is not a behaviour fails there
  if r.isNone then .error .attributeError else
  match h.get? p with
  | none => .error .valueError
  | some pn =>
    match pn.children.idxOf? c with
    | none => .error .valueError
    | some i => do
      let r ← checkNew h r
      let (h1, _) ← removeChild h p c
      pure (adopt h1 p r (fun l => listInsert l i r))

/-- `Decorator(child=c)`: a new decorator object adopting `c` -/
def decorate (h : Heap) (c : Option Nat) : Except HErr Heap := do
  let c ← checkNew h c
  let d := h.length
  pure ((h ++ [({ kind := .dec, children := [c] } : HNode)]).upd c (fun x => { x with parent := some d }))

/-! consistency (C11) -/

def consistent (h : Heap) : Bool :=
  (List.range h.length).all (fun i =>
    match h.get? i with
    | none => true
    | some n =>
      n.children.all (fun c => match h.get? c with | some cn => cn.parent == some i | none => false) &&
      decide n.children.Nodup &&
      (match n.parent with
       | some p => (match h.get? p with | some pn => pn.children.contains i | none => false)
       | none => true) &&
      (match n.cur with | some c => n.children.contains c | none => true))

end Heap
