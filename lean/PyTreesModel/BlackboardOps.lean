/-
  Histories of blackboard operations: one constructor per public entry point of the blackboard model.
-/
import PyTreesModel.Blackboard

inductive BOp
| new (ns : String)
| register (c : Nat) (name : String) (access : Option Access) (required : Bool) (remapTo : Option String)
| unregisterKey (c : Nat) (name : String) (clear : Bool)
| unregisterAll (c : Nat) (clear : Bool)
| unregister (c : Nat) (clear : Bool)
| setattr (c : Nat) (name : String) (v : Val)
| getattr (c : Nat) (name : String)
| set (c : Nat) (name : String) (v : Val) (overwrite : Bool)
| get (c : Nat) (name : String)
| exists_ (c : Nat) (name : String)
| unset (c : Nat) (name : String)
| dotGet (c : Nat) (path : List String)
| dotSet (c : Nat) (path : List String) (v : Val)
| verify (c : Nat)
| sset (name : String) (v : Val)
| sunset (name : String)
| streamOn (n : Nat)
| streamOff
| streamClear
deriving Repr

namespace BB

/-- one operation: new state and result -/
def step (s : BB) : BOp → BB × Res
| .new ns => let r := s.newClient ns; (r.1, .ok)
| .register c name acc req remap => s.register c name acc req remap
| .unregisterKey c name clear => s.unregisterKey c name clear
| .unregisterAll c clear => s.unregisterAll c clear
| .unregister c clear => s.unregister c clear
| .setattr c name v => s.setattr c name v
| .getattr c name => s.getattr c name
| .set c name v ow => s.set c name v ow
| .get c name => s.get c name
| .exists_ c name => s.exists_ c name
| .unset c name => s.unset c name
| .dotGet c path => s.dotGet c path
| .dotSet c path v => s.dotSet c path v
| .verify c => s.verify c
| .sset name v => s.sset name v
| .sunset name => s.sunset name
| .streamOn n => (s.streamOn n, .ok)
| .streamOff => (s.streamOff, .ok)
| .streamClear => (s.streamClear, .ok)

/-- the state after a history, starting from the empty blackboard -/
def runOps (ops : List BOp) (s : BB := {}) : BB := ops.foldl (fun s op => (s.step op).1) s

end BB
