/-
  Key-name algebra of the blackboard (py_trees/blackboard.py): `Blackboard.absolute_name`,
  `Blackboard.relative_name`, the namespace normalisation of `Client.__init__`, the namespace closure of
  `Client._update_namespaces`, `Blackboard.key` / the nested-name split.  Strings are `List Char`.
-/

namespace Names

def sep : Char := '/'

/-- Python `s.lstrip("/")` -/
def stripL (l : List Char) : List Char := l.dropWhile (· == sep)
/-- Python `s.rstrip("/")` -/
def stripR (l : List Char) : List Char := (l.reverse.dropWhile (· == sep)).reverse
/-- Python `s.strip("/")` -/
def strip (l : List Char) : List Char := stripR (stripL l)

/-- namespace with a trailing separator ensured (`ns if ns.endswith("/") else ns + "/"`) -/
def norm (ns : List Char) : List Char := if ns.getLast? = some sep then ns else ns ++ [sep]

/-- `Blackboard.absolute_name(namespace, key)` -/
def absName (ns key : List Char) : List Char :=
  if key.head? = some sep then key else norm ns ++ strip key

/-- `Blackboard.relative_name(namespace, key)`; `none` = KeyError -/
def relName (ns key : List Char) : Option (List Char) :=
  if key.head? ≠ some sep then some key
  else if (norm ns).isPrefixOf key then some (key.drop (norm ns).length) else none

/-- `Client.__init__`: `"" if namespace is None`, then a leading separator is ensured -/
def clientNs (ns : List Char) : List Char := if ns.head? = some sep then ns else sep :: ns

/-- Python `s.rsplit("/", 1)[0]`: everything before the last separator (the whole string if there is none) -/
def rsplitHead (l : List Char) : List Char :=
  if l.contains sep then (l.reverse.dropWhile (· != sep)).tail.reverse else l

/-- the proper namespaces of a key added by `_update_namespaces(added_key)`: keep taking `rsplitHead` while non-empty.
    The fuel bounds the loop by the key's length (every step strictly shortens the string once it contains a
    separator; a non-empty string without a separator would loop forever in Python — keys are absolute, so this
    cannot happen, and the model stops). -/
def nsClosureF : Nat → List Char → List (List Char)
| 0, _ => []
| f+1, key =>
    let ns := rsplitHead key
    if ns.isEmpty || ns == key then [] else ns :: nsClosureF f ns

def nsClosure (key : List Char) : List (List Char) := nsClosureF key.length key

/-- split a variable name at the first '.', Python `name.split(".")` → (key, attribute path) -/
def splitDots (l : List Char) : List (List Char) :=
  l.foldr (fun c acc => if c == '.' then [] :: acc else match acc with
    | [] => [[c]]
    | h :: t => (c :: h) :: t) [[]]

end Names

/-! String-level wrappers used by the blackboard model and the driver -/

def absNameS (ns key : String) : String := String.ofList (Names.absName ns.toList key.toList)
def relNameS (ns key : String) : Option String := (Names.relName ns.toList key.toList).map String.ofList
def clientNsS (ns : String) : String := String.ofList (Names.clientNs ns.toList)
def nsClosureS (key : String) : List String := (Names.nsClosure key.toList).map String.ofList
/-- `name.split(".")`: key and attribute path -/
def splitName (name : String) : String × List String :=
  match (Names.splitDots name.toList).map String.ofList with
  | [] => ("", [])
  | k :: p => (k, p)
