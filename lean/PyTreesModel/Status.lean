/-
  Status values, blackboard values and nested-attribute paths shared by all models.
  Mirrors py_trees/common.py `Status` and the value shapes the correspondence harness stores
  (ints, bools, statuses, strings and plain attribute-bag objects).
-/

inductive Status | success | failure | running | invalid
deriving DecidableEq, Repr, Inhabited

/-- a blackboard value; `obj` is a Python object with the listed attributes (latest binding first) -/
inductive Val
| null                      -- Python `None`
| int (n : Int)
| bool (b : Bool)
| status (s : Status)
| str (s : String)
| obj (fields : List (String × Val))
deriving Repr, Inhabited

namespace Val

mutual
/-- structural equality (Python `==` on the harness' value objects) -/
def beq : Val → Val → Bool
| .null, .null => true
| .int a, .int b => a == b
| .bool a, .bool b => a == b
| .int a, .bool b => a == (if b then 1 else 0)       -- Python: bool is an int (True == 1)
| .bool a, .int b => (if a then 1 else 0) == b
| .status a, .status b => a == b
| .str a, .str b => a == b
| .obj a, .obj b => beqL a b
| _, _ => false
def beqL : List (String × Val) → List (String × Val) → Bool
| [], [] => true
| (k, v) :: a, (k', v') :: b => k == k' && beq v v' && beqL a b
| _, _ => false
end

instance : BEq Val := ⟨beq⟩

/-- numeric view used by the ordering operators: ints, and bools as 0 / 1 (Python: bool is a subclass of int) -/
def num? : Val → Option Int
| .int n => some n
| .bool b => some (if b then 1 else 0)
| _ => none

/-- `utilities.is_primitive` as far as the modelled value shapes go -/
def isPrimitive : Val → Bool
| .int _ => true
| .bool _ => true
| .str _ => true
| _ => false

def lookupField (a : String) : List (String × Val) → Option Val
| [] => none
| (k, v) :: fs => if k = a then some v else lookupField a fs

/-- `getattr(v, a)`; `none` = AttributeError -/
def getAttr (v : Val) (a : String) : Option Val :=
  match v with
  | .obj fs => lookupField a fs
  | _ => none

/-- `operator.attrgetter("a.b.c")(v)`; `none` = AttributeError -/
def getPath (v : Val) : List String → Option Val
| [] => some v
| a :: p => match v.getAttr a with
  | some v' => v'.getPath p
  | none => none

def setField (a : String) (x : Val) : List (String × Val) → List (String × Val)
| [] => [(a, x)]
| (k, v) :: fs => if k = a then (k, x) :: fs else (k, v) :: setField a x fs

/-- walk down the attribute path and `setattr` the last component; `none` = AttributeError.
    Python mutates the object in place; the functional model rebuilds the enclosing objects. -/
def setPath (v : Val) : List String → Val → Option Val
| [], x => some x
| [a], x => match v with
  | .obj fs => some (.obj (setField a x fs))
  | _ => none
| a :: b :: p, x => match v with
  | .obj fs => match lookupField a fs with
    | some v' => match v'.setPath (b :: p) x with
      | some v'' => some (.obj (setField a v'' fs))
      | none => none
    | none => none
  | _ => none

mutual
/-- no INVALID status stored anywhere inside the value -/
def valid : Val → Bool
| .status s => s != .invalid
| .obj fs => validL fs
| _ => true
def validL : List (String × Val) → Bool
| [] => true
| (_, v) :: fs => valid v && validL fs
end

end Val

/-- blackboard storage as seen by the tree model: absolute key name ↦ value -/
abbrev Store := String → Option Val

namespace Store
def empty : Store := fun _ => none
def set (w : Store) (k : String) (v : Val) : Store := fun k' => if k' = k then some v else w k'
def unset (w : Store) (k : String) : Store := fun k' => if k' = k then none else w k'
/-- value at `key.path`; `none` = KeyError (missing key or missing nested attribute) -/
def getPath (w : Store) (k : String) (p : List String) : Option Val :=
  match w k with
  | some v => v.getPath p
  | none => none
end Store
