/-
  Subtree surgery by id between ticks: `BehaviourTree.prune_subtree / insert_subtree / replace_subtree`
  (py_trees/trees.py) delegating to `Composite.remove_child / insert_child / replace_child`
  (py_trees/composites.py, repaired).
-/
import PyTreesModel.Tree

/-- result of an edit request -/
inductive EditRes
| done (n : Node) (tr : List Ev)   -- returned True: the new tree and the events of interrupting the removed subtree
| notFound                         -- returned False
| runtimeError                     -- root / child of a decorator
| typeError                        -- insert under a non-composite
deriving Repr

namespace Node

/-- Python `list.insert(index, x)` -/
def listInsert (cs : List Node) (idx : Int) (x : Node) : List Node :=
  let n : Int := cs.length
  let i : Int := if idx < 0 then (if n + idx < 0 then 0 else n + idx) else (if idx > n then n else idx)
  cs.take i.toNat ++ x :: cs.drop i.toNat

/-- `Composite.remove_child(child)` on the children list: new remembered child, new list, interrupt events, index -/
def removeChild (cur : Option Nat) (cs : List Node) (target : Nat) : Option (Option Nat × List Node × List Ev × Nat) :=
  match cs.findIdx? (fun c => c.id = target) with
  | none => none
  | some i =>
    match cs[i]? with
    | none => none
    | some c =>
      let cur' := if cur = some target then none else cur
      let tr := if c.status = .running then (stopInv c).2 else []
      some (cur', cs.eraseIdx i, tr, i)

/- apply `f` to the composite (its current child and children) that has a direct child with id `target`;
   a decorator parent yields a RuntimeError.  `none` = no such node below. -/
mutual
def atParent (target : Nat) (f : Option Nat → List Node → Option (Option Nat × List Node × List Ev)) :
    Node → Option EditRes
| leaf _ _ _ _ => none
| seq i m s cur cs =>
    if cs.any (fun c => c.id = target) then
      match f cur cs with
      | some (cur', cs', tr) => some (.done (seq i m s cur' cs') tr)
      | none => some .notFound
    else match atParentL target f cs with
      | some (.inl (cs', tr)) => some (.done (seq i m s cur cs') tr)
      | some (.inr r) => some r
      | none => none
| sel i m s cur cs =>
    if cs.any (fun c => c.id = target) then
      match f cur cs with
      | some (cur', cs', tr) => some (.done (sel i m s cur' cs') tr)
      | none => some .notFound
    else match atParentL target f cs with
      | some (.inl (cs', tr)) => some (.done (sel i m s cur cs') tr)
      | some (.inr r) => some r
      | none => none
| par i p s cur cs =>
    if cs.any (fun c => c.id = target) then
      match f cur cs with
      | some (cur', cs', tr) => some (.done (par i p s cur' cs') tr)
      | none => some .notFound
    else match atParentL target f cs with
      | some (.inl (cs', tr)) => some (.done (par i p s cur cs') tr)
      | some (.inr r) => some r
      | none => none
| dec i k s c =>
    if c.id = target then some .runtimeError
    else match atParent target f c with
      | some (.done c' tr) => some (.done (dec i k s c') tr)
      | r => r
def atParentL (target : Nat) (f : Option Nat → List Node → Option (Option Nat × List Node × List Ev)) :
    List Node → Option (Sum (List Node × List Ev) EditRes)
| [] => none
| c :: cs =>
    match atParent target f c with
    | some (.done c' tr) => some (.inl (c' :: cs, tr))
    | some r => some (.inr r)
    | none =>
      match atParentL target f cs with
      | some (.inl (cs', tr)) => some (.inl (c :: cs', tr))
      | r => r
end

/-- `prune_subtree(id)` -/
def prune (n : Node) (target : Nat) : EditRes :=
  if n.id = target then .runtimeError
  else match atParent target (fun cur cs => (removeChild cur cs target).map (fun (c, l, tr, _) => (c, l, tr))) n with
    | some r => r
    | none => .notFound

/-- `replace_subtree(id, subtree)` -/
def replace (n : Node) (target : Nat) (sub : Node) : EditRes :=
  if n.id = target then .runtimeError
  else match atParent target (fun cur cs =>
      (removeChild cur cs target).map (fun (c, l, tr, i) => (c, listInsert l i sub, tr))) n with
    | some r => r
    | none => .notFound

/- apply `f` to the node with id `target` -/
mutual
def atNode (target : Nat) (f : Node → EditRes) : Node → Option EditRes
| n@(leaf i _ _ _) => if i = target then some (f n) else none
| n@(seq i m s cur cs) =>
    if i = target then some (f n) else
    match atNodeL target f cs with
    | some (.inl (cs', tr)) => some (.done (seq i m s cur cs') tr)
    | some (.inr r) => some r
    | none => none
| n@(sel i m s cur cs) =>
    if i = target then some (f n) else
    match atNodeL target f cs with
    | some (.inl (cs', tr)) => some (.done (sel i m s cur cs') tr)
    | some (.inr r) => some r
    | none => none
| n@(par i p s cur cs) =>
    if i = target then some (f n) else
    match atNodeL target f cs with
    | some (.inl (cs', tr)) => some (.done (par i p s cur cs') tr)
    | some (.inr r) => some r
    | none => none
| n@(dec i k s c) =>
    if i = target then some (f n) else
    match atNode target f c with
    | some (.done c' tr) => some (.done (dec i k s c') tr)
    | r => r
def atNodeL (target : Nat) (f : Node → EditRes) : List Node → Option (Sum (List Node × List Ev) EditRes)
| [] => none
| c :: cs =>
    match atNode target f c with
    | some (.done c' tr) => some (.inl (c' :: cs, tr))
    | some r => some (.inr r)
    | none =>
      match atNodeL target f cs with
      | some (.inl (cs', tr)) => some (.inl (c :: cs', tr))
      | r => r
end

/-- `insert_subtree(child, parent_id, index)` -/
def insert (n : Node) (parent : Nat) (idx : Int) (sub : Node) : EditRes :=
  match atNode parent (fun p => match p with
      | seq i m s cur cs => .done (seq i m s cur (listInsert cs idx sub)) []
      | sel i m s cur cs => .done (sel i m s cur (listInsert cs idx sub)) []
      | par i pl s cur cs => .done (par i pl s cur (listInsert cs idx sub)) []
      | _ => .typeError) n with
  | some r => r
  | none => .notFound

end Node
