/-
  Structure of the renderings of py_trees/display.py: the text tree (`_generate_text_tree`, one line per behaviour,
  depth-first, four "space" symbols per level, newlines in names replaced by blanks) and the dot graph
  (`dot_tree`: one node per displayed behaviour, names made unique by appending `*`, one edge per displayed
  parent-child link, children of collapsed decorators and of blackboxes at or above the visibility level omitted).
  Rendering is a pure function of its argument here; that the real functions are read-only is checked by the
  correspondence harness in every runtime state.
-/

abbrev Name := List Char

/-- what rendering looks at: name, blackbox level (1..4, 4 = not a blackbox), is it a decorator -/
inductive DTree
| node (name : Name) (bb : Nat) (isDec : Bool) (children : List DTree)
deriving Repr

namespace DTree

def name : DTree → Name | node n _ _ _ => n
def children : DTree → List DTree | node _ _ _ cs => cs

/-- `name.replace("\n", " ")` -/
def oneLine (n : Name) : Name := n.map (fun c => if c = '\n' then ' ' else c)

mutual
/-- the lines of the text tree with `show_only_visited = False`: (number of space symbols, name on one line) -/
def textLines (indent depth : Nat) : DTree → List (Nat × Name)
| node n _ _ cs => (4 * (indent + depth), oneLine n) :: textLinesL indent (depth + 1) cs
def textLinesL (indent depth : Nat) : List DTree → List (Nat × Name)
| [] => []
| c :: cs => textLines indent depth c ++ textLinesL indent depth cs
end

mutual
def size : DTree → Nat
| node _ _ _ cs => 1 + sizeL cs
def sizeL : List DTree → Nat
| [] => 0
| c :: cs => size c + sizeL cs
end

/-- `while node_name in map.values(): node_name += "*"`; the fuel is an upper bound on the iterations -/
def freshName (used : List Name) (n : Name) : Nat → Name
| 0 => n
| f+1 => if n ∈ used then freshName used (n ++ ['*']) f else n

structure Dot where
  used : List Name := []             -- `behaviour_id_name_map.values()` in insertion order = the node names
  edges : List (Name × Name) := []
deriving Repr

mutual
/-- `add_children_and_edges(root, …)` -/
def addChildren (vis : Nat) (collapse : Bool) (g : Dot) (rootName : Name) : DTree → Dot
| node _ bb isDec cs =>
    if isDec && collapse then g
    else if vis < bb then addChildrenL vis collapse g rootName cs
    else g
def addChildrenL (vis : Nat) (collapse : Bool) (g : Dot) (rootName : Name) : List DTree → Dot
| [] => g
| c :: cs =>
    let nm := freshName g.used c.name (g.used.length + 1)
    let g1 : Dot := { used := g.used ++ [nm], edges := g.edges ++ [(rootName, nm)] }
    let g2 := match c with
      | node _ _ _ [] => g1
      | _ => addChildren vis collapse g1 nm c
    addChildrenL vis collapse g2 rootName cs
end

/-- `dot_tree(root, visibility_level, collapse_decorators)` without blackboard nodes -/
def dotTree (vis : Nat) (collapse : Bool) (t : DTree) : Dot :=
  addChildren vis collapse { used := [t.name], edges := [] } t.name t

end DTree
