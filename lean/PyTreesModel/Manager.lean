/-
  `BehaviourTree.tick` (py_trees/trees.py): handlers, visitors, traversal, tick count; `SnapshotVisitor`
  (py_trees/visitors.py, repaired); `trees.setup` on the `timeout=INFINITE` path and `BehaviourTree.shutdown`.
-/
import PyTreesModel.Tree

/-- the call log of one `BehaviourTree.tick` -/
inductive MEv
| preOnce | pre (i : Nat) | vInit (j : Nat) | vRun (j : Nat) (id : Nat) (s : Status) | vFin (j : Nat)
| post (i : Nat) | postOnce
deriving DecidableEq, Repr

/-- `SnapshotVisitor` state -/
structure Snap where
  visited : List (Nat × Status) := []
  previously : List (Nat × Status) := []
  changed : Bool := false
deriving Repr

structure Mgr where
  visitors : List Bool := []     -- one entry per visitor: is it a `full` visitor
  nPre : Nat := 0
  nPost : Nat := 0
  count : Nat := 0
  snap : Snap := {}
deriving Repr

namespace Mgr
open Node

def ylds (tr : List Ev) : List (Nat × Status) :=
  tr.filterMap (fun e => match e with | .yld i s => some (i, s) | _ => none)

def lookup (i : Nat) : List (Nat × Status) → Option Status
| [] => none
| (j, s) :: l => if j = i then some s else lookup i l

/-- `visited[id] = status` (dict assignment keeps the first position) -/
def assign (i : Nat) (s : Status) : List (Nat × Status) → List (Nat × Status)
| [] => [(i, s)]
| (j, t) :: l => if j = i then (j, s) :: l else (j, t) :: assign i s l

/-- `SnapshotVisitor.run` over the yields of the tick, after `initialise` -/
def snapRun (prev : List (Nat × Status)) : List (Nat × Status) → Snap → Snap
| [], sn => sn
| (i, s) :: ys, sn =>
    let ch := match lookup i prev with | some p => decide (p ≠ s) | none => true
    snapRun prev ys { sn with visited := assign i s sn.visited, changed := sn.changed || ch }

def sameKeys (a b : List (Nat × Status)) : Bool :=
  a.all (fun x => (lookup x.1 b).isSome) && b.all (fun x => (lookup x.1 a).isSome)

/-- initialise + run + finalise of the snapshot visitor for one tick -/
def snapTick (sn : Snap) (ys : List (Nat × Status)) : Snap :=
  let s0 : Snap := { visited := [], previously := sn.visited, changed := false }
  let s1 := snapRun sn.visited ys s0
  { s1 with changed := s1.changed || !sameKeys s1.visited s1.previously }

/-- one `BehaviourTree.tick(pre_tick_handler?, post_tick_handler?)` -/
def treeTick (m : Mgr) (oncePre oncePost : Bool) (e : Env) (w : Store) (n : Node) :
    Except Err (Mgr × Node × Store × List MEv × List Ev) := do
  let (n', w', tr) ← n.tick e w
  let ys := ylds tr
  let idx := List.range m.visitors.length
  let ordinary := idx.filter (fun j => m.visitors[j]? = some false)
  let full := idx.filter (fun j => m.visitors[j]? = some true)
  let log :=
    (if oncePre then [MEv.preOnce] else []) ++ (List.range m.nPre).map MEv.pre ++ idx.map MEv.vInit ++
    (ys.map (fun (i, s) => ordinary.map (fun j => MEv.vRun j i s))).flatten ++
    ((iterate n').map (fun x => full.map (fun j => MEv.vRun j x.id x.status))).flatten ++
    idx.map MEv.vFin ++ (List.range m.nPost).map MEv.post ++ (if oncePost then [MEv.postOnce] else [])
  pure ({ m with count := m.count + 1, snap := snapTick m.snap ys }, n', w', log, tr)

mutual
/-- `setup()` of every behaviour, children before parents: Parallel validates its policy, Count zeroes its counters -/
def setupNode : Node → Except Err Node
| leaf i s k l => pure (leaf i s k l)
| seq i m s c cs => do let cs' ← setupL cs; pure (seq i m s c cs')
| sel i m s c cs => do let cs' ← setupL cs; pure (sel i m s c cs')
| par i p s c cs => do
    let cs' ← setupL cs
    if !validPolicy p cs' then throw Err.policy
    pure (par i p s c cs')
| dec i k s c => do
    let c' ← setupNode c
    let k' := match k with | .count _ _ _ _ _ => DecKind.count 0 0 0 0 0 | q => q
    pure (dec i k' s c')
def setupL : List Node → Except Err (List Node)
| [] => pure []
| c :: cs => do let c' ← setupNode c; let cs' ← setupL cs; pure (c' :: cs')
end

end Mgr
