import PyTreesModel.Status
import PyTreesModel.Tree
import PyTreesModel.Names
import PyTreesModel.Blackboard
import PyTreesModel.Edit
import PyTreesModel.Idioms
import PyTreesModel.Manager
