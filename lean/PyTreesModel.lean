import PyTreesModel.Status
import PyTreesModel.Tree
