/-
  Line-protocol driver. Input (stdin): blocks

      scenario <family> <name>
      <header line(s) of the family>
      <one operation per line>
      end

  Output: `scenario <name>`, the observation lines of every operation, `end`.
-/
import Driver.Codec
import Driver.Bt
import Driver.Bb
import Driver.Rd
import Driver.Hp

open Codec

partial def readBlock (h : IO.FS.Stream) (acc : Array String) : IO (Array String × Bool) := do
  let line ← h.getLine
  if line.isEmpty then return (acc, true)
  let l := (line.trimAscii).toString
  if l = "end" then return (acc, false)
  readBlock h (acc.push l)

def runBt (lines : List String) : List String :=
  match lines with
  | [] => ["bad-scenario"]
  | treeLine :: ops =>
    match Bt.init treeLine with
    | none => ["bad-tree"]
    | some st =>
      let (_, out) := ops.foldl (fun (acc : Bt.St × List String) op =>
        let (st', o) := Bt.step acc.1 op
        (st', acc.2 ++ ["> " ++ op] ++ o)) (st, ["SPEC " ++ treeStr st.tree])
      out.map (fun l => String.ofList (l.toList.map (fun c => if c = '\n' then '^' else if c = '\t' then '!' else c)))

def runBb (lines : List String) : List String :=
  let (_, out) := lines.foldl (fun (acc : BB × List String) op =>
    let (st', o) := Bb.step acc.1 op
    (st', acc.2 ++ ["> " ++ op] ++ o)) (({} : BB), [])
  out

def runName (lines : List String) : List String :=
  (lines.map (fun l => ["> " ++ l, Bb.nameStep l])).flatten

partial def loop (hin hout : IO.FS.Stream) : IO Unit := do
  let line ← hin.getLine
  if line.isEmpty then return ()
  let toks := tokens line
  match toks with
  | ["scenario", fam, name] =>
      let (body, eof) ← readBlock hin #[]
      hout.putStrLn s!"scenario {name}"
      let out := match fam with
        | "bt" => runBt body.toList
        | "bb" => runBb body.toList
        | "name" => runName body.toList
        | "rd" => Rd.run body.toList
        | "heap" => Hp.run body.toList
        | _ => ["bad-family"]
      for l in out do hout.putStrLn l
      hout.putStrLn "end"
      if eof then return ()
      loop hin hout
  | [] => loop hin hout
  | _ => hout.putStrLn "bad-line"; loop hin hout

def main : IO Unit := do
  let hin ← IO.getStdin
  let hout ← IO.getStdout
  loop hin hout
  hout.flush
