/-
  `heap` scenario family: child-management operations on a pool of behaviours.
  header:  pool Q S P L L D…      (kinds of objects 0..n-1; decorators are created by `decorate`)
-/
import Driver.Codec
import PyTreesModel.Heap

namespace Hp
open Codec

def kindOf : String → Option HKind
| "Q" => some .seq | "S" => some .sel | "P" => some .par | "L" => some .leaf | _ => none

def errStr : HErr → String
| .typeError => "TypeError" | .runtimeError => "RuntimeError" | .valueError => "ValueError" | .indexError => "IndexError"
| .attributeError => "AttributeError"

def optN (o : Option Nat) : String := match o with | some n => toString n | none => "-"

def dump (h : Heap) : List String :=
  (List.range h.length).filterMap (fun i => (h.get? i).map (fun n =>
    s!"H{i} p={optN n.parent} c={String.intercalate "," (n.children.map toString)} cur={optN n.cur} st={stStr n.status}"))

/-- an object argument: an index, or `nb` for something that is not a behaviour -/
def obj (t : String) : Option Nat := t.toNat?

def fin (h : Heap) (r : Except HErr Heap) : Heap × List String :=
  match r with
  | .ok h' => (h', "R ok" :: dump h')
  | .error e => (h, ("R " ++ errStr e) :: dump h)

def step (h : Heap) (line : String) : Heap × List String :=
  match tokens line with
  | ["add", p, c] => match p.toNat? with | some p => fin h (h.addChild p (obj c)) | none => (h, ["bad-op"])
  | ["addmany", p, cs] =>
      match p.toNat? with
      | some p => fin h (h.addChildren p ((cs.splitOn ",").map obj))
      | none => (h, ["bad-op"])
  | ["insert", p, c, i] =>
      match p.toNat?, i.toInt? with | some p, some i => fin h (h.insertChild p (obj c) i) | _, _ => (h, ["bad-op"])
  | ["prepend", p, c] => match p.toNat? with | some p => fin h (h.insertChild p (obj c) 0) | none => (h, ["bad-op"])
  | ["remove", p, c] =>
      match p.toNat?, c.toNat? with
      | some p, some c => fin h ((h.removeChild p c).map (·.1))
      | _, _ => (h, ["bad-op"])
  | ["removeid", p, c] =>
      match p.toNat?, c.toNat? with | some p, some c => fin h (h.removeChildById p c) | _, _ => (h, ["bad-op"])
  | ["removeall", p] => match p.toNat? with | some p => fin h (.ok (h.removeAll p)) | none => (h, ["bad-op"])
  | ["replace", p, c, r] =>
      match p.toNat?, c.toNat? with | some p, some c => fin h (h.replaceChild p c (obj r)) | _, _ => (h, ["bad-op"])
  | ["decorate", c] => fin h (h.decorate (obj c))
  | ["mark", c, s] =>
      match c.toNat?, parseSt s with
      | some c, some s => fin h (.ok (h.upd c (fun x => { x with status := s })))
      | _, _ => (h, ["bad-op"])
  | ["cur", p, c] =>
      match p.toNat? with
      | some p => fin h (.ok (h.upd p (fun x => { x with cur := c.toNat? })))
      | none => (h, ["bad-op"])
  | _ => (h, ["bad-op"])

def run (lines : List String) : List String :=
  match lines with
  | [] => ["bad-scenario"]
  | hd :: ops =>
    match tokens hd with
    | "pool" :: ks =>
        let h : Heap := ks.filterMap (fun k => (kindOf k).map (fun kd => ({ kind := kd } : HNode)))
        (ops.foldl (fun (acc : Heap × List String) op =>
          let (h', o) := step acc.1 op
          (h', acc.2 ++ ["> " ++ op] ++ o)) (h, [])).2
    | _ => ["bad-pool"]

end Hp
