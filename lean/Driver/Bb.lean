/-
  `bb` scenario family (blackboard client operations) and `name` family (name algebra).
-/
import Driver.Codec
import PyTreesModel.Blackboard

namespace Bb
open Codec

def sortS (l : List String) : List String := l.mergeSort (· ≤ ·)
def sortN (l : List Nat) : List Nat := l.mergeSort (· ≤ ·)
def natsStr (l : List Nat) : String := String.intercalate "," ((sortN l).map toString)
def strsStr (l : List String) : String := String.intercalate "," (sortS l)

def actStr : ActType → String
| .read => "READ" | .initialised => "INITIALISED" | .write => "WRITE" | .accessed => "ACCESSED"
| .accessDenied => "ACCESS_DENIED" | .noKey => "NO_KEY" | .noOverwrite => "NO_OVERWRITE" | .unset => "UNSET"

/-- values inside stream records: objects are rendered opaquely (Python keeps a reference that later mutations show through) -/
def recVal : Option Val → String
| none => "-"
| some (.obj _) => "o"
| some v => valStr v

def itemStr (it : Item) : String :=
  s!"{it.key},{it.client},{actStr it.typ},{recVal it.prev},{recVal it.cur}"

def resStr : Res → String
| .ok => "ok" | .val v => "val " ++ valStr v | .bool b => if b then "True" else "False"
| .fetcher ns => "fetcher " ++ ns | .keys ks => "keys " ++ strsStr ks
| .keyError => "KeyError" | .attrError => "AttributeError" | .typeError => "TypeError" | .indexError => "IndexError"

def metaStr (m : Meta) : String := s!"r:{natsStr m.read}|w:{natsStr m.write}|x:{natsStr m.excl}"

def clientStr (i : Nat) (c : Client) : String :=
  let rm := String.intercalate "," (sortS (c.remap.map (fun (k, v) => k ++ ">" ++ v)))
  s!"C{i} ns={c.ns} r={strsStr c.read} w={strsStr c.write} x={strsStr c.excl} q={strsStr c.required} m={rm} n={strsStr c.namespaces}"

def report (s : BB) (r : String) : List String :=
  let st := String.intercalate " " ((s.storage.mergeSort (fun a b => a.1 ≤ b.1)).map (fun (k, v) => k ++ "=" ++ valStr v))
  let mt := String.intercalate " " ((s.metadata.mergeSort (fun a b => a.1 ≤ b.1)).map (fun (k, m) => k ++ "=" ++ metaStr m))
  let cls := (List.range s.clients.length).filterMap (fun i => (s.clients[i]?).map (clientStr i))
  let a := match s.stream with
    | none => "A off"
    | some (mx, d) => s!"A {mx} " ++ String.intercalate ";" (d.map itemStr)
  ["R " ++ r, "S " ++ st, "M " ++ mt, "G " ++ natsStr s.registry] ++ cls ++ [a]

def parseAccess : String → Option Access
| "R" => some .read | "W" => some .write | "X" => some .exclusive | _ => none

def optTok (t : String) : Option String := if t = "-" then none else some t

def step (s : BB) (line : String) : BB × List String :=
  let fin (r : BB × Res) : BB × List String := (r.1, report r.1 (resStr r.2))
  match tokens line with
  | ["new", ns] => let r := s.newClient (if ns = "-" then "" else ns); (r.1, report r.1 s!"client {r.2}")
  | ["reg", c, key, acc, req, remap] =>
      match c.toNat? with
      | some c => fin (s.register c key (parseAccess acc) (req = "1") (optTok remap))
      | none => (s, ["bad-op"])
  | ["unregkey", c, key, clear] =>
      match c.toNat? with | some c => fin (s.unregisterKey c key (clear = "1")) | none => (s, ["bad-op"])
  | ["unregall", c, clear] =>
      match c.toNat? with | some c => fin (s.unregisterAll c (clear = "1") sortS) | none => (s, ["bad-op"])
  | ["unreg", c, clear] =>
      match c.toNat? with | some c => fin (s.unregister c (clear = "1") sortS) | none => (s, ["bad-op"])
  | ["setattr", c, key, v] =>
      match c.toNat?, parseVal v with | some c, some v => fin (s.setattr c key v) | _, _ => (s, ["bad-op"])
  | ["getattr", c, key] =>
      match c.toNat? with | some c => fin (s.getattr c key) | none => (s, ["bad-op"])
  | ["set", c, name, v, ow] =>
      match c.toNat?, parseVal v with | some c, some v => fin (s.set c name v (ow = "1")) | _, _ => (s, ["bad-op"])
  | ["get", c, name] =>
      match c.toNat? with | some c => fin (s.get c name) | none => (s, ["bad-op"])
  | ["exists", c, name] =>
      match c.toNat? with | some c => fin (s.exists_ c name) | none => (s, ["bad-op"])
  | ["unset", c, key] =>
      match c.toNat? with | some c => fin (s.unset c key) | none => (s, ["bad-op"])
  | ["dotget", c, path] =>
      match c.toNat? with | some c => fin (s.dotGet c (path.splitOn ",")) | none => (s, ["bad-op"])
  | ["dotset", c, path, v] =>
      match c.toNat?, parseVal v with
      | some c, some v => fin (s.dotSet c (path.splitOn ",") v) | _, _ => (s, ["bad-op"])
  | ["verify", c] =>
      match c.toNat? with
      | some c => fin (s.verify c sortS)
      | none => (s, ["bad-op"])
  | ["isreg", c, key, acc] =>
      match c.toNat? with | some c => fin (s, s.isRegistered c key (parseAccess acc)) | none => (s, ["bad-op"])
  | ["keys"] => fin (s, .keys s.keys)
  | ["keysre", lit] => fin (s, .keys (s.keysByLiteral lit))
  | ["keysby", ids] => match parseNatList ids with | some ids => fin (s, .keys (s.keysByClients ids)) | none => (s, ["bad-op"])
  | ["sget", name] => fin (s, s.sget name)
  | ["sexists", name] => fin (s, s.sexists name)
  | ["sset", name, v] => match parseVal v with | some v => fin (s.sset name v) | none => (s, ["bad-op"])
  | ["sunset", key] => fin (s.sunset key)
  | ["stream", "on", n] => match n.toNat? with | some n => fin (s.streamOn n, .ok) | none => (s, ["bad-op"])
  | ["stream", "off"] => fin (s.streamOff, .ok)
  | ["stream", "clear"] => fin (s.streamClear, .ok)
  | _ => (s, ["bad-op"])

/-- `name` family: one question per line -/
def nameStep (line : String) : String :=
  let d (t : String) : String := if t = "-" then "" else t
  match tokens line with
  | ["abs", ns, k] => "R " ++ absNameS (d ns) (d k)
  | ["rel", ns, k] => match relNameS (d ns) (d k) with | some r => "R " ++ r | none => "KeyError"
  | ["clientns", ns] => "R " ++ clientNsS (d ns)
  | ["closure", k] => "R " ++ String.intercalate "," (sortS (nsClosureS (d k)))
  | ["rebuild", k] =>
      -- register k, register and unregister another key: the cache is rebuilt from the remaining key
      let s0 : BB := ({} : BB).newClient "" |>.1
      let s1 := (s0.register 0 (d k) (some .read) false none).1
      let s2 := (s1.register 0 "/zz" (some .read) false none).1
      let s3 := (s2.unregisterKey 0 "/zz" true).1
      "R " ++ String.intercalate "," (sortS ((s3.clients[0]?.map Client.namespaces).getD []))
  | ["cacc", ns, k] =>
      -- a client in namespace ns registers k (EXCLUSIVE_WRITE) and a deeper key k/s (so that k is also one of its
      -- namespaces), writes 7 by attribute, reads it back by attribute, by get() of the absolute name and statically;
      -- last field: Client.absolute_name(k)
      let s0 : BB := ({} : BB).newClient (d ns) |>.1
      let r0 := s0.register 0 (d k) (some .exclusive) false none
      let r0b := r0.1.register 0 (d k ++ "/s") (some .write) false none
      let r1 := r0b.1.setattr 0 (d k) (.int 7)
      let r2 := r1.1.getattr 0 (d k)
      let a := absNameS (clientNsS (d ns)) (d k)
      let r3 := r2.1.get 0 a
      let reg := match r3.1.isRegistered 0 (d k) none with | .bool true => a | _ => "KeyError"
      -- dotted access through the client's own namespace: the relative key d/e, written by attribute, read as c.d.e
      let r4 := r3.1.register 0 "d/e" (some .write) false none
      let r5 := r4.1.setattr 0 "d/e" (.int 3)
      let r6 := r5.1.dotGet 0 ["d", "e"]
      -- afterwards the namespace d itself is registered as a key, written and read by attribute
      let r7 := r6.1.register 0 "d" (some .write) false none
      let r8 := r7.1.setattr 0 "d" (.int 4)
      let r9 := r8.1.getattr 0 "d"
      "R " ++ String.intercalate "|" [resStr r0.2, resStr r1.2, resStr r2.2, resStr r3.2, resStr (r3.1.sget a), reg,
                                      resStr r6.2, resStr r9.2]
  | ["cshare", nsA, kA, nsB, kB] =>
      -- two clients: A writes 1 through kA, B writes 2 through kB, A reads: same location iff same absolute name
      let s0 : BB := ({} : BB).newClient (d nsA) |>.1
      let s1 := s0.newClient (d nsB) |>.1
      let s2 := (s1.register 0 (d kA) (some .write) false none).1
      let s3 := (s2.register 1 (d kB) (some .write) false none).1
      let s4 := (s3.setattr 0 (d kA) (.int 1)).1
      let s5 := (s4.setattr 1 (d kB) (.int 2)).1
      "R " ++ resStr (s5.getattr 0 (d kA)).2
  | ["cremap", nsA, kA, loc] =>
      -- A's key kA is remapped to loc; another client owns loc and A's own name. set(overwrite=False) must look at
      -- the remap target: (target occupied) -> False, value kept; (only own name occupied) -> True, target written
      let run (occupyTarget : Bool) : String :=
        let s0 : BB := ({} : BB).newClient (d nsA) |>.1
        let s1 := s0.newClient "" |>.1
        let own := absNameS (clientNsS (d nsA)) (d kA)
        let s2 := (s1.register 0 (d kA) (some .write) false (some loc)).1
        let s3 := (s2.register 1 loc (some .write) false none).1
        let s4 := (s3.register 1 own (some .write) false none).1
        let s5 := (s4.setattr 1 (if occupyTarget then loc else own) (.int 1)).1
        let r := s5.set 0 (d kA) (.int 2) false
        resStr r.2 ++ "," ++ resStr (r.1.sget loc) ++ "," ++ resStr (r.1.sget own)
      -- a REJECTED re-registration of the remapped key (its own name is locked by somebody else) leaves the key
      -- addressing the remap target
      let rejected : String :=
        let s0 : BB := ({} : BB).newClient (d nsA) |>.1
        let s1 := s0.newClient "" |>.1
        let own := absNameS (clientNsS (d nsA)) (d kA)
        let s2 := (s1.register 0 (d kA) (some .write) false (some loc)).1
        let s3 := (s2.register 1 own (some .exclusive) false none).1
        let s4 := (s3.register 1 loc (some .write) false none).1
        let s5 := (s4.setattr 1 loc (.int 1)).1
        let r := s5.register 0 (d kA) (some .write) false none
        resStr r.2 ++ "," ++ resStr (r.1.getattr 0 (d kA)).2
      -- unregistering the remapped key (somebody else still uses the target) and registering it again without a remap
      -- makes it address its own name
      let again : String :=
        let s0 : BB := ({} : BB).newClient (d nsA) |>.1
        let s1 := s0.newClient "" |>.1
        let own := absNameS (clientNsS (d nsA)) (d kA)
        let s2 := (s1.register 0 (d kA) (some .write) false (some loc)).1
        let s3 := (s2.register 1 loc (some .write) false none).1
        let s4 := (s3.unregisterKey 0 (d kA) true).1
        let s5 := (s4.register 0 (d kA) (some .write) false none).1
        let s6 := (s5.setattr 0 (d kA) (.int 5)).1
        resStr (s6.sget own) ++ "," ++ resStr (s6.sget loc)
      -- `Client.absolute_name(key)` of a registered key is the key's own absolute name, remapped or not
      "R " ++ run true ++ "|" ++ run false ++ "|" ++ absNameS (clientNsS (d nsA)) (d kA) ++ "|" ++ rejected ++ "|" ++ again
  | _ => "bad-op"

end Bb
