/-
  `bt` scenario family: a tree, then tick / stop / blackboard-poke operations.
-/
import Driver.Codec
import PyTreesModel.Edit
import PyTreesModel.Idioms
import PyTreesModel.Manager

namespace Bt
open Codec

structure St where
  tree : Node
  w : Store
  keys : List String
  dead : Bool := false      -- an operation raised: the scenario is over
  mgr : Mgr := {}

/-- `o=1:S,2:F` -/
def parsePairs (s : String) : List (Nat × String) :=
  if s = "" then [] else
  (s.splitOn ",").filterMap (fun p => match p.splitOn ":" with
    | [a, b] => a.toNat?.map (fun a => (a, b))
    | _ => none)

def mkEnv (toks : List String) : Env :=
  let get (pfx : String) : String :=
    match toks.find? (fun t => t.startsWith pfx) with
    | some t => (t.drop pfx.length).toString
    | none => ""
  let outs := parsePairs (get "o=")
  let gs := parsePairs (get "g=")
  { outcome := fun i => match outs.find? (fun p => p.1 = i) with
      | some (_, s) => (parseSt s).getD .running
      | none => .running
    guard := fun i => match gs.find? (fun p => p.1 = i) with
      | some (_, s) => s = "1" || s = "S" || s = "R"     -- a condition answers a bool or a Status: only False / FAILURE close it
      | none => true
    now := ((get "t=").toInt?).getD 0 }

def errStr : Err → String
| .internal => "internal" | .policy => "RuntimeError" | .key => "KeyError" | .type => "TypeError"
| .fuel => "fuel"

/-- tips of every subtree; entry `0` is `BehaviourTree.tip()`, i.e. the root's tip -/
def tipsStr (n : Node) : String :=
  String.intercalate " " (s!"0={optNat n.tip}" :: (preorder n).map (fun m => s!"{m.id}={optNat m.tip}"))

def report (st : St) (tr : List Ev) : List String :=
  [ "T " ++ String.intercalate " " (tr.map evStr),
    "N " ++ String.intercalate " " (dump st.tree),
    "W " ++ storeStr st.keys st.w,
    "P " ++ tipsStr st.tree ]

mutual
/-- stop(INVALID) delivered to the node with the given id -/
def stopAt (target : Nat) : Node → Node × List Ev
| n@(.leaf i _ _ _) => if i = target then n.stopInv else (n, [])
| n@(.seq i m s c cs) => if i = target then n.stopInv else let r := stopAtL target cs; (.seq i m s c r.1, r.2)
| n@(.sel i m s c cs) => if i = target then n.stopInv else let r := stopAtL target cs; (.sel i m s c r.1, r.2)
| n@(.par i p s c cs) => if i = target then n.stopInv else let r := stopAtL target cs; (.par i p s c r.1, r.2)
| n@(.dec i k s c) => if i = target then n.stopInv else let r := stopAt target c; (.dec i k s r.1, r.2)
def stopAtL (target : Nat) : List Node → List Node × List Ev
| [] => ([], [])
| c :: cs => let r := stopAt target c; let rs := stopAtL target cs; (r.1 :: rs.1, r.2 ++ rs.2)
end

mutual
/-- `parallel.policy = p` assigned to the Parallel with the given id -/
def setPolAt (target : Nat) (p : Policy) : Node → Node
| n@(.leaf _ _ _ _) => n
| .seq i m s c cs => .seq i m s c (setPolAtL target p cs)
| .sel i m s c cs => .sel i m s c (setPolAtL target p cs)
| .par i q s c cs => .par i (if i = target then p else q) s c (setPolAtL target p cs)
| .dec i k s c => .dec i k s (setPolAt target p c)
def setPolAtL (target : Nat) (p : Policy) : List Node → List Node
| [] => []
| c :: cs => setPolAt target p c :: setPolAtL target p cs
end

def mevStr : MEv → String
| .preOnce => "preOnce" | .pre i => s!"pre{i}" | .vInit j => s!"vi{j}" | .vRun j i s => s!"vr{j}:{i}:{stStr s}"
| .vFin j => s!"vf{j}" | .post i => s!"post{i}" | .postOnce => "postOnce"

def pairsStr (l : List (Nat × Status)) : String :=
  String.intercalate "," ((l.mergeSort (fun a b => a.1 ≤ b.1)).map (fun (i, s) => s!"{i}:{stStr s}"))

def getTok (toks : List String) (pfx : String) : String :=
  match toks.find? (fun t => t.startsWith pfx) with
  | some t => (t.drop pfx.length).toString
  | none => ""

/-- ids in `iterate` order up to (excluding) the first Parallel whose policy is invalid -/
def setupLog (n : Node) : List Nat × Bool :=
  let rec go : List Node → List Nat → List Nat × Bool
    | [], acc => (acc.reverse, true)
    | x :: xs, acc =>
      match x with
      | .par _ p _ _ cs => if Node.validPolicy p cs then go xs (x.id :: acc) else ((x.id :: acc).reverse, false)
      | _ => go xs (x.id :: acc)
  go (Node.iterate n) []

def edit (st : St) : EditRes → St × List String
| .done n tr => let st' := { st with tree := n }; (st', "R True" :: report st' tr)
| .notFound => (st, "R False" :: report st [])
| .runtimeError => (st, "R RuntimeError" :: report st [])
| .typeError => (st, "R TypeError" :: report st [])

def doSetup (st : St) : St × List String :=
  let (ids, _) := setupLog st.tree
  match Mgr.setupNode st.tree with
  | .ok n' => ({ st with tree := n' }, ["U " ++ String.intercalate " " (ids.map toString)] ++ report { st with tree := n' } [])
  | .error e => ({ st with dead := true }, ["U " ++ String.intercalate " " (ids.map toString), "ERR " ++ errStr e])

def step (st : St) (line : String) : St × List String :=
  if st.dead then (st, ["SKIP"]) else
  match tokens line with
  | "tick" :: rest =>
      match st.tree.tick (mkEnv rest) st.w with
      | .ok (n', w', tr) => let st' := { st with tree := n', w := w' }; (st', report st' tr)
      | .error e => ({ st with dead := true }, ["ERR " ++ errStr e])
  | ["setpol", i, pol] =>
      match i.toNat?, parsePolicy pol with
      | some i, some p => let st' := { st with tree := setPolAt i p st.tree }; (st', report st' [])
      | _, _ => (st, ["bad-op"])
  | ["stop", i] =>
      match i.toNat? with
      | some i => let r := stopAt i st.tree; let st' := { st with tree := r.1 }; (st', report st' r.2)
      | none => (st, ["bad-op"])
  | ["setbb", k, v] =>
      match parseVal v with
      | some v => let st' := { st with w := st.w.set k v, keys := k :: st.keys }; (st', report st' [])
      | none => (st, ["bad-op"])
  | ["unsetbb", k] => let st' := { st with w := st.w.unset k }; (st', report st' [])
  | ["render"] => (st, "RO ok" :: report st [])    -- rendering is a pure function of the state in the model
  | "mgr" :: rest =>
      let v := getTok rest "v="
      let m : Mgr := { visitors := v.toList.map (· == 'f'), nPre := (getTok rest "pre=").toNat?.getD 0,
                       nPost := (getTok rest "post=").toNat?.getD 0 }
      ({ st with mgr := m }, ["ok"])
  | "mtick" :: rest =>
      -- `a=o|f`: the one-off pre-tick handler adds a visitor (ordinary / full) before the traversal starts
      let add := getTok rest "a="
      let m0 : Mgr := if add = "" then st.mgr else { st.mgr with visitors := st.mgr.visitors ++ [add == "f"] }
      match m0.treeTick (getTok rest "p=" = "1" || add != "") (getTok rest "q=" = "1") (mkEnv rest) st.w st.tree with
      | .ok (m', n', w', log, tr) =>
          let st' := { st with tree := n', w := w', mgr := m' }
          (st', ["L " ++ String.intercalate " " (log.map mevStr), s!"K {m'.count}",
                 s!"V {pairsStr m'.snap.visited} | {pairsStr m'.snap.previously} | {boolStr m'.snap.changed}"]
                ++ report st' tr)
      | .error e => ({ st with dead := true }, ["ERR " ++ errStr e])
  | ["setup"] => doSetup st
  | ["setupt"] => doSetup st      -- setup(timeout=…): same contract on the path that does not time out
  | ["shutdown"] =>
      (st, ["D " ++ String.intercalate " " ((Node.iterate st.tree).map (fun x => toString x.id))])
  | ["prune", i] =>
      match i.toNat? with
      | some i => edit st (st.tree.prune i)
      | none => (st, ["bad-op"])
  | "replace" :: i :: sub =>
      match i.toNat?, parseTree sub with
      | some i, some (t, []) => edit { st with keys := treeKeys t ++ st.keys } (st.tree.replace i t)
      | _, _ => (st, ["bad-op"])
  | "insert" :: p :: idx :: sub =>
      match p.toNat?, idx.toInt?, parseTree sub with
      | some p, some idx, some (t, []) => edit { st with keys := treeKeys t ++ st.keys } (st.tree.insert p idx t)
      | _, _, _ => (st, ["bad-op"])
  | _ => (st, ["bad-op"])

/-- names travel through the whitespace-separated protocol with `~` for a blank, `^` for a newline, `!` for a tab -/
def decodeName (t : String) : String :=
  String.ofList (t.toList.map (fun c => if c = '~' then ' ' else if c = '^' then '\n' else if c = '!' then '\t' else c))

partial def parseTasks : List String → Option (List (String × Node))
| [] => some []
| nm :: rest => do
    let (t, rest') ← parseTree rest
    let more ← parseTasks rest'
    pure ((decodeName nm, t) :: more)

partial def parseTrees : List String → Option (List Node)
| [] => some []
| ts => do
    let (t, rest) ← parseTree ts
    let more ← parseTrees rest
    pure (t :: more)

/-- header of a scenario: `tree <spec>` or `idiom <kind> …` (the model builds the idiom itself) -/
def initTree (toks : List String) : Option Node :=
  match toks with
  | "tree" :: spec => match parseTree spec with | some (n, []) => some n | _ => none
  | "idiom" :: "pickup" :: rest => (parseTasks rest).map (fun ts => Idioms.renumber (Idioms.pickUp ts))
  | "idiom" :: "oneshot" :: key :: path :: both :: rest =>
      match parseTree rest with
      | some (b, []) => some (Idioms.renumber (Idioms.oneshot b key (parsePath path) (both = "1")))
      | _ => none
  | "idiom" :: "eitheror2" :: n :: rest => do
      -- two either_or idioms with the same name and the DEFAULT namespace (derived from the name and the root's
      -- unique id; the harness canonicalises the ids to U1, U2 in order of appearance) side by side under a Parallel
      let n ← n.toNat?
      let (cs, rest') ← parseChecks n rest
      let ts ← parseTrees rest'
      let eo1 := Idioms.eitherOr cs (ts.take n) "/either_or/U1/conditions"
      let eo2 := Idioms.eitherOr cs (ts.drop n) "/either_or/U2/conditions"
      pure (Idioms.renumber (Node.par 0 (.onAll false) .invalid none [eo1, eo2]))
  | "idiom" :: "eitheror" :: ns :: n :: rest => do
      let n ← n.toNat?
      let (cs, rest') ← parseChecks n rest
      let ts ← parseTrees rest'
      -- `-` stands for the empty namespace (the root namespace: the flags are /1 … /n)
      pure (Idioms.renumber (Idioms.eitherOr cs ts (if ns = "-" then "" else ns)))
  | _ => none

def init (headerLine : String) : Option St :=
  (initTree (tokens headerLine)).map (fun n => { tree := n, w := Store.empty, keys := treeKeys n })

end Bt
