/-
  `rd` scenario family: structure of text / dot renderings.
  header:  dtree ( <name> <bb> <isDec> <child>… )     names use ~ for blank, ^ for newline, % for carriage return
-/
import Driver.Codec
import PyTreesModel.Display

namespace Rd
open Codec

def decName (t : String) : Name :=
  t.toList.map (fun c => if c = '~' then ' ' else if c = '^' then '\n' else if c = '%' then '\r' else c)
def encName (n : Name) : String :=
  String.ofList (n.map (fun c => if c = ' ' then '~' else if c = '\n' then '^' else if c = '\r' then '%' else c))

partial def parseD : List String → Option (DTree × List String)
| "(" :: nm :: bb :: d :: rest => do
    let bb ← bb.toNat?
    let (cs, r) ← kids rest []
    pure (.node (decName nm) bb (d = "1") cs, r)
| _ => none
where
  kids : List String → List DTree → Option (List DTree × List String)
  | ")" :: r, acc => some (acc.reverse, r)
  | ts, acc => do let (c, r) ← parseD ts; kids r (c :: acc)

/-- all subtrees in pre-order (the tree itself first) -/
partial def subtrees : DTree → List DTree
| .node n b d cs => .node n b d cs :: (cs.map subtrees).flatten

def step (t : DTree) (line : String) : List String :=
  match tokens line with
  | ["textsub", k, ind] =>     -- text rendering of the k-th behaviour in pre-order, i.e. of a subtree still attached
      match k.toNat?, ind.toNat? with
      | some k, some i =>
          match (subtrees t)[k]? with
          | some sub => ["X " ++ String.intercalate " " ((DTree.textLines i 0 sub).map (fun (n, nm) => s!"{n}:{encName nm}"))]
          | none => ["X"]
      | _, _ => ["bad-op"]
  | ["text", ind] =>
      match ind.toNat? with
      | some i => ["X " ++ String.intercalate " " ((DTree.textLines i 0 t).map (fun (n, nm) => s!"{n}:{encName nm}"))]
      | none => ["bad-op"]
  | ["texts", ind] =>     -- show_status=True: same lines (the status suffix is stripped by the harness)
      match ind.toNat? with
      | some i => ["X " ++ String.intercalate " " ((DTree.textLines i 0 t).map (fun (n, nm) => s!"{n}:{encName nm}"))]
      | none => ["bad-op"]
  | ["dotfile", vis, col] =>     -- render_dot_tree: the graph written to the .dot file (node and edge counts)
      match vis.toNat? with
      | some v =>
          let g := DTree.dotTree v (col = "1") t
          [s!"NC {g.used.length}", s!"EC {g.edges.length}"]
      | none => ["bad-op"]
  | ["dot", vis, col] =>
      match vis.toNat? with
      | some v =>
          let g := DTree.dotTree v (col = "1") t
          let ns := (g.used.map encName).mergeSort (· ≤ ·)
          let es := (g.edges.map (fun (a, b) => encName a ++ ">" ++ encName b)).mergeSort (· ≤ ·)
          ["N " ++ String.intercalate " " ns, "E " ++ String.intercalate " " es]
      | none => ["bad-op"]
  | _ => ["bad-op"]

def run (lines : List String) : List String :=
  match lines with
  | [] => ["bad-scenario"]
  | h :: ops =>
    match tokens h with
    | "dtree" :: spec =>
        match parseD spec with
        | some (t, []) => (ops.map (fun op => ("> " ++ op) :: step t op)).flatten
        | _ => ["bad-tree"]
    | _ => ["bad-tree"]

end Rd
