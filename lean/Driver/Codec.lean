/-
  Text codec of the line protocol: tokens, values, trees. Not part of the model (may use `partial`).
-/
import PyTreesModel.Status
import PyTreesModel.Tree

namespace Codec

def tokens (s : String) : List String :=
  ((s.splitOn " ").map (fun t => (t.trimAscii).toString)).filter (· ≠ "")

def stStr : Status → String
| .success => "S" | .failure => "F" | .running => "R" | .invalid => "I"

def parseSt : String → Option Status
| "S" => some .success | "F" => some .failure | "R" => some .running | "I" => some .invalid
| _ => none

def optNat : Option Nat → String
| some n => toString n | none => "-"

/-! values:  n | i:<int> | b:<0/1> | s:<S/F/R/I> | t:<chars> | o{a=<val>,b=<val>}  -/

def isNameChar (c : Char) : Bool := c.isAlphanum || c == '_' || c == '/' || c == '.'

partial def parseValC : List Char → Option (Val × List Char)
| 'n' :: rest => some (.null, rest)
| 'i' :: ':' :: rest =>
    let (d, rest') := rest.span (fun c => c.isDigit || c == '-')
    (String.ofList d).toInt?.map (fun n => (.int n, rest'))
| 'b' :: ':' :: '1' :: rest => some (.bool true, rest)
| 'b' :: ':' :: '0' :: rest => some (.bool false, rest)
| 's' :: ':' :: c :: rest => (parseSt (String.ofList [c])).map (fun s => (.status s, rest))
| 't' :: ':' :: rest =>
    let (d, rest') := rest.span isNameChar
    some (.str (String.ofList d), rest')
| 'o' :: '{' :: rest => parseFields rest []
| _ => none
where
  parseFields : List Char → List (String × Val) → Option (Val × List Char)
  | '}' :: rest, acc => some (.obj acc.reverse, rest)
  | ',' :: rest, acc => parseFields rest acc
  | cs, acc =>
      let (nm, rest) := cs.span isNameChar
      match rest with
      | '=' :: rest' =>
          match parseValC rest' with
          | some (v, rest'') => parseFields rest'' ((String.ofList nm, v) :: acc)
          | none => none
      | _ => none

def parseVal (s : String) : Option Val :=
  match parseValC s.toList with
  | some (v, []) => some v
  | _ => none

partial def valStr : Val → String
| .null => "n"
| .int n => s!"i:{n}"
| .bool b => if b then "b:1" else "b:0"
| .status s => "s:" ++ stStr s
| .str s => "t:" ++ s
| .obj fs =>
    let sorted := fs.mergeSort (fun a b => a.1 ≤ b.1)
    "o{" ++ String.intercalate "," (sorted.map (fun (k, v) => k ++ "=" ++ valStr v)) ++ "}"

/-- `a.b.c` ↦ ["a","b","c"]; `-` ↦ [] -/
def parsePath (s : String) : List String := if s = "-" then [] else s.splitOn "."
def pathStr (p : List String) : String := if p.isEmpty then "-" else String.intercalate "." p

def parseOp : String → Option CmpOp
| "eq" => some .eq | "ne" => some .ne | "lt" => some .lt | "le" => some .le | "gt" => some .gt | "ge" => some .ge
| _ => none

def parseLogic : String → Option LogicOp
| "and" => some .and | "or" => some .or | "xor" => some .xor | _ => none

def parseStList (s : String) : Option (List Status) :=
  if s = "-" then some [] else (s.toList.map (fun c => parseSt (String.ofList [c]))).mapM id

def stListStr (l : List Status) : String := if l.isEmpty then "-" else String.join (l.map stStr)

def parseNatList (s : String) : Option (List Nat) :=
  if s = "" ∨ s = "-" then some [] else ((s.splitOn ",").map String.toNat?).mapM id

def parseBool : String → Option Bool
| "1" => some true | "0" => some false | _ => none

/-- policy: all:<sync> | one | sel:<sync>:<id,id,...> -/
def parsePolicy (s : String) : Option Policy :=
  match s.splitOn ":" with
  | ["all", b] => (parseBool b).map Policy.onAll
  | ["one"] => some .onOne
  | ["sel", b, ids] => do let b ← parseBool b; let ids ← parseNatList ids; pure (.onSelected ids b)
  | _ => none

/-- decorator kind token -/
def parseDec (s : String) : Option DecKind :=
  match s.splitOn ":" with
  | ["inv"] => some .inverter | ["rif"] => some .runningIsFailure | ["ris"] => some .runningIsSuccess
  | ["fis"] => some .failureIsSuccess | ["fir"] => some .failureIsRunning
  | ["sif"] => some .successIsFailure | ["sir"] => some .successIsRunning
  | ["pass"] => some .passThrough
  | ["cond", s] => (parseSt s).map DecKind.condition
  | ["retry", n] => n.toInt?.map (fun n => .retry n 0)
  | ["repeat", n] => n.toInt?.map (fun n => .repeat_ n 0)
  | ["timeout", d] => d.toInt?.map (fun d => .timeout d 0)
  | ["guard", g] => g.toNat?.map DecKind.guard
  | ["oneshot", b] => (parseBool b).map (fun b => .oneShot b none)
  | ["count"] => some (.count 0 0 0 0 0)
  | ["s2b", key, path] => some (.statusToBB key (parsePath path))
  | _ => none

def parseCheck : List String → Option (Check × List String)
| key :: path :: op :: v :: rest => do
    let op ← parseOp op; let v ← parseVal v
    pure ({ key := key, path := parsePath path, op := op, value := v }, rest)
| _ => none

def parseChecks : Nat → List String → Option (List Check × List String)
| 0, ts => some ([], ts)
| n+1, ts => do
    let (c, ts) ← parseCheck ts
    let (cs, ts) ← parseChecks n ts
    pure (c :: cs, ts)

/-- leaf kind: tokens after `L <id>` up to the closing paren -/
def parseLeaf : List String → Option LeafKind
| ["probe"] => some .probe
| ["const", s] => (parseSt s).map LeafKind.const
| ["tc", d, s] => do let d ← d.toInt?; let s ← parseSt s; pure (.tickCounter d s 0)
| ["sq", q, ev] => do
    let q ← parseStList q
    let ev ← (if ev = "-" then some none else (parseSt ev).map some)
    pure (.statusQueue q ev q)
| ["sen", n] => n.toInt?.map (fun n => .successEveryN n 0)
| ["timer", d] => d.toInt?.map (fun d => .timer d 0)
| ["cex", k, p] => some (.checkExists k (parsePath p))
| ["wf", k, p] => some (.waitFor k (parsePath p))
| "cv" :: rest => match parseCheck rest with | some (c, []) => some (.checkValue c) | _ => none
| "wv" :: rest => match parseCheck rest with | some (c, []) => some (.waitValue c) | _ => none
| "cvs" :: n :: rest => do
    let n ← n.toNat?
    let (cs, rest) ← parseChecks n rest
    match rest with
    | [op] => do let op ← parseLogic op; pure (.checkValues cs op none)
    | op :: keys => do let op ← parseLogic op; pure (.checkValues cs op (some keys))
    | _ => none
| ["set", k, p, v, ow] => do let v ← parseVal v; let ow ← parseBool ow; pure (.setVar k (parsePath p) v ow)
| ["unset", k] => some (.unsetVar k)
| ["b2s", k, p] => some (.bbToStatus k (parsePath p))
| _ => none

/-- tree:  ( L id kind... ) | ( Q id mem child... ) | ( S id mem child... ) | ( P id pol child... ) | ( D id kind child ) -/
partial def parseTree : List String → Option (Node × List String)
| "(" :: "L" :: i :: rest => do
    let i ← i.toNat?
    let (body, rest') := rest.span (· ≠ ")")
    let k ← parseLeaf body
    match rest' with
    | ")" :: r => pure (.leaf i .invalid k [], r)
    | _ => none
| "(" :: "Q" :: i :: m :: rest => do
    let i ← i.toNat?; let m ← parseBool m
    let (cs, r) ← parseChildren rest []
    pure (.seq i m .invalid none cs, r)
| "(" :: "S" :: i :: m :: rest => do
    let i ← i.toNat?; let m ← parseBool m
    let (cs, r) ← parseChildren rest []
    pure (.sel i m .invalid none cs, r)
| "(" :: "P" :: i :: p :: rest => do
    let i ← i.toNat?; let p ← parsePolicy p
    let (cs, r) ← parseChildren rest []
    pure (.par i p .invalid none cs, r)
| "(" :: "D" :: i :: k :: rest => do
    let i ← i.toNat?; let k ← parseDec k
    let (c, r) ← parseTree rest
    match r with
    | ")" :: r' => pure (.dec i k .invalid c, r')
    | _ => none
| _ => none
where
  parseChildren : List String → List Node → Option (List Node × List String)
  | ")" :: r, acc => some (acc.reverse, r)
  | ts, acc => do
      let (c, r) ← parseTree ts
      parseChildren r (c :: acc)

def evStr : Ev → String
| .enter i => s!"E{i}"
| .init i => s!"I{i}"
| .upd i s => s!"U{i}:{stStr s}"
| .term i s => s!"X{i}:{stStr s}"
| .yld i s => s!"Y{i}:{stStr s}"

def decState : DecKind → String
| .retry _ f => s!"f{f}"
| .repeat_ _ s => s!"s{s}"
| .timeout _ fin => s!"t{fin}"
| .oneShot _ fin => "o" ++ (match fin with | some s => stStr s | none => "-")
| .count t r su f i => s!"c{t},{r},{su},{f},{i}"
| _ => ""

def leafState : LeafKind → String
| .tickCounter _ _ c => s!"c{c}"
| .statusQueue _ _ cur => "q" ++ stListStr cur
| .successEveryN _ c => s!"c{c}"
| .timer _ fin => s!"t{fin}"
| _ => ""

def opStr : CmpOp → String
| .eq => "eq" | .ne => "ne" | .lt => "lt" | .le => "le" | .gt => "gt" | .ge => "ge"
def logicStr : LogicOp → String
| .and => "and" | .or => "or" | .xor => "xor"
def boolStr (b : Bool) : String := if b then "1" else "0"
def checkStr (c : Check) : String := s!"{c.key} {pathStr c.path} {opStr c.op} {valStr c.value}"

def leafKindStr : LeafKind → String
| .probe => "probe"
| .const s => "const " ++ stStr s
| .tickCounter d c _ => s!"tc {d} {stStr c}"
| .statusQueue q ev _ => s!"sq {stListStr q} " ++ (match ev with | some s => stStr s | none => "-")
| .successEveryN n _ => s!"sen {n}"
| .timer d _ => s!"timer {d}"
| .checkExists k p => s!"cex {k} {pathStr p}"
| .waitFor k p => s!"wf {k} {pathStr p}"
| .checkValue c => "cv " ++ checkStr c
| .waitValue c => "wv " ++ checkStr c
| .checkValues cs op res =>
    s!"cvs {cs.length} " ++ String.intercalate " " (cs.map checkStr) ++ " " ++ logicStr op ++
      (match res with | some ks => " " ++ String.intercalate " " ks | none => "")
| .setVar k p v ow => s!"set {k} {pathStr p} {valStr v} {boolStr ow}"
| .unsetVar k => s!"unset {k}"
| .bbToStatus k p => s!"b2s {k} {pathStr p}"

def decKindStr : DecKind → String
| .inverter => "inv" | .runningIsFailure => "rif" | .runningIsSuccess => "ris" | .failureIsSuccess => "fis"
| .failureIsRunning => "fir" | .successIsFailure => "sif" | .successIsRunning => "sir" | .passThrough => "pass"
| .condition s => "cond:" ++ stStr s
| .retry n _ => s!"retry:{n}" | .repeat_ n _ => s!"repeat:{n}" | .timeout d _ => s!"timeout:{d}"
| .guard g => s!"guard:{g}" | .oneShot b _ => "oneshot:" ++ boolStr b | .count _ _ _ _ _ => "count"
| .statusToBB k p => s!"s2b:{k}:{pathStr p}"

def policyStr : Policy → String
| .onAll s => "all:" ++ boolStr s
| .onOne => "one"
| .onSelected ids s => "sel:" ++ boolStr s ++ ":" ++ String.intercalate "," (ids.map toString)

/-- a tree in the spec syntax of the protocol -/
partial def treeStr : Node → String
| .leaf i _ k _ => s!"( L {i} {leafKindStr k} )"
| .seq i m _ _ cs => s!"( Q {i} {boolStr m} " ++ String.intercalate " " (cs.map treeStr) ++ (if cs.isEmpty then ")" else " )")
| .sel i m _ _ cs => s!"( S {i} {boolStr m} " ++ String.intercalate " " (cs.map treeStr) ++ (if cs.isEmpty then ")" else " )")
| .par i p _ _ cs => s!"( P {i} {policyStr p} " ++ String.intercalate " " (cs.map treeStr) ++ (if cs.isEmpty then ")" else " )")
| .dec i k _ c => s!"( D {i} {decKindStr k} {treeStr c} )"

/-- state dump in pre-order: `id:status:current_child:own-state` -/
partial def dump : Node → List String
| .leaf i s k _ => [s!"{i}:{stStr s}:-:{leafState k}"]
| .seq i _ s c cs => s!"{i}:{stStr s}:{optNat c}:" :: (cs.map dump).flatten
| .sel i _ s c cs => s!"{i}:{stStr s}:{optNat c}:" :: (cs.map dump).flatten
| .par i _ s c cs => s!"{i}:{stStr s}:{optNat c}:" :: (cs.map dump).flatten
| .dec i k s c => s!"{i}:{stStr s}:-:{decState k}" :: dump c

/-- all nodes in pre-order -/
partial def preorder : Node → List Node
| n => n :: (n.children.map preorder).flatten

/-- blackboard keys mentioned by a tree -/
def leafKeys : LeafKind → List String
| .checkExists k _ => [k] | .waitFor k _ => [k] | .checkValue c => [c.key] | .waitValue c => [c.key]
| .checkValues cs _ res => cs.map (·.key) ++ (res.getD [])
| .setVar k _ _ _ => [k] | .unsetVar k => [k] | .bbToStatus k _ => [k]
| _ => []

def nodeKeys : Node → List String
| .leaf _ _ k _ => leafKeys k
| .dec _ (.statusToBB k _) _ _ => [k]
| _ => []

def treeKeys (n : Node) : List String := ((preorder n).map nodeKeys).flatten

def dedupSorted (l : List String) : List String :=
  (l.mergeSort (· ≤ ·)).eraseDups

def storeStr (keys : List String) (w : Store) : String :=
  String.intercalate " " ((dedupSorted keys).filterMap (fun k => (w k).map (fun v => k ++ "=" ++ valStr v)))

end Codec
