import PyTreesProofs.Lemmas.Inv
import PyTreesProofs.Lemmas.Loops
import PyTreesProofs.Lemmas.Tick
import PyTreesProofs.Lemmas.Run
import PyTreesProofs.Lemmas.Stop
import PyTreesProofs.Props.C01
import PyTreesProofs.Props.C02
import PyTreesProofs.Props.C19
