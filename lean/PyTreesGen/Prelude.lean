/-
  Python primitives used by the generated definitions (harness/py2lean.py).  These few definitions are the
  trusted reading of Python's semantics for the translated fragment; strings are `List Char`, ints are `Int`.
-/
import PyTreesModel.Status

/-- exceptions a translated function can raise -/
inductive PyErr | keyError
deriving DecidableEq, Repr

namespace Py

/-- `s.startswith(p)` -/
def startswith (s p : List Char) : Bool := p.isPrefixOf s

/-- `s.endswith(p)` -/
def endswith (s p : List Char) : Bool := p.isSuffixOf s

/-- `s.strip(chars)`: leading and trailing characters that occur in `chars` removed -/
def strip (s cs : List Char) : List Char :=
  ((s.dropWhile (fun c => cs.contains c)).reverse.dropWhile (fun c => cs.contains c)).reverse

/-- `a % b` on ints: floor modulus (sign of the divisor). `b = 0` raises ZeroDivisionError in Python; the bridge
    theorems exclude it explicitly. -/
def mod (a b : Int) : Int := Int.fmod a b

/-- `s[i:]` -/
def sliceFrom (s : List Char) (i : Int) : List Char :=
  if i ≥ 0 then s.drop i.toNat else s.drop (s.length - (-i).toNat)

/-- `s.split(c)` for a one-character separator `c`: never empty -/
def split1 (s : List Char) (c : Char) : List (List Char) :=
  s.foldr (fun ch acc => if ch == c then [] :: acc else match acc with
    | [] => [[ch]]
    | h :: t => (ch :: h) :: t) [[]]

/-- `xs[0]` of a list that `split` returned (never empty; `[]` stands for the IndexError that cannot happen) -/
def item0 (xs : List (List Char)) : List Char := xs.headD []

/-- `xs[i:]` for a non-negative constant `i` -/
def dropL (xs : List (List Char)) (i : Nat) : List (List Char) := xs.drop i

/-- `sep.join(xs)` -/
def join (sep : List Char) (xs : List (List Char)) : List Char := sep.intercalate xs

end Py
