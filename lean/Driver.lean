import Driver.Codec
import Driver.Bt
