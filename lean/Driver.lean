import Driver.Codec
import Driver.Bt
import Driver.Bb
import Driver.Rd
import Driver.Hp
