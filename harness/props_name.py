"""C15 key-name algebra: exhaustive short strings over {/, a, b} through absolute_name / relative_name /
Client namespace normalisation / namespace closure, model vs implementation, plus the algebraic laws."""
import itertools

from props import Prop, register, text_hash
from common import Scenario
import bb_impl

ALPHA = "/ab"


def strings(maxlen):
    out = [""]
    for n in range(1, maxlen + 1):
        out += ["".join(p) for p in itertools.product(ALPHA, repeat=n)]
    return out


def tok(s):
    return s if s != "" else "-"


def untok(s):
    return "" if s == "-" else s


def wf_ns(ns):
    return ns.startswith("/") and "//" not in ns


def wf_rel(k):
    return k != "" and "//" not in k and not k.endswith("/") and not k.startswith("/")


def norm(ns):
    return ns if ns.endswith("/") else ns + "/"


def viol(clause, detail, **sig):
    return {"clause": clause, "detail": detail, "sig": sig}


@register
class C15(Prop):
    pid = "C15"
    family = "name"
    exhaustive_space = True     # the quick tier enumerates its whole finite space
    rule = ("EXHAUSTIVE over the alphabet {/, a, b}: namespaces of length <= 4 x keys of length <= 5 (well-formed and "
            "ill-formed) through absolute_name and relative_name, follow-up calls on the absolute names, Client namespace "
            "normalisation and the namespace closure (incremental and after a cache rebuild, also for every key of <= 4 "
            "components over {a, b, ab}); thorough adds random longer strings over a wider alphabet; "
            "non-trivial = a (namespace, key) pair that is well-formed and whose key is relative with >= 1 separator or "
            "absolute inside/outside the namespace")
    assumptions = ["names contain no '.' (nested-attribute separator) in this family; dotted names are covered by C06"]

    def generate(self, rng, tier):
        nss = strings(4 if tier != "search" else 3)
        keys = strings(5 if tier != "search" else 4)
        scns = []
        for i, ns in enumerate(nss):
            ops = ["clientns " + tok(ns)]
            for k in keys:
                ops.append("abs %s %s" % (tok(ns), tok(k)))
                ops.append("rel %s %s" % (tok(ns), tok(k)))
                if wf_ns(ns) and wf_rel(k):
                    a = norm(ns) + k
                    ops.append("abs %s %s" % (tok(ns), a))
                    ops.append("rel %s %s" % (tok(ns), a))
                    ops.append("abs %s %s" % (tok(norm(ns)), tok(k)))
            scns.append(Scenario("name", "C15_x_%d" % i, [], ops, {"ns": ns}))
        deep = ["/" + "/".join(c) for n in range(1, 5) for c in itertools.product(["a", "b", "ab"], repeat=n)]
        ks = ["closure " + tok(k) for k in keys if k.startswith("/")]
        ks += ["closure " + k for k in deep] + ["rebuild " + k for k in deep]      # keys nested up to four levels
        ks += ["rebuild " + tok(k) for k in keys if k.startswith("/") and "//" not in k and not k.endswith("/")
               and k != "/zz"]
        scns.append(Scenario("name", "C15_closure", [], ks, {}))
        # the same algebra seen through clients: attribute / get / static access of one key; two clients sharing (or not)
        # a location; a remapped key under set(overwrite=False)
        short_ns, short_keys = strings(3), [k for k in strings(4) if k != ""] + ["_a", "_a/b", "a/_b", "/_a", "__a"]      # and keys that look like private Python attributes
        ops = ["cacc %s %s" % (tok(ns), tok(k)) for ns in short_ns for k in short_keys]
        scns.append(Scenario("name", "C15_client_access", [], ops, {}))
        NS = ["", "/", "a", "/a", "/a/", "a/b", "/a/b"]
        KS = ["a", "b", "a/b", "/a", "/a/b", "/a/a", "/b", "b/a"]
        ops = ["cshare %s %s %s %s" % (tok(na), ka, tok(nb), kb) for na in NS for ka in KS for nb in NS for kb in KS]
        ops += ["cremap %s %s %s" % (tok(na), ka, loc) for na in NS for ka in KS for loc in ["/L", "/a", "/a/b", "/b"]]
        scns.append(Scenario("name", "C15_client_share", [], ops, {}))
        if tier == "thorough":
            wide = "/ab_ .x"
            for j in range(200):
                ops = []
                for _ in range(1000):
                    ns = "".join(rng.choice(wide) for _ in range(rng.randint(0, 9))).replace(" ", "_")
                    k = "".join(rng.choice(wide) for _ in range(rng.randint(0, 12))).replace(" ", "_")
                    ops.append("abs %s %s" % (tok(ns), tok(k)))
                    ops.append("rel %s %s" % (tok(ns), tok(k)))
                scns.append(Scenario("name", "C15_r_%d" % j, [], ops, {}))
        return scns

    def run_impl(self, s):
        return bb_impl.run_name(s)

    def oracle(self, s, lines):
        out = []
        res = {}
        cur = None
        for l in lines:
            if l.startswith("> "):
                cur = tuple(l[2:].split())
            elif cur is not None:
                res[cur] = l
        for (op, *args), r in res.items():
            if op == "clientns":
                ns = untok(args[0])
                if r != "R " + (ns if ns.startswith("/") else "/" + ns):
                    out.append(viol("client-namespace", "Client(namespace=%r).namespace -> %s" % (ns, r)))
                continue
            if op in ("cacc", "cshare", "cremap"):
                def cns(x):
                    return x if x.startswith("/") else "/" + x

                def wf_key(k):
                    return wf_rel(k) or (k.startswith("/") and len(k) > 1 and "//" not in k and not k.endswith("/"))

                def ab(ns, k):
                    return k if k.startswith("/") else norm(cns(ns)) + k
                ns, k = untok(args[0]), untok(args[1])
                if not (wf_ns(cns(ns)) and wf_key(k)):
                    continue
                if op == "cacc":
                    if r != "R ok|ok|val i:7|val i:7|val i:7|" + ab(ns, k) + "|val i:3|val i:4" and ab(ns, k) not in (
                            ab(ns, "d"), ab(ns, "d/e")):
                        out.append(viol("client-access", "Client(namespace=%r): register / write / read %r by attribute, "
                                        "get(absolute name), Blackboard.get -> %s" % (ns, k, r)))
                elif op == "cshare":
                    nb, kb = untok(args[2]), untok(args[3])
                    if wf_ns(cns(nb)) and wf_key(kb):
                        want = "R val i:2" if ab(ns, k) == ab(nb, kb) else "R val i:1"
                        if r != want:
                            out.append(viol("same-location", "clients (%r, %r) and (%r, %r): absolute names %s / %s, A reads "
                                            "%s expected %s" % (ns, k, nb, kb, ab(ns, k), ab(nb, kb), r, want)))
                else:
                    loc = args[2]
                    if ab(ns, k) != loc and r != "R False,val i:1,KeyError|True,val i:2,val i:1|" + ab(ns, k) + \
                            "|AttributeError,val i:1|val i:5,KeyError":
                        out.append(viol("remap-target", "key %r of Client(%r) remapped to %s: set(overwrite=False) with "
                                        "(target occupied | own name occupied) -> %s" % (k, ns, loc, r)))
                continue
            if op in ("closure", "rebuild"):
                k = untok(args[0])
                if "//" in k or k.endswith("/"):
                    continue
                parts = k.split("/")[1:]
                exp = sorted("/" + "/".join(parts[:i]) for i in range(1, len(parts)))
                if r != "R " + ",".join(exp):
                    out.append(viol("dotted-closure", "namespaces of %r -> %s, expected %s" % (k, r, exp)))
                continue
            ns, k = untok(args[0]), untok(args[1])
            if not wf_ns(ns):
                continue
            if op == "abs":
                if k.startswith("/"):
                    if r != "R " + k:
                        out.append(viol("absolute-unchanged", "absolute_name(%r, %r) -> %s" % (ns, k, r)))
                elif wf_rel(k):
                    if r != "R " + norm(ns) + k:
                        out.append(viol("placement", "absolute_name(%r, %r) -> %s, expected %s" % (ns, k, r, norm(ns) + k)))
                    again = res.get(("abs", tok(ns), norm(ns) + k))
                    if again is not None and again != r:
                        out.append(viol("idempotent", "absolute_name(%r, .) not idempotent on %r: %s then %s"
                                        % (ns, k, r, again)))
                    tr = res.get(("abs", tok(norm(ns)), tok(k)))
                    if tr is not None and tr != r:
                        out.append(viol("trailing-separator", "absolute_name(%r, %r)=%s but with trailing separator %s"
                                        % (ns, k, r, tr)))
            elif op == "rel":
                if not k.startswith("/"):
                    if wf_rel(k) and r != "R " + k:
                        out.append(viol("relative-unchanged", "relative_name(%r, %r) -> %s" % (ns, k, r)))
                elif "//" not in k:
                    if k.startswith(norm(ns)):
                        if r != "R " + k[len(norm(ns)):]:
                            out.append(viol("inverse", "relative_name(%r, %r) -> %s, expected %r"
                                            % (ns, k, r, k[len(norm(ns)):])))
                    elif r != "KeyError":
                        out.append(viol("outside-namespace", "relative_name(%r, %r) -> %s, expected KeyError (key lies "
                                        "outside the namespace)" % (ns, k, r)))
            if len(out) > 5:
                break
        # same-location law across namespaces within this scenario is covered pairwise by `placement`
        return out

    def nontrivial_key(self, s, lines):
        return text_hash(s.name) if wf_ns(s.meta.get("ns", "")) else None

    def count(self, s, lines, stats):
        Prop.count(self, s, lines, stats)
        stats["keyerrors"] = stats.get("keyerrors", 0) + sum(1 for l in lines if l == "KeyError")
