"""C15 key-name algebra: exhaustive short strings over {/, a, b} through absolute_name / relative_name /
Client namespace normalisation / namespace closure, model vs implementation, plus the algebraic laws."""
import itertools

from props import Prop, register, text_hash
from common import Scenario
import bb_impl

ALPHA = "/ab"


def strings(maxlen):
    out = [""]
    for n in range(1, maxlen + 1):
        out += ["".join(p) for p in itertools.product(ALPHA, repeat=n)]
    return out


def tok(s):
    return s if s != "" else "-"


def untok(s):
    return "" if s == "-" else s


def wf_ns(ns):
    return ns.startswith("/") and "//" not in ns


def wf_rel(k):
    return k != "" and "//" not in k and not k.endswith("/") and not k.startswith("/")


def norm(ns):
    return ns if ns.endswith("/") else ns + "/"


def viol(clause, detail, **sig):
    return {"clause": clause, "detail": detail, "sig": sig}


@register
class C15(Prop):
    pid = "C15"
    family = "name"
    exhaustive_space = True     # the quick tier enumerates its whole finite space
    rule = ("EXHAUSTIVE over the alphabet {/, a, b}: namespaces of length <= 4 x keys of length <= 5 (well-formed and "
            "ill-formed) through absolute_name and relative_name, follow-up calls on the absolute names, Client namespace "
            "normalisation and the namespace closure (incremental and after a cache rebuild, also for every key of <= 4 "
            "components over {a, b, ab}); thorough adds random longer strings over a wider alphabet; "
            "non-trivial = a (namespace, key) pair that is well-formed and whose key is relative with >= 1 separator or "
            "absolute inside/outside the namespace")
    assumptions = ["names contain no '.' (nested-attribute separator) in this family; dotted names are covered by C06"]

    def generate(self, rng, tier):
        nss = strings(4 if tier != "search" else 3)
        keys = strings(5 if tier != "search" else 4)
        scns = []
        for i, ns in enumerate(nss):
            ops = ["clientns " + tok(ns)]
            for k in keys:
                ops.append("abs %s %s" % (tok(ns), tok(k)))
                ops.append("rel %s %s" % (tok(ns), tok(k)))
                if wf_ns(ns) and wf_rel(k):
                    a = norm(ns) + k
                    ops.append("abs %s %s" % (tok(ns), a))
                    ops.append("rel %s %s" % (tok(ns), a))
                    ops.append("abs %s %s" % (tok(norm(ns)), tok(k)))
            scns.append(Scenario("name", "C15_x_%d" % i, [], ops, {"ns": ns}))
        deep = ["/" + "/".join(c) for n in range(1, 5) for c in itertools.product(["a", "b", "ab"], repeat=n)]
        ks = ["closure " + tok(k) for k in keys if k.startswith("/")]
        ks += ["closure " + k for k in deep] + ["rebuild " + k for k in deep]      # keys nested up to four levels
        ks += ["rebuild " + tok(k) for k in keys if k.startswith("/") and "//" not in k and not k.endswith("/")
               and k != "/zz"]
        scns.append(Scenario("name", "C15_closure", [], ks, {}))
        if tier == "thorough":
            wide = "/ab_ .x"
            for j in range(200):
                ops = []
                for _ in range(1000):
                    ns = "".join(rng.choice(wide) for _ in range(rng.randint(0, 9))).replace(" ", "_")
                    k = "".join(rng.choice(wide) for _ in range(rng.randint(0, 12))).replace(" ", "_")
                    ops.append("abs %s %s" % (tok(ns), tok(k)))
                    ops.append("rel %s %s" % (tok(ns), tok(k)))
                scns.append(Scenario("name", "C15_r_%d" % j, [], ops, {}))
        return scns

    def run_impl(self, s):
        return bb_impl.run_name(s)

    def oracle(self, s, lines):
        out = []
        res = {}
        cur = None
        for l in lines:
            if l.startswith("> "):
                cur = tuple(l[2:].split())
            elif cur is not None:
                res[cur] = l
        for (op, *args), r in res.items():
            if op == "clientns":
                ns = untok(args[0])
                if r != "R " + (ns if ns.startswith("/") else "/" + ns):
                    out.append(viol("client-namespace", "Client(namespace=%r).namespace -> %s" % (ns, r)))
                continue
            if op in ("closure", "rebuild"):
                k = untok(args[0])
                if "//" in k or k.endswith("/"):
                    continue
                parts = k.split("/")[1:]
                exp = sorted("/" + "/".join(parts[:i]) for i in range(1, len(parts)))
                if r != "R " + ",".join(exp):
                    out.append(viol("dotted-closure", "namespaces of %r -> %s, expected %s" % (k, r, exp)))
                continue
            ns, k = untok(args[0]), untok(args[1])
            if not wf_ns(ns):
                continue
            if op == "abs":
                if k.startswith("/"):
                    if r != "R " + k:
                        out.append(viol("absolute-unchanged", "absolute_name(%r, %r) -> %s" % (ns, k, r)))
                elif wf_rel(k):
                    if r != "R " + norm(ns) + k:
                        out.append(viol("placement", "absolute_name(%r, %r) -> %s, expected %s" % (ns, k, r, norm(ns) + k)))
                    again = res.get(("abs", tok(ns), norm(ns) + k))
                    if again is not None and again != r:
                        out.append(viol("idempotent", "absolute_name(%r, .) not idempotent on %r: %s then %s"
                                        % (ns, k, r, again)))
                    tr = res.get(("abs", tok(norm(ns)), tok(k)))
                    if tr is not None and tr != r:
                        out.append(viol("trailing-separator", "absolute_name(%r, %r)=%s but with trailing separator %s"
                                        % (ns, k, r, tr)))
            elif op == "rel":
                if not k.startswith("/"):
                    if wf_rel(k) and r != "R " + k:
                        out.append(viol("relative-unchanged", "relative_name(%r, %r) -> %s" % (ns, k, r)))
                elif "//" not in k:
                    if k.startswith(norm(ns)):
                        if r != "R " + k[len(norm(ns)):]:
                            out.append(viol("inverse", "relative_name(%r, %r) -> %s, expected %r"
                                            % (ns, k, r, k[len(norm(ns)):])))
                    elif r != "KeyError":
                        out.append(viol("outside-namespace", "relative_name(%r, %r) -> %s, expected KeyError (key lies "
                                        "outside the namespace)" % (ns, k, r)))
            if len(out) > 5:
                break
        # same-location law across namespaces within this scenario is covered pairwise by `placement`
        return out

    def nontrivial_key(self, s, lines):
        return text_hash(s.name) if wf_ns(s.meta.get("ns", "")) else None

    def count(self, s, lines, stats):
        Prop.count(self, s, lines, stats)
        stats["keyerrors"] = stats.get("keyerrors", 0) + sum(1 for l in lines if l == "KeyError")
