"""Checks over the `bt` scenario family: C01 C02 C03 C04 C05 C09 C10 C19 (and C17 in props_stock)."""
import random

from props import Prop, register, text_hash
import bt_gen
import bt_impl
from bt_impl import spec_nodes, spec_children, parse_spec


# ---------------------------------------------------------------------------------------------
# observation parsing
# ---------------------------------------------------------------------------------------------

class Obs(object):
    """observations of one operation"""

    def __init__(self, op):
        self.op = op
        self.T = []       # [(kind, id, status|None)]
        self.N = {}       # id -> (status, cur, own)
        self.W = {}
        self.P = {}
        self.err = None
        self.skip = False
        self.order = []   # pre-order ids
        self.hooks = []   # composite user hooks: "ci<id>" / "ct<id>:<status>" (implementation only)

    @property
    def ok(self):
        return self.err is None and not self.skip


def parse_ev(tok):
    kind = tok[0]
    rest = tok[1:]
    if ":" in rest:
        a, b = rest.split(":")
        return (kind, int(a), b)
    return (kind, int(rest), None)


def parse_obs(lines):
    out = []
    for l in lines:
        if l.startswith("> "):
            out.append(Obs(l[2:]))
            continue
        if not out:
            continue
        o = out[-1]
        if l.startswith("T"):
            o.T = [parse_ev(t) for t in l[1:].split()]
        elif l.startswith("N"):
            for t in l[1:].split():
                i, st, cur, own = t.split(":", 3)
                o.N[int(i)] = (st, None if cur == "-" else int(cur), own)
                o.order.append(int(i))
        elif l.startswith("W"):
            for t in l[1:].split():
                k, v = t.split("=", 1)
                o.W[k] = v
        elif l.startswith("HK"):
            o.hooks = l[2:].split()
        elif l.startswith("P"):
            for t in l[1:].split():
                k, v = t.split("=")
                o.P[int(k)] = None if v == "-" else int(v)
        elif l.startswith("ERR"):
            o.err = l.split()[1]
        elif l.startswith("SKIP"):
            o.skip = True
    return out


class Shape(object):
    """static structure of a tree spec"""

    def __init__(self, spec):
        self.spec = spec
        self.node = {}
        self.parent = {}
        self.kids = {}
        for n in spec_nodes(spec):
            self.node[n[1]] = n
            self.kids[n[1]] = [c[1] for c in spec_children(n)]
            for c in spec_children(n):
                self.parent[c[1]] = n[1]
        self.root = spec[1]

    def kind(self, i):
        return self.node[i][0]

    def subtree(self, i):
        out = [i]
        for c in self.kids[i]:
            out += self.subtree(c)
        return out

    def is_leaf(self, i):
        return self.node[i][0] == "L"


def scn_spec(s):
    if "spec" not in s.meta:
        spec, rest = parse_spec(s.header[0].split()[1:])
        s.meta["spec"] = spec
    return s.meta["spec"]


def viol(clause, detail, **sig):
    return {"clause": clause, "detail": detail, "sig": sig}


# ---------------------------------------------------------------------------------------------
# base
# ---------------------------------------------------------------------------------------------

class BtProp(Prop):
    family = "bt"
    profiles = [("core", 1.0)]
    quick_n, thorough_n = 3000, 40000
    keep = "TNWP"          # which observation lines take part in the correspondence
    keep_events = "EIUXY"  # which trace events
    keep_own = True        # own-state column of N
    keep_cur = False       # current-child column of N
    exhaustive = False     # thorough tier adds the exhaustive small-scope block
    stream_share = 0.0     # share of scenarios whose implementation side runs with the blackboard activity stream on
    p_setup = 0.0          # per-operation probability of a setup() in mid-history
    inner_stop = 0.0       # share of stop operations aimed at a random inner behaviour (external stop(INVALID))
    invalid_block = None   # (profile, clauses not judged): extra implementation-only scenarios with INVALID outcomes
    assumptions = ["visitors / handlers do not mutate the tree mid-tick", "user callbacks do not raise",
                   "integer clock (fake time module installed by the harness)",
                   "leaf outcomes are SUCCESS / FAILURE / RUNNING in the theorems (ValidEnv); C03 / C04 / C05 / C09 add a "
                   "block with leaves returning INVALID, on which model and code are compared as well and the oracle "
                   "judges the clauses that are meaningful for such outcomes"]

    def profile_for(self, rng):
        x = rng.random()
        acc = 0.0
        for name, w in self.profiles:
            acc += w
            if x <= acc:
                return bt_gen.PROFILES[name]
        return bt_gen.PROFILES[self.profiles[-1][0]]

    def generate(self, rng, tier):
        n = {"quick": self.quick_n, "thorough": self.thorough_n, "search": 3000}[tier]
        out = []
        for i in range(n):
            prof = self.profile_for(rng)
            if self.inner_stop:
                prof = bt_gen.Profile(**dict(vars(prof), p_inner_stop=self.inner_stop))
            if self.p_setup:
                prof = bt_gen.Profile(**dict(vars(prof), p_setup=self.p_setup))
            if tier == "thorough" and i % 4 == 0:
                prof = bt_gen.Profile(**dict(vars(prof), max_nodes=25, max_ops=40, max_depth=5))
            out.append(bt_gen.gen_scenario(rng, prof, "%s_%s_%d" % (self.pid, tier[0], i)))
            if self.stream_share and rng.random() < self.stream_share:
                out[-1].meta["stream"] = True      # implementation side runs with the activity stream enabled
        if tier == "thorough" and self.exhaustive:
            out += exhaustive_block(self.pid)
        if self.invalid_block is not None and tier != "search":
            # OUTSIDE THE THEOREMS' ValidEnv: leaves whose update() returns INVALID. The model follows the code there too
            # (Decorator.stop(INVALID) stops the child unconditionally), so these scenarios take part in the
            # correspondence; the oracle judges the clauses that are meaningful for such outcomes.
            profn, skip = self.invalid_block
            prof = bt_gen.Profile(**dict(vars(bt_gen.PROFILES[profn]), w_outcome={"R": 35, "S": 30, "F": 20, "I": 15}))
            for i in range(max(200, n // 10)):
                sc = bt_gen.gen_scenario(rng, prof, "%s_%s_inv_%d" % (self.pid, tier[0], i))
                sc.meta["invalid_outcomes"] = True
                sc.meta["skip_clauses"] = list(skip)
                out.append(sc)
        return out

    def run_impl(self, s):
        return bt_impl.run_bt(s)

    def project(self, s, lines):
        out = []
        for l in lines:
            if l.startswith(">") or l.startswith("ERR") or l.startswith("SKIP") or l.startswith("bad"):
                out.append(l)
            elif l[0] in self.keep:
                if l[0] == "T":
                    out.append("T " + " ".join(t for t in l[1:].split() if t[0] in self.keep_events))
                elif l[0] == "N":
                    toks = []
                    for t in l[1:].split():
                        i, st, cur, own = t.split(":", 3)
                        toks.append(":".join([i, st, cur if self.keep_cur else "", own if self.keep_own else ""]))
                    out.append("N " + " ".join(toks))
                else:
                    out.append(l)
        return out

    def count(self, s, lines, stats):
        Prop.count(self, s, lines, stats)
        for n in spec_nodes(scn_spec(s)):
            k = n[0] if n[0] != "D" else "D:" + n[2].split(":")[0]
            if n[0] == "L":
                k = "L:" + str(n[2][0])
            if n[0] == "P":
                k = "P:" + n[2].split(":")[0]
            stats.setdefault("node_kinds", {})
            stats["node_kinds"][k] = stats["node_kinds"].get(k, 0) + 1
        for l in lines:
            if l.startswith("> "):
                op = l.split()[1]
                stats.setdefault("ops_by_kind", {})
                stats["ops_by_kind"][op] = stats["ops_by_kind"].get(op, 0) + 1
            elif l.startswith("ERR"):
                stats.setdefault("errors", {})
                stats["errors"][l] = stats["errors"].get(l, 0) + 1

    def oracle(self, s, lines):
        sh = Shape(scn_spec(s))
        obs = parse_obs(lines)
        out = []
        prev = None
        for o in obs:
            if not o.ok:
                break
            out += self.check_op(sh, prev, o) or []
            prev = o
        out += self.check_history(sh, obs) or []
        return out

    def check_op(self, sh, prev, o):
        return []

    def check_history(self, sh, obs):
        return []


def exhaustive_block(pid):
    """EXHAUSTIVE small scope: every root in {Sequence, Selector} x memory, Parallel x {all, all+sync, one} with two
    children, each child a probe leaf or one of five decorators over a probe leaf; every assignment of S/F/R to the two
    probes on two consecutive ticks, with and without a root interrupt in between (252 trees x 162 schedules)."""
    import itertools
    from common import Scenario
    roots = [("Q", False), ("Q", True), ("S", False), ("S", True), ("P", "all:0"), ("P", "all:1"), ("P", "one")]
    kids = [None, "inv", "ris", "fir", "retry:2", "oneshot:0"]
    out = []
    n = 0
    for r in roots:
        for k1 in kids:
            for k2 in kids:
                def child(k, base):
                    leaf = ("L", base + 1 if k else base, ["probe"])
                    return ("D", base, k, leaf) if k else leaf
                c1, c2 = child(k1, 2), child(k2, 4)
                spec = (r[0], 1, r[1], [c1, c2])
                p1 = 3 if k1 else 2
                p2 = 5 if k2 else 4
                header = "tree " + bt_impl.spec_str(spec)
                for a in itertools.product("SFR", repeat=4):
                    for stop in (False, True):
                        ops = ["tick o=%d:%s,%d:%s g= t=0" % (p1, a[0], p2, a[1])]
                        if stop:
                            ops.append("stop 1")
                        ops.append("tick o=%d:%s,%d:%s g= t=1" % (p1, a[2], p2, a[3]))
                        out.append(Scenario("bt", "%s_x_%d" % (pid, n), [header], ops, {"spec": spec}))
                        n += 1
    return out


def st_of(o, i):
    return o.N[i][0] if o is not None and i in o.N else "I"


def cur_of(o, i):
    return o.N[i][1] if o is not None and i in o.N else None


def entered(o):
    return [e[1] for e in o.T if e[0] == "E"]


def yielded(o):
    return {e[1]: e[2] for e in o.T if e[0] == "Y"}


def interrupted_later(sh, o, i):
    """node i finished its tick with one status but shows another at the end of the op
    (an ancestor stopped it later in the same tick)"""
    y = yielded(o).get(i)
    return y is not None and y != st_of(o, i)


# ---------------------------------------------------------------------------------------------
# C01 lifecycle protocol
# ---------------------------------------------------------------------------------------------

@register
class C01(BtProp):
    pid = "C01"
    inner_stop = 0.5
    exhaustive = True
    profiles = [("core", 0.45), ("seq", 0.15), ("par", 0.15), ("dec", 0.15), ("stock", 0.10)]
    keep = "TN"
    keep_events = "IUX"
    keep_own = False
    rule = ("random trees over all composites/decorators/options with random outcome, guard, clock schedules and "
            "root interrupts; non-trivial = a leaf was interrupted while RUNNING or re-entered after completion; "
            "distinct by scenario text")

    def project(self, s, lines):
        # the callbacks of every leaf (initialise / update / terminate, in global order) + the status of every node
        sh = Shape(scn_spec(s))
        out = []
        for l in BtProp.project(self, s, lines):
            if l.startswith("T"):
                out.append("T " + " ".join(t for t in l[1:].split() if sh.is_leaf(parse_ev(t)[1])))
            else:
                out.append(l)
        return out

    def check_history(self, sh, obs):
        state = {}      # leaf -> "idle" | "running"
        out = []
        prev_o = None
        for o in obs:
            if not o.ok:
                break
            # a composite is a behaviour too: its own initialise() hook runs when it is entered while not RUNNING, never
            # while it is RUNNING, and at most once per tick
            if o.op.startswith("tick"):
                seen_ci = set()
                for h in o.hooks:
                    if h.startswith("ci"):
                        q = int(h[2:])
                        if q in seen_ci or st_of(prev_o, q) == "R":
                            out.append(viol("initialise-while-running", "composite %d: initialise() hook called %s"
                                            % (q, "twice in one tick" if q in seen_ci else "while it was RUNNING"), leaf=q))
                        seen_ci.add(q)
                # ... and so is a decorator: initialise() once per round and never while RUNNING, terminate(SUCCESS /
                # FAILURE) at most once per tick
                seen_di, done_dt = set(), {}
                for h in o.hooks:
                    if h.startswith("di"):
                        q = int(h[2:])
                        if q in seen_di or st_of(prev_o, q) == "R":
                            out.append(viol("initialise-while-running", "decorator %d: initialise() called %s"
                                            % (q, "twice in one tick" if q in seen_di else "while it was RUNNING"), leaf=q))
                        seen_di.add(q)
                    elif h.startswith("dt") and not h.endswith(":I"):
                        q = int(h[2:].split(":")[0])
                        done_dt[q] = done_dt.get(q, 0) + 1
                        if done_dt[q] > 1:
                            out.append(viol("terminate-twice", "decorator %d: terminate(%s) called twice in one tick"
                                            % (q, h.split(":")[1]), leaf=q))
            T = [e for e in o.T if e[0] in "IUX" and sh.is_leaf(e[1])]
            allT = [e for e in o.T if e[0] in "IUXE"]
            j = 0
            while j < len(T):
                k, i, st = T[j]
                cur = state.get(i, "idle")
                if k == "I":
                    if cur == "running":
                        out.append(viol("initialise-while-running", "leaf %d" % i, leaf=i))
                    if j + 1 >= len(T) or T[j + 1][0] != "U" or T[j + 1][1] != i:
                        out.append(viol("initialise-not-followed-by-update", "leaf %d" % i, leaf=i))
                    state[i] = "entered"
                elif k == "U":
                    if cur == "idle":
                        out.append(viol("update-outside-round", "leaf %d updated without initialise" % i, leaf=i))
                    if st == "R":
                        state[i] = "running"
                    elif st in "SF":
                        if j + 1 >= len(T) or T[j + 1] != ("X", i, st):
                            out.append(viol("no-terminate-after-completion",
                                            "leaf %d returned %s without terminate(%s)" % (i, st, st), leaf=i))
                            state[i] = "idle"
                        else:
                            state[i] = "idle"
                            j += 1
                    else:
                        state[i] = "idle"
                        if j + 1 < len(T) and T[j + 1] == ("X", i, st):
                            j += 1
                elif k == "X":
                    if st in "SF":
                        out.append(viol("terminate-without-update", "leaf %d terminate(%s)" % (i, st), leaf=i))
                    elif cur == "entered":
                        out.append(viol("terminate-inside-round", "leaf %d" % i, leaf=i))
                    state[i] = "idle"
                j += 1
            # while it stays RUNNING each further tick calls update alone
            if o.op.startswith("tick") and prev_o is not None:
                for i in sh.node:
                    if sh.is_leaf(i) and st_of(prev_o, i) == "R" and st_of(o, i) == "R":
                        mine = [e for e in T if e[1] == i]
                        if mine and mine != [("U", i, "R")]:
                            out.append(viol("running-not-update-alone", "leaf %d was RUNNING before and after `%s` but its "
                                            "callbacks were %s" % (i, o.op[:30], mine), leaf=i))
            # terminate(INVALID) exactly once per interruption: no leaf is told twice by one stop walk
            full = [e for e in o.T]
            for a in range(len(full) - 1):
                if full[a][0] == "X" and full[a][2] == "I" and full[a + 1] == full[a]:
                    out.append(viol("terminate-invalid-twice", "leaf %d got terminate(INVALID) twice in a row during `%s`"
                                    % (full[a][1], o.op), leaf=full[a][1]))
            if o.op.startswith("stop"):
                for i in set(e[1] for e in full if e[0] == "X"):
                    if sum(1 for e in full if e == ("X", i, "I")) > 1:
                        out.append(viol("terminate-invalid-twice", "leaf %d got terminate(INVALID) more than once from one "
                                        "stop request" % i, leaf=i))
            # a RUNNING leaf that was abandoned (some ancestor is no longer RUNNING) must have been told
            for i in sh.node:
                if sh.is_leaf(i) and st_of(o, i) == "R":
                    a = i
                    while a in sh.parent:
                        a = sh.parent[a]
                        if st_of(o, a) != "R":
                            out.append(viol("abandoned-without-terminate",
                                            "leaf %d is still RUNNING under %s ancestor %d after `%s` and never received "
                                            "terminate(INVALID)" % (i, st_of(o, a), a, o.op), leaf=i))
                            break
            # adjacency in the global trace: [I] U [X] of one leaf tick are contiguous
            for a in range(len(allT) - 1):
                if allT[a][0] == "I" and (allT[a + 1][0] != "U" or allT[a + 1][1] != allT[a][1]):
                    out.append(viol("initialise-not-immediately-followed-by-update", "leaf %d" % allT[a][1]))
            for i in sh.node:
                if sh.is_leaf(i):
                    run = state.get(i, "idle") == "running"
                    if run != (st_of(o, i) == "R"):
                        out.append(viol("status-protocol-mismatch",
                                        "leaf %d protocol state %s but status %s after `%s`"
                                        % (i, state.get(i, "idle"), st_of(o, i), o.op), leaf=i))
                        state[i] = "running" if st_of(o, i) == "R" else "idle"
            prev_o = o
            if out:
                break
        return out

    def nontrivial_key(self, s, lines):
        for l in lines:
            if l.startswith("T") and ":I" in l:
                return text_hash(s.text())
        return None


# ---------------------------------------------------------------------------------------------
# C02 no dangling RUNNING
# ---------------------------------------------------------------------------------------------

@register
class C02(BtProp):
    pid = "C02"
    # with leaves answering INVALID a composite can be INVALID over children that still show a status (it adopted the
    # INVALID without being stopped), which `stop()` then skips: that clause is not judged there
    invalid_block = ("core", ["stop-leaves-non-invalid"])
    inner_stop = 0.35
    exhaustive = True
    profiles = [("core", 0.5), ("par", 0.2), ("dec", 0.2), ("stock", 0.1)]
    keep = "TN"
    keep_events = "X"
    keep_own = False
    rule = ("random trees / schedules / root interrupts; after every op each RUNNING node has a RUNNING parent, "
            "after stop(INVALID) the subtree is INVALID and every RUNNING leaf saw terminate(INVALID) once; "
            "non-trivial = some node below depth 1 was RUNNING at some point")

    def project(self, s, lines):
        out = []
        for l in BtProp.project(self, s, lines):
            if l.startswith("T"):
                out.append("T " + " ".join(t for t in l[1:].split() if t.endswith(":I")))
            else:
                out.append(l)
        return out

    def check_op(self, sh, prev, o):
        out = []
        for i in sh.node:
            if st_of(o, i) == "R" and i in sh.parent and st_of(o, sh.parent[i]) != "R":
                out.append(viol("dangling-running", "node %d RUNNING under %s parent %d after `%s`"
                                % (i, st_of(o, sh.parent[i]), sh.parent[i], o.op), node_kind=sh.kind(sh.parent[i])))
        if o.op.startswith("stop"):
            target = int(o.op.split()[1])
            for i in sh.subtree(target):
                if st_of(o, i) != "I":
                    out.append(viol("stop-leaves-non-invalid", "node %d is %s after stop(%d)" % (i, st_of(o, i), target)))
                if sh.is_leaf(i) and st_of(prev, i) == "R":
                    n = sum(1 for e in o.T if e == ("X", i, "I"))
                    if n != 1:
                        out.append(viol("running-leaf-not-notified", "leaf %d got %d terminate(INVALID)" % (i, n)))
        return out

    def nontrivial_key(self, s, lines):
        for l in lines:
            if l.startswith("N") and l.count(":R:") >= 2:
                return text_hash(s.text())
        return None


# ---------------------------------------------------------------------------------------------
# C03 Sequence
# ---------------------------------------------------------------------------------------------

def composite_entries(sh, o, kind):
    return [i for i in entered(o) if sh.kind(i) == kind]


@register
class C03(BtProp):
    pid = "C03"
    exhaustive = True
    invalid_block = ("seq", ["memory-skip", "entry-reset-deep"])
    profiles = [("seq", 0.7), ("coreprobe", 0.3)]
    keep = "TN"
    keep_events = "EUXY"
    keep_own = False
    rule = ("random trees biased to sequences (memory on/off, 0..4 children, nested anywhere); each tick of each "
            "entered sequence is compared with an independent statement of the rules; non-trivial = a sequence with "
            ">= 2 children was entered while RUNNING or re-entered after completion")

    def check_op(self, sh, prev, o):
        if not o.op.startswith("tick"):
            return []
        out = []
        Y = yielded(o)
        ent = entered(o)
        for q in composite_entries(sh, o, "Q"):
            mem = sh.node[q][2]
            kids = sh.kids[q]
            fresh = st_of(prev, q) != "R"
            mine = [c for c in ent if c in kids]
            if not kids:
                if Y.get(q) != "S":
                    out.append(viol("empty-sequence", "empty sequence %d returned %s" % (q, Y.get(q))))
                continue
            if fresh or not mem:
                start = 0
            else:
                # the child that was RUNNING on the previous tick; if an edit removed it, the first child that has
                # not succeeded yet
                start = next((j for j, c in enumerate(kids) if st_of(prev, c) == "R"),
                             next((j for j, c in enumerate(kids) if st_of(prev, c) != "S"), len(kids)))
            if mine != kids[start:start + len(mine)]:
                out.append(viol("order", "sequence %d (mem=%s fresh=%s) ticked %s, children %s, expected start %d"
                                % (q, mem, fresh, mine, kids, start), mem=mem))
                continue
            res = [Y.get(c) for c in mine]
            if any(r != "S" for r in res[:-1]):
                out.append(viol("halt", "sequence %d continued past a non-SUCCESS child: %s" % (q, res)))
            if not mine:
                if start < len(kids):
                    out.append(viol("order", "sequence %d ticked nothing" % q))
                elif Y.get(q) != "S":
                    out.append(viol("status", "sequence %d with nothing left returned %s" % (q, Y.get(q))))
                continue
            last = res[-1]
            at_end = start + len(mine) == len(kids)
            if last != "S":
                if Y.get(q) != last:
                    out.append(viol("status", "sequence %d returned %s but its stopping child returned %s"
                                    % (q, Y.get(q), last)))
            elif not at_end:
                out.append(viol("halt", "sequence %d stopped after a SUCCESS child before the end" % q))
            elif Y.get(q) != "S":
                out.append(viol("status", "sequence %d returned %s although every child succeeded" % (q, Y.get(q))))
            if (Y.get(q) == "S") != (last == "S" and at_end):
                out.append(viol("success-iff", "sequence %d" % q))
            if interrupted_later(sh, o, q):
                continue
            stop_at = start + len(mine) - 1
            # a child that returned SUCCESS in this pass keeps it: stopping at a later child does not touch what came before
            for c in mine:
                if st_of(o, q) == "I" and not (Y.get(q) == "I" and (sh.parent.get(q) is None
                                                                  or sh.kind(sh.parent[q]) in ("Q", "S"))):
                    # the sequence ended INVALID: interrupted, or it adopted an INVALID child under a decorator / parallel
                    # parent, which then resets it. (Under a sequence / selector parent, or as the root, nothing resets it.)
                    break
                if Y.get(c) == "S" and st_of(o, c) != "S":
                    out.append(viol("prefix-kept", "sequence %d: child %d returned SUCCESS in this tick but shows %s after it"
                                    % (q, c, st_of(o, c))))
                    break
            if fresh:
                # fresh entry resets the whole subtree: whatever was not ticked in this pass shows INVALID, at any depth
                ent_all = set(entered(o))
                for x in sh.subtree(q):
                    if x != q and x not in ent_all and st_of(o, x) != "I":
                        out.append(viol("entry-reset-deep", "sequence %d fresh entry: %d below it was not ticked in this pass "
                                        "but shows %s" % (q, x, st_of(o, x))))
                        break
            # children after the stopping point are not ticked; fresh entry resets everything
            for j, c in enumerate(kids):
                if j > stop_at:
                    after = st_of(o, c)
                    if fresh and after != "I":
                        out.append(viol("entry-reset", "sequence %d fresh entry left child %d %s" % (q, c, after)))
                    if not mem and after != "I":
                        out.append(viol("tail-kill", "sequence %d (no memory) left later child %d %s"
                                        % (q, c, after)))
                    if mem and not fresh and after != st_of(prev, c):
                        out.append(viol("tail-untouched", "sequence %d (memory) changed later child %d" % (q, c)))
                if j < start and st_of(o, c) != "S":
                    out.append(viol("memory-skip", "sequence %d: skipped child %d is %s, not SUCCESS"
                                    % (q, c, st_of(o, c))))
            if Y.get(q) == "S" and any(st_of(o, c) != "S" for c in kids):
                out.append(viol("success-iff", "sequence %d SUCCESS with a non-SUCCESS child" % q))
        return out

    def nontrivial_key(self, s, lines):
        sh = Shape(scn_spec(s))
        prev = None
        for o in parse_obs(lines):
            if not o.ok:
                break
            for q in composite_entries(sh, o, "Q"):
                if len(sh.kids[q]) >= 2 and st_of(prev, q) != "I":
                    return text_hash(s.text())
            prev = o
        return None


# ---------------------------------------------------------------------------------------------
# C04 Selector
# ---------------------------------------------------------------------------------------------

@register
class C04(BtProp):
    pid = "C04"
    exhaustive = True
    invalid_block = ("sel", ["interrupt-on-change"])
    profiles = [("sel", 0.7), ("coreprobe", 0.3)]
    keep = "TN"
    keep_events = "EUXY"
    keep_own = False
    rule = ("random trees biased to selectors (memory on/off, 0..4 children, nested anywhere); each tick of each "
            "entered selector is compared with an independent statement of the rules; non-trivial = the selection "
            "of a selector with >= 2 children changed between two ticks")

    def check_op(self, sh, prev, o):
        if not o.op.startswith("tick"):
            return []
        out = []
        Y = yielded(o)
        ent = entered(o)
        for q in composite_entries(sh, o, "S"):
            mem = sh.node[q][2]
            kids = sh.kids[q]
            fresh = st_of(prev, q) != "R"
            mine = [c for c in ent if c in kids]
            if not kids:
                if Y.get(q) != "F":
                    out.append(viol("empty-selector", "empty selector %d returned %s" % (q, Y.get(q))))
                continue
            pc = cur_of(prev, q)
            if fresh or not mem:
                start = 0
            else:
                # the child that was RUNNING on the previous tick (every priority again if an edit removed it)
                start = next((j for j, c in enumerate(kids) if st_of(prev, c) == "R"), 0)
            if mine != kids[start:start + len(mine)] or not mine:
                out.append(viol("order", "selector %d (mem=%s fresh=%s) ticked %s, children %s, expected start %d"
                                % (q, mem, fresh, mine, kids, start), mem=mem))
                continue
            res = [Y.get(c) for c in mine]
            if any(r in ("R", "S") for r in res[:-1]):
                out.append(viol("select", "selector %d continued past a RUNNING/SUCCESS child: %s" % (q, res)))
            last = res[-1]
            at_end = start + len(mine) == len(kids)
            if last in ("R", "S"):
                if Y.get(q) != last:
                    out.append(viol("status", "selector %d returned %s, selected child returned %s"
                                    % (q, Y.get(q), last)))
            elif not at_end:
                out.append(viol("select", "selector %d gave up before its last child" % q))
            elif Y.get(q) != "F":
                out.append(viol("status", "selector %d returned %s although every ticked child failed"
                                % (q, Y.get(q))))
            if (Y.get(q) == "F") != (last not in ("R", "S")):
                out.append(viol("failure-iff", "selector %d" % q))
            if interrupted_later(sh, o, q):
                continue
            running_kids = [c for c in kids if any(st_of(o, d) == "R" for d in sh.subtree(c))]
            sel = mine[-1] if last in ("R", "S") else None
            if len(running_kids) > 1 or (running_kids and running_kids != [sel]):
                out.append(viol("one-running", "selector %d has RUNNING children %s, selected %s"
                                % (q, running_kids, sel)))
            if sel is not None:
                prev_sel = next((c for c in kids if st_of(prev, c) in ("R", "S")), None) if not fresh else None
                if prev_sel is None and not fresh:
                    prev_sel = pc
                if sel != prev_sel:
                    for c in kids[kids.index(sel) + 1:]:
                        if st_of(o, c) != "I":
                            out.append(viol("interrupt-on-change",
                                            "selector %d: selection %s -> %s but lower-priority child %d is %s"
                                            % (q, prev_sel, sel, c, st_of(o, c)),
                                            fresh=fresh, first_selected=(sel == kids[0]),
                                            stale_running=(st_of(o, c) == "R")))
            if mem:
                for c in kids[:start]:
                    if st_of(o, c) != "I":
                        out.append(viol("memory-skip", "selector %d: skipped higher priority %d is %s"
                                        % (q, c, st_of(o, c))))
        return out

    def nontrivial_key(self, s, lines):
        sh = Shape(scn_spec(s))
        prev = None
        for o in parse_obs(lines):
            if not o.ok:
                break
            for q in composite_entries(sh, o, "S"):
                if len(sh.kids[q]) >= 2 and prev is not None and cur_of(prev, q) is not None \
                        and cur_of(prev, q) != cur_of(o, q):
                    return text_hash(s.text())
            prev = o
        return None


# ---------------------------------------------------------------------------------------------
# C05 Parallel
# ---------------------------------------------------------------------------------------------

def policy_of(sh, q):
    parts = sh.node[q][2].split(":")
    if parts[0] == "all":
        return ("all", parts[1] == "1", None)
    if parts[0] == "one":
        return ("one", False, None)
    return ("sel", parts[1] == "1", [int(x) for x in parts[2].split(",") if x != ""])


def policy_valid(sh, q):
    kind, _, ids = policy_of(sh, q)
    return kind != "sel" or (len(ids) > 0 and all(i in sh.kids[q] for i in ids))


@register
class C05(BtProp):
    pid = "C05"
    invalid_block = ("par", ["cleanup"])
    exhaustive = True
    profiles = [("par", 0.75), ("coreprobe", 0.25)]
    keep = "TN"
    keep_events = "EUXY"
    keep_own = False
    rule = ("random trees biased to parallels: every policy, selections (valid, empty, non-child), synchronise on/off, "
            "0..4 children; each tick of each entered parallel compared with an independent statement of the rules; "
            "non-trivial = a synchronised parallel skipped a child, or a parallel completed while a child was RUNNING")

    def with_setpol(self, out, rng):
        # the policy of a parallel is a public attribute: in a share of the scenarios another policy (of any type, valid
        # or not) is assigned to one parallel between two operations; from then on that policy governs
        for sc in out:
            if sc.family != "bt" or not sc.header[0].startswith("tree ") or rng.random() > 0.15 or len(sc.ops) < 2:
                continue
            pars = [n for n in spec_nodes(scn_spec(sc)) if n[0] == "P"]
            if not pars:
                continue
            q = rng.choice(pars)
            kids = [c[1] for c in q[3]]
            r = rng.random()
            if r < 0.3:
                pol = "all:" + rng.choice("01")
            elif r < 0.5:
                pol = "one"
            else:
                ids = [i for i in kids if rng.random() < 0.5] or (kids[:1] if rng.random() < 0.8 else [])
                pol = "sel:%s:%s" % (rng.choice("01"), ",".join(str(i) for i in ids))
            sc.ops.insert(rng.randint(1, len(sc.ops) - 1), "setpol %d %s" % (q[1], pol))

    def check_op(self, sh, prev, o):
        if o.op.startswith("setpol"):
            t = o.op.split()
            n = sh.node[int(t[1])]
            sh.node[int(t[1])] = tuple(n[:2]) + (t[2],) + tuple(n[3:])      # the new policy governs from here on
            return []
        if not o.op.startswith("tick"):
            return []
        out = []
        Y = yielded(o)
        ent = entered(o)
        for q in composite_entries(sh, o, "P"):
            kind, sync, ids = policy_of(sh, q)
            kids = sh.kids[q]
            if not policy_valid(sh, q):
                out.append(viol("validate", "parallel %d with an invalid selection was ticked without RuntimeError" % q))
                continue
            fresh = st_of(prev, q) != "R"
            mine = [c for c in ent if c in kids]
            if fresh:
                expect = list(kids)
            else:
                expect = [c for c in kids if not (sync and st_of(prev, c) == "S")]
            if mine != expect:
                out.append(viol("ticks-all", "parallel %d (sync=%s fresh=%s) ticked %s expected %s"
                                % (q, sync, fresh, mine, expect), sync=sync))
                continue
            if fresh:
                # "on fresh entry all children are reset to INVALID": a leaf child that still shows last round's result is
                # told so (terminate(INVALID)) before it is entered again - whatever the policy
                for c in kids:
                    if sh.is_leaf(c) and st_of(prev, c) in ("S", "F") and c in mine:
                        evs = [(e[0], e[1], e[2]) for e in o.T]
                        first_e = next((j for j, e in enumerate(evs) if e[0] == "E" and e[1] == c), None)
                        if first_e is not None and not any(e == ("X", c, "I") for e in evs[:first_e]):
                            out.append(viol("entry-reset", "parallel %d fresh entry: child %d kept %s from the last round "
                                            "and was entered without a reset" % (q, c, st_of(prev, c)), sync=sync))
            if q not in Y:
                continue
            after = {c: (Y.get(c) if c in mine else st_of(prev, c)) for c in kids}
            if any(v == "F" for v in after.values()):
                want = "F"
            elif kind == "all":
                want = "S" if all(v == "S" for v in after.values()) else "R"
            elif kind == "one":
                want = "S" if any(v == "S" for v in after.values()) else "R"
            else:
                want = "S" if all(after[i] == "S" for i in ids) else "R"
            if Y[q] != want:
                out.append(viol("result", "parallel %d policy %s children %s returned %s expected %s"
                                % (q, sh.node[q][2], after, Y[q], want), policy=kind, empty=(not kids)))
            if interrupted_later(sh, o, q):
                continue
            if Y[q] in ("S", "F"):
                for c in kids:
                    if any(st_of(o, d) == "R" for d in sh.subtree(c)):
                        out.append(viol("cleanup", "parallel %d completed %s with child %d still RUNNING"
                                        % (q, Y[q], c)))
        return out

    def generate(self, rng, tier):
        out = BtProp.generate(self, rng, tier)
        self.with_setpol(out, rng)
        # a selection that becomes invalid while the parallel is RUNNING: the selected child is pruned between two ticks
        n = max(20, len([s for s in out if "_x_" not in s.name]) // 10)
        for i in range(n):
            k = rng.randint(2, 4)
            kids = [("L", 2 + j, ["probe"]) for j in range(k)]
            sel = sorted(rng.sample(range(2, 2 + k), rng.randint(1, k)))
            victim = rng.choice(sel)
            spec = ("P", 1, "sel:%s:%s" % (rng.choice("01"), ",".join(map(str, sel))), kids)
            if rng.random() < 0.5:
                spec = ("Q", 50, False, [spec, ("L", 60, ["probe"])])
            allr = ",".join("%d:R" % (2 + j) for j in range(k)) + ",60:R"
            ops = ["tick o=%s g= t=0" % allr]
            if rng.random() < 0.5:
                ops.append("tick o=%s g= t=1" % allr)
            ops += ["prune %d" % victim, "tick o=%s g= t=2" % allr]
            s = bt_gen.Scenario("bt", "%s_%s_e%d" % (self.pid, tier[0], i), ["tree " + bt_impl.spec_str(spec)], ops,
                                {"spec": spec, "must_raise_last": True})
            out.append(s)
        # a selection naming a non-child is rejected at setup, whatever the number of children (also none)
        for i in range(max(10, n // 2)):
            k = rng.choice([0, 0, 1, 2, 3])
            kids = [("L", 2 + j, ["probe"]) for j in range(k)]
            sel = sorted(rng.sample(range(2, 2 + k), rng.randint(0, k))) + [90]      # 90 is nobody's child
            if rng.random() < 0.3:
                sel = []                                                            # empty selection: invalid too
            spec = ("P", 1, "sel:%s:%s" % (rng.choice("01"), ",".join(map(str, sel))), kids)
            if rng.random() < 0.5:
                spec = ("Q", 50, False, [("L", 60, ["probe"]), spec])
            s = bt_gen.Scenario("bt", "%s_%s_su%d" % (self.pid, tier[0], i), ["tree " + bt_impl.spec_str(spec)],
                                ["setup"], {"spec": spec, "must_raise_setup": True})
            out.append(s)
        return out

    def oracle(self, s, lines):
        if s.meta.get("must_raise_setup"):
            if not any(l.startswith("ERR RuntimeError") for l in lines):
                return [viol("validate-at-setup", "a SuccessOnSelected selection that is empty or names a non-child was not "
                             "rejected with RuntimeError at setup: %s" % [l for l in lines if not l.startswith("SPEC")][:3])]
            return []
        if s.meta.get("must_raise_last"):
            obs = parse_obs(lines)
            last = obs[-1] if obs else None
            if last is None or last.err != "RuntimeError":
                return [viol("validate-at-tick", "the selected child was removed while the parallel was RUNNING; the next "
                             "tick did not raise RuntimeError (%s)" % (last.err if last else None))]
            return []
        return BtProp.oracle(self, s, lines)

    def check_history(self, sh, obs):
        # an invalid selection must raise RuntimeError when its parallel is reached
        out = []
        for o in obs:
            if o.err is not None and o.err != "RuntimeError" and o.op.startswith("tick"):
                out.append(viol("unexpected-error", "tick raised %s" % o.err))
        return out

    def nontrivial_key(self, s, lines):
        sh = Shape(scn_spec(s))
        prev = None
        for o in parse_obs(lines):
            if not o.ok:
                break
            for q in composite_entries(sh, o, "P"):
                kids = sh.kids[q]
                mine = [c for c in entered(o) if c in kids]
                if len(mine) < len(kids) or (st_of(o, q) in "SF" and any(e[0] == "X" and e[2] == "I" for e in o.T)):
                    return text_hash(s.text())
            prev = o
        return None


# ---------------------------------------------------------------------------------------------
# C09 decorator status maps
# ---------------------------------------------------------------------------------------------

DEC_MAP = {
    "inv": {"S": "F", "F": "S", "R": "R"},
    "rif": {"R": "F"}, "ris": {"R": "S"}, "fis": {"F": "S"}, "fir": {"F": "R"}, "sif": {"S": "F"}, "sir": {"S": "R"},
    "pass": {}, "count": {}, "s2b": {},
}


def dec_kind(sh, i):
    return sh.node[i][2].split(":")[0]


@register
class C09(BtProp):
    pid = "C09"
    p_setup = 0.04
    invalid_block = ("dec", [])
    profiles = [("dec", 0.6), ("stock", 0.2), ("coreprobe", 0.2)]
    keep = "TNW"
    keep_events = "EUXY"
    rule = ("random trees biased to decorators (stacked, over composites, under every parent); per tick the decorator's "
            "status is compared with the documented function of the child's status, Count counters and the published "
            "blackboard value are tracked; non-trivial = a stateless/Count/StatusToBlackboard decorator was ticked "
            "with a RUNNING child at least once and completed at least once")

    def check_op(self, sh, prev, o):
        if o.op.startswith("setup") and o.ok:
            # Count.setup() "resets the counters": after a (re-)setup every counter of every Count is zero, so that the
            # counters equal what occurred since
            out = []
            for d in sh.node:
                if sh.kind(d) == "D" and dec_kind(sh, d) == "count" and d in o.N:
                    b = [int(x) for x in o.N[d][2][1:].split(",")]
                    if any(b):
                        out.append(viol("count-setup", "Count %d counters %s after setup()" % (d, b)))
            return out
        if not o.op.startswith("tick"):
            return []
        out = []
        Y = yielded(o)
        ent = entered(o)
        for d in [i for i in ent if sh.kind(i) == "D"]:
            k = dec_kind(sh, d)
            c = sh.kids[d][0]
            if k == "guard":
                # an EternalGuard whose condition is not false (anything but False / FAILURE) ticks its child exactly
                # once and mirrors it; when it is false it fails without ticking the child
                gv = dict((int(a), b in ("1", "S", "R")) for a, b in
                          (p.split(":") for t in o.op.split() if t.startswith("g=") and len(t) > 2
                           for p in t[2:].split(",")))
                is_open = gv.get(int(str(sh.node[d][2]).split(":")[1]), True)
                n_child = sum(1 for e in ent if e == c)
                if is_open and (n_child != 1 or Y.get(d) != Y.get(c)):
                    out.append(viol("guard-open", "EternalGuard %d condition not false: child entered %d times, child %s, "
                                    "guard %s" % (d, n_child, Y.get(c), Y.get(d))))
                if not is_open and (n_child != 0 or Y.get(d) != "F"):
                    out.append(viol("guard-closed", "EternalGuard %d condition false: child entered %d times, guard %s"
                                    % (d, n_child, Y.get(d))))
                continue
            if k == "oneshot":
                # a OneShot that has not completed (child completion covered by its policy, never an interruption) ticks its
                # child exactly once and mirrors it
                latched = sh.__dict__.setdefault("_oneshot_done", {})
                n_child = sum(1 for e in ent if e == c)
                if d not in latched:
                    if n_child != 1 or Y.get(d) != Y.get(c):
                        out.append(viol("oneshot-open", "OneShot %d has not completed: child entered %d times, child %s, "
                                        "oneshot %s" % (d, n_child, Y.get(c), Y.get(d))))
                    both = str(sh.node[d][2]).split(":")[1] == "1"
                    if Y.get(c) == "S" or (both and Y.get(c) == "F"):
                        latched[d] = Y.get(c)
                continue
            if k in ("retry", "repeat", "cond", "timeout"):
                continue
            n_child = sum(1 for e in ent if e == c)
            if n_child != 1:
                out.append(viol("ticks-child-once", "decorator %d (%s) entered its child %d times" % (d, k, n_child)))
                continue
            cs = Y.get(c)
            want = DEC_MAP[k].get(cs, cs)
            if Y.get(d) != want:
                out.append(viol("status-map", "%s %d: child %s -> %s, expected %s" % (k, d, cs, Y.get(d), want), dec=k))
            if k == "s2b":
                key, path = sh.node[d][2].split(":")[1:3]
                got = o.W.get(key)
                if path == "-" and got != "s:" + cs and not self._overwritten(sh, o, d, key):
                    out.append(viol("publish", "StatusToBlackboard %d child %s but %s=%s" % (d, cs, key, got)))
                if path != "-" and got is not None and got.startswith("o{") and not self._overwritten(sh, o, d, key):
                    # nested variable name key.a.b: when that attribute path exists afterwards it holds the status
                    from props_bb import get_path
                    from common import val_parse, val_str
                    # (its parent object exists: the write creates / overwrites the last attribute)
                    parts = path.split(".")
                    try:
                        v = val_parse(got)
                        okp, _ = get_path(v, parts[:-1])
                        ok, x = get_path(v, parts)
                    except Exception:
                        okp = ok = False
                    if okp and (not ok or val_str(x) != "s:" + cs):
                        out.append(viol("publish-nested", "StatusToBlackboard %d child %s but %s.%s=%s"
                                        % (d, cs, key, path, val_str(x) if ok else "<missing>")))
            if k == "count" and prev is not None and d in prev.N and not interrupted_later(sh, o, d):
                a = [int(x) for x in prev.N[d][2][1:].split(",")]
                b = [int(x) for x in o.N[d][2][1:].split(",")]
                exp = [a[0] + 1, a[1] + (cs == "R"), a[2] + (want == "S"), a[3] + (want == "F")]
                if b[:4] != exp:
                    out.append(viol("count", "Count %d counters %s -> %s expected %s" % (d, a, b, exp)))
            if Y.get(d) in ("S", "F") and not interrupted_later(sh, o, d):
                if any(st_of(o, x) == "R" for x in sh.subtree(c)):
                    out.append(viol("no-strand", "decorator %d finished %s with its child subtree RUNNING"
                                    % (d, Y.get(d))))
        return out

    def oracle(self, s, lines):
        out = BtProp.oracle(self, s, lines)
        if not (s.meta.get("invalid_outcomes") or s.meta.get("impl_only")):
            # "every decorator's status is the documented function of its child's status" also for the decorators with
            # memory (Retry, Repeat, Condition, Timeout, EternalGuard, OneShot): the reference of C10 is reused
            from props import get
            out += get("C10").check_history(Shape(scn_spec(s)), parse_obs(lines)) or []
        return out

    @staticmethod
    def _overwritten(sh, o, d, key):
        """another node writing the same key later in the same tick"""
        ent = entered(o)
        later = ent[ent.index(d) + 1:] if d in ent else []
        ys = [e[1] for e in o.T if e[0] == "Y"]
        after_d = ys[ys.index(d) + 1:] if d in ys else []
        for i in set(later) | set(after_d):
            n = sh.node[i]
            if n[0] == "D" and n[2].startswith("s2b:") and n[2].split(":")[1] == key:
                return True
            if n[0] == "L" and n[2][0] in ("set", "unset", "cvs") and key in [str(x) for x in n[2]]:
                return True
        return False

    def nontrivial_key(self, s, lines):
        sh = Shape(scn_spec(s))
        seen_r = seen_done = False
        for o in parse_obs(lines):
            if not o.ok:
                break
            Y = yielded(o)
            for d in [i for i in entered(o) if sh.kind(i) == "D"]:
                if dec_kind(sh, d) in DEC_MAP:
                    if Y.get(sh.kids[d][0]) == "R":
                        seen_r = True
                    if Y.get(d) in ("S", "F"):
                        seen_done = True
        return text_hash(s.text()) if seen_r and seen_done else None


# ---------------------------------------------------------------------------------------------
# C10 stateful decorators
# ---------------------------------------------------------------------------------------------

@register
class C10(BtProp):
    pid = "C10"
    p_setup = 0.04
    profiles = [("dec", 0.8), ("coreprobe", 0.2)]
    keep = "TN"
    keep_events = "EUXY"
    rule = ("random trees biased to decorators with counts 0..4 (and -1), both one-shot policies, awaited statuses, "
            "durations 0..3 under a controlled integer clock with advances 0..3, guards flipping between ticks; an "
            "independent reference automaton per stateful decorator follows the history; non-trivial = a stateful "
            "decorator was ticked in at least two different rounds or was interrupted while RUNNING")

    def generate(self, rng, tier):
        out = BtProp.generate(self, rng, tier)
        for s in out:
            s.meta["now"] = True
        return out

    def check_history(self, sh, obs):
        out = []
        ref = {}   # decorator id -> dict state
        prev = None
        for o in obs:
            if not o.ok:
                break
            if o.op.startswith("tick"):
                now = 0
                for t in o.op.split():
                    if t.startswith("t="):
                        now = int(t[2:])
                guards = dict((int(a), b in ("1", "S", "R")) for a, b in
                              (p.split(":") for t in o.op.split() if t.startswith("g=") and len(t) > 2
                               for p in t[2:].split(",")))
                Y = yielded(o)
                ent = entered(o)
                for d in [i for i in ent if sh.kind(i) == "D"]:
                    parts = sh.node[d][2].split(":")
                    k = parts[0]
                    if k not in ("retry", "repeat", "cond", "timeout", "guard", "oneshot"):
                        continue
                    c = sh.kids[d][0]
                    r = ref.setdefault(d, {"n": 0, "final": None, "finish": 0})
                    fresh = st_of(prev, d) != "R"
                    child_ticked = c in ent
                    cs = Y.get(c)
                    got = Y.get(d)
                    want = None
                    if k == "oneshot" and r["final"] is not None:
                        if child_ticked:
                            out.append(viol("oneshot-reticks", "OneShot %d latched %s ticked its child again"
                                            % (d, r["final"])))
                        want = r["final"]
                    elif k == "guard" and not guards.get(int(parts[1]), True):
                        if child_ticked:
                            out.append(viol("guard-ticks-child", "EternalGuard %d false but child ticked" % d))
                        want = "F"
                    else:
                        if not child_ticked:
                            out.append(viol("ticks-child-once", "%s %d did not tick its child" % (k, d)))
                            continue
                        if fresh:
                            r["n"] = 0
                            r["finish"] = now + int(parts[1]) if k == "timeout" else 0
                        if k == "retry":
                            if cs == "F":
                                r["n"] += 1
                                want = "R" if r["n"] < int(parts[1]) else "F"
                            else:
                                want = cs
                        elif k == "repeat":
                            if cs == "S":
                                r["n"] += 1
                                want = "S" if r["n"] == int(parts[1]) else "R"
                            else:
                                want = cs
                        elif k == "cond":
                            want = "S" if cs == parts[1] else "R"
                        elif k == "timeout":
                            want = "F" if (cs == "R" and now > r["finish"]) else cs
                        else:
                            want = cs
                    if got != want:
                        out.append(viol(k, "%s %d at `%s`: child %s, returned %s, expected %s (ref %s)"
                                        % (sh.node[d][2], d, o.op, cs, got, want, r), dec=k))
                    if k == "timeout" and cs in ("S", "F") and child_ticked and not interrupted_later(sh, o, d) \
                            and st_of(o, c) != cs:
                        # the child is cancelled exactly when it is still RUNNING past the deadline; a child that
                        # completed by itself keeps its result
                        out.append(viol("timeout-cancels-finished", "Timeout %d: child %d completed %s on this tick but "
                                        "shows %s afterwards" % (d, c, cs, st_of(o, c))))
                    if k == "oneshot" and r["final"] is None and got in ("S", "F"):
                        if got == "S" or parts[1] == "1":
                            r["final"] = got
                    if got in ("S", "F") and not interrupted_later(sh, o, d):
                        if any(st_of(o, x) == "R" for x in sh.subtree(c)):
                            out.append(viol("no-strand", "%s %d finished %s with child RUNNING" % (k, d, got)))
            prev = o
            if out:
                break
        return out

    def nontrivial_key(self, s, lines):
        sh = Shape(scn_spec(s))
        rounds = {}
        prev = None
        for o in parse_obs(lines):
            if not o.ok:
                break
            for d in [i for i in entered(o) if sh.kind(i) == "D"]:
                if dec_kind(sh, d) in ("retry", "repeat", "cond", "timeout", "guard", "oneshot"):
                    if st_of(prev, d) != "R":
                        rounds[d] = rounds.get(d, 0) + 1
            prev = o
        return text_hash(s.text()) if any(v >= 2 for v in rounds.values()) else None


# ---------------------------------------------------------------------------------------------
# C19 tip
# ---------------------------------------------------------------------------------------------

@register
class C19(BtProp):
    pid = "C19"
    exhaustive = True
    profiles = [("coreprobe", 0.5), ("seqsel", 0.5)]
    keep = "NP"
    keep_own = False
    keep_cur = True
    rule = ("random trees over all node kinds (half of them sequence/selector-only over leaves) with schedules and root "
            "interrupts; tip() of every node after every op; non-trivial = the root tip changed at least twice")

    def check_op(self, sh, prev, o):
        out = []
        for i in sh.node:
            t = o.P.get(i)
            if (t is None) != (st_of(o, i) == "I"):
                out.append(viol("none-iff-invalid", "node %d status %s tip %s after `%s`" % (i, st_of(o, i), t, o.op),
                                kind=sh.kind(i)))
            elif t is not None:
                if t not in sh.subtree(i):
                    out.append(viol("tip-inside", "tip of %d is %d, outside its subtree" % (i, t)))
                elif st_of(o, t) == "I":
                    out.append(viol("tip-live", "tip of %d is %d which is INVALID" % (i, t)))
        if 0 in o.P and o.P.get(0) != o.P.get(sh.root):
            # tip() of a tree is tip() of its root: None exactly when the root is INVALID
            out.append(viol("tree-tip", "BehaviourTree.tip() is %s but the root's tip is %s" % (o.P.get(0), o.P.get(sh.root))))
        if o.op.startswith("tick") and all(sh.kind(i) in ("Q", "S", "L") for i in sh.node):
            leaves = [e[1] for e in o.T if e[0] == "Y" and not sh.kids[e[1]]]   # childless behaviours
            want = leaves[-1] if leaves else (sh.root if st_of(o, sh.root) != "I" else None)
            if leaves and o.P.get(sh.root) != want:
                out.append(viol("last-leaf", "root tip %s, last leaf ticked %s" % (o.P.get(sh.root), want)))
        return out

    def nontrivial_key(self, s, lines):
        tips = []
        for o in parse_obs(lines):
            if o.ok:
                r = o.order[0] if o.order else None
                tips.append(o.P.get(r))
        changes = sum(1 for a, b in zip(tips, tips[1:]) if a != b)
        return text_hash(s.text()) if changes >= 2 else None


# ---------------------------------------------------------------------------------------------
# C17 stock behaviours
# ---------------------------------------------------------------------------------------------

def _get(W, key, path):
    from common import val_parse, Obj
    if key not in W:
        return False, None
    v = val_parse(W[key])
    if path != "-":
        for a in path.split("."):
            if isinstance(v, Obj) and hasattr(v, a):
                v = getattr(v, a)
            else:
                return False, None
    return True, v


def _cmp(op, a, b):
    import operator
    try:
        return {"eq": operator.eq, "ne": operator.ne, "lt": operator.lt, "le": operator.le, "gt": operator.gt,
                "ge": operator.ge}[op](a, b)
    except TypeError:
        return None


WRITERS = ("set", "unset", "cvs")


@register
class C17(BtProp):
    pid = "C17"
    stream_share = 0.3

    def generate(self, rng, tier):
        out = BtProp.generate(self, rng, tier)
        if tier == "search":
            return out
        # OUTSIDE THE MODEL's value universe: tuple values (a pose, "one of" sets) stored on the blackboard and compared
        # against; implementation only, judged by the documented rules of the value checks
        TV = ["u[]", "u[i:1]", "u[i:1,i:2]", "u[t:idle,t:docked]", "i:1", "t:idle"]
        for i in range(max(100, len(out) // 20)):
            kind = rng.choice(["cv", "wv"])
            key = rng.choice(["/a", "/b"])
            leaf = ("L", 2, [kind, key, "-", rng.choice(["eq", "ne"]), rng.choice(TV)])
            spec = ("Q", 1, False, [leaf, ("L", 3, ["probe"])])
            ops = []
            for t in range(rng.randint(2, 5)):
                if rng.random() < 0.7:
                    ops.append("setbb %s %s" % (key, rng.choice(TV)))
                ops.append("tick o=3:%s g= t=%d" % (rng.choice("SRF"), t))
            sc = bt_gen.Scenario("bt", "%s_%s_tup_%d" % (self.pid, tier[0], i), ["tree " + bt_impl.spec_str(spec)], ops,
                                 {"spec": spec, "impl_only": True})
            out.append(sc)
        return out
    profiles = [("stock", 1.0)]
    keep = "TNW"
    keep_events = "IUX"
    rule = ("random trees whose leaves are the stock behaviours over a 4-variable blackboard (absent / ints / bools / "
            "statuses / None / objects with or without the nested attribute), every operator, durations / queues / n from "
            "0..4, controlled clock, interrupts, re-entry, values poked between ticks; the status of every stock leaf "
            "update is recomputed from the documented rule; non-trivial = >= 3 different stock kinds were ticked and one "
            "of them was re-entered after an interruption or completion")

    def check_history(self, sh, obs):
        from common import val_parse
        out = []
        cnt = {}       # leaf -> updates since initialise
        total = {}     # leaf -> updates overall
        entry = {}     # leaf -> clock at initialise
        prevW = {}
        # configurations that legitimately raise out of update(): an empty cycling StatusQueue (pop from an empty
        # list) and SuccessEveryN(0) (modulo by zero); any other IndexError / ValueError / AssertionError /
        # ZeroDivisionError escaping a tick of stock behaviours breaks the documented rules
        may_raise = any(n[0] == "L" and ((n[2][0] == "sq" and str(n[2][1]) in ("", "-") and str(n[2][2]) == "-")
                                         or (n[2][0] == "sen" and int(n[2][1]) == 0)) for n in sh.node.values())
        # KeyError out of a tick is documented for BlackboardToStatus on a missing variable and for nested writes
        # (set / StatusToBlackboard with key.attr) on a missing key
        may_key = any((n[0] == "L" and (n[2][0] == "b2s" or (n[2][0] == "set" and str(n[2][2]) != "-")))
                      or (n[0] == "D" and str(n[2]).startswith("s2b:") and str(n[2]).split(":")[2] != "-")
                      for n in sh.node.values())
        # TypeError out of a tick is documented for ordering comparisons of values that cannot be ordered, and for a
        # BlackboardToStatus variable that holds something else than a Status
        def _ordering(n):
            a = [str(x) for x in n[2]]
            if a[0] in ("cv", "wv"):
                return a[3] in ("lt", "le", "gt", "ge")
            if a[0] == "cvs":
                return any(a[4 + 4 * j] in ("lt", "le", "gt", "ge") for j in range(int(a[1])))
            return a[0] == "b2s"
        may_type = any(n[0] == "L" and _ordering(n) for n in sh.node.values())
        for o in obs:
            if not o.ok:
                if o.err == "internal" and o.op.startswith("tick") and not may_raise:
                    out.append(viol("stock-raised", "`%s` raised an IndexError / ValueError / AssertionError / "
                                    "ZeroDivisionError out of the tick" % o.op[:40]))
                if o.err == "AttributeError" and o.op.startswith("tick"):
                    # a missing (nested) variable is a FAILURE / RUNNING / KeyError by the documented rules, never an
                    # AttributeError out of the tick
                    out.append(viol("stock-raised", "`%s` raised AttributeError out of the tick" % o.op[:40]))
                if o.err == "TypeError" and o.op.startswith("tick") and not may_type:
                    out.append(viol("stock-raised", "`%s` raised TypeError although every comparison in the tree is == / !="
                                    % o.op[:40]))
                if o.err == "KeyError" and o.op.startswith("tick") and not may_key:
                    out.append(viol("stock-raised", "`%s` raised KeyError although no behaviour in the tree reads a "
                                    "variable that must exist" % o.op[:40]))
                break
            if o.op.startswith("tick"):
                now = 0
                for t in o.op.split():
                    if t.startswith("t="):
                        now = int(t[2:])
                dirty = False    # a blackboard writer ran earlier in this tick
                for e in o.T:
                    k, i, st = e
                    n = sh.node[i]
                    if k == "E":
                        if (n[0] == "L" and n[2][0] in WRITERS) or (n[0] == "D" and n[2].startswith("s2b")):
                            dirty_next = True
                        else:
                            dirty_next = False
                    if n[0] != "L":
                        if k == "Y" and n[0] == "D" and n[2].startswith("s2b"):
                            dirty = True
                        continue
                    kind = n[2][0]
                    if k == "I":
                        cnt[i] = 0
                        entry[i] = now
                    if k != "U":
                        continue
                    cnt[i] = cnt.get(i, 0) + 1
                    total[i] = total.get(i, 0) + 1
                    want = None
                    a = [str(x) for x in n[2]]
                    if kind == "const":
                        want = a[1]
                    elif kind == "tc":
                        want = "R" if cnt[i] <= int(a[1]) else a[2]
                    elif kind == "sq":
                        q = a[1]
                        kk = total[i] - 1
                        if kk < len(q):
                            want = q[kk]
                        elif a[2] != "-":
                            want = a[2]
                        else:
                            want = q[kk % len(q)]
                    elif kind == "sen":
                        want = "S" if total[i] % int(a[1]) == 0 else "F"
                    elif kind == "timer":
                        want = "S" if now > entry.get(i, now) + int(a[1]) else "R"
                    elif not dirty:
                        W = prevW
                        if kind in ("cex", "wf"):
                            ok, _ = _get(W, a[1], a[2])
                            want = "S" if ok else ("F" if kind == "cex" else "R")
                        elif kind in ("cv", "wv"):
                            ok, v = _get(W, a[1], a[2])
                            r = _cmp(a[3], v, val_parse(a[4])) if ok else False
                            if r is not None:
                                want = "S" if r else ("F" if kind == "cv" else "R")
                        elif kind == "cvs":
                            # every check on its own variable (two checks may name the same variable), combined with
                            # the logical operator; a missing variable fails the behaviour
                            import functools
                            import operator as _op
                            nchk = int(a[1])
                            checks = [a[2 + 4 * j:6 + 4 * j] for j in range(nchk)]
                            logic = a[2 + 4 * nchk]
                            res_keys = a[3 + 4 * nchk:]
                            rs = []
                            for (ck, cp, cop, cv_) in checks:
                                ok, v = _get(W, ck, cp)
                                if not ok:
                                    rs = None
                                    break
                                r = _cmp(cop, v, val_parse(cv_))
                                if r is None:
                                    rs = "?"
                                    break
                                rs.append(bool(r))
                            if rs is None:
                                want = "F"
                            elif rs != "?":
                                red = functools.reduce({"and": _op.and_, "or": _op.or_, "xor": _op.xor}[logic], rs)
                                want = "S" if red else "F"
                                if res_keys and st == want:
                                    pub = [o.W.get(rk) for rk in res_keys]
                                    exp = ["b:1" if r else "b:0" for r in rs]
                                    if pub != exp:
                                        out.append(viol("cvs-publish", "CheckBlackboardVariableValues %d results %s but "
                                                        "published %s" % (i, exp, pub), kind="cvs"))
                        elif kind == "unset":
                            want = "S"
                        elif kind == "set":
                            if a[4] == "0" and a[1] in W:
                                want = "F"
                            elif a[2] == "-":
                                want = "S"
                            else:
                                # nested name key.a.b: when the object holding the last attribute exists the write
                                # succeeds (creating or overwriting that attribute)
                                from common import Obj
                                parts = a[2].split(".")
                                okp, parent = _get(W, a[1], ".".join(parts[:-1]) or "-")
                                if okp and isinstance(parent, Obj):
                                    want = "S"
                        elif kind == "b2s":
                            ok, v = _get(W, a[1], a[2])
                            if ok and hasattr(v, "name") and W_is_status(v):
                                want = {"SUCCESS": "S", "FAILURE": "F", "RUNNING": "R", "INVALID": "I"}[v.name]
                    if kind in WRITERS:
                        dirty = True
                    if want is not None and st != want:
                        out.append(viol(kind, "%s leaf %d at `%s` returned %s, documented rule says %s (updates since entry "
                                        "%d, overall %d)" % (" ".join(a), i, o.op, st, want, cnt[i], total[i]), kind=kind))
                # effects visible afterwards
                for i, n in sh.node.items():
                    if n[0] == "L" and n[2][0] == "unset" and ("U", i, "S") in o.T:
                        later_writer = False
                        ent = entered(o)
                        for j in ent[ent.index(i) + 1:] if i in ent else []:
                            m = sh.node[j]
                            if (m[0] == "L" and m[2][0] in ("set", "cvs")) or (m[0] == "D" and m[2].startswith("s2b")):
                                later_writer = True
                        if not later_writer and str(n[2][1]) in o.W and not any(
                                sh.node[j][0] == "D" and sh.node[j][2].startswith("s2b") for j in sh.node):
                            out.append(viol("unset-effect", "UnsetBlackboardVariable %d ran but %s still has a value"
                                            % (i, n[2][1])))
                # a SetBlackboardVariable (plain or nested name) that reported SUCCESS has written the value (unless a later
                # writer of the same key ran in this tick)
                for i, n in sh.node.items():
                    if n[0] == "L" and n[2][0] == "set" and ("U", i, "S") in o.T:
                        ent = entered(o)
                        key = str(n[2][1])
                        later = False
                        for j in ent[ent.index(i) + 1:] if i in ent else []:
                            m = sh.node[j]
                            if (m[0] == "L" and m[2][0] in WRITERS and key in [str(x) for x in m[2]]) \
                                    or (m[0] == "D" and m[2].startswith("s2b")):
                                later = True
                        if ent.count(i) != 1 or later or any(sh.node[j][0] == "D" and sh.node[j][2].startswith("s2b")
                                                             for j in sh.node):
                            continue
                        ok, v = _get(o.W, key, str(n[2][2]))
                        from common import val_str as _vs
                        # (the value itself, not merely one that compares equal: False is not 0)
                        if not ok or _vs(v) != _vs(val_parse(str(n[2][3]))):
                            out.append(viol("set-effect", "SetBlackboardVariable %d reported SUCCESS but %s.%s is %s, not %s"
                                            % (i, key, n[2][2], _vs(v) if ok else "<missing>", n[2][3]), kind="set"))
                # StatusToBlackboard publishes the child's status on every tick (round trip with BlackboardToStatus)
                Yd = yielded(o)
                for d, n in sh.node.items():
                    if n[0] == "D" and n[2].startswith("s2b:") and d in Yd and n[2].split(":")[2] == "-":
                        key = n[2].split(":")[1]
                        cs = Yd.get(sh.kids[d][0])
                        if cs is not None and o.W.get(key) != "s:" + cs and not C09._overwritten(sh, o, d, key):
                            out.append(viol("s2b-publish", "StatusToBlackboard %d: child %s but %s=%s after `%s`"
                                            % (d, cs, key, o.W.get(key), o.op[:30]), kind="s2b"))
            prevW = dict(o.W)
            if out:
                break
        return out

    def nontrivial_key(self, s, lines):
        sh = Shape(scn_spec(s))
        kinds = set()
        reentered = False
        inits = {}
        for o in parse_obs(lines):
            if not o.ok:
                break
            for e in o.T:
                if e[0] == "U" and sh.is_leaf(e[1]) and sh.node[e[1]][2][0] != "probe":
                    kinds.add(sh.node[e[1]][2][0])
                if e[0] == "I" and sh.is_leaf(e[1]) and sh.node[e[1]][2][0] != "probe":
                    inits[e[1]] = inits.get(e[1], 0) + 1
                    if inits[e[1]] >= 2:
                        reentered = True
        return text_hash(s.text()) if len(kinds) >= 3 and reentered else None


def W_is_status(v):
    from common import Status
    return isinstance(v, Status)
