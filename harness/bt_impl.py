"""Runs `bt` scenarios on the real py_trees classes and prints the protocol's observation lines."""
import operator

from common import py_trees, Status, ST, TS, Obj, val_str, val_parse, err_kind

Blackboard = py_trees.blackboard.Blackboard

# ---------------------------------------------------------------------------------------------
# tree specs: ("L", id, [kind tokens]) | ("Q"|"S", id, mem, [children]) | ("P", id, pol, [children])
#             | ("D", id, kind, child)
# ---------------------------------------------------------------------------------------------


def spec_tokens(n):
    t = n[0]
    if t == "L":
        return ["(", "L", str(n[1])] + [str(x) for x in n[2]] + [")"]
    if t in ("Q", "S"):
        out = ["(", t, str(n[1]), "1" if n[2] else "0"]
        for c in n[3]:
            out += spec_tokens(c)
        return out + [")"]
    if t == "P":
        out = ["(", "P", str(n[1]), n[2]]
        for c in n[3]:
            out += spec_tokens(c)
        return out + [")"]
    if t == "D":
        return ["(", "D", str(n[1]), n[2]] + spec_tokens(n[3]) + [")"]
    raise ValueError(n)


def spec_str(n):
    return " ".join(spec_tokens(n))


def parse_spec(tokens):
    """inverse of spec_tokens; returns (node, rest)"""
    assert tokens[0] == "("
    t = tokens[1]
    nid = int(tokens[2])
    if t == "L":
        j = tokens.index(")", 3)
        return ("L", nid, tokens[3:j]), tokens[j + 1:]
    if t in ("Q", "S", "P"):
        arg = tokens[3]
        rest = tokens[4:]
        cs = []
        while rest[0] != ")":
            c, rest = parse_spec(rest)
            cs.append(c)
        if t == "P":
            return ("P", nid, arg, cs), rest[1:]
        return (t, nid, arg == "1", cs), rest[1:]
    if t == "D":
        c, rest = parse_spec(tokens[4:])
        assert rest[0] == ")"
        return ("D", nid, tokens[3], c), rest[1:]
    raise ValueError(tokens[:5])


def spec_children(n):
    if n[0] == "L":
        return []
    if n[0] == "D":
        return [n[3]]
    return n[3]


def spec_nodes(n):
    out = [n]
    for c in spec_children(n):
        out += spec_nodes(c)
    return out


def spec_ids(n):
    return [m[1] for m in spec_nodes(n)]


# ---------------------------------------------------------------------------------------------
# fake clock
# ---------------------------------------------------------------------------------------------


class FakeTime(object):
    def __init__(self):
        self.now = 0

    def monotonic(self):
        return float(self.now)

    def time(self):
        return float(self.now)

    def sleep(self, _):
        pass


CLOCK = FakeTime()


def install_clock():
    py_trees.decorators.time = CLOCK
    py_trees.timers.time = CLOCK


# ---------------------------------------------------------------------------------------------
# building the real tree
# ---------------------------------------------------------------------------------------------


class Ctx(object):
    def __init__(self):
        self.trace = []
        self.outcomes = {}
        self.guards = {}
        self.hooks = []
        self.by_id = {}       # spec id -> behaviour
        self.nid = {}         # behaviour uuid -> spec id
        self.names = {}


class Probe(py_trees.behaviour.Behaviour):
    def __init__(self, name, nid, ctx):
        super().__init__(name=name)
        self._nid = nid
        self._ctx = ctx

    def initialise(self):
        self._ctx.trace.append("I%d" % self._nid)

    def update(self):
        s = self._ctx.outcomes.get(self._nid, Status.RUNNING)
        self._ctx.trace.append("U%d:%s" % (self._nid, ST[s]))
        return s

    def terminate(self, new_status):
        self._ctx.trace.append("X%d:%s" % (self._nid, ST[new_status]))

    def __len__(self):
        # a behaviour may be a container of the user's making; this one is always empty, i.e. falsy: the library must
        # never confuse "no behaviour" (None) with a behaviour that happens to be falsy
        return 0


OPS = {"eq": operator.eq, "ne": operator.ne, "lt": operator.lt, "le": operator.le, "gt": operator.gt,
       "ge": operator.ge}
LOGIC = {"and": operator.and_, "or": operator.or_, "xor": operator.xor}


def varname(key, path):
    return key if path == "-" else key + "." + path


def wrap_leaf_callbacks(b, nid, ctx):
    """record initialise/update/terminate of a stock leaf (instance-level wrappers)"""
    oi, ou, ot = b.initialise, b.update, b.terminate

    def initialise():
        ctx.trace.append("I%d" % nid)
        return oi()

    def update():
        s = ou()
        ctx.trace.append("U%d:%s" % (nid, ST.get(s, "?")))
        return s

    def terminate(new_status):
        ctx.trace.append("X%d:%s" % (nid, ST[new_status]))
        return ot(new_status)

    b.initialise, b.update, b.terminate = initialise, update, terminate


def wrap_tick(b, nid, ctx):
    orig = b.tick

    def tick():
        ctx.trace.append("E%d" % nid)
        seq = getattr(ctx, "mseq", None)
        if seq is not None:
            seq.append("e%d" % nid)
        for node in orig():
            if node is b and seq is not None:
                seq.append("z%d:%s" % (nid, ST[b.status]))     # the status it came out of its tick with
            yield node

    b.tick = tick


def _user_subclass(cls):
    """what a user does with a composite: a subclass (same class name) that fills in the documented, empty hooks
    initialise() / terminate() without calling super() - the library's own work must not live in those hooks"""
    return type(cls.__name__, (cls,), {"initialise": lambda self: None,
                                       "terminate": lambda self, new_status: None,
                                       "__module__": cls.__module__})


USER_CLASS = {c: _user_subclass(c) for c in (py_trees.composites.Sequence, py_trees.composites.Selector,
                                             py_trees.composites.Parallel)}


def build_leaf(nid, k, ctx, name):
    B = py_trees.behaviours
    kind = k[0]
    if kind == "probe":
        return Probe(name, nid, ctx)
    if kind == "const":
        cls = {"S": B.Success, "F": B.Failure, "R": B.Running}[k[1]]
        b = cls(name=name)
    elif kind == "tc":
        b = B.TickCounter(name=name, duration=int(k[1]), completion_status=TS[k[2]])
    elif kind == "sq":
        q = [] if k[1] == "-" else [TS[c] for c in k[1]]
        b = B.StatusQueue(name=name, queue=q, eventually=None if k[2] == "-" else TS[k[2]])
    elif kind == "sen":
        b = B.SuccessEveryN(name=name, n=int(k[1]))
    elif kind == "timer":
        b = py_trees.timers.Timer(name=name, duration=float(int(k[1])))
    elif kind == "cex":
        b = B.CheckBlackboardVariableExists(name=name, variable_name=varname(k[1], k[2]))
    elif kind == "wf":
        b = B.WaitForBlackboardVariable(name=name, variable_name=varname(k[1], k[2]))
    elif kind in ("cv", "wv"):
        chk = py_trees.common.ComparisonExpression(variable=varname(k[1], k[2]), value=val_parse(k[4]),
                                                   operator=OPS[k[3]])
        cls = B.CheckBlackboardVariableValue if kind == "cv" else B.WaitForBlackboardVariableValue
        b = cls(name=name, check=chk)
    elif kind == "cvs":
        n = int(k[1])
        checks = []
        for j in range(n):
            key, path, op, v = k[2 + 4 * j: 6 + 4 * j]
            checks.append(py_trees.common.ComparisonExpression(variable=varname(key, path), value=val_parse(v),
                                                               operator=OPS[op]))
        rest = k[2 + 4 * n:]
        ns = None
        if len(rest) > 1:
            # result keys are <ns>/1 .. <ns>/n
            ns = rest[1].rsplit("/", 1)[0]
        b = B.CheckBlackboardVariableValues(name=name, checks=checks, operator=LOGIC[rest[0]], namespace=ns)
    elif kind == "set":
        # a generator, so that every tick writes a FRESH object (no aliasing of one mutable value across ticks)
        b = B.SetBlackboardVariable(name=name, variable_name=varname(k[1], k[2]),
                                    variable_value=(lambda t=k[3]: val_parse(t)), overwrite=k[4] == "1")
    elif kind == "unset":
        b = B.UnsetBlackboardVariable(name=name, key=k[1])
    elif kind == "b2s":
        b = B.BlackboardToStatus(name=name, variable_name=varname(k[1], k[2]))
    else:
        raise ValueError(k)
    wrap_leaf_callbacks(b, nid, ctx)
    return b


def build_dec(nid, k, child, ctx, name):
    D = py_trees.decorators
    parts = k.split(":")
    kind = parts[0]
    simple = {"inv": D.Inverter, "rif": D.RunningIsFailure, "ris": D.RunningIsSuccess, "fis": D.FailureIsSuccess,
              "fir": D.FailureIsRunning, "sif": D.SuccessIsFailure, "sir": D.SuccessIsRunning,
              "pass": D.PassThrough, "count": D.Count}
    if kind in simple:
        return simple[kind](name=name, child=child)
    if kind == "cond":
        return D.Condition(name=name, child=child, status=TS[parts[1]])
    if kind == "retry":
        return D.Retry(name=name, child=child, num_failures=int(parts[1]))
    if kind == "repeat":
        return D.Repeat(name=name, child=child, num_success=int(parts[1]))
    if kind == "timeout":
        return D.Timeout(name=name, child=child, duration=float(int(parts[1])))
    if kind == "guard":
        gid = int(parts[1])
        def condition(invert=False):
            # a condition may have optional parameters of its own; it is called without arguments (only a parameter
            # named `blackboard` asks for the guard's blackboard client)
            v = ctx.guards.get(gid, True)
            return (not v) if invert else v
        return D.EternalGuard(name=name, child=child, condition=condition)
    if kind == "oneshot":
        pol = py_trees.common.OneShotPolicy.ON_COMPLETION if parts[1] == "1" \
            else py_trees.common.OneShotPolicy.ON_SUCCESSFUL_COMPLETION
        return D.OneShot(name=name, child=child, policy=pol)
    if kind == "s2b":
        return D.StatusToBlackboard(name=name, child=child, variable_name=varname(parts[1], parts[2]))
    raise ValueError(k)


def make_policy(text, ctx):
    parts = text.split(":")
    PP = py_trees.common.ParallelPolicy
    if parts[0] == "all":
        return PP.SuccessOnAll(synchronise=parts[1] == "1")
    if parts[0] == "one":
        return PP.SuccessOnOne()
    ids = [int(x) for x in parts[2].split(",") if x != ""]
    return PP.SuccessOnSelected(children=[ctx.by_id[i] if i in ctx.by_id else Probe("stranger", i, ctx) for i in ids],
                                synchronise=parts[1] == "1")


def build(spec, ctx, names=None):
    """spec -> real behaviour tree (every node registered in ctx and tick-wrapped)"""
    names = names or {}
    t, nid = spec[0], spec[1]
    name = names.get(nid, "b%d" % (nid % 2))    # display names collide on purpose
    if t == "L":
        b = build_leaf(nid, spec[2], ctx, name)
    elif t in ("Q", "S"):
        kids = [build(c, ctx, names) for c in spec[3]]
        cls = USER_CLASS[py_trees.composites.Sequence if t == "Q" else py_trees.composites.Selector]
        b = cls(name=name, memory=spec[2], children=kids)
    elif t == "P":
        kids = [build(c, ctx, names) for c in spec[3]]
        pol = make_policy(spec[2], ctx)
        b = USER_CLASS[py_trees.composites.Parallel](name=name, policy=pol, children=kids)
    elif t == "D":
        child = build(spec[3], ctx, names)
        b = build_dec(nid, spec[2], child, ctx, name)
    else:
        raise ValueError(spec)
    ctx.by_id[nid] = b
    ctx.nid[b.id] = nid
    if t in ("Q", "S", "P"):
        # the user's own hooks of a composite: logged (implementation-only line HK), never calling super()
        b.initialise = lambda nid=nid: ctx.hooks.append("ci%d" % nid)
        b.terminate = lambda new_status, nid=nid: ctx.hooks.append("ct%d:%s" % (nid, ST[new_status]))
    if t == "D":
        # a decorator is a behaviour too: its own initialise() / terminate() are logged on the same line (and run)
        oi, ot = b.initialise, b.terminate

        def d_init(nid=nid, oi=oi):
            ctx.hooks.append("di%d" % nid)
            return oi()

        def d_term(new_status, nid=nid, ot=ot):
            ctx.hooks.append("dt%d:%s" % (nid, ST.get(new_status, "?")))
            return ot(new_status)
        b.initialise, b.terminate = d_init, d_term
    wrap_tick(b, nid, ctx)
    return b


# ---------------------------------------------------------------------------------------------
# observations
# ---------------------------------------------------------------------------------------------


def own_state(b):
    """private state of a stock behaviour / decorator; a changed library may hold anything there: never raise"""
    try:
        return _own_state(b)
    except Exception as e:
        return "x!" + type(e).__name__


def _own_state(b):
    D = py_trees.decorators
    B = py_trees.behaviours
    if isinstance(b, D.Retry):
        return "f%d" % b.failures
    if isinstance(b, D.Repeat):
        return "s%d" % b.success
    if isinstance(b, D.Timeout):
        return "t%d" % int(b.finish_time)
    if isinstance(b, D.OneShot):
        return "o" + (ST[b.final_status] if b.final_status else "-")
    if isinstance(b, D.Count):
        return "c%d,%d,%d,%d,%d" % (b.total_tick_count, b.running_count, b.success_count, b.failure_count,
                                    b.interrupt_count)
    if isinstance(b, B.TickCounter):
        return "c%d" % b.counter
    if isinstance(b, B.StatusQueue):
        return "q" + ("".join(ST[s] for s in b.current_queue) or "-")
    if isinstance(b, B.SuccessEveryN):
        return "c%d" % b.count
    if isinstance(b, py_trees.timers.Timer):
        return "t%d" % int(b.finish_time)
    return ""


def preorder(b):
    out = [b]
    for c in b.children:
        out += preorder(c)
    return out


def dump(root, ctx):
    out = []
    for b in preorder(root):
        cur = "-"
        if isinstance(b, py_trees.composites.Composite) and b.current_child is not None:
            cur = str(ctx.nid.get(b.current_child.id, "?"))
        out.append("%s:%s:%s:%s" % (ctx.nid.get(b.id, "?"), ST[b.status], cur, own_state(b)))
    return " ".join(out)


def store_str():
    return " ".join("%s=%s" % (k, val_str(v)) for k, v in sorted(Blackboard.storage.items()))


def tips(root, ctx):
    out = []
    tree = getattr(ctx, "tree", None)
    if tree is not None and tree.root is root:
        t = tree.tip()       # entry 0: the tree-level tip
        out.append("0=%s" % ("-" if t is None else ctx.nid.get(t.id, "?")))
    else:
        t = root.tip()
        out.append("0=%s" % ("-" if t is None else ctx.nid.get(t.id, "?")))
    for b in preorder(root):
        t = b.tip()
        out.append("%s=%s" % (ctx.nid.get(b.id, "?"), "-" if t is None else ctx.nid.get(t.id, "?")))
    return " ".join(out)


def report(root, ctx):
    hk = "HK " + " ".join(ctx.hooks)
    del ctx.hooks[:]
    return ["T " + " ".join(ctx.trace), "N " + dump(root, ctx), "W " + store_str(), "P " + tips(root, ctx), hk]


def parse_pairs(tok):
    out = {}
    if tok:
        for p in tok.split(","):
            a, b = p.split(":")
            out[int(a)] = b
    return out


def tick_args(toks):
    d = {"o": "", "g": "", "t": "0"}
    for t in toks:
        if "=" in t:
            k, v = t.split("=", 1)
            d[k] = v
    return ({k: TS[v] for k, v in parse_pairs(d["o"]).items()},
            {k: (TS[v] if v in ("S", "F", "R") else v == "1") for k, v in parse_pairs(d["g"]).items()}, int(d["t"]))


class BtRun(object):
    """one scenario on the real classes"""

    def __init__(self, spec, names=None):
        Blackboard.clear()
        install_clock()
        CLOCK.now = 0
        self.ctx = Ctx()
        self.root = build(spec, self.ctx, names)
        self.tree = py_trees.trees.BehaviourTree(self.root)
        self.ctx.tree = self.tree
        self.names = names
        self.dead = False

    def step(self, line):
        if self.dead:
            return ["SKIP"]
        ctx = self.ctx
        toks = line.split()
        ctx.trace = []
        op = toks[0]
        try:
            if op == "tick":
                ctx.outcomes, ctx.guards, CLOCK.now = tick_args(toks[1:])
                for node in self.root.tick():
                    ctx.trace.append("Y%s:%s" % (ctx.nid.get(node.id, "?"), ST[node.status]))
            elif op == "stop":
                ctx.by_id[int(toks[1])].stop(Status.INVALID)
            elif op == "setpol":
                # the policy of a parallel is a public attribute: assigning another one (of any type) between ticks
                ctx.by_id[int(toks[1])].policy = make_policy(toks[2], ctx)
            elif op == "setbb":
                Blackboard.storage[toks[1]] = val_parse(toks[2])
            elif op == "unsetbb":
                Blackboard.storage.pop(toks[1], None)
            elif op in ("prune", "replace", "insert"):
                return self.edit(op, toks)
            elif op == "render":
                import rd_impl
                import io
                import contextlib
                vis = {b.id: b.status for b in preorder(self.root) if b.status != Status.INVALID}
                with contextlib.redirect_stdout(io.StringIO()):
                    ch = rd_impl.render_all(self.root, vis, {})
                return ["RO " + ("ok" if not ch else "changed " + ",".join(ch))] + report(self.root, ctx)
            elif op == "mgr":
                return self.mgr_config(toks)
            elif op == "mtick":
                return self.mtick(toks)
            elif op in ("setup", "setupt", "shutdown"):
                return self.setup_shutdown(op)
            else:
                return ["bad-op"]
        except Exception as e:  # noqa: B902
            self.dead = True
            self.last_exception = e
            return ["ERR " + err_kind(e)]
        return report(self.root, ctx)


def _edit(self, op, toks):
    import uuid
    ctx = self.ctx
    target = int(toks[1])
    # an id is a value: it reaches the tree as an equal UUID object (parsed back from its text, as it would after a
    # round trip through a message or a file), not as the very object the behaviour holds
    uid = uuid.UUID(str(ctx.by_id[target].id)) if target in ctx.by_id else uuid.uuid4()
    try:
        if op == "prune":
            r = self.tree.prune_subtree(uid)
        elif op == "replace":
            sub, rest = parse_spec(toks[2:])
            r = self.tree.replace_subtree(uid, build(sub, ctx, self.names))
        else:
            sub, rest = parse_spec(toks[3:])
            r = self.tree.insert_subtree(build(sub, ctx, self.names), uid, int(toks[2]))
        res = "True" if r else "False"
    except (RuntimeError, TypeError) as e:
        res = type(e).__name__
    return ["R " + res] + report(self.root, ctx)


BtRun.edit = _edit


class LogVisitor(py_trees.visitors.VisitorBase):
    def __init__(self, j, full, run):
        super().__init__(full=full)
        self.j = j
        self.r = run

    def initialise(self):
        self.r.mlog.append("vi%d" % self.j)

    def run(self, behaviour):
        self.r.mlog.append("vr%d:%s:%s" % (self.j, self.r.ctx.nid.get(behaviour.id, "?"), ST[behaviour.status]))
        if not self.full and getattr(self.r.ctx, "mseq", None) is not None:
            self.r.ctx.mseq.append("v%d:%s:%s" % (self.j, self.r.ctx.nid.get(behaviour.id, "?"), ST[behaviour.status]))

    def finalise(self):
        self.r.mlog.append("vf%d" % self.j)

    # visitors may compare equal without being the same object (value equality "by configuration", dataclasses):
    # every registered visitor takes part all the same
    def __eq__(self, other):
        return isinstance(other, LogVisitor)

    def __hash__(self):
        return 1


def _mgr_config(self, toks):
    d = dict(t.split("=", 1) for t in toks[1:] if "=" in t)
    self.mlog = []
    self.hcounts = []
    self.snap = None
    tree = self.tree
    # another tree of the same process with its own handlers and visitor: nothing registered there belongs to this tree
    decoy = py_trees.trees.BehaviourTree(py_trees.behaviours.Success(name="decoy"))
    decoy.add_pre_tick_handler(lambda t: self.mlog.append("decoyPre"))
    decoy.add_post_tick_handler(lambda t: self.mlog.append("decoyPost"))
    decoy.add_visitor(LogVisitor(99, True, self))
    self.decoy = decoy
    for j, c in enumerate(d.get("v", "")):
        if c == "s":
            v = py_trees.visitors.SnapshotVisitor()
            oi, orun, of = v.initialise, v.run, v.finalise

            def initialise(oi=oi, j=j):
                self.mlog.append("vi%d" % j)
                oi()

            def run(b, orun=orun, j=j):
                self.mlog.append("vr%d:%s:%s" % (j, self.ctx.nid.get(b.id, "?"), ST[b.status]))
                if getattr(self.ctx, "mseq", None) is not None:
                    self.ctx.mseq.append("v%d:%s:%s" % (j, self.ctx.nid.get(b.id, "?"), ST[b.status]))
                orun(b)

            def finalise(of=of, j=j):
                self.mlog.append("vf%d" % j)
                of()
            v.initialise, v.run, v.finalise = initialise, run, finalise
            self.snap = v
        else:
            v = LogVisitor(j, c == "f", self)
        tree.add_visitor(v)
    for i in range(int(d.get("pre", "0") or 0)):
        tree.add_pre_tick_handler(lambda t, i=i: (self.mlog.append("pre%d" % i), self.hcounts.append(t.count)))
    for i in range(int(d.get("post", "0") or 0)):
        tree.add_post_tick_handler(lambda t, i=i: (self.mlog.append("post%d" % i), self.hcounts.append(t.count)))
    return ["ok"]


def _mtick(self, toks):
    ctx = self.ctx
    d = dict(t.split("=", 1) for t in toks[1:] if "=" in t)
    ctx.outcomes, ctx.guards, CLOCK.now = tick_args(toks[1:])
    self.mlog = []
    ctx.mseq = []      # merged sequence of tick entries (e), own yields (z) and ordinary visitor runs (v): oracle only
    # the traversal's yields are observed by an extra ordinary visitor appended for the duration of this tick
    spy = py_trees.visitors.VisitorBase(full=False)
    spy.run = lambda b: ctx.trace.append("Y%s:%s" % (ctx.nid.get(b.id, "?"), ST[b.status]))
    self.tree.visitors.append(spy)
    add = d.get("a", "")

    self.hcounts = []      # tree.count as every handler saw it (implementation-only line H)

    def pre_once(t):
        self.mlog.append("preOnce")
        self.hcounts.append(t.count)
        if add:
            # a handler that registers another visitor: it must take part in this very tick
            j = len([v for v in t.visitors if v is not spy])
            t.visitors.insert(len(t.visitors) - 1, LogVisitor(j, add == "f", self))
    class Handler(object):
        """a one-off handler is any callable: this one is an (empty) container object, i.e. falsy"""
        def __init__(self, f):
            self.f = f

        def __call__(self, t):
            return self.f(t)

        def __len__(self):
            return 0
    pre_h = Handler(pre_once) if (d.get("p") == "1" or add) else None
    post_h = Handler(lambda t: (self.mlog.append("postOnce"), self.hcounts.append(t.count))) if d.get("q") == "1" else None
    try:
        if d.get("tt") == "1":
            # the same tick driven through tick_tock (one iteration, no sleep): same contract
            self.tree.tick_tock(period_ms=0, number_of_iterations=1, pre_tick_handler=pre_h, post_tick_handler=post_h)
        else:
            self.tree.tick(pre_tick_handler=pre_h, post_tick_handler=post_h)
    finally:
        self.tree.visitors.remove(spy)

    def pairs(m):
        return ",".join("%s:%s" % (k, v) for k, v in sorted((ctx.nid.get(i, 0), ST[s]) for i, s in m.items()))
    sn = self.snap
    v = "V %s | %s | %s" % ((pairs(sn.visited), pairs(sn.previously_visited), "1" if sn.changed else "0")
                           if sn is not None else ("?", "?", "?"))
    q = "Q " + " ".join(ctx.mseq)
    # the blackboard part of the snapshot record, next to what the ticked behaviours' clients really hold (B / BX:
    # implementation-only lines for the oracle)
    extra = []
    if sn is not None:
        ticked = [int(x[1:].split(":")[0]) for x in ctx.mseq if x[0] == "z"]
        keys, cids = set(), set()
        for nid in ticked:
            for bc in ctx.by_id[nid].blackboards:
                cids.add(bc.id())
                keys |= set(bc.read) | set(bc.write) | set(bc.exclusive)
        extra = ["B %d %s" % (len(sn.visited_blackboard_client_ids), ",".join(sorted(sn.visited_blackboard_keys))),
                 "BX %d %s" % (len(cids), ",".join(sorted(keys)))]
    ctx.mseq = None
    extra.append("H " + " ".join(str(x) for x in self.hcounts))
    return ["L " + " ".join(self.mlog), "K %d" % self.tree.count, v, q] + extra + report(self.root, ctx)


def _setup_shutdown(self, op):
    ctx = self.ctx
    log = []
    for nid, b in ctx.by_id.items():
        if not getattr(b, "_verif_su", False):
            osu, osd = b.setup, b.shutdown

            def setup(osu=osu, nid=nid, **kw):
                log_ref[0].append("%d%s" % (nid, "" if kw == {"x": 1} else "!kw"))
                return osu(**kw)

            def shutdown(osd=osd, nid=nid):
                log_ref[0].append(str(nid))
                return osd()
            b.setup, b.shutdown = setup, shutdown
            b._verif_su = True
    log_ref[0] = log
    if op in ("setup", "setupt"):
        try:
            if op == "setupt":
                self.tree.setup(timeout=30.0, x=1)     # the signal / timer guarded path
            else:
                self.tree.setup(x=1)
        except RuntimeError:
            self.dead = True
            return ["U " + " ".join(log), "ERR RuntimeError"]
        return ["U " + " ".join(log)] + report(self.root, ctx)
    self.tree.shutdown()
    return ["D " + " ".join(log)]


log_ref = [[]]
BtRun.mgr_config = _mgr_config
BtRun.mtick = _mtick
BtRun.setup_shutdown = _setup_shutdown


# ---------------------------------------------------------------------------------------------
# reflection: a real tree -> spec (ids in pre-order), used for trees the library builds itself (idioms)
# ---------------------------------------------------------------------------------------------

import operator as _op

OPNAME = {_op.eq: "eq", _op.ne: "ne", _op.lt: "lt", _op.le: "le", _op.gt: "gt", _op.ge: "ge"}
LOGICNAME = {_op.and_: "and", _op.or_: "or", _op.xor: "xor"}


def abs_key(name, ns="/"):
    key = name.split(".")[0]
    return Blackboard.absolute_name(ns, key)


def key_path(variable_name, client=None):
    parts = variable_name.split(".")
    ns = object.__getattribute__(client, "namespace") if client is not None else "/"
    return Blackboard.absolute_name(ns, parts[0]), (".".join(parts[1:]) or "-")


def reflect_leaf(b):
    B = py_trees.behaviours
    if isinstance(b, Probe):
        return ["probe"]
    name = type(b).__name__
    if name in ("Success", "Failure", "Running", "Dummy"):
        return ["const", {"Success": "S", "Failure": "F", "Running": "R", "Dummy": "R"}[name]]
    if isinstance(b, B.TickCounter):
        return ["tc", b.duration, ST[b.completion_status]]
    if isinstance(b, B.StatusQueue):
        return ["sq", "".join(ST[x] for x in b.queue) or "-", ST[b.eventually] if b.eventually else "-"]
    if isinstance(b, B.SuccessEveryN):
        return ["sen", b.every_n]
    if isinstance(b, py_trees.timers.Timer):
        return ["timer", int(b.duration)]
    if isinstance(b, B.WaitForBlackboardVariable):
        return ["wf"] + list(key_path(b.variable_name, b.blackboard))
    if isinstance(b, B.CheckBlackboardVariableExists):
        return ["cex"] + list(key_path(b.variable_name, b.blackboard))
    if isinstance(b, B.CheckBlackboardVariableValue):
        k, p = key_path(b.check.variable, b.blackboard)
        tag = "wv" if isinstance(b, B.WaitForBlackboardVariableValue) else "cv"
        return [tag, k, p, OPNAME[b.check.operator], val_str(b.check.value)]
    if isinstance(b, B.CheckBlackboardVariableValues):
        out = ["cvs", len(b.checks)]
        for c in b.checks:
            k, p = key_path(c.variable, b.blackboard)
            out += [k, p, OPNAME[c.operator], val_str(c.value)]
        out.append(LOGICNAME[b.operator])
        if b.blackboard_results is not None:
            ns = object.__getattribute__(b.blackboard_results, "namespace")
            out += [Blackboard.absolute_name(ns, str(i + 1)) for i in range(len(b.checks))]
        return out
    if isinstance(b, B.SetBlackboardVariable):
        k, p = key_path(b.variable_name, b.blackboard)
        return ["set", k, p, val_str(b.variable_value_generator()), "1" if b.overwrite else "0"]
    if isinstance(b, B.UnsetBlackboardVariable):
        return ["unset", Blackboard.absolute_name(object.__getattribute__(b.blackboard, "namespace"), b.key)]
    if isinstance(b, B.BlackboardToStatus):
        return ["b2s"] + list(key_path(b.variable_name, b.blackboard))
    raise ValueError("cannot reflect leaf %r" % b)


def reflect_dec(b, nid):
    D = py_trees.decorators
    simple = {D.Inverter: "inv", D.RunningIsFailure: "rif", D.RunningIsSuccess: "ris", D.FailureIsSuccess: "fis",
              D.FailureIsRunning: "fir", D.SuccessIsFailure: "sif", D.SuccessIsRunning: "sir", D.PassThrough: "pass",
              D.Count: "count"}
    if type(b) in simple:
        return simple[type(b)]
    if isinstance(b, D.Condition):
        return "cond:" + ST[b.succeed_status]
    if isinstance(b, D.Retry):
        return "retry:%d" % b.num_failures
    if isinstance(b, D.Repeat):
        return "repeat:%d" % b.num_success
    if isinstance(b, D.Timeout):
        return "timeout:%d" % int(b.duration)
    if isinstance(b, D.EternalGuard):
        return "guard:%d" % nid
    if isinstance(b, D.OneShot):
        return "oneshot:" + ("1" if b.policy == py_trees.common.OneShotPolicy.ON_COMPLETION else "0")
    if isinstance(b, D.StatusToBlackboard):
        k, p = key_path(b.variable_name, b.blackboard)
        return "s2b:%s:%s" % (k, p)
    raise ValueError("cannot reflect decorator %r" % b)


def reflect(root, ctx):
    """number the real tree in pre-order, register every node in ctx (tick / callback wrappers) and return its spec"""
    counter = [0]
    ids = {}

    def number(b):
        counter[0] += 1
        ids[b.id] = counter[0]
        for c in b.children:
            number(c)
    number(root)

    def go(b):
        nid = ids[b.id]
        C = py_trees.composites
        if isinstance(b, C.Sequence):
            spec = ("Q", nid, b.memory, [go(c) for c in b.children])
        elif isinstance(b, C.Selector):
            spec = ("S", nid, b.memory, [go(c) for c in b.children])
        elif isinstance(b, C.Parallel):
            PP = py_trees.common.ParallelPolicy
            if type(b.policy) is PP.SuccessOnAll:
                pol = "all:%d" % b.policy.synchronise
            elif type(b.policy) is PP.SuccessOnOne:
                pol = "one"
            else:
                pol = "sel:%d:%s" % (b.policy.synchronise, ",".join(str(ids.get(c.id, 9999)) for c in b.policy.children))
            spec = ("P", nid, pol, [go(c) for c in b.children])
        elif isinstance(b, py_trees.decorators.Decorator):
            spec = ("D", nid, reflect_dec(b, nid), go(b.decorated))
            if isinstance(b, py_trees.decorators.EternalGuard) and not getattr(b, "_verif_guard", False):
                pass
        else:
            spec = ("L", nid, reflect_leaf(b))
            if isinstance(b, Probe):
                b._nid = nid
            elif not getattr(b, "_verif_wrapped", False):
                wrap_leaf_callbacks(b, nid, ctx)
                b._verif_wrapped = True
        ctx.by_id[nid] = b
        ctx.nid[b.id] = nid
        if not getattr(b, "_verif_tick", False):
            wrap_tick(b, nid, ctx)
            b._verif_tick = True
        return spec
    return go(root)


def decode_name(t):
    return t.replace("~", " ").replace("^", "\n").replace("!", "\t")


def build_idiom(toks, ctx):
    """`idiom pickup name (tree) name (tree) …` | `idiom oneshot key path both (tree)` |
    `idiom eitheror ns n checks… (tree)…` built by the library itself; returns the real root"""
    kind = toks[1]
    rest = toks[2:]
    inner = Ctx()     # the wrapped subtrees are built un-instrumented, reflect() instruments the whole idiom

    def plain(spec, name=None):
        b = build_plain(spec, ctx)
        if name is not None:
            b.name = name
        return b
    if kind == "pickup":
        tasks = []
        while rest:
            nm = decode_name(rest[0])
            spec, rest = parse_spec(rest[1:])
            tasks.append(plain(spec, nm))
        return py_trees.idioms.pick_up_where_you_left_off(name="pickup", tasks=tasks)
    if kind == "oneshot":
        key, path, both = rest[0], rest[1], rest[2]
        spec, _ = parse_spec(rest[3:])
        pol = py_trees.common.OneShotPolicy.ON_COMPLETION if both == "1" \
            else py_trees.common.OneShotPolicy.ON_SUCCESSFUL_COMPLETION
        return py_trees.idioms.oneshot(behaviour=plain(spec), name="oneshot", variable_name=varname(key, path),
                                       policy=pol)
    if kind == "eitheror2":
        n = int(rest[0])
        rest = rest[1:]
        conds = []
        for _ in range(n):
            key, path, op, v = rest[:4]
            rest = rest[4:]
            conds.append((key, path, op, v))
        subs = []
        while rest:
            spec, rest = parse_spec(rest)
            subs.append(plain(spec))

        def mk(subtrees):
            cs = [py_trees.common.ComparisonExpression(variable=varname(k, p), value=val_parse(v), operator=OPS[o])
                  for k, p, o, v in conds]
            return py_trees.idioms.either_or(conditions=cs, subtrees=subtrees, name="either_or")     # default namespace
        return py_trees.composites.Parallel(
            name="both", policy=py_trees.common.ParallelPolicy.SuccessOnAll(synchronise=False),
            children=[mk(subs[:n]), mk(subs[n:])])
    if kind == "eitheror":
        ns, n = ("" if rest[0] == "-" else rest[0]), int(rest[1])      # `-`: the empty (root) namespace
        rest = rest[2:]
        conds = []
        for _ in range(n):
            key, path, op, v = rest[:4]
            rest = rest[4:]
            conds.append(py_trees.common.ComparisonExpression(variable=varname(key, path), value=val_parse(v),
                                                              operator=OPS[op]))
        subs = []
        while rest:
            spec, rest = parse_spec(rest)
            subs.append(plain(spec))
        return py_trees.idioms.either_or(conditions=conds, subtrees=subs, name="either_or", namespace=ns)
    raise ValueError(toks)


def build_plain(spec, ctx):
    """like build() but without registering ids / wrappers (reflect() does that for the finished idiom)"""
    scratch = Ctx()
    scratch.outcomes, scratch.guards = ctx.outcomes, ctx.guards
    b = build(spec, scratch)

    def unwrap(x):
        for attr in ("tick", "initialise", "update", "terminate"):
            if attr in x.__dict__:
                del x.__dict__[attr]
        if isinstance(x, Probe):
            x._ctx = ctx
        for c in x.children:
            unwrap(c)
    unwrap(b)
    return b


def run_bt(scn):
    """[observation lines] in the same framing as the driver"""
    toks = scn.header[0].split()
    if toks[0] == "idiom":
        run = BtRun.__new__(BtRun)
        Blackboard.clear()
        install_clock()
        CLOCK.now = 0
        run.ctx = Ctx()
        run.root = build_idiom(toks, run.ctx)
        spec = reflect(run.root, run.ctx)
        run.tree = py_trees.trees.BehaviourTree(run.root)
        run.ctx.tree = run.tree
        run.names = None
        run.dead = False
    else:
        spec, rest = parse_spec(toks[1:])
        assert rest == []
        run = BtRun(spec, scn.meta.get("names"))
    out = ["SPEC " + spec_str(spec)]
    if scn.meta.get("stream"):
        # the activity stream is pure logging: with it switched on the behaviours must act exactly as without
        Blackboard.enable_activity_stream(100)
    import re as _re
    seen = []

    def canon(m):
        if m.group(0) not in seen:
            seen.append(m.group(0))
        return "U%d" % (seen.index(m.group(0)) + 1)
    uuid_re = _re.compile(r"[0-9a-f]{8}_[0-9a-f]{4}_[0-9a-f]{4}_[0-9a-f]{4}_[0-9a-f]{12}")
    # keys derived from multi-line names; unique ids inside default namespaces are numbered in order of appearance
    enc = lambda l: uuid_re.sub(canon, l.replace("\n", "^").replace("\t", "!"))  # noqa: E731
    for op in scn.ops:
        out.append("> " + op)
        out += run.step(op)
    out = [enc(l) for l in out]
    return [("W " + " ".join(sorted(l[2:].split()))) if l.startswith("W ") else l for l in out]
