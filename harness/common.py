"""Shared plumbing of the correspondence harness: import of the code under test, value codec,
model driver invocation, scenario containers."""
import os
import subprocess
import sys
import time

VERIF = os.path.dirname(os.path.dirname(os.path.abspath(__file__)))
REPO = os.environ.get("VERIF_REPO", "/repo")
sys.dont_write_bytecode = True
if REPO not in sys.path:
    sys.path.insert(0, REPO)

import py_trees  # noqa: E402  (the code under test, from $VERIF_REPO)

assert os.path.realpath(py_trees.__file__).startswith(os.path.realpath(REPO)), (
    "py_trees imported from %s, expected under %s" % (py_trees.__file__, REPO))

py_trees.logging.level = py_trees.logging.Level.ERROR
# the library prints its error log lines to stdout; keep the protocol output clean (harness-side only)
py_trees.logging.Logger.error = lambda self, msg: None
Status = py_trees.common.Status

ST = {Status.SUCCESS: "S", Status.FAILURE: "F", Status.RUNNING: "R", Status.INVALID: "I"}
TS = {v: k for k, v in ST.items()}

DRIVER = os.path.join(VERIF, "lean", ".lake", "build", "bin", "driver")


class Obj(object):
    """attribute bag stored on the blackboard as a non-primitive value"""

    def __init__(self, **kw):
        for k, v in kw.items():
            setattr(self, k, v)

    def __eq__(self, other):
        return isinstance(other, Obj) and vars(self) == vars(other)

    def __ne__(self, other):
        return not self.__eq__(other)

    __hash__ = None

    def __repr__(self):
        return "Obj(%r)" % (vars(self),)


class Label(str):
    """a value whose type DERIVES from a primitive type (a str carrying attributes): not a bare primitive. Exists on the
    implementation side only (impl-only scenarios)."""


def val_str(v):
    """canonical text of a blackboard value (same as Codec.valStr on the model side)"""
    if v is None:
        return "n"
    if isinstance(v, Label):
        a = vars(v)
        return "l:" + str.__str__(v) + ("{" + ",".join("%s=%s" % (k, val_str(x)) for k, x in sorted(a.items())) + "}"
                                        if a else "")
    if isinstance(v, bool):
        return "b:1" if v else "b:0"
    if isinstance(v, int):
        return "i:%d" % v
    if isinstance(v, Status):
        return "s:" + ST[v]
    if isinstance(v, str):
        return "t:" + v
    if isinstance(v, Obj):
        return "o{" + ",".join("%s=%s" % (k, val_str(x)) for k, x in sorted(vars(v).items())) + "}"
    if isinstance(v, tuple):
        # tuples exist on the implementation side only (the model's value universe has none): impl-only scenarios
        return "u[" + ",".join(val_str(x) for x in v) + "]"
    return "?" + type(v).__name__


def val_parse(s):
    v, rest = _val_parse(s)
    assert rest == "", s
    return v


def _val_parse(s):
    if s.startswith("n"):
        return None, s[1:]
    if s.startswith("i:"):
        j = 2
        while j < len(s) and (s[j].isdigit() or s[j] == "-"):
            j += 1
        return int(s[2:j]), s[j:]
    if s.startswith("b:"):
        return s[2] == "1", s[3:]
    if s.startswith("s:"):
        return TS[s[2]], s[3:]
    if s.startswith("t:"):
        j = 2
        while j < len(s) and (s[j].isalnum() or s[j] in "_/."):
            j += 1
        return s[2:j], s[j:]
    if s.startswith("l:"):
        j = 2
        while j < len(s) and s[j].isalnum():
            j += 1
        v = Label(s[2:j])
        rest = s[j:]
        if rest.startswith("{"):
            o, rest = _val_parse("o" + rest)
            for k, x in vars(o).items():
                setattr(v, k, x)
        return v, rest
    if s.startswith("u["):
        items = []
        rest = s[2:]
        while not rest.startswith("]"):
            if rest.startswith(","):
                rest = rest[1:]
                continue
            v, rest = _val_parse(rest)
            items.append(v)
        return tuple(items), rest[1:]
    if s.startswith("o{"):
        o = Obj()
        rest = s[2:]
        while not rest.startswith("}"):
            if rest.startswith(","):
                rest = rest[1:]
                continue
            j = rest.index("=")
            name = rest[:j]
            v, rest = _val_parse(rest[j + 1:])
            setattr(o, name, v)
        return o, rest[1:]
    raise ValueError(s)


def err_kind(e):
    """map an exception to the small error enum of the protocol"""
    for cls, name in ((AssertionError, "internal"), (KeyError, "KeyError"), (AttributeError, "AttributeError"),
                      (TypeError, "TypeError"), (RuntimeError, "RuntimeError"), (IndexError, "internal"),
                      (ValueError, "internal"), (ZeroDivisionError, "internal")):
        if isinstance(e, cls):
            return name
    return "internal"


class Scenario(object):
    """family, name, header lines, op lines, free-form meta for oracles"""

    def __init__(self, family, name, header, ops, meta=None):
        self.family = family
        self.name = name
        self.header = list(header)
        self.ops = list(ops)
        self.meta = meta or {}

    def text(self):
        return "\n".join(["scenario %s %s" % (self.family, self.name)] + self.header + self.ops + ["end"]) + "\n"

    def to_json(self):
        import json
        meta = {k: v for k, v in (self.meta or {}).items() if k != "spec"}      # the spec is re-parsed from the header
        try:
            meta = json.loads(json.dumps(meta))
        except (TypeError, ValueError):
            meta = {}
        return {"family": self.family, "name": self.name, "header": self.header, "ops": self.ops, "meta": meta}

    @staticmethod
    def from_json(d):
        meta = d.get("meta")
        return Scenario(d["family"], d["name"], d["header"], d["ops"], dict(meta) if isinstance(meta, dict) else None)


def run_model(scenarios, timeout=600):
    """pipe scenarios through the Lean driver; returns {name: [observation lines]}"""
    if not os.path.exists(DRIVER):
        raise RuntimeError("model driver missing: %s (run `lake build driver`)" % DRIVER)
    text = "".join(s.text() for s in scenarios)
    p = subprocess.run([DRIVER], input=text.encode(), stdout=subprocess.PIPE, stderr=subprocess.PIPE, timeout=timeout)
    if p.returncode != 0:
        raise RuntimeError("driver failed: %s" % p.stderr.decode()[:500])
    out = {}
    cur = None
    for line in p.stdout.decode().split("\n"):
        if line.startswith("scenario "):
            cur = line.split(" ", 1)[1]
            out[cur] = []
        elif line == "end":
            cur = None
        elif cur is not None:
            out[cur].append(line)
    return out


def split_ops(lines):
    """[(op, [observation lines])] from the `> op` framing"""
    res = []
    for l in lines:
        if l.startswith("> "):
            res.append((l[2:], []))
        elif res:
            res[-1][1].append(l)
    return res


class Stopwatch(object):
    def __init__(self):
        self.t0 = time.time()

    def s(self):
        return round(time.time() - self.t0, 2)
