"""C20 rendering: structure of the text tree / dot graph (rd family) and read-only-ness in every runtime state
(bt family with `render` operations)."""
from props import Prop, register, text_hash
from common import Scenario
import bt_gen
import bt_impl
import rd_impl
from bt_impl import spec_str

NAMES = ["A", "A", "B", "Check", "Check*", "Check**", "x~y", "Go^Home", "A*", "B", "long~name~here", "^", "A^B", "A~B", "Go~Home", "x^y", "Is%^Holding", "x%y"]   # incl. names differing only by blank vs newline


def viol(clause, detail, **sig):
    return {"clause": clause, "detail": detail, "sig": sig}


def gen_d(rng, depth, budget):
    name = rng.choice(NAMES)
    bb = rng.choice([4, 4, 4, 1, 2, 3])
    budget[0] -= 1
    if depth >= 3 or budget[0] <= 0 or rng.random() < 0.35:
        return (name, bb, False, [])
    if rng.random() < 0.25:
        return (name, bb, True, [gen_d(rng, depth + 1, budget)])
    kids = [gen_d(rng, depth + 1, budget) for _ in range(rng.randint(1, 4)) if budget[0] > 0]
    return (name, bb, False, kids)


def d_str(d):
    return "( %s %d %s %s)" % (d[0], d[1], "1" if d[2] else "0", "".join(d_str(k) + " " for k in d[3]))


def d_nodes(d):
    out = [d]
    for k in d[3]:
        out += d_nodes(k)
    return out


@register
class C20(Prop):
    pid = "C20"
    family = "rd"
    rule = ("(a) random name/blackbox/decorator trees with duplicate, starred and multi-line names rendered as ascii / "
            "xhtml text (all indents) and as dot graphs for every visibility level x collapse flag: line count, order, "
            "indentation, unique node names, node and edge counts; (b) random behaviour trees in every runtime state "
            "(after ticks, interrupts, blackboard pokes, with the activity stream on) rendered by every renderer in every "
            "option combination with full before/after snapshots; non-trivial = (a) a tree with a duplicate name and a "
            "hidden subtree, (b) a render call on a tree with RUNNING nodes and a non-empty blackboard")
    assumptions = ["feedback messages are single-line", "pydot only used as a container (get_nodes/get_edges/get_name)"]

    def generate(self, rng, tier):
        n = {"quick": 1500, "thorough": 20000, "search": 2000}[tier]
        out = []
        for i in range(n):
            if i % 3 != 2:
                d = gen_d(rng, 0, [rng.choice([4, 8, 14])])
                ops = ["text %d" % rng.choice([0, 0, 1, 3]), "texts %d" % rng.choice([0, 2]),
                       "textsub %d %d" % (rng.randint(1, 5), rng.choice([0, 0, 2]))]      # a subtree still attached
                for vis in range(4):
                    for col in "01":
                        ops.append("dot %d %s" % (vis, col))
                if i % 6 == 0 and "^" not in d_str(d):
                    # render_dot_tree (slow: graphviz); names with newlines do not survive re-reading the file
                    ops.append("dotfile %d %s" % (rng.randrange(4), rng.choice("01")))
                out.append(Scenario("rd", "C20_%s_%d" % (tier[0], i), ["dtree " + d_str(d)], ops,
                                    {"d": d, "mode": rng.choice(["ascii", "ascii", "xhtml"])}))
            else:
                prof = bt_gen.Profile(**dict(vars(bt_gen.PROFILES["stock"]), invalid_policy=0.0))
                spec = bt_gen.gen_tree(rng, prof)
                ops = []
                now = 0
                for _ in range(rng.randint(2, 8)):
                    r = rng.random()
                    if r < 0.5:
                        now += 1
                        ops.append(bt_gen.gen_tick(rng, prof, spec, now))
                    elif r < 0.6:
                        ops.append("stop %d" % spec[1])
                    elif r < 0.75:
                        ops.append("setbb %s %s" % (rng.choice(bt_gen.KEYS), rng.choice(bt_gen.VALS)))
                    ops.append("render")
                names = {m[1]: rng.choice(["A", "A", "B*", "x y", "two\nlines", "win\r\nlines", "n%d" % m[1]])
                         for m in bt_impl.spec_nodes(spec)}
                out.append(Scenario("bt", "C20_%s_%d" % (tier[0], i), ["tree " + spec_str(spec)], ops,
                                    {"spec": spec, "names": names}))
        return out

    def run_impl(self, s):
        if s.family == "rd":
            return rd_impl.run_rd(s)
        py = rd_impl.py_trees
        py.blackboard.Blackboard.clear()
        out = bt_impl.run_bt(s)
        return out

    def project(self, s, lines):
        if s.family == "rd":
            return lines
        return [l for l in lines if l.startswith(">") or l.startswith("RO") or l.startswith("N ") or l.startswith("W ")
                or l.startswith("ERR") or l.startswith("SKIP")]

    def oracle(self, s, lines):
        out = []
        if s.family == "bt":
            for l in lines:
                if l.startswith("RO ") and l != "RO ok":
                    out.append(viol("read-only", "rendering changed state: " + l[3:], what=l.split()[2].split(":")[-1]))
            return out
        d = s.meta["d"]
        nodes = d_nodes(d)
        cur = None
        for l in lines:
            if l.startswith("> "):
                cur = l[2:].split()
                continue
            if cur is None:
                continue
            if l.startswith("X") and (l == "X" or l.startswith("X ")):
                got = l[2:].split()
                exp = []
                top, ind = d, int(cur[1])
                if cur[0] == "textsub":      # the k-th behaviour in pre-order, rendered while attached to its parent
                    k = int(cur[1])
                    ind = int(cur[2])
                    if k >= len(nodes):
                        continue
                    top = nodes[k]

                def walk(x, depth):
                    exp.append("%d:%s" % (4 * (ind + depth), rd_impl.enc_name(rd_impl.dec_name(x[0]).replace("\n", " "))))
                    for k in x[3]:
                        walk(k, depth + 1)
                walk(top, 0)
                if len(got) != len(d_nodes(top)):
                    out.append(viol("one-line-per-behaviour", "`%s`: %d lines for %d behaviours"
                                    % (" ".join(cur), len(got), len(d_nodes(top)))))
                elif got != exp:
                    out.append(viol("text-order-indent", "text tree %s, expected %s" % (got[:6], exp[:6])))
            elif l.startswith("NC ") or l.startswith("EC "):
                vis, col = int(cur[1]), cur[2] == "1"
                cnt = []

                def disp2(x):
                    cnt.append(x)
                    if (x[2] and col) or not (vis < x[1]):
                        return
                    for k in x[3]:
                        disp2(k)
                disp2(d)
                want = len(cnt) if l.startswith("NC ") else len(cnt) - 1
                if int(l[3:]) != want:
                    out.append(viol("dot-file", "render_dot_tree(vis=%d, collapse=%s) wrote %s for %d displayed behaviours"
                                    % (vis, col, l, len(cnt))))
            elif l.startswith("N "):
                names = l[2:].split()
                vis, col = int(cur[1]), cur[2] == "1"
                shown = []

                fanout = []

                def disp(x, top):
                    shown.append(x)
                    if (x[2] and col) or not (vis < x[1]):
                        fanout.append(0)
                        return
                    fanout.append(len(x[3]))
                    for k in x[3]:
                        disp(k, False)
                disp(d, True)
                self._fanout = sorted(fanout)
                self._names = names
                if len(set(names)) != len(names):
                    out.append(viol("unique-names", "dot node names are not unique: %s" % names))
                if len(names) != len(shown):
                    out.append(viol("node-count", "%d dot nodes for %d displayed behaviours (vis=%d collapse=%s)"
                                    % (len(names), len(shown), vis, col)))
                self._n = len(names)
            elif l.startswith("E "):
                edges = l[2:].split()
                if len(edges) != getattr(self, "_n", 1) - 1:
                    out.append(viol("edge-count", "%d edges for %d nodes" % (len(edges), self._n)))
                else:
                    # one edge per displayed parent-child link: every node but one has exactly one incoming edge, and
                    # the numbers of outgoing edges are the numbers of displayed children
                    src = [e.split(">")[0] for e in edges]
                    dst = [e.split(">")[1] for e in edges]
                    names = getattr(self, "_names", [])
                    if len(set(dst)) != len(dst):
                        out.append(viol("edge-links", "a dot node has two incoming edges: %s" % sorted(dst)))
                    elif len(set(names)) == len(names):
                        got = sorted(src.count(nm) for nm in names)
                        if got != getattr(self, "_fanout", got):
                            out.append(viol("edge-links", "outgoing edges per node %s, displayed children per behaviour %s"
                                            % (got, self._fanout)))
            if len(out) > 3:
                break
        return out

    def nontrivial_key(self, s, lines):
        if s.family == "rd":
            d = s.meta["d"]
            ns = [x[0] for x in d_nodes(d)]
            return text_hash(s.text()) if len(set(ns)) < len(ns) and any(x[1] < 4 for x in d_nodes(d)) else None
        return text_hash(s.text()) if any(":R:" in l for l in lines if l.startswith("N ")) else None

    def count(self, s, lines, stats):
        Prop.count(self, s, lines, stats)
        stats[s.family] = stats.get(s.family, 0) + 1
