"""`rd` scenarios (structure of renderings) on the real py_trees.display, and the read-only probe used by `bt` render ops."""
import re

from common import py_trees, Status, ST, val_str

Blackboard = py_trees.blackboard.Blackboard
ESC = re.compile(r"\x1b\[[0-9;]*m")


def dec_name(t):
    return t.replace("~", " ").replace("^", "\n").replace("%", "\r")


def enc_name(n):
    return n.replace(" ", "~").replace("\n", "^").replace("\r", "%")


def parse_d(tokens):
    assert tokens[0] == "("
    name, bb, isdec = dec_name(tokens[1]), int(tokens[2]), tokens[3] == "1"
    rest = tokens[4:]
    kids = []
    while rest[0] != ")":
        c, rest = parse_d(rest)
        kids.append(c)
    return (name, bb, isdec, kids), rest[1:]


class UserComposite(py_trees.composites.Composite):
    """a composite of the user's own making (not a Sequence / Selector / Parallel)"""

    def tick(self):
        for child in self.children:
            for node in child.tick():
                yield node
        self.status = py_trees.common.Status.SUCCESS
        yield self


def build_d(d):
    name, bb, isdec, kids = d
    children = [build_d(k) for k in kids]
    if isdec:
        b = py_trees.decorators.PassThrough(name=name, child=children[0])
    elif children:
        # every kind of composite, including a user-defined one deriving directly from Composite
        C = py_trees.composites
        kind = (len(name) + len(children)) % 4
        if kind == 0:
            b = C.Sequence(name=name, memory=True, children=children)
        elif kind == 1:
            b = C.Selector(name=name, memory=False, children=children)
        elif kind == 2:
            b = C.Parallel(name=name, policy=py_trees.common.ParallelPolicy.SuccessOnAll(), children=children)
        else:
            b = UserComposite(name=name, children=children)
    else:
        b = py_trees.behaviours.Success(name=name)
    b.blackbox_level = py_trees.common.BlackBoxLevel(bb)
    return b


SYMS = ["{-}", "{o}", "[-]", "[o]", "/_/", "-^-", "-->"]


def text_lines(s, with_status=False):
    out = []
    for line in s.split("\n"):
        if line == "":
            continue
        line = ESC.sub("", line)
        n = len(line) - len(line.lstrip(" "))
        rest = line[n:]
        sym = rest.split(" ", 1)[0]
        name = rest[len(sym) + 1:] if sym in SYMS else "?" + rest
        if with_status:
            # "<name> [<status symbol>]" (xhtml status symbols were reduced to their text above)
            name = re.sub(r" \[[^\]]*\]$", "", name) if name.endswith("]") else "!" + name
        out.append("%d:%s" % (n, enc_name(name)))
    return out


def unq(n):
    n = n if isinstance(n, str) else str(n)
    if len(n) >= 2 and n[0] == '"' and n[-1] == '"':
        n = n[1:-1]
    return n


def dot_obs(g):
    names = sorted(enc_name(unq(n.get_name())) for n in g.get_nodes() if unq(n.get_name()) not in ("node", "edge", "graph"))
    edges = sorted(enc_name(unq(e.get_source())) + ">" + enc_name(unq(e.get_destination())) for e in g.get_edges())
    return ["N " + " ".join(names), "E " + " ".join(edges)]


def run_rd(scn):
    Blackboard.clear()
    d, rest = parse_d(scn.header[0].split()[1:])
    root = build_d(d)
    out = []
    for op in scn.ops:
        out.append("> " + op)
        t = op.split()
        if t[0] in ("text", "texts"):
            ss = t[0] == "texts"
            mode = scn.meta.get("mode", "ascii")
            if mode == "xhtml":
                s = py_trees.display.xhtml_tree(root, indent=int(t[1]), show_status=ss)
                s = s.replace("<code>\n", "").replace("</code>", "").replace("<br/>\n", "\n")
                s = s.replace("<text>&#xa0;</text>", " ")
                s = re.sub(r"<text[^>]*>([^<]*)</text>", lambda m: m.group(1).replace("&gt;", ">"), s)
                s = s.replace("<b>", "").replace("</b>", "")
            else:
                s = py_trees.display.ascii_tree(root, indent=int(t[1]), show_status=ss)
            out.append("X " + " ".join(text_lines(s, ss)))
        elif t[0] == "textsub":
            pre = []

            def walk(b):
                pre.append(b)
                for c in b.children:
                    walk(c)
            walk(root)
            k = int(t[1])
            if k < len(pre):
                s = py_trees.display.ascii_tree(pre[k], indent=int(t[2]), show_status=False)
                out.append("X " + " ".join(text_lines(s, False)))
            else:
                out.append("X")
        elif t[0] == "dotfile":
            # the file-rendering entry point: what is written to <name>.dot must be the same graph
            import contextlib
            import io
            import tempfile
            import pydot
            with tempfile.TemporaryDirectory() as tmp, contextlib.redirect_stdout(io.StringIO()):
                files = py_trees.display.render_dot_tree(
                    root, visibility_level=py_trees.common.VisibilityLevel(int(t[1])),
                    collapse_decorators=t[2] == "1", name="tree", target_directory=tmp)
                g = pydot.graph_from_dot_file(files["dot"])[0]
            nodes = [n for n in g.get_nodes() if unq(n.get_name()) not in ("node", "edge", "graph", "\\n", "")]
            out += ["NC %d" % len(nodes), "EC %d" % len(g.get_edges())]
        elif t[0] == "dot":
            g = py_trees.display.dot_tree(root, visibility_level=py_trees.common.VisibilityLevel(int(t[1])),
                                          collapse_decorators=t[2] == "1")
            out += dot_obs(g)
        else:
            out.append("bad-op")
    return out


def snapshot(root):
    nodes = []

    def walk(b):
        nodes.append((b.name, ST[b.status], b.feedback_message, str(b.id),
                      getattr(b.current_child, "id", None) if hasattr(b, "current_child") else None))
        for c in b.children:
            walk(c)
    walk(root)
    st = Blackboard.activity_stream
    stream = None if st is None else [(i.key, i.activity_type, str(i.client_id)) for i in st.data]
    meta = {k: (sorted(map(str, m.read)), sorted(map(str, m.write)), sorted(map(str, m.exclusive)))
            for k, m in Blackboard.metadata.items()}
    return (nodes, {k: val_str(v) for k, v in Blackboard.storage.items()}, meta, dict(Blackboard.clients), stream)


def render_all(root, visited, prev):
    """every renderer in every option combination; returns what changed (empty list = read-only)"""
    D = py_trees.display
    changed = []
    if "/xw" not in Blackboard.metadata:
        # a client outside the tree holding an exclusive and a plain write registration, so that the blackboard part of
        # the dot graph has all three kinds of edges to draw
        probe = py_trees.blackboard.Client(name="render_probe")
        probe.register_key(key="/xw", access=py_trees.common.Access.EXCLUSIVE_WRITE)
        probe.register_key(key="/xv", access=py_trees.common.Access.WRITE)
        probe.register_key(key="/xr", access=py_trees.common.Access.READ)
    before = snapshot(root)

    def check(what):
        after = snapshot(root)
        if after != before:
            for i, part in enumerate(("behaviours", "storage", "metadata", "clients", "activity_stream")):
                if after[i] != before[i]:
                    changed.append("%s:%s" % (what, part))
    for fn in (D.ascii_tree, D.unicode_tree, D.xhtml_tree):
        for sov in (False, True):
            for ss in (False, True):
                fn(root, show_only_visited=sov, show_status=ss, visited=visited, previously_visited=prev)
                check(fn.__name__)
    for vis in py_trees.common.VisibilityLevel:
        for col in (False, True):
            for wbb in (False, True):
                try:
                    D.dot_tree(root, visibility_level=vis, collapse_decorators=col, with_blackboard_variables=wbb)
                except KeyError:
                    pass    # pinned behaviour: a blackboard client hidden by a collapsed decorator (not part of C20)
                check("dot_tree(bb=%s)" % wbb)
    for fn in (D.ascii_blackboard, D.unicode_blackboard):
        fn()
        fn(display_only_key_metadata=True)
        check(fn.__name__)
    D.unicode_blackboard_activity_stream()
    check("unicode_blackboard_activity_stream")
    return sorted(set(changed))
