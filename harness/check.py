"""Entry point of every registered check:  check.py <Cxx> [--tier quick|thorough] [--replay file]

  1. build the Lean project, audit the proofs of Props/<Cxx>.lean (forbidden tokens, axioms)
  2. corpus + seeded random scenarios through the real code ($VERIF_REPO) and through the model driver
  3. compare the property's projection of the observations (correspondence)
  4. run the property's Python oracle over the implementation's observations
  5. verdict, evidence/<Cxx>.json, replays/<...>.json

Exit 0: held on everything explored.  Exit 1: VIOLATION line printed.  Exit 2: infrastructure failure.
"""
import argparse
import fcntl
import glob
import hashlib
import json
import os
import random
import re
import subprocess
import sys
import traceback

HERE = os.path.dirname(os.path.abspath(__file__))
sys.path.insert(0, HERE)

import common  # noqa: E402
from common import VERIF, Scenario, Stopwatch  # noqa: E402

LEAN_DIR = os.path.join(VERIF, "lean")
ALLOWED_AXIOMS = {"propext", "Classical.choice", "Quot.sound"}
FORBIDDEN = re.compile(r"\b(sorry|admit|native_decide|bv_decide|implemented_by|unsafe)\b|^\s*axiom\s|maxHeartbeats\s+0\b")


class Infra(Exception):
    pass


# ---------------------------------------------------------------------------------------------
# Lean side: build + audit
# ---------------------------------------------------------------------------------------------

ESCALATE = int(os.environ.get("VERIF_ESCALATE", "3"))      # extra quick rounds when the anchored source drifted from the validated pins


def strip_comments(src):
    """remove -- line comments and /- -/ block comments (nesting aware) from Lean source"""
    out = []
    i, depth, n = 0, 0, len(src)
    while i < n:
        if src.startswith("/-", i):
            depth += 1
            i += 2
        elif depth and src.startswith("-/", i):
            depth -= 1
            i += 2
        elif depth:
            if src[i] == "\n":
                out.append("\n")
            i += 1
        elif src.startswith("--", i):
            while i < n and src[i] != "\n":
                i += 1
        else:
            out.append(src[i])
            i += 1
    return "".join(out)


WATCHDOG_S = int(os.environ.get("VERIF_WATCHDOG", "120"))


class HangTimeout(BaseException):
    """the implementation did not return (BaseException: a broad `except Exception` in the library cannot swallow it)"""


def run_with_watchdog(prop, s):
    """one scenario on the implementation; a scenario that takes more than WATCHDOG_S seconds of wall time (ordinary ones
    take milliseconds) counts as "does not return" """
    import signal

    def on_alarm(signum, frame):
        raise HangTimeout()
    old = signal.signal(signal.SIGALRM, on_alarm)
    signal.setitimer(signal.ITIMER_REAL, WATCHDOG_S)
    try:
        return prop.run_impl(s)
    finally:
        signal.setitimer(signal.ITIMER_REAL, 0)
        signal.signal(signal.SIGALRM, old)


def lean_build(pid):
    """regenerate PyTreesGen/<pid>.lean from $VERIF_REPO, then lake build the models, the driver and the modules of THIS
    property (Props/<pid>*.lean with what they import). Caller holds the build lock.
    Returns (ok, log, translation problems)."""
    import py2lean
    problems = py2lean.regenerate(common.REPO, LEAN_DIR, pid)
    p = subprocess.run(["lake", "build", "PyTreesModel", "driver"], cwd=LEAN_DIR,
                       stdout=subprocess.PIPE, stderr=subprocess.STDOUT, timeout=3000)
    log = p.stdout.decode(errors="replace")
    ok = p.returncode == 0
    mods = ["PyTreesProofs.Props.%s" % m for m, _ in prop_modules(pid)]
    if ok and mods:
        p = subprocess.run(["lake", "build"] + mods, cwd=LEAN_DIR,
                           stdout=subprocess.PIPE, stderr=subprocess.STDOUT, timeout=3000)
        log += p.stdout.decode(errors="replace")
        ok = p.returncode == 0
    return ok, log, problems


class BuildLock(object):
    """serialises regenerate + build + audit between concurrently running checks"""
    def __enter__(self):
        self.f = open(os.path.join(LEAN_DIR, ".build.lock"), "w")
        fcntl.flock(self.f, fcntl.LOCK_EX)
        return self

    def __exit__(self, *a):
        fcntl.flock(self.f, fcntl.LOCK_UN)
        self.f.close()


def failing_theorems(log):
    """names of the theorems in whose proofs `lake build` reported errors (from the error positions)"""
    out = []
    for m in re.finditer(r"error: (PyTrees\w+/[\w/]+\.lean):(\d+):", log):
        path, line = os.path.join(LEAN_DIR, m.group(1)), int(m.group(2))
        try:
            src = open(path).read().split("\n")
        except OSError:
            continue
        for i in range(min(line, len(src)) - 1, -1, -1):
            mm = re.match(r"\s*(?:private\s+)?(?:theorem|lemma|def|example|instance)\s+([A-Za-z0-9_.']+)?", src[i])
            if mm:
                name = "%s:%s" % (os.path.basename(path), mm.group(1) or "example@%d" % (i + 1))
                if name not in out:
                    out.append(name)
                break
    return out


def prop_modules(pid):
    """Props/<pid>.lean plus continuation files Props/<pid>b.lean, …"""
    files = sorted(glob.glob(os.path.join(LEAN_DIR, "PyTreesProofs", "Props", pid + "*.lean")))
    return [(os.path.splitext(os.path.basename(f))[0], f) for f in files]


def theorems_of(pid):
    """names of the property theorems (`theorem <pid>_…`) stated in Props/<pid>*.lean (comments stripped)"""
    names = []
    path = os.path.join(LEAN_DIR, "PyTreesProofs", "Props", pid + ".lean")
    for _, f in prop_modules(pid):
        src = strip_comments(open(f).read())
        names += re.findall(r"^\s*theorem\s+(" + pid + r"_[A-Za-z0-9_']+)", src, re.M)
    return names, path


def forbidden_hits():
    hits = []
    for path in glob.glob(os.path.join(LEAN_DIR, "PyTrees*", "**", "*.lean"), recursive=True):
        src = strip_comments(open(path).read())
        for ln, line in enumerate(src.split("\n"), 1):
            if FORBIDDEN.search(line):
                hits.append("%s:%d: %s" % (os.path.relpath(path, VERIF), ln, line.strip()))
    return hits


def audit_axioms(pid, names):
    """#print axioms for every property theorem; {name: [axioms]} (None when the theorem is missing)"""
    if not names:
        return {}
    body = "".join("import PyTreesProofs.Props.%s\n" % m for m, _ in prop_modules(pid)) + \
        "".join("#print axioms %s\n" % n for n in names)
    tmp = os.path.join(LEAN_DIR, ".audit_%s_%d.lean" % (pid, os.getpid()))
    open(tmp, "w").write(body)
    try:
        p = subprocess.run(["lake", "env", "lean", tmp], cwd=LEAN_DIR, stdout=subprocess.PIPE,
                           stderr=subprocess.STDOUT, timeout=1200)
        out = p.stdout.decode(errors="replace")
    finally:
        os.unlink(tmp)
    res = {}
    for n in names:
        m = re.search(r"'%s' depends on axioms: \[([^\]]*)\]" % re.escape(n), out)
        if m:
            res[n] = [a.strip() for a in m.group(1).replace("\n", " ").split(",") if a.strip()]
        elif re.search(r"'%s' does not depend on any axioms" % re.escape(n), out):
            res[n] = []
        else:
            res[n] = None
    return res


def leanchecker(pid):
    p = subprocess.run(["lake", "env", "leanchecker"] + ["PyTreesProofs.Props.%s" % m for m, _ in prop_modules(pid)],
                       cwd=LEAN_DIR,
                       stdout=subprocess.PIPE, stderr=subprocess.STDOUT, timeout=3000)
    return p.returncode == 0, p.stdout.decode(errors="replace")[-2000:]


# ---------------------------------------------------------------------------------------------
# known findings
# ---------------------------------------------------------------------------------------------

def load_known():
    path = os.path.join(VERIF, "known_findings.json")
    if not os.path.exists(path):
        return []
    return json.load(open(path)).get("findings", [])


# ---------------------------------------------------------------------------------------------
# the check
# ---------------------------------------------------------------------------------------------

def sha(lines):
    return hashlib.sha1("\n".join(lines).encode()).hexdigest()


def corpus(pid):
    out = []
    if os.environ.get("VERIF_CORPUS", "1") == "0":
        return out
    for path in sorted(glob.glob(os.path.join(VERIF, "corpus", pid, "*.json"))):
        d = json.load(open(path))
        s = Scenario.from_json(d)
        s.name = "corpus_" + os.path.splitext(os.path.basename(path))[0]
        s.meta["corpus"] = True
        out.append(s)
    return out


def write_replay(pid, tier, seed, n, payload):
    os.makedirs(os.path.join(VERIF, "replays"), exist_ok=True)
    path = os.path.join("replays", "%s-%s-%d-%d.json" % (pid, tier, seed, n))
    payload = dict(payload)
    payload.update({"property": pid, "tier": tier, "seed": seed,
                    "how_to_replay": "./check %s --replay %s" % (pid, path)})
    json.dump(payload, open(os.path.join(VERIF, path), "w"), indent=1, default=str)
    return path


def main():
    ap = argparse.ArgumentParser()
    ap.add_argument("pid")
    ap.add_argument("--tier", default=os.environ.get("VERIF_TIER", "quick"))
    ap.add_argument("--replay")
    ap.add_argument("--no-lean", action="store_true", help="skip the Lean build/audit (development only)")
    args = ap.parse_args()
    pid, tier = args.pid, args.tier
    seed = int(os.environ.get("VERIF_SEED", "0") or 0)
    sw = Stopwatch()
    try:
        rc = run(pid, tier, seed, args, sw)
    except Infra as e:
        print("INFRA-FAILURE %s: %s" % (pid, e))
        rc = 2
    except subprocess.TimeoutExpired as e:
        print("INFRA-FAILURE %s: timeout %s" % (pid, e))
        rc = 2
    sys.exit(rc)


def run(pid, tier, seed, args, sw):
    import props
    prop = props.get(pid)
    if prop is None:
        raise Infra("no check registered for " + pid)

    # -- 1. Lean build + audit -------------------------------------------------------------
    proof_problems = []
    translation_fallback = []
    names, ppath = theorems_of(pid)
    axioms = {}
    build_ok, build_log = True, ""
    if not args.no_lean:
        with BuildLock():
            build_ok, build_log, tproblems = lean_build(pid)
            for tp in tproblems:
                # outside the translator's fragment: the bridge is checked against the validated translation only; the
                # tie for that function is the correspondence run (not a proof problem)
                translation_fallback.append(tp)
                print("NOTE %s: untranslatable, tie is the correspondence alone for %s" % (pid, tp))
            if not build_ok:
                ft = failing_theorems(build_log)
                proof_problems.append({"kind": "build", "theorem": ", ".join(ft) or None, "detail": build_log[-3000:]})
            hits = forbidden_hits()
            if hits:
                proof_problems.append({"kind": "forbidden-token", "detail": hits[:20]})
            if build_ok:
                axioms = audit_axioms(pid, names)
                for n, ax in axioms.items():
                    if ax is None:
                        proof_problems.append({"kind": "theorem-missing", "theorem": n})
                    elif not set(ax) <= ALLOWED_AXIOMS:
                        proof_problems.append({"kind": "axiom", "theorem": n, "axioms": ax})
            if not names:
                proof_problems.append({"kind": "no-theorems", "detail": ppath})
            if tier == "thorough" and build_ok:
                ok, log = leanchecker(pid)
                if not ok:
                    proof_problems.append({"kind": "leanchecker", "detail": log})
    if not os.path.exists(common.DRIVER):
        raise Infra("model driver could not be built:\n" + build_log[-2000:])
    vacuous = {m for tp in translation_fallback for m in re.findall(r"\[(C\d+_gen_\w+)\]", tp)}
    discharged = [n for n in names if axioms.get(n) is not None and set(axioms[n]) <= ALLOWED_AXIOMS
                  and n not in vacuous]

    # -- 2. scenarios ------------------------------------------------------------------------
    import drift
    source_drift = [] if args.replay else drift.drifted(pid, prop.family)
    if args.replay:
        d = json.load(open(os.path.join(VERIF, args.replay) if not os.path.isabs(args.replay) else args.replay))
        scns = [Scenario.from_json(d["scenario"])]
    else:
        rng = random.Random((seed * 1000003) ^ int(hashlib.sha1(pid.encode()).hexdigest()[:8], 16))
        scns = corpus(pid) + prop.generate(rng, tier)
        if tier == "quick" and source_drift and not getattr(prop, "exhaustive_space", False):
            # anchored code differs from the tree the model was validated against: re-establish the correspondence on
            # a larger sample (ESCALATE extra quick-sized rounds from derived seeds)
            for r in range(ESCALATE):
                extra = prop.generate(random.Random(rng.getrandbits(64)), tier)
                for s in extra:
                    s.name = "x%d_%s" % (r, s.name)
                scns += extra
    for i, s in enumerate(scns):
        if not s.name:
            s.name = "s%d" % i

    # -- 3. run both sides -------------------------------------------------------------------
    import coverage as cov_mod
    cov = cov_mod.Coverage(pid)
    cov.start()
    impl = {}
    harness_errors = []
    hangs = 0
    for s in scns:
        if hangs >= 3:
            # the library does not return on this kind of input: what was found is reported, the rest is not run
            impl[s.name] = None
            continue
        try:
            impl[s.name] = run_with_watchdog(prop, s)
        except HangTimeout:
            hangs += 1
            impl[s.name] = ["<no-return: the implementation did not come back within %d s>" % WATCHDOG_S]
        except Exception as e:
            # the implementation side could not even be observed on this scenario (on the unchanged tree this never
            # happens; a changed library can break the reflection): it counts as a divergence from the model
            impl[s.name] = ["<harness-exception %s: %s>" % (type(e).__name__, str(e)[:120])]
            harness_errors.append((s.name, traceback.format_exc()))
    cov.stop()
    # scenarios flagged impl_only lie outside the model's domain (e.g. a leaf whose update() returns INVALID): they are
    # run on the implementation under the Python oracle only and never decide the correspondence
    scns = [s for s in scns if impl[s.name] is not None]
    model = common.run_model([s for s in scns if not s.meta.get("impl_only")])

    # -- 4. correspondence + oracles -----------------------------------------------------------
    known = [k for k in load_known() if k.get("property") == pid and k.get("status", "open") == "open"]
    divergences, violations, known_hits = [], [], {}
    nontrivial = set()
    stats = {}
    impl_only = 0
    for s in scns:
        io, mo = impl[s.name], model.get(s.name, ["<no model output>"])
        if s.meta.get("impl_only"):
            mo = io
            impl_only += 1
        pi, pm = prop.project(s, io), prop.project(s, mo)
        if pi != pm:
            first = next((j for j, (a, b) in enumerate(zip(pi, pm)) if a != b), min(len(pi), len(pm)))
            divergences.append({"scenario": s.to_json(), "first_difference": {
                "index": first, "impl": pi[first] if first < len(pi) else None,
                "model": pm[first] if first < len(pm) else None}})
        if io and io[0].startswith("<no-return"):
            # a call of the public API that never returns fails every property that speaks about its result
            v = {"clause": "no-return", "detail": "the implementation did not return on this scenario (%s)" % io[0],
                 "sig": {}, "scenario": s.to_json()}
            violations.append(v)
            continue
        try:
            vs = prop.oracle(s, io)
        except Exception:
            if pi == pm:      # model and code agree on this scenario, so the oracle itself is broken: infrastructure
                raise Infra("oracle failure on %s:\n%s" % (s.name, traceback.format_exc()))
            vs = []           # diverging observation the oracle cannot read: the divergence is what is reported
        skip = s.meta.get("skip_clauses") or ()
        for v in vs:
            if v.get("clause") in skip:
                continue
            kf = next((k for k in known if props.matches_known(k, v)), None)
            if kf is not None:
                known_hits.setdefault(kf["id"], []).append(v)
            else:
                v["scenario"] = s.to_json()
                violations.append(v)
        try:
            key = prop.nontrivial_key(s, io)
            if key is not None:
                nontrivial.add(key)
            prop.count(s, io, stats)
        except Exception:
            if pi == pm:
                raise Infra("statistics failure on %s:\n%s" % (s.name, traceback.format_exc()))

    # -- failing-input search when correspondence / proofs are broken but no oracle failed --------
    searched = 0
    if (divergences or proof_problems) and not violations and not args.replay \
            and os.environ.get("VERIF_SEARCH", "1") != "0":
        rng2 = random.Random(seed + 7919)
        for s in prop.search(rng2, tier, [Scenario.from_json(d["scenario"]) for d in divergences]):
            searched += 1
            try:
                io = prop.run_impl(s)
            except Exception:
                continue
            try:
                vs2 = prop.oracle(s, io)
            except Exception:
                continue
            for v in vs2:
                if not any(props.matches_known(k, v) for k in known):
                    v["scenario"] = s.to_json()
                    violations.append(v)
            if violations:
                break

    # -- 5. verdict --------------------------------------------------------------------------
    for kid, vs in sorted(known_hits.items()):
        kf = next(k for k in known if k["id"] == kid)
        print("KNOWN-FINDING: property=%s %s [%s; %d occurrence(s) this run]" % (pid, kf["what"], kid, len(vs)))
    rc = 0
    nrep = 0
    if violations:
        v = prop.shrink(violations[0]) if hasattr(prop, "shrink") else violations[0]
        path = write_replay(pid, tier, seed, nrep, {
            "kind": "oracle", "clause": v.get("clause"), "detail": v.get("detail"), "scenario": v["scenario"],
            "other_violations": len(violations) - 1,
            "correspondence_broken": bool(divergences), "proof_problems": proof_problems})
        print("VIOLATION property=%s replay=%s" % (pid, path))
        rc = 1
    elif divergences:
        d = divergences[0]
        path = write_replay(pid, tier, seed, nrep, {
            "kind": "correspondence", "scenario": d["scenario"], "first_difference": d["first_difference"],
            "divergent_scenarios": len(divergences), "searched_for_failing_input": searched,
            "note": "model and implementation disagree on this scenario; no input violating the property's "
                    "oracle was found"})
        print("VIOLATION property=%s replay=%s no-failing-input-found" % (pid, path))
        rc = 1
    elif proof_problems:
        path = write_replay(pid, tier, seed, nrep, {
            "kind": "proof", "theorem": next((q.get("theorem") or q.get("detail") for q in proof_problems
                                              if q.get("theorem") or q.get("kind") == "translation"), None),
            "problems": proof_problems,
            "searched_for_failing_input": searched, "scenario": None})
        print("VIOLATION property=%s replay=%s no-failing-input-found" % (pid, path))
        rc = 1

    ops = sum(len(s.ops) for s in scns)
    samples = [s.to_json() for s in scns[:2]] + [{"theorem": n, "axioms": axioms.get(n)} for n in names[:3]]
    ev = {
        "property_id": pid, "tier": tier, "seed": seed, "level": "proof",
        "coverage": {
            "obligations": max(len(names), 1), "discharged": len(discharged),
            "checker_cmd": "cd lean && lake build PyTreesProofs && lake env lean <#print axioms of every theorem in "
                           "PyTreesProofs/Props/%s.lean>%s" % (pid, " && lake env leanchecker PyTreesProofs.Props."
                                                               + pid if tier == "thorough" else ""),
            "trusted_base": ["Lean 4.33 kernel", "axioms: propext, Classical.choice, Quot.sound only (audited per "
                             "theorem)", "correspondence harness /verif/harness (differential run of the model's "
                             "executable definitions against $VERIF_REPO)", "CPython 3.12"],
            "theorems": {n: axioms.get(n) for n in names},
            "traces_validated_against_impl": len(scns) - len(divergences) - impl_only,
            "impl_only_scenarios": impl_only,
            "evaluations": len(scns), "operations": ops,
            "distinct_nontrivial": len(nontrivial),
            "rule": prop.rule,
            "samples": samples,
            "distribution": stats,
            "divergences": len(divergences), "failing_input_search": searched,
            "known_findings_seen": {k: len(v) for k, v in known_hits.items()},
            "anchored_line_coverage": cov.report(),
            "source_drift": source_drift[:40],
            "translation_fallback": translation_fallback,
            "exhaustive": bool(getattr(prop, "exhaustive_space", False)) and tier == "quick",
        },
        "assumptions": prop.assumptions,
        "wall_s": sw.s(), "violations": len(violations) + (1 if rc and not violations else 0),
    }
    if not args.no_lean and not args.replay:
        os.makedirs(os.path.join(VERIF, "evidence"), exist_ok=True)
        json.dump(ev, open(os.path.join(VERIF, "evidence", pid + ".json"), "w"), indent=1, default=str)
    print("%s %s seed=%d: %d theorems (%d discharged), %d scenarios / %d ops, %d divergences, %d violations, "
          "%d known, %.1fs" % (pid, tier, seed, len(names), len(discharged), len(scns), ops, len(divergences),
                               len(violations), sum(len(v) for v in known_hits.values()), sw.s()))
    return rc


if __name__ == "__main__":
    main()
