"""`heap` scenarios: child-management calls on a pool of real composites / leaves / decorators."""
from common import py_trees, Status, ST, TS


class _Falsy(object):
    """user behaviours may define __len__ / __bool__: every pool object is falsy, so the library has to test "is there
    a child / a parent" by identity (`is None`), never by truth value"""

    def __len__(self):
        return 0


class FSequence(_Falsy, py_trees.composites.Sequence):
    pass


class FSelector(_Falsy, py_trees.composites.Selector):
    pass


class FParallel(_Falsy, py_trees.composites.Parallel):
    pass


class FRunning(_Falsy, py_trees.behaviours.Running):
    pass


class HeapRun(object):
    def __init__(self, kinds):
        py_trees.blackboard.Blackboard.clear()
        self.pool = []
        # the composites are all constructed from ONE (empty) list object of the caller, which the caller goes on using:
        # a composite must keep its own list of children
        self.callers_list = []
        for i, k in enumerate(kinds):
            if k == "Q":
                b = FSequence(name="o%d" % i, memory=True, children=self.callers_list)
            elif k == "S":
                b = FSelector(name="o%d" % i, memory=True, children=self.callers_list)
            elif k == "P":
                b = FParallel(name="o%d" % i, policy=py_trees.common.ParallelPolicy.SuccessOnAll(),
                              children=self.callers_list)
            else:
                b = FRunning(name="o%d" % i)
            self.pool.append(b)

    def idx(self, b):
        for i, x in enumerate(self.pool):
            if x is b:
                return str(i)
        return "?"

    def obj(self, t):
        return self.pool[int(t)] if t.isdigit() else object()

    def dump(self):
        out = []
        for i, b in enumerate(self.pool):
            cur = getattr(b, "current_child", None)
            out.append("H%d p=%s c=%s cur=%s st=%s" % (
                i, "-" if b.parent is None else self.idx(b.parent), ",".join(self.idx(c) for c in b.children),
                "-" if cur is None else self.idx(cur), ST[b.status]))
        return out

    def step(self, line):
        t = line.split()
        P = self.pool
        try:
            op = t[0]
            if op == "add":
                P[int(t[1])].add_child(self.obj(t[2]))
            elif op == "addmany":
                P[int(t[1])].add_children([self.obj(x) for x in t[2].split(",")])
            elif op == "insert":
                P[int(t[1])].insert_child(self.obj(t[2]), int(t[3]))
            elif op == "prepend":
                P[int(t[1])].prepend_child(self.obj(t[2]))
            elif op == "remove":
                P[int(t[1])].remove_child(P[int(t[2])])
            elif op == "removeid":
                P[int(t[1])].remove_child_by_id(P[int(t[2])].id)
            elif op == "removeall":
                P[int(t[1])].remove_all_children()
            elif op == "replace":
                P[int(t[1])].replace_child(P[int(t[2])], self.obj(t[3]))
            elif op == "decorate":
                d = py_trees.decorators.PassThrough(name="o%d" % len(P), child=self.obj(t[1]))
                P.append(d)
            elif op == "mark":
                P[int(t[1])].status = TS[t[2]]
            elif op == "cur":
                P[int(t[1])].current_child = P[int(t[2])] if t[2].isdigit() else None
            else:
                return ["bad-op"]
            r = "ok"
        except (TypeError, RuntimeError, ValueError, IndexError, AttributeError) as e:
            r = type(e).__name__
        return ["R " + r] + self.dump()


def run_heap(scn):
    run = HeapRun(scn.header[0].split()[1:])
    out = []
    for op in scn.ops:
        out.append("> " + op)
        out += run.step(op)
    return out
