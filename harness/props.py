"""Registry of property checks."""
import hashlib

REGISTRY = {}


def register(p):
    REGISTRY[p.pid] = p()
    return p


def get(pid):
    _load()
    return REGISTRY.get(pid)


_loaded = False


def _load():
    global _loaded
    if _loaded:
        return
    _loaded = True
    import props_bt  # noqa: F401
    for mod in ("props_bb", "props_name", "props_heap", "props_mgr", "props_edit", "props_idiom", "props_render"):
        try:
            __import__(mod)
        except ImportError as e:
            if mod not in str(e):
                raise


def matches_known(k, v):
    """a known-finding entry matches a violation when property clause and signature agree"""
    sig = k.get("signature", {})
    if sig.get("clause") and sig["clause"] != v.get("clause"):
        return False
    vs = v.get("sig", {})
    for key, want in sig.items():
        if key == "clause":
            continue
        if vs.get(key) != want:
            return False
    return True


def text_hash(s):
    return hashlib.sha1(s.encode()).hexdigest()[:16]


class Prop(object):
    pid = None
    family = None
    rule = ""
    assumptions = []

    def generate(self, rng, tier):
        raise NotImplementedError

    def run_impl(self, s):
        raise NotImplementedError

    def project(self, s, lines):
        return lines

    def oracle(self, s, lines):
        return []

    def nontrivial_key(self, s, lines):
        return text_hash(s.text())

    def count(self, s, lines, stats):
        stats["scenarios"] = stats.get("scenarios", 0) + 1
        stats["ops"] = stats.get("ops", 0) + len(s.ops)

    def search(self, rng, tier, divergent):
        """scenarios for the failing-input search: the diverging ones, then a boosted random run"""
        for s in divergent:
            yield s
        import random
        n = 3000 if tier == "quick" else 20000
        for s in self.generate(random.Random(rng.random()), "search")[:n]:
            yield s
