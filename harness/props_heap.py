"""C11 child management keeps the tree a consistent tree (heap family)."""
from props import Prop, register, text_hash
from common import Scenario
import heap_impl


def viol(clause, detail, **sig):
    return {"clause": clause, "detail": detail, "sig": sig}


def parse_h(lines):
    out = []
    for l in lines:
        if l.startswith("> "):
            out.append({"op": l[2:], "R": "", "H": {}})
        elif out and l.startswith("R "):
            out[-1]["R"] = l[2:]
        elif out and l.startswith("H"):
            head, *rest = l.split()
            d = dict(t.split("=", 1) for t in rest)
            out[-1]["H"][int(head[1:])] = {
                "p": None if d["p"] == "-" else int(d["p"]),
                "c": [int(x) for x in d["c"].split(",") if x != ""],
                "cur": None if d["cur"] == "-" else int(d["cur"]), "st": d["st"]}
    return out


@register
class C11(Prop):
    pid = "C11"
    family = "heap"
    rule = ("random histories of add / add several / insert / prepend / remove by reference / by id / remove all / "
            "replace / decorator construction over a pool of 3 composites (one of each kind) and 4-5 leaves, with "
            "re-adds, moves between parents, removal of non-members, non-behaviour arguments, children marked RUNNING / "
            "current before being edited; after every call parent links and children lists are recomputed for "
            "consistency and rejected calls must change nothing; non-trivial = a call was rejected after the pool had "
            ">= 2 parent links, and a RUNNING child was removed")
    assumptions = ["children are made RUNNING / current by assignment rather than by ticking (the edit paths are the same)",
                   "single-threaded"]

    def generate(self, rng, tier):
        n = {"quick": 2500, "thorough": 40000, "search": 4000}[tier]
        out = []
        for i in range(n):
            kinds = ["Q", "S", "P"] + ["L"] * rng.choice([3, 4, 5])
            size = len(kinds)
            ops = []
            for _ in range(rng.randint(5, 40 if tier != "thorough" else 80)):
                comp = rng.randrange(3)
                # no cycles: a composite only takes leaves, decorators (which wrap leaves only) and composites created
                # after it
                anyo = lambda: str(rng.choice([j for j in range(size) if j > comp or j >= 3]))  # noqa: E731
                arg = lambda: "nb" if rng.random() < 0.06 else anyo()  # noqa: E731
                leaf = lambda: "nb" if rng.random() < 0.06 else str(rng.randrange(3, size))  # noqa: E731
                r = rng.random()
                if r < 0.22:
                    ops.append("add %d %s" % (comp, arg()))
                elif r < 0.30:
                    ops.append("addmany %d %s" % (comp, ",".join(arg() for _ in range(rng.randint(1, 3)))))
                elif r < 0.40:
                    ops.append("insert %d %s %d" % (comp, arg(), rng.choice([-2, -1, 0, 1, 2, 5])))
                elif r < 0.46:
                    ops.append("prepend %d %s" % (comp, arg()))
                elif r < 0.60:
                    ops.append("remove %d %s" % (comp, anyo()))
                elif r < 0.66:
                    ops.append("removeid %d %s" % (comp, anyo()))
                elif r < 0.70:
                    ops.append("removeall %d" % comp)
                elif r < 0.80:
                    ops.append("replace %d %s %s" % (comp, anyo(), arg()))
                elif r < 0.85:
                    ops.append("decorate %s" % leaf())
                elif r < 0.95:
                    ops.append("mark %s %s" % (anyo(), rng.choice("RRSFI")))
                else:
                    ops.append("cur %d %s" % (comp, "current"))
            # resolve `cur p current` and the growing pool deterministically by a dry run of the reference
            out.append(Scenario("heap", "C11_%s_%d" % (tier[0], i), ["pool " + " ".join(kinds)], self.fixup(ops, rng),
                                {}))
        return out

    @staticmethod
    def fixup(ops, rng):
        """`cur p current` -> point current_child at one of p's children (tracked with a tiny reference of the lists)"""
        kids = {0: [], 1: [], 2: []}
        out = []
        for op in ops:
            t = op.split()
            if t[0] == "cur":
                p = int(t[1])
                # the harness does not know which adds succeeded; name any object: the oracle only requires that cur is
                # a child afterwards when set through the API, so restrict to members we believe are there
                out.append("cur %d %s" % (p, rng.choice(kids[p]) if kids[p] else "-"))
                continue
            if t[0] in ("add", "prepend", "insert") and t[2].isdigit():
                kids[int(t[1])].append(t[2])
            out.append(op)
        return out

    def run_impl(self, s):
        return heap_impl.run_heap(s)

    def oracle(self, s, lines):
        out = []
        prev = None
        cur_poked = {}
        for o in parse_h(lines):
            H = o["H"]
            t = o["op"].split()
            if t[0] == "cur":
                # an assignment from outside the API may point anywhere; only API calls are judged
                p = int(t[1])
                cur_poked[p] = H[p]["cur"] is not None and H[p]["cur"] not in H[p]["c"]
            for i, n in H.items():
                for c in n["c"]:
                    if H.get(c, {}).get("p") != i:
                        out.append(viol("child-parent-link", "after `%s`: %d lists %d whose parent is %s"
                                        % (o["op"], i, c, H.get(c, {}).get("p"))))
                if len(set(n["c"])) != len(n["c"]):
                    out.append(viol("listed-twice", "after `%s`: %d lists %s" % (o["op"], i, n["c"])))
                if n["p"] is not None and i not in H.get(n["p"], {"c": []})["c"]:
                    out.append(viol("orphan-with-parent", "after `%s`: %d names parent %d which does not list it"
                                    % (o["op"], i, n["p"])))
                if n["cur"] is not None and n["cur"] not in n["c"] and not cur_poked.get(i):
                    out.append(viol("dangling-current-child", "after `%s`: %d remembers %d which is not a child"
                                    % (o["op"], i, n["cur"])))
            parents = {}
            for i, n in H.items():
                for c in n["c"]:
                    parents.setdefault(c, []).append(i)
            for c, ps in parents.items():
                if len(ps) > 1:
                    out.append(viol("two-parents", "after `%s`: %d is listed under %s" % (o["op"], c, ps)))
            if prev is not None and t[0] not in ("mark", "cur"):
                if o["R"] != "ok" and {k: v for k, v in H.items()} != {k: v for k, v in prev["H"].items()}:
                    out.append(viol("rejected-call-changed-state", "`%s` raised %s but changed the pool"
                                    % (o["op"], o["R"]), op=t[0], err=o["R"]))
                if o["R"] == "ok" and t[0] in ("remove", "removeid", "replace"):
                    c = int(t[2])
                    if H[c]["p"] is not None and t[0] != "replace":
                        out.append(viol("removed-keeps-parent", "`%s`: %d still has a parent" % (o["op"], c)))
                    if prev["H"][c]["st"] == "R" and H[c]["st"] != "I":
                        out.append(viol("removed-running-not-interrupted", "`%s`: RUNNING %d is %s afterwards"
                                        % (o["op"], c, H[c]["st"])))
                if o["R"] == "ok" and t[0] == "removeall":
                    for c in prev["H"][int(t[1])]["c"]:
                        if H[c]["p"] is not None:
                            out.append(viol("removed-keeps-parent", "`%s`: %d still has a parent" % (o["op"], c)))
                        if prev["H"][c]["st"] == "R" and H[c]["st"] != "I":
                            out.append(viol("removed-running-not-interrupted", "`%s`: RUNNING %d is %s afterwards"
                                            % (o["op"], c, H[c]["st"])))
                if t[0] in ("remove", "removeid"):
                    # only a child of *this* composite can be removed from it; anything else (a grandchild, a member of
                    # another composite, a stranger) is rejected
                    member = int(t[2]) in prev["H"][int(t[1])]["c"]
                    if not member and o["R"] == "ok":
                        out.append(viol("invalid-call-accepted", "`%s` was accepted although %s is not a child of %s"
                                        % (o["op"], t[2], t[1]), op=t[0]))
                    if member and o["R"] != "ok":
                        out.append(viol("valid-call-rejected", "`%s` raised %s" % (o["op"], o["R"]), op=t[0]))
                # a call that must be rejected
                if t[0] in ("add", "prepend", "insert", "decorate", "replace", "addmany"):
                    args = t[2].split(",") if t[0] == "addmany" else [t[3] if t[0] == "replace" else
                                                                      (t[1] if t[0] == "decorate" else t[2])]
                    bad = any((not a.isdigit()) or prev["H"][int(a)]["p"] is not None for a in args) \
                        or len(set(args)) != len(args)
                    if t[0] == "replace" and int(t[2]) not in prev["H"][int(t[1])]["c"]:
                        bad = True
                    if bad and o["R"] == "ok":
                        out.append(viol("invalid-call-accepted", "`%s` was accepted" % o["op"], op=t[0]))
                    if not bad and o["R"] != "ok":
                        out.append(viol("valid-call-rejected", "`%s` raised %s" % (o["op"], o["R"]), op=t[0]))
            prev = o
            if len(out) > 4:
                break
        return out

    def nontrivial_key(self, s, lines):
        obs = parse_h(lines)
        links = rejected = removed_running = False
        prev = None
        for o in obs:
            if sum(1 for n in o["H"].values() if n["p"] is not None) >= 2:
                links = True
            if links and o["R"] not in ("ok", ""):
                rejected = True
            t = o["op"].split()
            if prev and t[0] in ("remove", "removeid") and o["R"] == "ok" and prev["H"][int(t[2])]["st"] == "R":
                removed_running = True
            prev = o
        return text_hash(s.text()) if rejected and removed_running else None

    def count(self, s, lines, stats):
        Prop.count(self, s, lines, stats)
        for l in lines:
            if l.startswith("> "):
                k = l.split()[1]
                stats.setdefault("ops_by_kind", {})
                stats["ops_by_kind"][k] = stats["ops_by_kind"].get(k, 0) + 1
            elif l.startswith("R "):
                stats.setdefault("results", {})
                stats["results"][l[2:]] = stats["results"].get(l[2:], 0) + 1
