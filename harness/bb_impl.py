"""Runs `bb` (blackboard client operations) and `name` scenarios on the real py_trees.blackboard."""
from common import py_trees, Status, Obj, Label, val_str, val_parse, err_kind

Blackboard = py_trees.blackboard.Blackboard
Client = py_trees.blackboard.Client
Access = py_trees.common.Access
ACC = {"R": Access.READ, "W": Access.WRITE, "X": Access.EXCLUSIVE_WRITE}


class SortedSet(set):
    """a set whose iteration order is sorted (only used for Client.required so that
    verify_required_keys_exist examines keys in a reproducible order)"""

    def __iter__(self):
        return iter(sorted(set.__iter__(self)))


class ProjectBlackboard(Blackboard):
    """a user's subclass of the blackboard"""


def rec_val(v, present):
    if not present:
        return "-"
    if isinstance(v, Obj):
        return "o"
    if isinstance(v, Label):
        return "l"      # mutable like an Obj: the record holds a reference, so only the kind is compared
    return val_str(v)


class BbRun(object):
    def __init__(self):
        Blackboard.clear()
        self.clients = []
        self.idx = {}

    def cid(self, uid):
        return self.idx.get(uid, "?")

    def state(self, res):
        out = ["R " + res]
        out.append("S " + " ".join("%s=%s" % (k, val_str(v)) for k, v in sorted(Blackboard.storage.items())))
        ms = []
        for k, m in sorted(Blackboard.metadata.items()):
            ms.append("%s=r:%s|w:%s|x:%s" % (k, self.ids(m.read), self.ids(m.write), self.ids(m.exclusive)))
        out.append("M " + " ".join(ms))
        out.append("G " + self.ids(Blackboard.clients.keys()))
        for i, c in enumerate(self.clients):
            g = lambda a: object.__getattribute__(c, a)  # noqa: E731
            rm = ",".join(sorted("%s>%s" % kv for kv in g("remappings").items()))
            out.append("C%d ns=%s r=%s w=%s x=%s q=%s m=%s n=%s" % (
                i, g("namespace"), ",".join(sorted(g("read"))), ",".join(sorted(g("write"))),
                ",".join(sorted(g("exclusive"))), ",".join(sorted(g("required"))), rm, ",".join(sorted(g("namespaces")))))
        st = Blackboard.activity_stream
        if st is None:
            out.append("A off")
        else:
            items = []
            for it in st.data:
                # an ActivityItem does not say whether a value was given: types tell
                t = it.activity_type
                has_prev = t == "WRITE"
                has_cur = t in ("WRITE", "INITIALISED", "READ", "ACCESSED", "NO_OVERWRITE")
                # the record carries the client's id AND its name (names may span lines): a wrong name marks the record
                who = str(self.cid(it.client_id))
                cl = next((c for c in self.clients if c.unique_identifier == it.client_id), None)
                if cl is not None and it.client_name != object.__getattribute__(cl, "name"):
                    who += "!name"
                items.append("%s,%s,%s,%s,%s" % (it.key, who, t, rec_val(it.previous_value, has_prev),
                                                 rec_val(it.current_value, has_cur)))
            out.append("A %d %s" % (st.maximum_size, ";".join(items)))
        return out

    def ids(self, uids):
        return ",".join(str(x) for x in sorted(self.cid(u) for u in uids))

    def res(self, v):
        if v is None:
            return "ok"
        if v is True:
            return "True"
        if v is False:
            return "False"
        if isinstance(v, py_trees.blackboard.IntermediateVariableFetcher):
            return "fetcher " + object.__getattribute__(v, "namespace")
        if isinstance(v, (set, frozenset)):
            return "keys " + ",".join(sorted(v))
        return "val " + val_str(v)

    def step(self, line):
        t = line.split()
        op = t[0]
        try:
            r = self.do(op, t)
        except Exception as e:  # noqa: B902
            return self.state(err_kind(e))
        return self.state(r)

    def do(self, op, t):
        C = self.clients
        opt = lambda x: None if x == "-" else x  # noqa: E731
        if op == "new":
            c = Client(name=("c%d" if len(C) % 2 == 0 else "c\n%d") % len(C), namespace=opt(t[1]))
            object.__setattr__(c, "required", SortedSet())
            self.idx[c.unique_identifier] = len(C)
            C.append(c)
            return "client %d" % (len(C) - 1)
        if op == "reg":
            c = C[int(t[1])]
            acc = ACC.get(t[3], "bogus")
            return self.res(c.register_key(key=t[2], access=acc, required=t[4] == "1", remap_to=opt(t[5])))
        if op == "unregkey":
            return self.res(C[int(t[1])].unregister_key(t[2], clear=t[3] == "1"))
        if op == "unregall":
            return self.res(C[int(t[1])].unregister_all_keys(clear=t[2] == "1"))
        if op == "unreg":
            return self.res(C[int(t[1])].unregister(clear=t[2] == "1"))
        if op == "setattr":
            setattr(C[int(t[1])], t[2], val_parse(t[3]))
            return "ok"
        if op == "getattr":
            return self.res_val(getattr(C[int(t[1])], t[2]))
        if op == "set":
            return self.res(C[int(t[1])].set(t[2], val_parse(t[3]), overwrite=t[4] == "1"))
        if op == "get":
            return self.res_val(C[int(t[1])].get(t[2]))
        if op == "exists":
            return self.res(C[int(t[1])].exists(t[2]))
        if op == "unset":
            return self.res(C[int(t[1])].unset(t[2]))
        if op == "dotget":
            o = C[int(t[1])]
            for part in t[2].split(","):
                o = getattr(o, part)
            return self.res_val(o)
        if op == "dotset":
            o = C[int(t[1])]
            parts = t[2].split(",")
            for part in parts[:-1]:
                o = getattr(o, part)
            setattr(o, parts[-1], val_parse(t[3]))
            return "ok"
        if op == "verify":
            return self.res(C[int(t[1])].verify_required_keys_exist())
        if op == "isreg":
            return self.res(C[int(t[1])].is_registered(t[2], ACC.get(t[3])))
        if op == "keys":
            return self.res(Blackboard.keys())
        if op == "keysre":
            return self.res(Blackboard.keys_filtered_by_regex(t[1]))
        if op == "keysby":
            ids = [C[int(i)].unique_identifier for i in t[1].split(",") if i not in ("", "-")]
            return self.res(Blackboard.keys_filtered_by_clients(ids))
        if op == "sget":
            return self.res_val(Blackboard.get(t[1]))
        if op == "sexists":
            return self.res(Blackboard.exists(t[1]))
        if op == "sset":
            return self.res(Blackboard.set(t[1], val_parse(t[2])))
        if op == "sunset":
            return self.res(Blackboard.unset(t[1]))
        if op == "stream":
            # the stream is administered through a project's own subclass of Blackboard (introspection helpers are
            # commonly hung there): it is the one stream of the one blackboard all the same
            if t[1] == "on":
                ProjectBlackboard.enable_activity_stream(int(t[2]))
            elif t[1] == "off":
                ProjectBlackboard.disable_activity_stream()
            else:
                if Blackboard.activity_stream is not None:
                    Blackboard.activity_stream.clear()
            return "ok"
        return "bad-op"

    def res_val(self, v):
        if isinstance(v, py_trees.blackboard.IntermediateVariableFetcher):
            return self.res(v)
        return "val " + val_str(v)


def run_bb(scn):
    run = BbRun()
    out = []
    for op in scn.ops:
        out.append("> " + op)
        out += run.step(op)
    return out


def name_step(line):
    t = line.split()
    d = lambda x: "" if x == "-" else x  # noqa: E731
    try:
        if t[0] == "abs":
            return "R " + Blackboard.absolute_name(d(t[1]), d(t[2]))
        if t[0] == "rel":
            return "R " + Blackboard.relative_name(d(t[1]), d(t[2]))
        if t[0] == "clientns":
            Blackboard.clear()
            c = Client(name="x", namespace=d(t[1]))
            ns = object.__getattribute__(c, "namespace")
            Blackboard.clear()
            return "R " + ns
        if t[0] == "closure":
            Blackboard.clear()
            c = Client(name="x")
            c._update_namespaces(added_key=d(t[1]))
            r = "R " + ",".join(sorted(object.__getattribute__(c, "namespaces")))
            Blackboard.clear()
            return r
        if t[0] == "rebuild":
            Blackboard.clear()
            c = Client(name="x")
            c.register_key(key=d(t[1]), access=Access.READ)
            c.register_key(key="/zz", access=Access.READ)
            c.unregister_key("/zz")
            r = "R " + ",".join(sorted(object.__getattribute__(c, "namespaces")))
            Blackboard.clear()
            return r
        if t[0] in ("cacc", "cshare", "cremap"):
            W = Access.WRITE

            def res(f):
                try:
                    v = f()
                except Exception as e:  # noqa: B902
                    return err_kind(e)
                if v is None:
                    return "ok"
                if v is True or v is False:
                    return str(v)
                return "val " + val_str(v)
            try:
                if t[0] == "cacc":
                    Blackboard.clear()
                    c = Client(name="x", namespace=d(t[1]))
                    k = d(t[2])
                    a = Blackboard.absolute_name(object.__getattribute__(c, "namespace"), k)
                    out = [res(lambda: c.register_key(key=k, access=Access.EXCLUSIVE_WRITE))]
                    res(lambda: c.register_key(key=k + "/s", access=W))      # k is now also a namespace of the client
                    out += [res(lambda: setattr(c, k, 7)),
                            res(lambda: getattr(c, k)), res(lambda: c.get(a)), res(lambda: Blackboard.get(a))]
                    try:
                        out.append(str(c.absolute_name(k)))
                    except Exception as e:  # noqa: B902
                        out.append(err_kind(e))
                    res(lambda: c.register_key(key="d/e", access=W))
                    res(lambda: setattr(c, "d/e", 3))
                    out.append(res(lambda: c.d.e))          # dotted access through the client's own namespace
                    # ... after which the namespace `d` itself becomes a key of this client: reading it gives its value
                    res(lambda: c.register_key(key="d", access=W))
                    res(lambda: setattr(c, "d", 4))
                    out.append(res(lambda: c.d))
                    return "R " + "|".join(out)
                if t[0] == "cshare":
                    Blackboard.clear()
                    ca, cb = Client(name="a", namespace=d(t[1])), Client(name="b", namespace=d(t[3]))
                    ka, kb = d(t[2]), d(t[4])
                    res(lambda: ca.register_key(key=ka, access=W))
                    res(lambda: cb.register_key(key=kb, access=W))
                    res(lambda: setattr(ca, ka, 1))
                    res(lambda: setattr(cb, kb, 2))
                    return "R " + res(lambda: getattr(ca, ka))
                parts = []
                for occupy_target in (True, False):
                    Blackboard.clear()
                    ca, cb = Client(name="a", namespace=d(t[1])), Client(name="b")
                    ka, loc = d(t[2]), t[3]
                    own = Blackboard.absolute_name(object.__getattribute__(ca, "namespace"), ka)
                    res(lambda: ca.register_key(key=ka, access=W, remap_to=loc))
                    res(lambda: cb.register_key(key=loc, access=W))
                    res(lambda: cb.register_key(key=own, access=W))
                    res(lambda: setattr(cb, loc if occupy_target else own, 1))
                    r = res(lambda: ca.set(ka, 2, overwrite=False))
                    parts.append(",".join([r, res(lambda: Blackboard.get(loc)), res(lambda: Blackboard.get(own))]))
                try:
                    parts.append(str(ca.absolute_name(ka)))
                except Exception as e:  # noqa: B902
                    parts.append(err_kind(e))
                X = Access.EXCLUSIVE_WRITE
                # rejected re-registration of the remapped key
                Blackboard.clear()
                ca, cb = Client(name="a", namespace=d(t[1])), Client(name="b")
                res(lambda: ca.register_key(key=ka, access=W, remap_to=loc))
                res(lambda: cb.register_key(key=own, access=X))
                res(lambda: cb.register_key(key=loc, access=W))
                res(lambda: setattr(cb, loc, 1))
                r = res(lambda: ca.register_key(key=ka, access=W))
                parts.append(r + "," + res(lambda: getattr(ca, ka)))
                # unregister + plain re-registration while somebody else still uses the target
                Blackboard.clear()
                ca, cb = Client(name="a", namespace=d(t[1])), Client(name="b")
                res(lambda: ca.register_key(key=ka, access=W, remap_to=loc))
                res(lambda: cb.register_key(key=loc, access=W))
                res(lambda: ca.unregister_key(ka, clear=True))
                res(lambda: ca.register_key(key=ka, access=W))
                res(lambda: setattr(ca, ka, 5))
                parts.append(res(lambda: Blackboard.get(own)) + "," + res(lambda: Blackboard.get(loc)))
                return "R " + "|".join(parts)
            finally:
                Blackboard.clear()
    except KeyError:
        return "KeyError"
    return "bad-op"


def run_name(scn):
    out = []
    for op in scn.ops:
        out.append("> " + op)
        out.append(name_step(op))
    return out
