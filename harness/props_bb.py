"""Checks over the `bb` scenario family: C06 C07 C08 C14 C16."""
import copy

from props import Prop, register, text_hash
from common import val_parse, val_str, Obj
import bb_gen
import bb_impl
from bb_gen import absname, client_ns


def viol(clause, detail, **sig):
    return {"clause": clause, "detail": detail, "sig": sig}


# ---------------------------------------------------------------------------------------------
# observation parsing
# ---------------------------------------------------------------------------------------------

class BObs(object):
    def __init__(self, op):
        self.op = op
        self.R = ""
        self.S = {}
        self.M = {}
        self.G = []
        self.C = {}
        self.A = None     # None = off, else (max, [records])
        self.raw = []


def csv(s):
    return [x for x in s.split(",") if x != ""]


def parse_bobs(lines):
    out = []
    for l in lines:
        if l.startswith("> "):
            out.append(BObs(l[2:]))
            continue
        if not out:
            continue
        o = out[-1]
        o.raw.append(l)
        if l.startswith("R "):
            o.R = l[2:]
        elif l.startswith("S"):
            for t in l[1:].split():
                k, v = t.split("=", 1)
                o.S[k] = v
        elif l.startswith("M"):
            for t in l[1:].split():
                k, v = t.split("=", 1)
                r, w, x = v.split("|")
                o.M[k] = {"r": [int(i) for i in csv(r[2:])], "w": [int(i) for i in csv(w[2:])],
                          "x": [int(i) for i in csv(x[2:])]}
        elif l.startswith("G"):
            o.G = [int(i) for i in csv(l[1:].strip())]
        elif l.startswith("C"):
            head, *rest = l.split()
            d = {}
            for t in rest:
                k, v = t.split("=", 1)
                d[k] = v
            o.C[int(head[1:])] = {
                "ns": d["ns"], "r": csv(d["r"]), "w": csv(d["w"]), "x": csv(d["x"]), "q": csv(d["q"]),
                "m": dict(p.split(">") for p in csv(d["m"])), "n": csv(d["n"])}
        elif l.startswith("A"):
            if l.strip() == "A off":
                o.A = None
            else:
                parts = l.split(" ", 2)
                recs = [tuple(r.split(",")) for r in parts[2].split(";")] if len(parts) > 2 and parts[2] else []
                o.A = (int(parts[1]), recs)
    return out


def split_name(name):
    parts = name.split(".")
    return parts[0], [p for p in parts[1:]]


def get_path(v, path):
    for a in path:
        if isinstance(v, Obj) and hasattr(v, a):
            v = getattr(v, a)
        else:
            return False, None
    return True, v


def set_path(v, path, x):
    """in place on a copy; returns (ok, new)"""
    v = copy.deepcopy(v)
    o = v
    for a in path[:-1]:
        if isinstance(o, Obj) and hasattr(o, a):
            o = getattr(o, a)
        else:
            return False, v
    if isinstance(o, Obj):
        setattr(o, path[-1], x)
        return True, v
    return False, v


# ---------------------------------------------------------------------------------------------
# base
# ---------------------------------------------------------------------------------------------

class BbProp(Prop):
    family = "bb"
    quick_n, thorough_n = 1000, 15000
    keep = "RSMGCA"
    strict = None
    stream = True
    statics = True
    sset = False
    assumptions = ["blackboard values are fresh objects (no aliasing of one object under two keys)",
                   "key names are not attributes of the Client class", "activity-stream records compare objects opaquely",
                   "batch unregistration order is unobservable unless it raises (scenarios that could raise use single "
                   "unregister_key calls only)"]

    def generate(self, rng, tier):
        n = {"quick": self.quick_n, "thorough": self.thorough_n, "search": 3000}[tier]
        out = []
        for i in range(n):
            mx = 150 if (tier == "thorough" and i % 5 == 0) else 60
            out.append(bb_gen.gen_scenario(rng, "%s_%s_%d" % (self.pid, tier[0], i), strict=self.strict,
                                           stream=self.stream, statics=self.statics, max_ops=mx, sset=self.sset))
        return out

    def run_impl(self, s):
        return bb_impl.run_bb(s)

    ops_r = None   # operations whose result line takes part in the correspondence (None = all)

    def project(self, s, lines):
        out = []
        cur = ""
        for l in lines:
            if l.startswith(">"):
                cur = l.split()[1] if len(l.split()) > 1 else ""
                out.append(l)
            elif l.startswith("bad"):
                out.append(l)
            elif l[0] == "R":
                if "R" in self.keep and (self.ops_r is None or cur in self.ops_r):
                    out.append(l)
            elif l[0] in self.keep:
                out.append(l)
        return out

    def count(self, s, lines, stats):
        Prop.count(self, s, lines, stats)
        for l in lines:
            if l.startswith("> "):
                op = l.split()[1]
                stats.setdefault("ops_by_kind", {})
                stats["ops_by_kind"][op] = stats["ops_by_kind"].get(op, 0) + 1
            elif l.startswith("R "):
                k = l.split()[1]
                stats.setdefault("results", {})
                stats["results"][k] = stats["results"].get(k, 0) + 1
            elif l.startswith("A ") and l != "A off":
                for r in l.split(" ", 2)[2:]:
                    for rec in r.split(";"):
                        if rec:
                            t = rec.split(",")[2]
                            stats.setdefault("record_types", {})
                            stats["record_types"][t] = stats["record_types"].get(t, 0) + 1

    def oracle(self, s, lines):
        obs = parse_bobs(lines)
        out = []
        prev = BObs("")
        hist = {"alias": set(), "remapchg": set(), "keys": {}, "acc": {}, "loc": {}, "nsof": {}, "untracked": set(), "req": {}}
        for o in obs:
            self.track(hist, prev, o)
            out += self.check_op(prev, o, hist) or []
            prev = o
            if len(out) > 5:
                break
        return out

    @staticmethod
    def track(hist, prev, o):
        """remember which clients ever mapped two keys to one location or changed a key's remap; and keep an independent
        record of the live registrations (from the operations and their results alone, never from the client sets the
        implementation reports): hist["acc"][c] = {absolute key: {'r','w','x'}}, hist["loc"][c] = {key: location}"""
        t = o.op.split()
        if t[0] == "new" and o.R.startswith("client"):
            c = int(o.R.split()[1])
            hist["acc"][c], hist["loc"][c] = {}, {}
            hist["nsof"][c] = client_ns(t[1])
        elif t[0] == "reg" and o.R == "ok" and int(t[1]) in hist["acc"]:
            c = int(t[1])
            a = absname(hist["nsof"][c], t[2])
            hist["acc"][c].setdefault(a, set()).add({"R": "r", "W": "w", "X": "x"}.get(t[3], "?"))
            hist["loc"][c][a] = a if t[5] == "-" else t[5]
            if t[4] == "1":
                hist["req"].setdefault(c, set()).add(a)
        elif t[0] == "unregkey" and int(t[1]) in hist["acc"]:
            c = int(t[1])
            a = absname(hist["nsof"][c], t[2])
            if o.R == "ok":
                hist["acc"][c].pop(a, None)
                hist["loc"][c].pop(a, None)
                hist["req"].setdefault(c, set()).discard(a)
            elif a in hist["acc"][c]:
                hist["untracked"].add(c)      # raised half-way (K4 / K5 histories): what is left is not judged
        elif t[0] in ("unregall", "unreg") and int(t[1]) in hist["acc"]:
            c = int(t[1])
            if o.R == "ok":
                hist["acc"][c], hist["loc"][c] = {}, {}
                hist["req"][c] = set()
            else:
                hist["untracked"].add(c)
        if t[0] == "reg" and o.R == "ok":
            c = int(t[1])
            cl = o.C[c]
            locs = {}
            for k, l in cl["m"].items():
                locs.setdefault(l, set()).add(k)
            if any(len(v) > 1 for v in locs.values()):
                hist["alias"].add(c)
            a = absname(prev.C[c]["ns"], t[2])
            if a in prev.C[c]["m"] and prev.C[c]["m"][a] != cl["m"].get(a):
                hist["remapchg"].add(c)

    def check_op(self, prev, o, hist):
        return []


def client_sets_clause(hist, o):
    """the access sets and remappings a client reports are exactly its live registrations (tracked independently)"""
    out = []
    for c, acc in hist["acc"].items():
        if c in hist["untracked"] or c not in o.C:
            continue
        cl = o.C[c]
        for lvl, name in (("r", "read"), ("w", "write"), ("x", "exclusive")):
            want = sorted(k for k, v in acc.items() if lvl in v)
            if sorted(cl[lvl]) != want:
                out.append(viol("client-sets", "after `%s` client %d reports %s keys %s but its live registrations are %s"
                                % (o.op, c, name, sorted(cl[lvl]), want)))
        if sorted(cl["m"].items()) != sorted(hist["loc"][c].items()):
            out.append(viol("client-sets", "after `%s` client %d remappings %s but live registrations map %s"
                            % (o.op, c, sorted(cl["m"].items()), sorted(hist["loc"][c].items()))))
    return out[:2]


def resolve(cl, key):
    a = absname(cl["ns"], key)
    return a, cl["m"].get(a)


def can_write(cl, a):
    return a in cl["w"] or a in cl["x"]


def can_read(cl, a):
    return a in cl["r"] or a in cl["w"] or a in cl["x"]


def same_state(prev, o, parts="SMGC"):
    for p in parts:
        if p == "S" and prev.S != o.S:
            return False
        if p == "M" and prev.M != o.M:
            return False
        if p == "G" and prev.G != o.G:
            return False
        if p == "C" and prev.C != o.C:
            return False
    return True


# ---------------------------------------------------------------------------------------------
# C06 read-your-writes against a plain dictionary
# ---------------------------------------------------------------------------------------------

@register
class C06(BbProp):
    pid = "C06"
    sset = True
    keep = "RS"
    ops_r = ("setattr", "getattr", "set", "get", "exists", "unset", "dotget", "dotset", "sget", "sexists", "sunset", "sset")
    rule = ("random histories of 2-4 clients (namespaces, remaps onto shared locations, nested names to depth 3, "
            "overwrite on/off, unset, unregistration with/without clear, static access); every result and the whole "
            "storage compared step by step with a plain dictionary keyed by resolved location; non-trivial = a value "
            "written through one client/spelling was read back through another")

    def check_op(self, prev, o, hist):
        t = o.op.split()
        op = t[0]
        S = dict(prev.S)          # expected storage (canonical value strings)
        want = None               # expected result (None = not judged)
        C = prev.C
        if op in ("setattr", "getattr", "set", "get", "exists", "unset"):
            c = int(t[1])
            cl = C.get(c)
            if cl is None:
                return []
            key, path = split_name(t[2]) if op in ("set", "get", "exists") else (t[2], [])
            if op == "set":
                key, path = split_name(absname(cl["ns"], t[2]))
            a, loc = resolve(cl, key)
            if c in hist["loc"] and c not in hist["untracked"]:
                # the location a key addresses follows from the client's live registrations (tracked from the
                # operations), not from the remapping table the implementation keeps
                loc = hist["loc"][c].get(a)
            if op in ("setattr", "set"):
                if not can_write(cl, a) or loc is None:
                    return self.cmp(o, S, None)
                v = t[3]
                if op == "set" and t[4] == "0" and loc in S:
                    want = "False"
                elif not path:
                    S[loc] = v
                    want = "ok" if op == "setattr" else "True"
                elif loc not in S:
                    want = "KeyError"
                else:
                    ok, new = set_path(val_parse(S[loc]), path, val_parse(v))
                    if ok:
                        S[loc] = val_str(new)
                    want = "True" if ok else "False"
            elif op in ("getattr", "get", "exists"):
                if not can_read(cl, a) or loc is None:
                    return self.cmp(o, S, None)
                if loc in S:
                    ok, x = get_path(val_parse(S[loc]), path)
                else:
                    ok, x = False, None
                if op == "exists":
                    want = "True" if ok else "False"
                else:
                    want = ("val " + val_str(x)) if ok else "KeyError"
            elif op == "unset":
                if loc is None:
                    return self.cmp(o, S, None)
                want = "True" if loc in S else "False"
                S.pop(loc, None)
        elif op in ("sget", "sexists"):
            key, path = split_name(absname("/", t[1]))
            ok, x = (get_path(val_parse(S[key]), path) if key in S else (False, None))
            want = ("True" if ok else "False") if op == "sexists" else (("val " + val_str(x)) if ok else "KeyError")
        elif op == "sunset":
            key = absname("/", t[1])
            want = "True" if key in S else "False"
            S.pop(key, None)
        elif op == "sset":
            key, path = split_name(absname("/", t[1]))
            if not path:
                S[key] = t[2]
                want = "ok"
            elif key not in S:
                want = "KeyError"
            else:
                ok, new = set_path(val_parse(S[key]), path, val_parse(t[2]))
                if ok:
                    S[key] = val_str(new)
                want = "ok" if ok else "AttributeError"
        elif op in ("unregkey", "unregall", "unreg"):
            # clearing removes the values of locations that lose their last user; everything else stays
            if not same_state_minus(prev, o):
                gone = set(prev.S) - set(o.S)
                tracked_users = {l for c2, m in hist["loc"].items() if c2 not in hist["untracked"] for l in m.values()}
                for loc in gone:
                    if loc in o.M or loc in tracked_users:
                        return [viol("unregister-cleared-used-location", "%s erased %s which still has users" % (o.op, loc),
                                     alias=bool(hist["alias"]), remapchg=bool(hist["remapchg"]))]
                    if t[-1] != "1":
                        return [viol("unregister-cleared-without-clear", "%s erased %s" % (o.op, loc))]
                changed = [k for k in o.S if prev.S.get(k) != o.S[k]]
                if changed:
                    return [viol("unregister-changed-values", "%s changed %s" % (o.op, changed))]
            return []
        elif op in ("dotget", "dotset"):
            # namespaced dotted access addresses the same data as attribute access of the key ns1/ns2/.../key
            cl = C.get(int(t[1]))
            if cl is None:
                return []
            a, loc = resolve(cl, t[2].replace(",", "/"))
            if loc is None:
                return self.cmp(o, S, None)
            if op == "dotget":
                if not can_read(cl, a):
                    return self.cmp(o, S, None)
                want = ("val " + val_str(val_parse(S[loc]))) if loc in S else "KeyError"
            else:
                if not can_write(cl, a):
                    return self.cmp(o, S, None)
                S[loc] = t[3]
                want = "ok"
        return self.cmp(o, S, want)

    @staticmethod
    def cmp(o, S, want):
        out = []
        if S != o.S:
            diff = sorted(set(S.items()) ^ set(o.S.items()))
            out.append(viol("storage", "after `%s` storage differs from the dictionary model: %s" % (o.op, diff[:4]),
                            op=o.op.split()[0]))
        if want is not None and o.R != want:
            out.append(viol("result", "`%s` returned %s, dictionary model says %s" % (o.op, o.R, want),
                            op=o.op.split()[0]))
        return out

    def nontrivial_key(self, s, lines):
        writers = {}
        for o in parse_bobs(lines):
            t = o.op.split()
            if t[0] in ("setattr", "set") and o.R in ("ok", "True"):
                writers.setdefault("w", set()).add(t[1])
            if t[0] in ("get", "getattr") and o.R.startswith("val") and writers.get("w") and t[1] not in writers["w"]:
                return text_hash(s.text())
        return None


def same_state_minus(prev, o):
    return prev.S == o.S


# ---------------------------------------------------------------------------------------------
# C07 access control
# ---------------------------------------------------------------------------------------------

@register
class C07(BbProp):
    pid = "C07"
    keep = "RS"
    ops_r = ("setattr", "getattr", "set", "get", "exists", "unset", "dotget", "dotset", "sget", "sexists", "sunset", "sset")
    rule = ("random histories crossing clients x keys x access levels (none/READ/WRITE/EXCLUSIVE) x operations, including "
            "after unregister_key and after rejected registrations; a non-permitted operation must raise and leave the "
            "store unchanged, storage may change only with write access; non-trivial = at least one denied and one "
            "granted operation on the same key")

    def generate(self, rng, tier):
        out = BbProp.generate(self, rng, tier)
        # EXHAUSTIVE cross product: access level x history x stored value x operation (the quantifier of C07)
        from common import Scenario
        ops = ["setattr 1 b/k i:9", "getattr 1 b/k", "set 1 b/k i:9 1", "set 1 b/k i:9 0", "set 1 b/k.p i:9 1",
               "set 1 b/k.q.r i:9 0", "get 1 b/k", "get 1 b/k.p", "exists 1 b/k", "exists 1 b/k.q.r", "unset 1 b/k",
               "dotget 1 b,k", "dotset 1 b,k i:9", "getattr 1 /a/b/k", "set 1 /a/b/k.p i:9 1"]
        n = 0
        for acc in ("none", "R", "W", "X"):
            for hist in ("plain", "unregistered", "rejected", "other-key"):
                for val in ("absent", "i:1", "o{p=i:1,q=o{r=i:2}}"):
                    pre = ["new a", "new a", "reg 0 b/k %s 0 -" % ("R" if acc == "X" else "W")]
                    if val != "absent" and acc != "X":
                        pre.append("setattr 0 b/k " + val)
                    if acc != "none":
                        pre.append("reg 1 b/k %s 0 -" % acc)
                        if acc == "X" and val != "absent":
                            pre.append("setattr 1 b/k " + val)
                    if hist == "unregistered":
                        pre.append("unregkey 1 b/k 0")
                    elif hist == "rejected":
                        pre += ["reg 0 b/j X 0 -", "reg 1 b/j W 0 -", "reg 1 b/j bad 0 -"]
                    elif hist == "other-key":
                        pre.append("reg 1 b/other W 0 -")
                    for op in ops:
                        op2 = op.replace("b/k", "b/j").replace("b,k", "b,j") if hist == "rejected" else op
                        out.append(Scenario("bb", "C07_x_%d" % n, [], ["stream on 50"] + pre + [op2], {"strict": True}))
                        n += 1
        return out

    def check_op(self, prev, o, hist):
        t = o.op.split()
        op = t[0]
        if op in ("reg", "unregkey", "unregall", "unreg"):
            return client_sets_clause(hist, o)
        if op not in ("setattr", "getattr", "set", "get", "exists", "unset", "dotget", "dotset"):
            return []
        c = int(t[1])
        cl = prev.C.get(c)
        if cl is None:
            return []
        out = []
        if op in ("dotget", "dotset"):
            parts = t[2].split(",")
            a = absname(cl["ns"], "/".join(parts))
            need_write = op == "dotset"
        else:
            name = t[2]
            key = split_name(name)[0] if op in ("get", "exists") else (
                split_name(absname(cl["ns"], name))[0] if op == "set" else name)
            a = absname(cl["ns"], key)
            need_write = op in ("setattr", "set", "unset")
        permitted = can_write(cl, a) if need_write else can_read(cl, a)
        acc = hist["acc"].get(c)
        if acc is not None and c not in hist["untracked"]:
            # what the client may do follows from its live registrations (tracked from the operations), not from the
            # sets the implementation keeps
            lv = acc.get(a, set())
            permitted = bool(lv & {"w", "x"}) if need_write else bool(lv)
        raised = o.R in ("AttributeError", "KeyError", "TypeError", "internal")
        # a name that is a proper namespace of one of the client's registered keys is not data: reading it hands out the
        # namespace accessor (that is the dotted-access mechanism of C06 / C15), which is not an access to a variable
        is_ns = any(k.startswith(a + "/") for k in set(cl["r"]) | set(cl["w"]) | set(cl["x"]))
        if not permitted and not need_write and is_ns and (o.R.startswith("fetcher") or o.R == "True"):
            if prev.S != o.S:
                out.append(viol("read-changed-store", "`%s` changed the store" % o.op, op=op))
            return out
        if not permitted:
            if not raised:
                # stale_ns: the name is still in the client's namespace cache although no registered key lies below it any
                # more (what an unregister_key that raised half-way leaves behind, known finding K5)
                out.append(viol("denied-op-did-not-raise", "client %d has %s access to %s but `%s` returned %s"
                                % (c, "no write" if need_write else "no", a, o.op, o.R), op=op,
                                registered=can_read(cl, a), alias=bool(hist["alias"]),
                                stale_ns=bool(a in cl.get("n", ()) and not is_ns and o.R.startswith("fetcher")),
                                # stale_key: the key has left the client's access sets but is still in its remapping
                                # table (left behind by an unregister_key that raised half-way, known finding K5)
                                stale_key=bool(a in cl.get("m", {}) and a not in set(cl["r"]) | set(cl["w"])
                                               | set(cl["x"]))))
            elif op != "unset" and o.R != "AttributeError":
                out.append(viol("denied-op-wrong-exception", "`%s` raised %s instead of AttributeError" % (o.op, o.R),
                                op=op))
            if prev.S != o.S:
                out.append(viol("denied-op-changed-store", "`%s` without access changed the store" % o.op, op=op,
                                registered=can_read(cl, a), alias=bool(hist["alias"]),
                                stale_key=bool(a in cl.get("m", {}) and a not in set(cl["r"]) | set(cl["w"])
                                               | set(cl["x"]))))
        else:
            if o.R == "AttributeError":
                out.append(viol("granted-op-denied", "client %d has access to %s but `%s` raised AttributeError"
                                % (c, a, o.op), op=op))
        if not need_write and prev.S != o.S:
            out.append(viol("read-changed-store", "`%s` changed the store" % o.op, op=op))
        return out

    def nontrivial_key(self, s, lines):
        denied, granted = set(), set()
        for o in parse_bobs(lines):
            t = o.op.split()
            if t[0] in ("setattr", "getattr", "set", "get", "exists", "unset"):
                (denied if o.R == "AttributeError" else granted).add(t[2].split(".")[0])
        return text_hash(s.text()) if denied & granted else None


# ---------------------------------------------------------------------------------------------
# C08 exclusive locks, rejected registrations
# ---------------------------------------------------------------------------------------------

def writers_holders(o, loc):
    writers, holders = set(), set()
    for c, cl in o.C.items():
        for k in cl["w"] + cl["x"]:
            if cl["m"].get(k) == loc:
                writers.add(c)
        for k in cl["x"]:
            if cl["m"].get(k) == loc:
                holders.add(c)
    return writers, holders


@register
class C08(BbProp):
    pid = "C08"
    keep = "RMGC"
    ops_r = ("reg", "unregkey", "unregall", "unreg", "isreg", "new")
    stream = False
    rule = ("random register / unregister histories by 2-4 clients over a few locations with aliasing remaps and every "
            "access level plus invalid access arguments; after every call: a location with an exclusive writer has "
            "exactly one client with write access, a rejected registration changes nothing; non-trivial = a WRITE or "
            "EXCLUSIVE registration was rejected and one was granted on the same location")

    def check_op(self, prev, o, hist):
        out = []
        locs = set()
        for cl in o.C.values():
            locs.update(cl["m"].values())
        for loc in sorted(locs):
            writers, holders = writers_holders(o, loc)
            if holders and (len(holders) != 1 or writers != holders):
                out.append(viol("exclusive-lock-broken", "after `%s` location %s has exclusive holders %s and writers %s"
                                % (o.op, loc, sorted(holders), sorted(writers)),
                                alias=bool(hist["alias"]), remapchg=bool(hist["remapchg"])))
        t = o.op.split()
        if t[0] == "reg":
            c = int(t[1])
            if o.R in ("AttributeError", "TypeError"):
                if not same_state(prev, o, "MGCS"):
                    out.append(viol("rejected-registration-changed-state", "`%s` was rejected (%s) but changed registries"
                                    % (o.op, o.R), kind=o.R))
            cl = prev.C.get(c)
            if cl is not None and t[3] in ("W", "X"):
                a = absname(cl["ns"], t[2])
                loc = a if t[5] == "-" else t[5]
                writers, holders = writers_holders(prev, loc)
                should_reject = bool(holders) if t[3] == "W" else bool(writers)
                if should_reject and o.R == "ok":
                    out.append(viol("conflicting-registration-accepted", "`%s` accepted although %s has writers %s / "
                                    "exclusive %s" % (o.op, loc, sorted(writers), sorted(holders)),
                                    alias=bool(hist["alias"]), remapchg=bool(hist["remapchg"]),
                                    stale_meta=self.stale(prev, loc)))
                if not should_reject and o.R == "AttributeError":
                    out.append(viol("registration-wrongly-rejected", "`%s` rejected although %s has no conflicting "
                                    "writer" % (o.op, loc), alias=bool(hist["alias"]), remapchg=bool(hist["remapchg"]),
                                    stale_meta=self.stale(prev, loc)))
            if t[3] == "bad" and o.R != "TypeError":
                out.append(viol("bad-access-not-rejected", "`%s` returned %s" % (o.op, o.R)))
        return out

    @staticmethod
    def stale(o, loc):
        """metadata of loc disagrees with the live registrations (K4/K5 territory)"""
        m = o.M.get(loc, {"r": [], "w": [], "x": []})
        writers, holders = writers_holders(o, loc)
        return set(m["x"]) != holders or set(m["w"]) | set(m["x"]) != writers

    def nontrivial_key(self, s, lines):
        rej, acc = set(), set()
        for o in parse_bobs(lines):
            t = o.op.split()
            if t[0] == "reg" and t[3] in ("W", "X"):
                (rej if o.R == "AttributeError" else acc).add(t[2] + t[5])
        return text_hash(s.text()) if rej and acc else None


# ---------------------------------------------------------------------------------------------
# C14 metadata / registry mirror
# ---------------------------------------------------------------------------------------------

@register
class C14(BbProp):
    pid = "C14"
    keep = "RSMGC"
    stream = False
    rule = ("random histories of client creation, register_key (all levels, required, remaps), the three unregister "
            "entry points with clear on/off, writes; after every call metadata and registry are recomputed from the "
            "clients' live registrations and compared, key filters and required-key verification are recomputed; "
            "non-trivial = a location shared by two clients lost one of them")

    def check_op(self, prev, o, hist):
        out = []
        sig = dict(alias=bool(hist["alias"]), remapchg=bool(hist["remapchg"]))
        if o.op.split()[0] in ("reg", "unregkey", "unregall", "unreg"):
            out += client_sets_clause(hist, o)
        want = {}
        for c, cl in o.C.items():
            for lvl in "rwx":
                for k in cl[lvl]:
                    loc = cl["m"].get(k)
                    if loc is None:
                        out.append(viol("registered-key-without-remap", "client %d key %s" % (c, k), **sig))
                        continue
                    want.setdefault(loc, {"r": set(), "w": set(), "x": set()})[lvl].add(c)
        got = {k: {l: set(v[l]) for l in "rwx"} for k, v in o.M.items()}
        if want != got:
            out.append(viol("mirror", "after `%s` metadata %s but live registrations give %s"
                            % (o.op, fmt(got), fmt(want)), **sig))
        t = o.op.split()
        op = t[0]
        if op == "unreg" and o.R == "ok" and int(t[1]) in o.G:
            out.append(viol("registry", "client %s still in the registry after unregister" % t[1]))
        if op == "new" and (len(o.C) - 1) not in o.G:
            out.append(viol("registry", "new client not in the registry"))
        if op in ("unregkey", "unregall", "unreg"):
            for loc in set(prev.S) - set(o.S):
                if loc in o.M or t[-1] != "1":
                    out.append(viol("value-lost", "`%s` deleted the value of %s (still used: %s, clear=%s)"
                                    % (o.op, loc, loc in o.M, t[-1]), **sig))
            for loc in set(prev.M) - set(o.M):
                if t[-1] == "1" and loc in o.S:
                    out.append(viol("value-kept", "`%s` with clear left the value of unused location %s" % (o.op, loc),
                                    **sig))
            c = int(t[1])
            if o.R not in ("ok",) and op != "unregkey":
                out.append(viol("batch-unregister-raised", "`%s` raised %s" % (o.op, o.R), **sig))
        if op == "keys" and o.R != "keys " + ",".join(sorted(o.M)):
            out.append(viol("keys", "`keys` returned %s, metadata has %s" % (o.R, sorted(o.M))))
        if op == "keysre":
            exp = sorted(k for k in o.M if t[1] in k)
            if o.R != "keys " + ",".join(exp):
                out.append(viol("filter-regex", "`%s` returned %s expected %s" % (o.op, o.R, exp)))
        if op == "keysby":
            ids = set(int(i) for i in (t[1].split(",") if len(t) > 1 else []) if i not in ("", "-"))
            exp = sorted(k for k, m in o.M.items() if (set(m["r"]) | set(m["w"]) | set(m["x"])) & ids)
            if o.R != "keys " + ",".join(exp):
                out.append(viol("filter-clients", "`%s` returned %s expected %s" % (o.op, o.R, exp), **sig))
        if op == "verify":
            cl = prev.C.get(int(t[1]))
            c = int(t[1])
            if cl is not None and c in hist["acc"] and c not in hist["untracked"]:
                # which keys are required, and where they live, follows from the registrations made (tracked from the
                # operations), not from the client's own `required` set
                missing = [k for k in sorted(hist["req"].get(c, ())) if hist["loc"][c].get(k) not in prev.S]
                if sorted(cl["q"]) != sorted(hist["req"].get(c, ())):
                    out.append(viol("required-set", "client %d reports required keys %s, registrations made require %s"
                                    % (c, sorted(cl["q"]), sorted(hist["req"].get(c, ())))))
                if (o.R == "KeyError") != bool(missing) and not out:
                    out.append(viol("verify", "`%s` returned %s, required keys without value: %s" % (o.op, o.R, missing)))
            elif cl is not None:
                missing = []
                for k in cl["q"]:
                    if not can_read(cl, k):
                        out.append(viol("required-not-registered", "required key %s is not registered any more" % k))
                    elif cl["m"].get(k) not in prev.S:
                        missing.append(k)
                if (o.R == "KeyError") != bool(missing) and not out:
                    out.append(viol("verify", "`%s` returned %s, keys without value: %s" % (o.op, o.R, missing)))
        return out

    def nontrivial_key(self, s, lines):
        prev = None
        for o in parse_bobs(lines):
            if prev is not None:
                for loc, m in prev.M.items():
                    users = set(m["r"]) | set(m["w"]) | set(m["x"])
                    if len(users) >= 2 and loc in o.M:
                        now = set(o.M[loc]["r"]) | set(o.M[loc]["w"]) | set(o.M[loc]["x"])
                        if len(now) < len(users):
                            return text_hash(s.text())
            prev = o
        return None


def fmt(m):
    return {k: {l: sorted(v[l]) for l in "rwx" if v[l]} for k, v in sorted(m.items())}


# ---------------------------------------------------------------------------------------------
# C16 activity stream
# ---------------------------------------------------------------------------------------------

@register
class C16(BbProp):
    pid = "C16"
    keep = "RA"
    ops_r = ("setattr", "getattr", "set", "get", "exists", "unset", "dotget", "dotset", "verify", "stream")
    statics = False
    rule = ("random histories with the stream enabled at sizes 0,1,2,3,5,50 (smaller than the history), toggled and "
            "cleared mid-history; after every op the records appended are recomputed from the pre-state (one per store "
            "access, type from the outcome, key = resolved location, values) and the stream must equal the last `max` "
            "of old ++ new; non-trivial = the size limit was hit and records of >= 4 different types were produced")

    def generate(self, rng, tier):
        out = BbProp.generate(self, rng, tier)
        if tier != "search":
            # OUTSIDE THE MODEL's value universe: values whose type derives from a primitive type (a str subclass that
            # carries attributes). They are not bare primitives: a writer fetching one is ACCESSED, not READ.
            vals = bb_gen.VALS
            bb_gen.VALS = vals + ["l:x", "l:y", "l:x{p=i:1}", "l:x", "l:y"]
            try:
                for i in range(max(150, len(out) // 8)):
                    sc = bb_gen.gen_scenario(rng, "%s_%s_sub_%d" % (self.pid, tier[0], i), strict=self.strict,
                                             stream=self.stream, statics=self.statics, max_ops=40, sset=self.sset)
                    sc.meta["impl_only"] = True
                    out.append(sc)
            finally:
                bb_gen.VALS = vals
        return out

    def expected(self, prev, o):
        """records this op should append, from the pre-state and the observed result"""
        t = o.op.split()
        op = t[0]
        S = prev.S
        if op not in ("setattr", "getattr", "set", "get", "exists", "unset", "verify"):
            return None if op in ("dotget", "dotset") else []
        c = int(t[1])
        cl = prev.C.get(c)
        if cl is None:
            return []
        cs = str(c)

        def rv(loc):
            v = S[loc]
            return "o" if v.startswith("o{") else "l" if v.startswith("l:") else v

        def read_rec(key):
            a = absname(cl["ns"], key)
            if not can_read(cl, a):
                return [] if a in cl["n"] else [(a, cs, "ACCESS_DENIED", "-", "-")]
            loc = cl["m"].get(a)
            if loc is None:
                return []
            if loc not in S:
                return [(loc, cs, "NO_KEY", "-", "-")]
            prim = not (S[loc].startswith("o{") or S[loc].startswith("s:") or S[loc] == "n" or S[loc].startswith("l:"))
            typ = "READ" if (a in cl["r"] or prim) else "ACCESSED"
            return [(loc, cs, typ, "-", rv(loc))]

        def val_rec(v):
            return "o" if v.startswith("o{") else "l" if v.startswith("l:") else v

        if op in ("getattr", "get", "exists"):
            return read_rec(split_name(t[2])[0] if op != "getattr" else t[2])
        if op == "verify":
            out = []
            for k in sorted(cl["q"]):
                out += read_rec(k)
            return out
        if op == "unset":
            a = absname(cl["ns"], t[2])
            loc = cl["m"].get(a)
            return [] if loc is None else [(loc, cs, "UNSET", "-", "-")]
        if op in ("setattr", "set"):
            key, path = (t[2], []) if op == "setattr" else split_name(absname(cl["ns"], t[2]))
            a = absname(cl["ns"], key)
            if not can_write(cl, a):
                return [(a, cs, "ACCESS_DENIED", "-", "-")]
            loc = cl["m"].get(a)
            if loc is None:
                return []
            if op == "set" and t[4] == "0" and loc in S:
                return [(loc, cs, "NO_OVERWRITE", "-", rv(loc))]
            if path:
                return read_rec(key)
            if loc in S:
                return [(loc, cs, "WRITE", rv(loc), val_rec(t[3]))]
            return [(loc, cs, "INITIALISED", "-", val_rec(t[3]))]
        return []

    def check_op(self, prev, o, hist):
        out = []
        t = o.op.split()
        if t[0] == "stream":
            if t[1] == "off" and o.A is not None:
                out.append(viol("disable", "stream still enabled after disable"))
            if t[1] == "on" and o.A is None:
                out.append(viol("enable", "stream not enabled"))
            if t[1] == "on" and prev.A is None and o.A is not None and (o.A[0] != int(t[2]) or o.A[1]):
                out.append(viol("enable", "fresh stream %s" % (o.A,)))
            if t[1] == "on" and prev.A is not None and o.A is not None and \
                    (o.A[0] != prev.A[0] or [tuple(r) for r in o.A[1]] != [tuple(r) for r in prev.A[1]]):
                # enabling a stream that is already enabled keeps it: its bound and the records it retains
                out.append(viol("re-enable", "`%s` on an enabled stream (max %d, %d records) left max %d, %d records"
                                % (o.op, prev.A[0], len(prev.A[1]), o.A[0], len(o.A[1]))))
            if t[1] == "clear" and o.A is not None and o.A[1]:
                out.append(viol("clear", "stream not empty after clear"))
            if t[1] == "clear" and o.A is not None and prev.A is not None and o.A[0] != prev.A[0]:
                # clearing empties the stream; the configured maximum stays
                out.append(viol("clear-bound", "clear() changed the configured maximum from %d to %d" % (prev.A[0], o.A[0])))
            return out
        if prev.A is None:
            if o.A is not None:
                out.append(viol("disabled", "`%s` enabled / wrote the stream while disabled" % o.op))
            return out
        if o.A is None:
            return [viol("disabled", "`%s` disabled the stream" % o.op)]
        mx, before = prev.A
        after = o.A[1]
        if len(after) > mx:
            out.append(viol("bounded", "stream holds %d records, maximum %d (after `%s`)" % (len(after), mx, o.op),
                            max=mx))
        exp = self.expected(prev, o)
        if exp is None:
            return out
        want = (before + exp)
        want = want[len(want) - mx:] if mx < len(want) else want
        if mx == 0:
            want = []
        if [tuple(r) for r in after] != [tuple(r) for r in want]:
            out.append(viol("records", "after `%s` stream is %s, expected %s" % (o.op, after[-4:], want[-4:]),
                            op=t[0], max=mx))
        return out

    def nontrivial_key(self, s, lines):
        types = set()
        hit = False
        for o in parse_bobs(lines):
            if o.A is not None:
                for r in o.A[1]:
                    types.add(r[2])
                if len(o.A[1]) == o.A[0] and o.A[0] > 0:
                    hit = True
        return text_hash(s.text()) if hit and len(types) >= 4 else None
