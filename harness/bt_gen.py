"""Seeded generators of `bt` scenarios (trees + operation scripts). Every random choice of a
scenario derives from the one `random.Random` passed in."""
from common import Scenario
from bt_impl import spec_str, spec_nodes

KEYS = ["/a", "/b", "/c", "/ns/d"]
OBJ_KEY = "/o"      # only ever holds attribute-bag objects: nested writers (set / StatusToBlackboard) target it
OBJ_VALS = ["o{p=i:1}", "o{p=i:2,q=o{r=i:0}}", "o{q=o{r=i:0}}", "o{q=o{r=i:1},p=b:1}", "o{p=n,q=o{r=n}}"]   # the last: attributes that exist and hold None
VALS = ["i:0", "i:1", "i:2", "b:1", "b:0", "s:S", "s:F", "s:R", "n", "t:x", "o{p=i:1}", "o{p=i:2,q=o{r=s:S}}",
        "o{q=o{r=i:0}}"]
PATHS = ["-", "-", "-", "p", "q.r", "q", "zz"]
CMP = ["eq", "ne", "lt", "le", "gt", "ge"]

SIMPLE_DECS = ["inv", "rif", "ris", "fis", "fir", "sif", "sir", "pass"]


class Profile(object):
    """knobs of the tree generator"""

    def __init__(self, **kw):
        self.max_nodes = 12
        self.max_depth = 4
        self.max_children = 4
        self.w_comp = {"Q": 3, "S": 3, "P": 2}        # composite kinds
        self.w_node = {"leaf": 5, "comp": 4, "dec": 3}  # at inner positions
        self.decs = SIMPLE_DECS + ["cond", "retry", "repeat", "timeout", "guard", "oneshot", "count"]
        self.leaves = {"probe": 10, "const": 1, "tc": 1, "sq": 1, "sen": 1, "timer": 1}
        self.bb = False            # blackboard leaves / s2b decorator allowed
        self.invalid_policy = 0.03
        self.p_stop = 0.15
        self.p_setup = 0.0            # per-operation probability of a BehaviourTree.setup() in mid-history
        self.p_inner_stop = 0.0       # share of the stop operations that hit a random inner behaviour instead of the root
        self.p_poke = 0.0
        self.min_ops, self.max_ops = 1, 12
        self.w_outcome = {"R": 40, "S": 35, "F": 25}
        self.root_kind = None
        for k, v in kw.items():
            setattr(self, k, v)


def wchoice(rng, weights):
    items = sorted(weights.items())
    tot = sum(w for _, w in items)
    x = rng.uniform(0, tot)
    for k, w in items:
        x -= w
        if x <= 0:
            return k
    return items[-1][0]


class TreeGen(object):
    def __init__(self, rng, prof):
        self.rng = rng
        self.p = prof
        self.next_id = 1
        self.budget = prof.max_nodes

    def fresh(self):
        i = self.next_id
        self.next_id += 1
        self.budget -= 1
        return i

    def val(self):
        return self.rng.choice(VALS)

    def leaf(self):
        rng = self.rng
        nid = self.fresh()
        weights = dict(self.p.leaves)
        if self.p.bb:
            weights.update({"cex": 2, "wf": 2, "cv": 3, "wv": 2, "cvs": 2, "set": 3, "unset": 2, "b2s": 1})
        kind = wchoice(rng, weights)
        if kind == "probe":
            k = ["probe"]
        elif kind == "const":
            k = ["const", rng.choice("SFR")]
        elif kind == "tc":
            k = ["tc", rng.choice([0, 1, 1, 2, 3, 4]), rng.choice("SF")]
        elif kind == "sq":
            q = "".join(rng.choice("SFR") for _ in range(rng.randint(1, 4)))
            k = ["sq", q, rng.choice(["-", "S", "F", "R"])]
        elif kind == "sen":
            k = ["sen", rng.choice([1, 2, 3, 4])]
        elif kind == "timer":
            k = ["timer", rng.choice([0, 1, 2, 3])]
        elif kind in ("cex", "wf"):
            k = [kind, rng.choice(KEYS + [OBJ_KEY]), rng.choice(PATHS + ["st", "q.st"])]
        elif kind in ("cv", "wv"):
            k = [kind] + self.check()
        elif kind == "cvs":
            n = rng.choice([2, 2, 3])
            k = ["cvs", n]
            for _ in range(n):
                k += self.check(simple=True)
            if rng.random() < 0.35:
                k[6], k[7] = k[2], k[3]      # two checks on the same variable (a range / membership style test)
            k.append(rng.choice(["and", "or", "xor"]))
            if rng.random() < 0.6:
                k += ["/res%d/%d" % (nid, j + 1) for j in range(n)]
        elif kind == "set":
            # nested writes only onto attribute-bag objects are modelled (Python also allows setattr on enum
            # members, mutating them process-wide): tree-family writers use plain keys, nested writes live in the
            # blackboard family
            r = rng.random()
            if r < 0.2:
                k = ["set", OBJ_KEY, "-", rng.choice(OBJ_VALS), rng.choice("01")]
            elif r < 0.45:
                k = ["set", OBJ_KEY, rng.choice(["p", "q.r", "q.zz", "zz.r", "w"]), rng.choice(["i:0", "i:7", "b:1", "n"]),
                     rng.choice("01")]
            else:
                k = ["set", rng.choice(KEYS), "-", self.val(), rng.choice("01")]
        elif kind == "unset":
            k = ["unset", rng.choice(KEYS)]
        else:
            k = rng.choice([["b2s", rng.choice(KEYS), rng.choice(["-", "-", "q.r"])], ["b2s", OBJ_KEY, rng.choice(["st", "q.st"])]])
        return ("L", nid, k)

    def check(self, simple=False):
        rng = self.rng
        op = rng.choice(CMP if not simple else ["eq", "ne", "eq"])
        v = rng.choice(["i:0", "i:1", "i:2"]) if op not in ("eq", "ne") else self.val()
        path = rng.choice(PATHS)
        return [rng.choice(KEYS), path, op, v]

    def dec_kind(self, nid):
        rng = self.rng
        kinds = list(self.p.decs) + (["s2b"] if self.p.bb else [])
        k = rng.choice(kinds)
        if k == "cond":
            return "cond:" + rng.choice("SFR")
        if k == "retry":
            return "retry:%d" % rng.choice([0, 1, 2, 3, 4])
        if k == "repeat":
            return "repeat:%d" % rng.choice([-1, 0, 1, 2, 3, 4])
        if k == "timeout":
            return "timeout:%d" % rng.choice([0, 1, 2, 3])
        if k == "guard":
            return "guard:%d" % nid
        if k == "oneshot":
            return "oneshot:" + rng.choice("01")
        if k == "s2b":
            if rng.random() < 0.35:
                return "s2b:%s:%s" % (OBJ_KEY, rng.choice(["st", "q.st", "zz.st"]))
            return "s2b:%s:-" % rng.choice(KEYS)
        return k

    def policy(self, kids):
        rng = self.rng
        r = rng.random()
        if r < 0.35:
            return "all:" + rng.choice("01")
        if r < 0.55:
            return "one"
        ids = [c[1] for c in kids]
        sync = rng.choice("01")
        if not ids and self.p.invalid_policy == 0:
            return "all:" + sync
        if rng.random() < self.p.invalid_policy or not ids:
            bad = rng.choice([[], [9999], ids[:1] + [9999]])
            return "sel:%s:%s" % (sync, ",".join(str(i) for i in bad))
        sel = [i for i in ids if rng.random() < 0.5] or [rng.choice(ids)]
        if rng.random() < 0.3:
            rng.shuffle(sel)
        return "sel:%s:%s" % (sync, ",".join(str(i) for i in sel))

    def node(self, depth, kind=None):
        rng = self.rng
        if kind is None:
            if depth >= self.p.max_depth or self.budget <= 1:
                kind = "leaf"
            else:
                kind = wchoice(rng, self.p.w_node)
        if kind == "leaf":
            return self.leaf()
        if kind == "dec":
            nid = self.fresh()
            k = self.dec_kind(nid)
            return ("D", nid, k, self.node(depth + 1))
        ck = kind if kind in ("Q", "S", "P") else wchoice(rng, self.p.w_comp)
        nid = self.fresh()
        n = rng.choice([0, 1, 2, 2, 3, 3, self.p.max_children])
        kids = []
        for _ in range(n):
            if self.budget <= 0:
                break
            kids.append(self.node(depth + 1))
        if ck == "P":
            return ("P", nid, self.policy(kids), kids)
        return (ck, nid, rng.random() < 0.5, kids)


def gen_tree(rng, prof):
    g = TreeGen(rng, prof)
    kind = prof.root_kind
    if kind is None:
        kind = rng.choice(["comp", "comp", "comp", "dec", "leaf"])
    return g.node(0, kind)


def probes(spec):
    return [n[1] for n in spec_nodes(spec) if n[0] == "L" and n[2][0] == "probe"]


def guards(spec):
    return [int(n[2].split(":")[1]) for n in spec_nodes(spec) if n[0] == "D" and n[2].startswith("guard:")]


def gen_tick(rng, prof, spec, now):
    outs = ",".join("%d:%s" % (i, wchoice(rng, prof.w_outcome)) for i in probes(spec))
    # an EternalGuard condition answers a bool or a Status (only False / FAILURE close the guard)
    gs = ",".join("%d:%s" % (g, rng.choice(["1", "1", "1", "1", "S", "R", "0", "F"])) for g in guards(spec))
    return "tick o=%s g=%s t=%d" % (outs, gs, now)


def gen_ops(rng, prof, spec):
    ops = []
    now = 0
    n = rng.randint(prof.min_ops, prof.max_ops)
    if OBJ_KEY in spec_str(spec) and rng.random() < 0.7:
        # a tree with nested readers / writers of the object key mostly starts with an object to work on
        ops.append("setbb %s %s" % (OBJ_KEY, rng.choice(OBJ_VALS[1:])))
    for _ in range(n):
        r = rng.random()
        if prof.p_setup and len(ops) > 1 and rng.random() < prof.p_setup:
            ops.append("setup")      # setting a tree up again is legal at any time (e.g. after subtree surgery)
        if r < prof.p_stop and len(ops) > 1:
            if rng.random() < prof.p_inner_stop:
                # an external stop(INVALID) on a behaviour inside the tree (any user may call it)
                ops.append("stop %d" % rng.choice([n[1] for n in spec_nodes(spec)]))
            else:
                ops.append("stop %d" % spec[1])
        elif r < prof.p_stop + prof.p_poke:
            x = rng.random()
            if x < 0.55:
                ops.append("setbb %s %s" % (rng.choice(KEYS), rng.choice(VALS)))
            elif x < 0.75:
                ops.append("setbb %s %s" % (OBJ_KEY, rng.choice(OBJ_VALS)))
            else:
                ops.append("unsetbb %s" % rng.choice(KEYS + [OBJ_KEY]))
        else:
            now += rng.choice([0, 1, 1, 2, 3])
            ops.append(gen_tick(rng, prof, spec, now))
    return ops


def gen_scenario(rng, prof, name):
    spec = gen_tree(rng, prof)
    ops = gen_ops(rng, prof, spec)
    return Scenario("bt", name, ["tree " + spec_str(spec)], ops, {"spec": spec})


PROFILES = {
    "core": Profile(),
    "coreprobe": Profile(leaves={"probe": 10}),
    "seq": Profile(w_comp={"Q": 8, "S": 2, "P": 1}, leaves={"probe": 10}),
    "sel": Profile(w_comp={"Q": 2, "S": 8, "P": 1}, leaves={"probe": 10}),
    "par": Profile(w_comp={"Q": 2, "S": 2, "P": 8}, leaves={"probe": 10}, invalid_policy=0.08),
    "dec": Profile(w_node={"leaf": 4, "comp": 2, "dec": 6}, leaves={"probe": 10}),
    "stock": Profile(bb=True, p_poke=0.25, leaves={"probe": 3, "const": 1, "tc": 3, "sq": 3, "sen": 3, "timer": 3},
                     w_node={"leaf": 6, "comp": 4, "dec": 2}),
    "seqsel": Profile(w_comp={"Q": 5, "S": 5}, w_node={"leaf": 5, "comp": 5}, leaves={"probe": 10}),
}
