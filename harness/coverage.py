"""Line coverage of the code anchored by a property while the implementation side runs (sys.monitoring, CPython >= 3.12).
Reported in the evidence so that a generator that stops reaching the mechanism is visible; it never decides a verdict."""
import json
import os
import re
import sys

from common import REPO, VERIF

TOOL = 3  # sys.monitoring tool id


def anchors(pid):
    """[(relative file, first line, last line)] from the property's mechanism anchors"""
    out = []
    for l in open(os.path.join(VERIF, "properties.jsonl")):
        d = json.loads(l)
        if d["id"] != pid:
            continue
        for m in d["anchors"]["mechanism"]:
            for part in m.get("where", "").split(";"):
                mm = re.match(r"\s*(py_trees/\w+\.py):([\d,\-]+)", part.strip())
                if not mm:
                    continue
                for rng in mm.group(2).split(","):
                    a, _, b = rng.partition("-")
                    out.append((mm.group(1), int(a), int(b or a)))
    return out


PINNED = "ed41d01"     # the commit the anchors' line numbers refer to


def functions(src):
    """[(qualname, first line, last line)] of every function / method in a module source"""
    import ast
    out = []

    def walk(node, prefix):
        for ch in ast.iter_child_nodes(node):
            if isinstance(ch, (ast.FunctionDef, ast.AsyncFunctionDef)):
                out.append((prefix + ch.name, ch.lineno, ch.end_lineno))
                walk(ch, prefix + ch.name + ".")
            elif isinstance(ch, ast.ClassDef):
                walk(ch, prefix + ch.name + ".")
    walk(ast.parse(src), "")
    return out


def remap(anch):
    """anchors are line ranges of the pinned commit; translate them to the same functions in the working tree"""
    import subprocess
    out = []
    cache = {}
    for f, a, b in anch:
        try:
            if f not in cache:
                old = subprocess.run(["git", "-C", REPO, "show", "%s:%s" % (PINNED, f)], stdout=subprocess.PIPE,
                                     stderr=subprocess.DEVNULL, timeout=30).stdout.decode()
                cache[f] = (functions(old), functions(open(os.path.join(REPO, f)).read()))
            oldf, newf = cache[f]
            names = [q for q, x, y in oldf if x <= b and y >= a and not any(
                q2.startswith(q + ".") and x2 <= b and y2 >= a for q2, x2, y2 in oldf)]
            cur = {q: (x, y) for q, x, y in newf}
            hit = [(f, cur[q][0], cur[q][1], q) for q in names if q in cur]
            out += hit if hit else [(f, a, b, "%d-%d" % (a, b))]
        except Exception:
            out.append((f, a, b, "%d-%d" % (a, b)))
    return out


def executable_lines(path):
    src = open(path).read()
    code = compile(src, path, "exec")
    lines = set()
    todo = [code]
    while todo:
        c = todo.pop()
        for _, _, ln in c.co_lines():
            if ln:
                lines.add(ln)
        todo += [k for k in c.co_consts if hasattr(k, "co_lines")]
    # docstring-only and def lines count as executable in co_lines; keep it simple
    return lines


class Coverage(object):
    def __init__(self, pid):
        self.anch = remap(anchors(pid))
        self.files = {os.path.realpath(os.path.join(REPO, f)): f for f, _, _, _ in self.anch}
        self.hit = {f: set() for f in self.files.values()}
        self.on = False

    def start(self):
        if not self.anch or not hasattr(sys, "monitoring"):
            return
        mon = sys.monitoring
        try:
            mon.use_tool_id(TOOL, "verif-coverage")
        except ValueError:
            return
        files, hit = self.files, self.hit

        def line(code, ln):
            f = files.get(code.co_filename)
            if f is None:
                f = files.get(os.path.realpath(code.co_filename))
                if f is None:
                    return mon.DISABLE
            hit[f].add(ln)
            return mon.DISABLE      # each line is reported once

        mon.register_callback(TOOL, mon.events.LINE, line)
        mon.set_events(TOOL, mon.events.LINE)
        self.on = True

    def stop(self):
        if not self.on:
            return
        mon = sys.monitoring
        mon.set_events(TOOL, 0)
        mon.register_callback(TOOL, mon.events.LINE, None)
        mon.free_tool_id(TOOL)
        self.on = False

    def report(self):
        out = []
        seen = set()
        for f, a, b, q in self.anch:
            if (f, q) in seen:
                continue
            seen.add((f, q))
            ex = [x for x in executable_lines(os.path.join(REPO, f)) if a < x <= b]     # the def line itself excluded
            got = [x for x in ex if x in self.hit[f]]
            out.append({"where": "%s::%s (%d-%d)" % (f, q, a, b), "executable_lines": len(ex), "executed": len(got),
                        "missed": sorted(set(ex) - set(got))[:12]})
        return out
