"""A small Python -> Lean 4 translator for the pure / state-machine fragments of py_trees.

Second tie between model and code (next to the correspondence run): on every run the functions listed in TARGETS are read
from $VERIF_REPO's *current* source, translated to Lean definitions (lean/PyTreesGen/<Cxx>.lean) and the bridge theorems of
lean/PyTreesProofs/Props/<Cxx>g.lean (`Cxx_gen_*`: generated definition = the hand-written model's definition, for all
arguments) are re-checked by the kernel against what the code says now.  A change to such a function that alters what it
computes makes the bridge theorem fail (a proof obligation breaks); a rewrite the translator cannot read makes the
translation fail, which is reported the same way (the obligation is no longer shown).

Supported fragment (anything else raises Unsupported):
  statements   if / elif / else, assignment to a local or parameter, assignment and += / -= to self.<field>,
               return <expr>, raise KeyError(...), pass, docstrings, calls on self.logger, assignments to
               self.feedback_message (ignored: no property speaks about it), self.decorated.stop(INVALID) (an
               extra Bool result "cancels its child")
  expressions  int / str constants, names, self.<field>, self.decorated.status (parameter `child`),
               common.Status.X, Blackboard.separator (read from the class body), time.monotonic() / time.time()
               (parameter `now`; floats are integers as in the model), == != < <= > >=, and / or / not,
               + (int or str), - , % (Python floor modulus), x.startswith(y), x.endswith(y), x.strip(y), len(x),
               x[e:], "..{}..".format(...), conditional expressions
Translation: straight-line SSA by continuation; a method becomes a function of (fields read, child status, arguments)
returning (fields written (as a tuple in alphabetical order), result); `raise` turns the result type into
`Except PyErr _`.  Python semantics of the string / integer primitives live in PyTreesGen/Prelude.lean (trusted, small).
"""
import ast
import os

IGNORED_FIELDS = {"feedback_message"}
STATUS = {"SUCCESS": "Status.success", "FAILURE": "Status.failure", "RUNNING": "Status.running",
          "INVALID": "Status.invalid"}


class Unsupported(Exception):
    pass


# what to translate, per property: (file, class, function, lean name)
TARGETS = {
    "C09": [("py_trees/decorators.py", c, "update", c + "_update") for c in (
        "Inverter", "RunningIsFailure", "RunningIsSuccess", "FailureIsSuccess", "FailureIsRunning", "SuccessIsFailure",
        "SuccessIsRunning", "PassThrough", "Condition", "StatusToBlackboard")] + [
        ("py_trees/decorators.py", "Count", f, "Count_" + f) for f in ("update", "terminate", "setup")],
    "C10": [("py_trees/decorators.py", "Retry", "update", "Retry_update"),
            ("py_trees/decorators.py", "Retry", "initialise", "Retry_initialise"),
            ("py_trees/decorators.py", "Repeat", "update", "Repeat_update"),
            ("py_trees/decorators.py", "Repeat", "initialise", "Repeat_initialise"),
            ("py_trees/decorators.py", "Timeout", "update", "Timeout_update"),
            ("py_trees/decorators.py", "Timeout", "initialise", "Timeout_initialise"),
            ("py_trees/decorators.py", "EternalGuard", "update", "EternalGuard_update"),
            ("py_trees/decorators.py", "OneShot", "update", "OneShot_update"),
            ("py_trees/decorators.py", "OneShot", "terminate", "OneShot_terminate"),
            ("py_trees/common.py", "OneShotPolicy", "<enum>", "OneShotPolicy")],
    "C15": [("py_trees/blackboard.py", "Blackboard", "absolute_name", "absolute_name"),
            ("py_trees/blackboard.py", "Blackboard", "relative_name", "relative_name")],
    "C17": [("py_trees/behaviours.py", "SuccessEveryN", "update", "SuccessEveryN_update"),
            ("py_trees/behaviours.py", "TickCounter", "update", "TickCounter_update"),
            ("py_trees/behaviours.py", "TickCounter", "initialise", "TickCounter_initialise"),
            ("py_trees/timers.py", "Timer", "update", "Timer_update"),
            ("py_trees/timers.py", "Timer", "initialise", "Timer_initialise"),
            # the name -> (key, attribute path) helpers the blackboard-checking behaviours and the idioms register with
            ("py_trees/blackboard.py", "Blackboard", "key", "Blackboard_key"),
            ("py_trees/blackboard.py", "Blackboard", "key_with_attributes", "Blackboard_key_with_attributes")],
    # the four tip() methods (TipFn below): a behaviour is its id, "a behaviour or None" is Option Nat, what the
    # recursive calls on the current / decorated child / root return is a parameter
    "C19": [("py_trees/behaviour.py", "Behaviour", "tip", "Behaviour_tip"),
            ("py_trees/composites.py", "Composite", "tip", "Composite_tip"),
            ("py_trees/decorators.py", "Decorator", "tip", "Decorator_tip"),
            ("py_trees/trees.py", "BehaviourTree", "tip", "BehaviourTree_tip")],
}

# generated definition -> the bridge theorem that relates it to the model (Props/<Cxx>g.lean)
BRIDGE = {
    "Inverter_update": "C09_gen_inverter", "RunningIsFailure_update": "C09_gen_runningIsFailure",
    "RunningIsSuccess_update": "C09_gen_runningIsSuccess", "FailureIsSuccess_update": "C09_gen_failureIsSuccess",
    "FailureIsRunning_update": "C09_gen_failureIsRunning", "SuccessIsFailure_update": "C09_gen_successIsFailure",
    "SuccessIsRunning_update": "C09_gen_successIsRunning", "PassThrough_update": "C09_gen_passThrough",
    "Condition_update": "C09_gen_condition", "StatusToBlackboard_update": "C09_gen_statusToBlackboard", "Count_update": "C09_gen_count_update",
    "Count_terminate": "C09_gen_count_terminate", "Count_setup": "C09_gen_count_setup",
    "Retry_update": "C10_gen_retry_update", "Retry_initialise": "C10_gen_retry_initialise",
    "Repeat_update": "C10_gen_repeat_update", "Repeat_initialise": "C10_gen_repeat_initialise",
    "absolute_name": "C15_gen_absolute_name", "relative_name": "C15_gen_relative_name",
    "SuccessEveryN_update": "C17_gen_everyN", "TickCounter_update": "C17_gen_tickcounter_update",
    "TickCounter_initialise": "C17_gen_tickcounter_initialise",
    "Timeout_update": "C10_gen_timeout_update", "Timeout_initialise": "C10_gen_timeout_initialise",
    "EternalGuard_update": "C10_gen_guard_update", "OneShot_update": "C10_gen_oneshot_update", "OneShot_terminate": "C10_gen_oneshot_terminate",
    "OneShotPolicy": "C10_gen_oneshot_terminate",
    "Timer_update": "C17_gen_timer_update", "Timer_initialise": "C17_gen_timer_initialise",
    "Blackboard_key": "C17_gen_blackboard_key",
    "Blackboard_key_with_attributes": "C17_gen_blackboard_key_with_attributes",
    "Behaviour_tip": "C19_gen_behaviour_tip", "Composite_tip": "C19_gen_composite_tip_seq",
    "Decorator_tip": "C19_gen_decorator_tip", "BehaviourTree_tip": "C19_gen_tree_tip",
}

LEAN_TYPE = {"Int": "Int", "Str": "List Char", "Status": "Status", "Bool": "Bool", "Ref": "Option Nat",
             "StrList": "List (List Char)", "StrPair": "List Char × List Char", "OptStatus": "Option Status",
             "StatusList": "List Status"}


def find_class(tree, name):
    for n in tree.body:
        if isinstance(n, ast.ClassDef) and n.name == name:
            return n
    raise Unsupported("class %s not found" % name)


def find_func(cls, name):
    for n in cls.body:
        if isinstance(n, ast.FunctionDef) and n.name == name:
            return n
    raise Unsupported("function %s.%s not found" % (cls.name, name))


def ann_type(a):
    if a is None:
        return None
    s = ast.unparse(a)
    # durations / clock readings are floats in the code and integers in the model (integer clock, DESIGN §3)
    return {"int": "Int", "float": "Int", "str": "Str", "bool": "Bool", "common.Status": "Status",
            "common.OneShotPolicy": "OneShotPolicy",
            "typing.Tuple[str, str]": "StrPair", "Tuple[str, str]": "StrPair", "tuple[str, str]": "StrPair"}.get(s)


def is_status_const(e):
    return (isinstance(e, ast.Attribute) and e.attr in STATUS and isinstance(e.value, ast.Attribute)
            and e.value.attr == "Status")


def field_types(cls):
    """types of self.<field> from the assignments of __init__ (constants and annotated parameters)"""
    out = {}
    try:
        init = find_func(cls, "__init__")
    except Unsupported:
        return out
    params = {a.arg: ann_type(a.annotation) for a in init.args.args}
    for st in ast.walk(init):
        if isinstance(st, ast.AnnAssign) and st.value is not None:
            t = st.target
            if isinstance(t, ast.Attribute) and isinstance(t.value, ast.Name) and t.value.id == "self" \
                    and ast.unparse(st.annotation) in ("typing.Optional[common.Status]", "Optional[common.Status]") \
                    and isinstance(st.value, ast.Constant) and st.value.value is None:
                out[t.attr] = "OptStatus"
                continue
            st = ast.Assign(targets=[st.target], value=st.value)
        if isinstance(st, ast.Assign) and len(st.targets) == 1:
            t = st.targets[0]
            if isinstance(t, ast.Attribute) and isinstance(t.value, ast.Name) and t.value.id == "self":
                v = st.value
                if isinstance(v, ast.Constant) and isinstance(v.value, bool):
                    out[t.attr] = "Bool"
                elif isinstance(v, ast.Constant) and isinstance(v.value, (int, float)):
                    out[t.attr] = "Int"
                elif isinstance(v, ast.Constant) and isinstance(v.value, str):
                    out[t.attr] = "Str"
                elif isinstance(v, ast.Name) and params.get(v.id):
                    out[t.attr] = params[v.id]
                elif is_status_const(v):
                    out[t.attr] = "Status"
    return out


def class_constants(cls):
    out = {}
    for st in cls.body:
        if isinstance(st, ast.Assign) and len(st.targets) == 1 and isinstance(st.targets[0], ast.Name) \
                and isinstance(st.value, ast.Constant) and isinstance(st.value.value, str):
            out[st.targets[0].id] = st.value.value
        if isinstance(st, ast.AnnAssign) and isinstance(st.target, ast.Name) \
                and isinstance(st.value, ast.Constant) and isinstance(st.value.value, str):
            out[st.target.id] = st.value.value
    return out


def char_list(s):
    def ch(c):
        if c == "'":
            return "'\\''"
        if c == "\\":
            return "'\\\\'"
        if c == "\n":
            return "'\\n'"
        return "'%s'" % c
    return "[" + ", ".join(ch(c) for c in s) + "]" if s else "([] : List Char)"


class Fn(object):
    def __init__(self, cls, fn, consts_of):
        self.cls, self.fn = cls, fn
        self.ftypes = field_types(cls)
        self.consts_of = consts_of           # class name -> {const: str}
        self.reads = []                      # fields read before being written (parameters)
        self.writes = []                     # fields written
        self.uses_child = False
        self.raises = False
        self.params = []
        deco = [ast.unparse(d) for d in fn.decorator_list]
        args = fn.args.args
        if "staticmethod" not in deco:
            args = args[1:]
        for a in args:
            t = ann_type(a.annotation)
            if t is None:
                raise Unsupported("parameter %s of %s has no supported annotation" % (a.arg, fn.name))
            self.params.append((a.arg, t))
        self.counter = 0
        self.prescan()

    def prescan(self):
        for n in ast.walk(self.fn):
            if isinstance(n, ast.Raise):
                self.raises = True
            if isinstance(n, (ast.Assign, ast.AugAssign)):
                ts = n.targets if isinstance(n, ast.Assign) else [n.target]
                for t in ts:
                    if isinstance(t, ast.Attribute) and isinstance(t.value, ast.Name) and t.value.id == "self" \
                            and t.attr not in IGNORED_FIELDS and t.attr not in self.writes:
                        self.writes.append(t.attr)
        self.writes.sort()
        self.cancels = any(isinstance(n, ast.Call) and ast.unparse(n.func) == "self.decorated.stop"
                           for n in ast.walk(self.fn))
        # self.blackboard.set(name=self.variable_name, value=<status>, overwrite=True): the value published under the
        # decorator's own variable is an extra result (Option Status: none = nothing published on this path)
        self.publishes = any(isinstance(n, ast.Call) and ast.unparse(n.func) == "self.blackboard.set"
                             for n in ast.walk(self.fn))
        self.uses_now = False
        self.has_value = any(isinstance(n, ast.Return) and n.value is not None for n in ast.walk(self.fn))

    # -- expressions ---------------------------------------------------------------------------
    def fresh(self, base):
        self.counter += 1
        return "%s_%d" % (base, self.counter)

    def field(self, env, name):
        key = "self." + name
        if key not in env:
            if name not in self.ftypes:
                raise Unsupported("type of self.%s unknown" % name)
            if name not in self.reads:
                self.reads.append(name)
            env[key] = ("f_" + name, self.ftypes[name])
        return env[key]

    def truth(self, e, env):
        """an expression in a boolean position: a Bool, or an Optional[Status] (None is falsy, every member of the
        Status enum is truthy)"""
        a, t = self.expr(e, env)
        if t == "OptStatus":
            return "(%s).isSome" % a, "Bool"
        return a, t

    def expr(self, e, env):
        if isinstance(e, ast.Constant):
            if isinstance(e.value, bool):
                return ("true" if e.value else "false"), "Bool"
            if isinstance(e.value, int):
                return "(%d : Int)" % e.value, "Int"
            if isinstance(e.value, float) and e.value == int(e.value):
                return "(%d : Int)" % int(e.value), "Int"
            if isinstance(e.value, str):
                return char_list(e.value), "Str"
            raise Unsupported("constant %r" % (e.value,))
        if isinstance(e, ast.Name):
            if e.id in env:
                if env[e.id][1] in ("Opaque", "ChildRef", "Cur", "Root"):
                    raise Unsupported("use of the opaque value " + e.id)
                return env[e.id]
            raise Unsupported("name %s" % e.id)
        if isinstance(e, ast.Attribute) and e.attr == "value" and ast.unparse(e.value) == "self.policy" \
                and self.ftypes.get("policy") == "OneShotPolicy":
            if "policy_value" not in self.reads:
                self.reads.append("policy_value")
            self.ftypes["policy_value"] = "StatusList"
            return "f_policy_value", "StatusList"
        if isinstance(e, ast.Attribute):
            if is_status_const(e):
                return STATUS[e.attr], "Status"
            if isinstance(e.value, ast.Name) and e.value.id == "self" and ("!refined:self." + e.attr) in env:
                return env["!refined:self." + e.attr]
            if isinstance(e.value, ast.Name) and e.value.id == "self" and e.attr != "decorated":
                return self.field(env, e.attr)
            if e.attr == "status" and ast.unparse(e.value) == "self.decorated":
                self.uses_child = True
                return "child", "Status"
            if e.attr == "status" and isinstance(e.value, ast.Name) and env.get(e.value.id, (None, None))[1] == "ChildRef":
                self.uses_child = True
                return "child", "Status"
            if e.attr == "decorated" and isinstance(e.value, ast.Name) and e.value.id == "self":
                return None, "ChildRef"      # a local alias of the decorated child (only its .status can be read)
            if isinstance(e.value, ast.Name) and e.value.id in self.consts_of \
                    and e.attr in self.consts_of[e.value.id]:
                return char_list(self.consts_of[e.value.id][e.attr]), "Str"
            raise Unsupported("attribute " + ast.unparse(e))
        if isinstance(e, ast.Compare) and len(e.ops) == 1 and isinstance(e.ops[0], (ast.Is, ast.IsNot)) \
                and isinstance(e.comparators[0], ast.Constant) and e.comparators[0].value is None \
                and type(self) is Fn:
            a, ta = self.expr(e.left, env)
            if ta != "OptStatus":
                raise Unsupported("`is None` on " + ta)
            return ("(%s).isNone" if isinstance(e.ops[0], ast.Is) else "(%s).isSome") % a, "Bool"
        if isinstance(e, ast.Compare) and len(e.ops) == 1 and isinstance(e.ops[0], (ast.In, ast.NotIn)):
            a, ta = self.expr(e.left, env)
            b, tb = self.expr(e.comparators[0], env)
            if ta != "Status" or tb != "StatusList":
                raise Unsupported("membership of %s in %s" % (ta, tb))
            r = "(%s.contains %s)" % (b, a)
            return (r if isinstance(e.ops[0], ast.In) else "(!%s)" % r), "Bool"
        if isinstance(e, ast.Compare) and len(e.ops) == 1:
            a, ta = self.expr(e.left, env)
            b, tb = self.expr(e.comparators[0], env)
            if ta != tb:
                raise Unsupported("comparison of %s with %s" % (ta, tb))
            op = e.ops[0]
            if isinstance(op, ast.Eq):
                return "decide (%s = %s)" % (a, b), "Bool"
            if isinstance(op, ast.NotEq):
                return "decide (%s ≠ %s)" % (a, b), "Bool"
            if ta != "Int":
                raise Unsupported("ordering on " + ta)
            sym = {ast.Lt: "<", ast.LtE: "≤", ast.Gt: ">", ast.GtE: "≥"}.get(type(op))
            if sym is None:
                raise Unsupported("operator " + ast.dump(op))
            return "decide (%s %s %s)" % (a, sym, b), "Bool"
        if isinstance(e, ast.BoolOp):
            parts = [self.truth(v, env) for v in e.values]
            if any(t != "Bool" for _, t in parts):
                raise Unsupported("truthiness of a non-bool")
            j = " && " if isinstance(e.op, ast.And) else " || "
            return "(" + j.join(p for p, _ in parts) + ")", "Bool"
        if isinstance(e, ast.UnaryOp) and isinstance(e.op, ast.Not):
            a, t = self.truth(e.operand, env)
            if t != "Bool":
                raise Unsupported("truthiness of a non-bool")
            return "(!%s)" % a, "Bool"
        if isinstance(e, ast.UnaryOp) and isinstance(e.op, ast.USub):
            a, t = self.expr(e.operand, env)
            if t != "Int":
                raise Unsupported("negation of " + t)
            return "(-%s)" % a, "Int"
        if isinstance(e, ast.BinOp):
            a, ta = self.expr(e.left, env)
            b, tb = self.expr(e.right, env)
            if ta != tb:
                raise Unsupported("binary operator on %s and %s" % (ta, tb))
            if isinstance(e.op, ast.Add):
                if ta == "Int":
                    return "(%s + %s)" % (a, b), "Int"
                if ta == "Str":
                    return "(%s ++ %s)" % (a, b), "Str"
            if ta == "Int" and isinstance(e.op, ast.Sub):
                return "(%s - %s)" % (a, b), "Int"
            if ta == "Int" and isinstance(e.op, ast.Mult):
                return "(%s * %s)" % (a, b), "Int"
            if ta == "Int" and isinstance(e.op, ast.Mod):
                self.partial_mod = True
                return "(Py.mod %s %s)" % (a, b), "Int"
            raise Unsupported("operator " + ast.dump(e.op))
        if isinstance(e, ast.IfExp):
            c, tc = self.expr(e.test, env)
            a, ta = self.expr(e.body, env)
            b, tb = self.expr(e.orelse, env)
            if tc != "Bool" or ta != tb:
                raise Unsupported("conditional expression")
            return "(if %s then %s else %s)" % (c, a, b), ta
        if isinstance(e, ast.Call):
            f = e.func
            if ast.unparse(f) in ("time.monotonic", "time.time") and not e.args and not e.keywords:
                self.uses_now = True          # the clock reading is a parameter (constant during one callback)
                return "now", "Int"
            if isinstance(f, ast.Name) and f.id == "len" and len(e.args) == 1:
                a, t = self.expr(e.args[0], env)
                if t != "Str":
                    raise Unsupported("len of " + t)
                return "(%s.length : Int)" % a, "Int"
            if isinstance(f, ast.Attribute) and f.attr in ("startswith", "endswith", "strip") and len(e.args) == 1 \
                    and not e.keywords:
                a, ta = self.expr(f.value, env)
                b, tb = self.expr(e.args[0], env)
                if ta != "Str" or tb != "Str":
                    raise Unsupported("string method on non-strings")
                if f.attr == "strip":
                    return "(Py.strip %s %s)" % (a, b), "Str"
                return "(Py.%s %s %s)" % (f.attr, a, b), "Bool"
            if isinstance(f, ast.Attribute) and f.attr == "split" and len(e.args) == 1 and not e.keywords \
                    and isinstance(e.args[0], ast.Constant) and isinstance(e.args[0].value, str) \
                    and len(e.args[0].value) == 1 and e.args[0].value not in "'\\":
                a, ta = self.expr(f.value, env)
                if ta != "Str":
                    raise Unsupported("split on " + ta)
                return "(Py.split1 %s '%s')" % (a, e.args[0].value), "StrList"
            if isinstance(f, ast.Attribute) and f.attr == "join" and len(e.args) == 1 and not e.keywords:
                a, ta = self.expr(f.value, env)
                b, tb = self.expr(e.args[0], env)
                if ta != "Str" or tb != "StrList":
                    raise Unsupported("join of %s on %s" % (tb, ta))
                return "(Py.join %s %s)" % (a, b), "Str"
            if isinstance(f, ast.Attribute) and f.attr == "format" and isinstance(f.value, ast.Constant) \
                    and isinstance(f.value.value, str) and not e.keywords:
                pieces = f.value.value.split("{}")
                if len(pieces) != len(e.args) + 1 or "{" in "".join(pieces) or "}" in "".join(pieces):
                    raise Unsupported("format string " + repr(f.value.value))
                out = []
                for i, p in enumerate(pieces):
                    if p:
                        out.append(char_list(p))
                    if i < len(e.args):
                        a, t = self.expr(e.args[i], env)
                        if t != "Str":
                            raise Unsupported("format argument of type " + t)
                        out.append(a)
                return "(" + " ++ ".join(out or ["([] : List Char)"]) + ")", "Str"
            raise Unsupported("call " + ast.unparse(e))
        if isinstance(e, ast.Subscript) and isinstance(e.slice, ast.Constant) and e.slice.value == 0:
            a, ta = self.expr(e.value, env)
            if ta != "StrList":
                raise Unsupported("indexing of " + ta)
            return "(Py.item0 %s)" % a, "Str"
        if isinstance(e, ast.Tuple) and len(e.elts) == 2:
            a, ta = self.expr(e.elts[0], env)
            b, tb = self.expr(e.elts[1], env)
            if ta != "Str" or tb != "Str":
                raise Unsupported("tuple of %s and %s" % (ta, tb))
            return "(%s, %s)" % (a, b), "StrPair"
        if isinstance(e, ast.Subscript) and isinstance(e.slice, ast.Slice) and e.slice.upper is None \
                and e.slice.step is None and isinstance(e.slice.lower, ast.Constant) \
                and isinstance(e.slice.lower.value, int) and e.slice.lower.value >= 0 \
                and self.expr(e.value, env)[1] == "StrList":
            return "(Py.dropL %s %d)" % (self.expr(e.value, env)[0], e.slice.lower.value), "StrList"
        if isinstance(e, ast.Subscript) and isinstance(e.slice, ast.Slice) and e.slice.upper is None \
                and e.slice.step is None and e.slice.lower is not None:
            a, ta = self.expr(e.value, env)
            b, tb = self.expr(e.slice.lower, env)
            if ta != "Str" or tb != "Int":
                raise Unsupported("slice")
            return "(Py.sliceFrom %s %s)" % (a, b), "Str"
        if isinstance(e, ast.JoinedStr):
            # an f-string whose pieces are all strings without conversions is a concatenation; any other f-string
            # is opaque (it only ever flows into the ignored feedback message, any other use is rejected)
            try:
                out = []
                for v in e.values:
                    if isinstance(v, ast.Constant) and isinstance(v.value, str):
                        if v.value:
                            out.append(char_list(v.value))
                    elif isinstance(v, ast.FormattedValue) and v.conversion == -1 and v.format_spec is None:
                        a, t = self.expr(v.value, env)
                        if t != "Str":
                            return None, "Opaque"
                        out.append(a)
                    else:
                        return None, "Opaque"
                return "(" + " ++ ".join(out or ["([] : List Char)"]) + ")", "Str"
            except Unsupported:
                return None, "Opaque"
        raise Unsupported("expression " + ast.unparse(e))

    # -- statements ----------------------------------------------------------------------------
    def result(self, env, value):
        parts = []
        for w in self.writes:
            parts.append(self.field(env, w)[0])
        if self.has_value:
            if value is None:
                raise Unsupported("a path returns no value")
            parts.append(value)
        if self.cancels:
            parts.append(env.get("!cancel", ("false", "Bool"))[0])
        if self.publishes:
            parts.append(env.get("!publish", ("none", "OptStatus"))[0])
        r = "(" + ", ".join(parts) + ")" if len(parts) != 1 else parts[0]
        if not parts:
            r = "()"
        return "(.ok %s)" % r if self.raises else r

    def block(self, stmts, env, ind):
        pad = "  " * ind
        if not stmts:
            if self.has_value:
                raise Unsupported("control reaches the end of a function that returns a value")
            return pad + self.result(env, None)
        st, rest = stmts[0], stmts[1:]
        if isinstance(st, ast.Expr):
            v = st.value
            if isinstance(v, ast.Constant) and isinstance(v.value, str):
                return self.block(rest, env, ind)
            if isinstance(v, ast.Call) and ast.unparse(v.func).startswith("self.logger."):
                return self.block(rest, env, ind)
            if isinstance(v, ast.Call) and ast.unparse(v.func) == "self.decorated.stop" and len(v.args) == 1 \
                    and is_status_const(v.args[0]) and v.args[0].attr == "INVALID":
                env = dict(env)
                env["!cancel"] = ("true", "Bool")          # the callback cancels its child
                return self.block(rest, env, ind)
            if isinstance(v, ast.Call) and ast.unparse(v.func) == "self.blackboard.set":
                kw = {k.arg: k.value for k in v.keywords}
                args = list(v.args)
                name = kw.get("name", args[0] if args else None)
                value = kw.get("value", args[1] if len(args) > 1 else None)
                over = kw.get("overwrite", args[2] if len(args) > 2 else None)
                if name is None or ast.unparse(name) != "self.variable_name" or value is None \
                        or not (isinstance(over, ast.Constant) and over.value is True) or "!publish" in env:
                    raise Unsupported("blackboard write " + ast.unparse(v))
                val, tv = self.expr(value, env)
                if tv != "Status":
                    raise Unsupported("published value of type " + tv)
                env = dict(env)
                env["!publish"] = ("(some %s)" % val, "OptStatus")
                return self.block(rest, env, ind)
            raise Unsupported("statement " + ast.unparse(st))
        if isinstance(st, ast.Pass):
            return self.block(rest, env, ind)
        if isinstance(st, ast.Return):
            if st.value is None:
                return pad + self.result(env, None)
            v, tv = self.expr(st.value, env)
            want = ann_type(self.fn.returns)
            if want is not None and tv != want:
                raise Unsupported("a path returns a %s where the function returns %s" % (tv, want))
            return pad + self.result(env, v)
        if isinstance(st, ast.Raise):
            exc = st.exc
            name = exc.func.id if isinstance(exc, ast.Call) and isinstance(exc.func, ast.Name) else None
            if name != "KeyError":
                raise Unsupported("raise " + ast.unparse(st))
            return pad + "(.error PyErr.keyError)"
        if isinstance(st, (ast.Assign, ast.AugAssign)):
            if isinstance(st, ast.Assign):
                if len(st.targets) != 1:
                    raise Unsupported("multiple assignment")
                tgt, val = st.targets[0], st.value
            else:
                tgt = st.target
                val = ast.BinOp(left=tgt, op=st.op, right=st.value)
            if isinstance(tgt, ast.Attribute) and isinstance(tgt.value, ast.Name) and tgt.value.id == "self":
                if tgt.attr in IGNORED_FIELDS:
                    return self.block(rest, env, ind)
                v, t = self.expr(val, env)
                want = self.ftypes.get(tgt.attr)
                if want == "OptStatus" and t == "Status":
                    v, t = "(some %s)" % v, "OptStatus"
                if want != t:
                    raise Unsupported("self.%s : %s assigned a %s" % (tgt.attr, want, t))
                n = self.fresh("f_" + tgt.attr)
                env = dict(env)
                env.pop("!refined:self." + tgt.attr, None)
                env["self." + tgt.attr] = (n, t)
                return "%slet %s : %s := %s\n%s" % (pad, n, LEAN_TYPE[t], v, self.block(rest, env, ind))
            if isinstance(tgt, ast.Name):
                v, t = self.expr(val, env)
                if t in ("Opaque", "ChildRef", "Cur", "Root"):
                    env = dict(env)
                    env[tgt.id] = (None, t)     # Opaque: any later use in a translated expression is a type error
                    return self.block(rest, env, ind)
                n = self.fresh("v_" + tgt.id)
                env = dict(env)
                env[tgt.id] = (n, t)
                return "%slet %s : %s := %s\n%s" % (pad, n, LEAN_TYPE[t], v, self.block(rest, env, ind))
            raise Unsupported("assignment target " + ast.unparse(tgt))
        opt_test, negated = st.test if isinstance(st, ast.If) else None, False
        if isinstance(opt_test, ast.UnaryOp) and isinstance(opt_test.op, ast.Not):
            opt_test, negated = opt_test.operand, True
        if isinstance(opt_test, ast.Compare) and len(opt_test.ops) == 1 and isinstance(opt_test.ops[0], (ast.Is, ast.IsNot)) \
                and isinstance(opt_test.comparators[0], ast.Constant) and opt_test.comparators[0].value is None:
            negated = negated != isinstance(opt_test.ops[0], ast.Is)
            opt_test = opt_test.left
        if isinstance(st, ast.If) and isinstance(opt_test, ast.Attribute) and isinstance(opt_test.value, ast.Name) \
                and opt_test.value.id == "self" and self.ftypes.get(opt_test.attr) == "OptStatus" \
                and ("!refined:self." + opt_test.attr) not in env:
            # `if self.f:` / `if not self.f:` / `is [not] None` on an Optional[Status]: where it holds a value the field
            # is that Status
            cur, _ = self.field(env, opt_test.attr)
            v = self.fresh("v_" + opt_test.attr)
            env_t = dict(env)
            env_t["self." + opt_test.attr] = ("(some %s)" % v, "OptStatus")
            env_t["!refined:self." + opt_test.attr] = (v, "Status")
            some_body, none_body = (st.orelse, st.body) if negated else (st.body, st.orelse)
            a = self.block(list(some_body) + rest, env_t, ind + 2)
            b = self.block(list(none_body) + rest, dict(env), ind + 2)
            return "%smatch %s with\n%s| some %s =>\n%s\n%s| none =>\n%s" % (pad, cur, pad, v, a, pad, b)
        if isinstance(st, ast.If):
            c, tc = self.truth(st.test, env)
            if tc != "Bool":
                raise Unsupported("truthiness of a non-bool in `if`")
            a = self.block(list(st.body) + rest, dict(env), ind + 1)
            b = self.block(list(st.orelse) + rest, dict(env), ind + 1)
            return "%sif %s then\n%s\n%selse\n%s" % (pad, c, a, pad, b)
        raise Unsupported("statement " + type(st).__name__)

    def translate(self, lean_name):
        env = {}
        for p, t in self.params:
            env[p] = ("a_" + p, t)
        # a first pass discovers the fields read (parameters) — the body is generated twice so that the
        # parameter list is complete before the text is emitted
        self.counter = 0
        self.block(list(self.fn.body), dict(env), 1)
        self.counter = 0
        body = self.block(list(self.fn.body), dict(env), 1)
        for w in self.writes:
            if w not in self.reads and "self." + w not in env:
                pass
        binders = []
        for f in sorted(set(self.reads)):
            binders.append("(f_%s : %s)" % (f, LEAN_TYPE[self.ftypes[f]]))
        if self.uses_child:
            binders.append("(child : Status)")
        if self.uses_now:
            binders.append("(now : Int)")
        for p, t in self.params:
            binders.append("(a_%s : %s)" % (p, LEAN_TYPE[t]))
        outs = [LEAN_TYPE[self.ftypes[w]] for w in self.writes]
        if self.has_value:
            outs.append(self.ret_type())
        if self.cancels:
            outs.append("Bool")
        if self.publishes:
            outs.append("Option Status")
        ty = " × ".join(outs) if outs else "Unit"
        if self.raises:
            ty = "Except PyErr (%s)" % ty
        return "def %s %s : %s :=\n%s\n" % (lean_name, " ".join(binders), ty, body)

    def ret_type(self):
        r = ann_type(self.fn.returns)
        if r is None:
            raise Unsupported("return annotation " + (ast.unparse(self.fn.returns) if self.fn.returns else "missing"))
        return LEAN_TYPE[r]


class TipFn(Fn):
    """The tip() methods (C19).  A behaviour is its id (`self : Nat`), "a behaviour or None" is `Option Nat`; the object
    graph is not translated: what `tip()` of the current child / the decorated child / the root returns, and whether
    there is a current child, are parameters, so that the generated definitions are exactly one level of the model's
    recursion.  Binders are fixed per kind (used or not) so that the bridge theorems keep their statements.
      self -> some self; None -> none; self.status -> status; self.current_child is [not] None -> curNone;
      self.current_child.tip() -> curTip; self.decorated.status -> child; self.decorated.tip() -> childTip;
      self.root.tip() -> rootTip; super().tip() -> Behaviour_tip self status (the class must derive from Behaviour)"""
    BINDERS = {
        "Behaviour": "(self : Nat) (status : Status)",
        "Composite": "(self : Nat) (status : Status) (curNone : Bool) (curTip : Option Nat)",
        "Decorator": "(self : Nat) (status : Status) (child : Status) (childTip : Option Nat)",
        "BehaviourTree": "(rootTip : Option Nat)",
    }

    def __init__(self, cls, fn, consts_of):
        Fn.__init__(self, cls, fn, consts_of)
        self.kind = cls.name
        if self.kind not in self.BINDERS:
            raise Unsupported("tip() of class " + cls.name)
        if self.params or self.writes or self.raises:
            raise Unsupported("tip() with arguments, assignments to self or raise")
        bases = [ast.unparse(b) for b in cls.bases]
        self.super_is_behaviour = bool(bases) and bases[0] in ("behaviour.Behaviour", "Behaviour")

    def ref_kind(self, e, env):
        """which object an expression denotes: 'self' | 'Cur' | 'ChildRef' | 'Root' | None"""
        if isinstance(e, ast.Name):
            if e.id == "self":
                return "self"
            return env.get(e.id, (None, None))[1] if env.get(e.id, (None, None))[1] in ("Cur", "ChildRef", "Root") else None
        if isinstance(e, ast.Attribute) and isinstance(e.value, ast.Name) and e.value.id == "self":
            return {("Composite", "current_child"): "Cur", ("Decorator", "decorated"): "ChildRef",
                    ("BehaviourTree", "root"): "Root"}.get((self.kind, e.attr))
        return None

    def expr(self, e, env):
        if isinstance(e, ast.Constant) and e.value is None:
            return "none", "Ref"
        rk = self.ref_kind(e, env)
        if rk == "self":
            if self.kind == "BehaviourTree":
                raise Unsupported("the tree itself is not a behaviour")
            return "(some self)", "Ref"
        if rk is not None:
            return None, rk
        if isinstance(e, ast.Attribute) and e.attr == "status":
            k = self.ref_kind(e.value, env)
            if k == "self" and self.kind != "BehaviourTree":
                return "status", "Status"
            if k == "ChildRef":
                return "child", "Status"
            raise Unsupported("attribute " + ast.unparse(e))
        if isinstance(e, ast.Compare) and len(e.ops) == 1 and isinstance(e.ops[0], (ast.Is, ast.IsNot)) \
                and isinstance(e.comparators[0], ast.Constant) and e.comparators[0].value is None:
            if self.ref_kind(e.left, env) != "Cur":
                raise Unsupported("`is None` on " + ast.unparse(e.left))
            return ("curNone" if isinstance(e.ops[0], ast.Is) else "(!curNone)"), "Bool"
        if isinstance(e, ast.Call) and not e.args and not e.keywords and isinstance(e.func, ast.Attribute) \
                and e.func.attr == "tip":
            tgt = e.func.value
            if isinstance(tgt, ast.Call) and ast.unparse(tgt.func) == "super" \
                    and ast.unparse(tgt) in ("super()", "super(%s, self)" % self.kind):
                if self.kind not in ("Composite", "Decorator") or not self.super_is_behaviour:
                    raise Unsupported("super().tip() in a class whose first base is not Behaviour")
                return "(Behaviour_tip self status)", "Ref"
            k = self.ref_kind(tgt, env)
            if k in ("Cur", "ChildRef", "Root"):
                return {"Cur": "curTip", "ChildRef": "childTip", "Root": "rootTip"}[k], "Ref"
            raise Unsupported("call " + ast.unparse(e))
        if isinstance(e, ast.Call) and ast.unparse(e.func) in ("behaviour.Behaviour.tip", "Behaviour.tip") \
                and len(e.args) == 1 and self.ref_kind(e.args[0], env) == "self" and not e.keywords \
                and self.kind in ("Composite", "Decorator"):
            return "(Behaviour_tip self status)", "Ref"
        return Fn.expr(self, e, env)

    def ret_type(self):
        return "Option Nat"

    def translate(self, lean_name):
        self.counter = 0
        body = self.block(list(self.fn.body), {}, 1)
        if self.reads or self.uses_now:
            raise Unsupported("tip() reads " + ", ".join(self.reads))
        return "def %s %s : Option Nat :=\n%s\n" % (lean_name, self.BINDERS[self.kind], body)


HEADER = """/-
  GENERATED by /verif/harness/py2lean.py from the current source of $VERIF_REPO — do not edit.
  Regenerated on every run of ./check %s; the bridge theorems in PyTreesProofs/Props/%sg.lean relate
  these definitions to the hand-written model.
-/
import PyTreesGen.Prelude

namespace Gen
"""


GEN_PINS = os.path.join(os.path.dirname(os.path.abspath(__file__)), "gen_pins.json")


def translate_target(repo, trees, f, cname, fname, lname):
    if f not in trees:
        trees[f] = ast.parse(open(os.path.join(repo, f)).read())
    tree = trees[f]
    cls = find_class(tree, cname)
    if fname == "<enum>":
        # an enum whose members are lists of statuses (OneShotPolicy): one definition per member
        out = []
        for st in cls.body:
            if isinstance(st, ast.Assign) and len(st.targets) == 1 and isinstance(st.targets[0], ast.Name):
                v = st.value
                if not isinstance(v, ast.List):
                    raise Unsupported("member %s of %s is not a list" % (st.targets[0].id, cname))
                items = []
                for e in v.elts:
                    if isinstance(e, ast.Attribute) and e.attr in STATUS and ast.unparse(e.value) in ("Status", "common.Status"):
                        items.append(STATUS[e.attr])
                    else:
                        raise Unsupported("member %s of %s holds %s" % (st.targets[0].id, cname, ast.unparse(e)))
                out.append("def %s_%s : List Status := [%s]\n" % (lname, st.targets[0].id, ", ".join(items)))
        if not out:
            raise Unsupported("enum %s has no members" % cname)
        return "\n".join(out)
    fn = find_func(cls, fname)
    consts = {c.name: class_constants(c) for c in tree.body if isinstance(c, ast.ClassDef)}
    return (TipFn if fname == "tip" else Fn)(cls, fn, consts).translate(lname)


def generate(repo, pid, pins=None):
    """Lean source of PyTreesGen/<pid>.lean for the current tree, and the list of functions that could not be
    translated.  For those the translation of the VALIDATED tree (gen_pins.json) is emitted instead, clearly marked: the
    bridge theorem then says nothing about the new code and the tie for that function is the correspondence run alone
    (check.py reports it as `translation_fallback`; it is not a proof problem)."""
    import json
    if pins is None:
        try:
            pins = json.load(open(GEN_PINS))
        except Exception:
            pins = {}
    out = [HEADER % (pid, pid)]
    problems = []
    trees = {}
    for f, cname, fname, lname in TARGETS.get(pid, []):
        try:
            text = translate_target(repo, trees, f, cname, fname, lname)
            out.append("/-- `%s.%s` (%s) -/\n%s" % (cname, fname, f, text))
        except (Unsupported, SyntaxError, OSError) as e:
            reason = str(e).replace("\n", " ")
            problems.append("%s.%s [%s]: %s" % (cname, fname, BRIDGE.get(lname, "?"), reason))
            if lname in pins:
                out.append("-- UNTRANSLATABLE %s.%s (%s): FALLBACK to the translation of the validated tree\n%s"
                           % (cname, fname, reason, pins[lname]))
            else:
                out.append("-- UNTRANSLATABLE %s.%s: %s\n" % (cname, fname, reason))
    out.append("end Gen\n")
    return "\n".join(out), problems


def pin(repo):
    """record the translation of every target from `repo` (the validated tree) as the fallback texts"""
    import json
    pins = {}
    trees = {}
    for pid in sorted(TARGETS):
        for f, cname, fname, lname in TARGETS[pid]:
            pins[lname] = translate_target(repo, trees, f, cname, fname, lname)
    json.dump(pins, open(GEN_PINS, "w"), indent=0, sort_keys=True)
    return len(pins)


def regenerate(repo, lean_dir, pid):
    """write PyTreesGen/<pid>.lean when its content changed; returns the translation problems"""
    if pid not in TARGETS:
        return []
    text, problems = generate(repo, pid)
    path = os.path.join(lean_dir, "PyTreesGen", pid + ".lean")
    old = open(path).read() if os.path.exists(path) else None
    if old != text:
        os.makedirs(os.path.dirname(path), exist_ok=True)
        open(path, "w").write(text)
    return problems


if __name__ == "__main__":
    import sys
    repo = os.environ.get("VERIF_REPO", "/repo")
    for pid in (sys.argv[1:] or sorted(TARGETS)):
        text, problems = generate(repo, pid)
        print(text)
        for p in problems:
            print("-- PROBLEM", p)
