"""C13 subtree surgery by id between ticks (bt family with prune / insert / replace operations)."""
from props import register, text_hash
from common import Scenario
import bt_gen
from bt_impl import spec_str, spec_nodes, spec_children, parse_spec
from props_bt import (BtProp, Shape, parse_obs, viol, scn_spec, st_of, entered, C03, C04, C05, policy_valid)


def spec_replace_children(n, kids):
    if n[0] == "D":
        return (n[0], n[1], n[2], kids[0])
    if n[0] == "L":
        return n
    return (n[0], n[1], n[2], kids)


def find_parent(spec, target):
    for n in spec_nodes(spec):
        for c in spec_children(n):
            if c[1] == target:
                return n
    return None


def rebuild(spec, fn):
    """bottom-up rebuild applying fn(node_with_new_children) -> node"""
    kids = [rebuild(c, fn) for c in spec_children(spec)]
    return fn(spec_replace_children(spec, kids) if spec[0] != "L" else spec)


def py_insert(lst, idx, x):
    lst = list(lst)
    lst.insert(idx, x)
    return lst


def apply_edit(spec, toks):
    """reference semantics of the three edits on a spec: (result, new_spec, removed_ids)"""
    op = toks[0]
    ids = [n[1] for n in spec_nodes(spec)]
    if op in ("prune", "replace"):
        target = int(toks[1])
        if target == spec[1]:
            return "RuntimeError", spec, []
        if target not in ids:
            return "False", spec, []
        parent = find_parent(spec, target)
        if parent[0] == "D":
            return "RuntimeError", spec, []
        removed = []
        sub = parse_spec(toks[2:])[0] if op == "replace" else None

        def fn(n):
            if n[0] in ("Q", "S", "P") and n[1] == parent[1]:
                kids = list(n[3])
                i = [c[1] for c in kids].index(target)
                removed.extend(m[1] for m in spec_nodes(kids[i]))
                kids = kids[:i] + ([sub] if sub is not None else []) + kids[i + 1:]
                return (n[0], n[1], n[2], kids)
            return n
        return "True", rebuild(spec, fn), removed
    if op == "insert":
        target, idx = int(toks[1]), int(toks[2])
        if target not in ids:
            return "False", spec, []
        node = [n for n in spec_nodes(spec) if n[1] == target][0]
        if node[0] not in ("Q", "S", "P"):
            return "TypeError", spec, []
        sub = parse_spec(toks[3:])[0]

        def fn(n):
            if n[1] == target:
                return (n[0], n[1], n[2], py_insert(n[3], idx, sub))
            return n
        return "True", rebuild(spec, fn), []
    raise ValueError(toks)


@register
class C13(BtProp):
    pid = "C13"
    keep = "TNP"
    keep_events = "EUXY"
    keep_own = False
    keep_cur = True
    quick_n, thorough_n = 2500, 40000
    rule = ("random small trees x edit operations (prune / insert at indices -2..len+1 / replace, targeting every kind of "
            "node id incl. the root, children of decorators and unknown ids) between any two ticks of random schedules, "
            "followed by further ticks; result, structure, interruption of the removed subtree, absence of internal "
            "errors and the composite rules on the new structure are checked; non-trivial = the current child of a "
            "RUNNING composite with memory was removed or replaced and the tree was ticked again")

    def project(self, s, lines):
        out = BtProp.project(self, s, lines)
        return out + [l for l in lines if l.startswith("R ")]

    def generate(self, rng, tier):
        n = {"quick": self.quick_n, "thorough": self.thorough_n, "search": 3000}[tier]
        out = []
        for i in range(n):
            prof = bt_gen.Profile(leaves={"probe": 10}, max_nodes=rng.choice([6, 9, 12]), invalid_policy=0.0,
                                  w_comp={"Q": 4, "S": 4, "P": 2}, root_kind="comp",
                                  w_outcome=rng.choice([{"R": 40, "S": 35, "F": 25}, {"R": 60, "S": 30, "F": 10}]))
            spec = bt_gen.gen_tree(rng, prof)
            cur = spec
            next_id = 100
            now = 0
            ops = []
            for _ in range(rng.randint(3, 14 if tier != "thorough" else 30)):
                r = rng.random()
                ids = [m[1] for m in spec_nodes(cur)]
                if r < 0.55 or not ops:
                    now += rng.choice([0, 1, 2])
                    ops.append(bt_gen.gen_tick(rng, prof, cur, now))
                    continue
                if r < 0.60:
                    ops.append("stop %d" % cur[1])
                    continue
                # bias the target towards current / running children: any id, weighted to non-root
                target = rng.choice(ids + [9999]) if rng.random() < 0.9 else cur[1]
                memkids = [c[1] for m in spec_nodes(cur) if m[0] in ("Q", "S") and m[2] for c in m[3]]
                if memkids and rng.random() < 0.5:
                    target = rng.choice(memkids)     # a child a composite with memory may be waiting on
                sub_prof = bt_gen.Profile(leaves={"probe": 10}, max_nodes=rng.choice([1, 1, 3]), max_depth=2,
                                          invalid_policy=0.0)
                g = bt_gen.TreeGen(rng, sub_prof)
                g.next_id = next_id
                sub = g.node(0, rng.choice(["leaf", "leaf", "comp", "dec"]))
                next_id = g.next_id + 1
                if r < 0.74:
                    op = "prune %d" % target
                elif r < 0.87:
                    op = "replace %d %s" % (target, spec_str(sub))
                else:
                    op = "insert %d %d %s" % (target, rng.choice([-2, -1, 0, 0, 1, 2, 3, 7]), spec_str(sub))
                ops.append(op)
                _, cur, _ = apply_edit(cur, op.split())
            out.append(Scenario("bt", "%s_%s_%d" % (self.pid, tier[0], i), ["tree " + spec_str(spec)], ops,
                                {"spec": spec}))
        return out

    def oracle(self, s, lines):
        spec = scn_spec(s)
        obs = parse_obs(lines)
        rl = [l[2:] for l in lines if l.startswith("R ")]
        out = []
        prev = None
        removed_all = set()
        ri = 0
        seqo, selo, paro = C03(), C04(), C05()
        grown = False     # a subtree was inserted: it may sit, never ticked, in the part a memory composite skips
        for o in obs:
            toks = o.op.split()
            if toks[0] in ("prune", "replace", "insert"):
                want, new_spec, removed = apply_edit(spec, toks)
                got = rl[ri] if ri < len(rl) else "?"
                ri += 1
                if got != want:
                    out.append(viol("result", "`%s` returned %s, expected %s" % (o.op[:40], got, want), op=toks[0]))
                    break
                old_sh = Shape(spec)
                spec = new_spec
                sh = Shape(spec)
                ids = [n[1] for n in spec_nodes(spec)]
                if o.order != ids:
                    out.append(viol("structure", "after `%s` the tree is %s, expected %s" % (o.op[:40], o.order, ids),
                                    op=toks[0]))
                    break
                for i in removed:
                    if old_sh.is_leaf(i) and st_of(prev, i) == "R" and ("X", i, "I") not in o.T:
                        out.append(viol("removed-not-interrupted", "removed RUNNING leaf %d saw no terminate(INVALID)" % i))
                removed_all.update(removed)
                grown = grown or toks[0] in ("insert", "replace")
                # the parent's remembered child is absent or one of its children
                for i in ids:
                    cur = o.N[i][1]
                    if cur is not None and cur not in sh.kids[i]:
                        out.append(viol("dangling-current-child", "node %d remembers %s which is not a child" % (i, cur)))
                prev = o
                continue
            sh = Shape(spec)
            if o.err is not None:
                if o.err == "RuntimeError" and any(n[0] == "P" and not policy_valid(sh, n[1]) for n in spec_nodes(spec)):
                    break
                out.append(viol("tick-raised", "`%s` raised %s after edits" % (o.op[:30], o.err), err=o.err))
                break
            if o.skip:
                break
            if toks[0] == "tick":
                for i in entered(o):
                    if i in removed_all:
                        out.append(viol("removed-ticked", "removed behaviour %d was ticked again" % i))
                for orc in (seqo, selo, paro):
                    for v in orc.check_op(sh, prev, o) or []:
                        if grown and v["clause"] in ("memory-skip", "success-iff", "tail-untouched", "entry-reset"):
                            continue
                        out.append(v)
                for i in sh.node:
                    if st_of(o, i) == "R" and i in sh.parent and st_of(o, sh.parent[i]) != "R":
                        out.append(viol("dangling-running", "node %d RUNNING under non-RUNNING parent" % i))
            prev = o
            if out:
                break
        return [v for v in out if not (v["clause"] == "interrupt-on-change" and v["sig"].get("fresh")
                                       and v["sig"].get("first_selected") and not v["sig"].get("stale_running"))
                and not (v["clause"] == "result" and v["sig"].get("empty") and v["sig"].get("policy") == "one")]

    def nontrivial_key(self, s, lines):
        spec = scn_spec(s)
        prev = None
        hit = False
        for o in parse_obs(lines):
            toks = o.op.split()
            if toks[0] in ("prune", "replace") and prev is not None:
                t = int(toks[1])
                par = find_parent(spec, t)
                if par is not None and par[0] in ("Q", "S") and par[2] and prev.N.get(par[1], ("I",))[0] == "R" \
                        and prev.N[par[1]][1] == t:
                    hit = True
            if toks[0] in ("prune", "replace", "insert"):
                _, spec, _ = apply_edit(spec, toks)
            if toks[0] == "tick" and hit and o.ok:
                return text_hash(s.text())
            prev = o
        return None

    def count(self, s, lines, stats):
        # node-kind statistics need the original spec only
        BtProp.count(self, s, lines, stats)
        for l in lines:
            if l.startswith("R "):
                stats.setdefault("edit_results", {})
                stats["edit_results"][l] = stats["edit_results"].get(l, 0) + 1
