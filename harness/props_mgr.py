"""C12 BehaviourTree tick / visitor / handler / setup contract (bt family with manager operations)."""
from props import register, text_hash
from common import Scenario
import bt_gen
from bt_impl import spec_str, spec_nodes
from props_bt import BtProp, Shape, parse_obs, viol, scn_spec, entered, policy_valid


def postorder(spec):
    from bt_impl import spec_children
    out = []
    for c in spec_children(spec):
        out += postorder(c)
    return out + [spec[1]]


@register
class C12(BtProp):
    pid = "C12"
    keep = "TNLKVUD"
    keep_events = "EY"
    keep_own = False
    quick_n, thorough_n = 2000, 30000
    rule = ("random trees (memory, synchronisation, guards, one-shots make the ticked set vary) ticked through "
            "BehaviourTree.tick with 0-3 ordinary, 0-2 full visitors, a SnapshotVisitor, 0-2 pre/post handlers and one-off "
            "handlers on/off; setup(x=1) and shutdown; the complete call log, tick count, snapshot record and changed flag "
            "are compared and re-derived from the traversal; non-trivial = the set of ticked behaviours shrank between "
            "two ticks")

    def project(self, s, lines):
        out = []
        for l in lines:
            if l.startswith(">") or l.startswith("ERR") or l.startswith("SKIP") or l.startswith("bad") or l == "ok":
                out.append(l)
            elif l[:2] in ("L ", "K ", "V ", "U ", "D "):
                out.append(l)
            elif l.startswith("T"):
                out.append("T " + " ".join(t for t in l[1:].split() if t[0] in "EY"))
        return out

    def generate(self, rng, tier):
        n = {"quick": self.quick_n, "thorough": self.thorough_n, "search": 2500}[tier]
        out = []
        for i in range(n):
            prof = bt_gen.PROFILES[rng.choice(["core", "coreprobe", "par", "dec", "stock"])]
            if rng.random() < 0.1:
                # a tenth of the histories have leaves that answer INVALID now and then: a behaviour that was ticked is
                # visited and recorded whatever it answered
                prof = bt_gen.Profile(**dict(vars(prof), w_outcome={"R": 35, "S": 30, "F": 20, "I": 15}))
            spec = bt_gen.gen_tree(rng, prof)
            vis = "".join(rng.choice("oof") for _ in range(rng.randint(0, 3))) + "s"
            vis = "".join(rng.sample(vis, len(vis)))
            ops = ["mgr v=%s pre=%d post=%d" % (vis, rng.randint(0, 2), rng.randint(0, 2))]
            if rng.random() < 0.5:
                ops.append(rng.choice(["setup", "setup", "setupt"]))
            now = 0
            for _ in range(rng.randint(2, 10 if tier != "thorough" else 30)):
                if rng.random() < 0.12:
                    ops.append("stop %d" % spec[1])
                    continue
                now += rng.choice([0, 1, 2])
                t = bt_gen.gen_tick(rng, prof, spec, now)
                extra = " a=" + rng.choice("of") if rng.random() < 0.08 else ""
                tt = " tt=1" if rng.random() < 0.25 else ""
                ops.append("mtick p=%s q=%s%s%s %s" % (rng.choice("01"), rng.choice("01"), extra, tt, t[5:]))
            if rng.random() < 0.4:
                ops.append("shutdown")
            out.append(Scenario("bt", "%s_%s_%d" % (self.pid, tier[0], i), ["tree " + spec_str(spec)], ops,
                                {"spec": spec}))
        return out

    def oracle(self, s, lines):
        spec = scn_spec(s)
        sh = Shape(spec)
        out = []
        cfg = dict(t.split("=", 1) for t in s.ops[0].split()[1:])
        vis = cfg.get("v", "")
        npre, npost = int(cfg.get("pre", 0) or 0), int(cfg.get("post", 0) or 0)
        ordinary = [j for j, c in enumerate(vis) if c != "f"]
        full = [j for j, c in enumerate(vis) if c == "f"]
        po = postorder(spec)
        cur = None
        count = 0
        prev_visited = {}
        blocks = []
        for l in lines:
            if l.startswith("> "):
                cur = {"op": l[2:], "lines": []}
                blocks.append(cur)
            elif cur is not None:
                cur["lines"].append(l)
        for b in blocks:
            op = b["op"].split()
            L = next((x[2:].split() for x in b["lines"] if x.startswith("L ")), None)
            if any(x.startswith("ERR") for x in b["lines"]):
                if op[0] in ("setup", "setupt", "mtick") and any(n[0] == "P" and not policy_valid(sh, n[1]) for n in spec_nodes(spec)):
                    break
                err = next(x for x in b["lines"] if x.startswith("ERR")).split()[-1]
                if op[0] == "mtick" and err in ("KeyError", "TypeError") and any(
                        (n[0] == "L" and n[2][0] in ("set", "b2s", "cv", "wv", "cvs")) or
                        (n[0] == "D" and str(n[2]).startswith("s2b")) for n in spec_nodes(spec)):
                    break      # documented exceptions of the stock blackboard behaviours (C17), not the tree manager's
                out.append(viol("raised", "`%s` raised" % b["op"][:30]))
                break
            if op[0] in ("setup", "setupt", "shutdown"):
                tag = "U " if op[0] != "shutdown" else "D "
                got = next((x[2:].split() for x in b["lines"] if x.startswith(tag)), [])
                if got != [str(i) for i in po]:
                    out.append(viol(op[0], "%s called on %s, expected every behaviour once, children before parents: %s"
                                    % (op[0], got, po)))
                continue
            if op[0] != "mtick" or L is None:
                continue
            d = dict(t.split("=", 1) for t in op[1:] if "=" in t)
            if d.get("a"):
                vis += d["a"]
                ordinary = [j for j, c in enumerate(vis) if c != "f"]
                full = [j for j, c in enumerate(vis) if c == "f"]
                d["p"] = "1"
            T = next((x for x in b["lines"] if x.startswith("T")), "T")
            ys = [(int(t[1:].split(":")[0]), t.split(":")[1]) for t in T[1:].split() if t[0] == "Y"]
            ent = [int(t[1:]) for t in T[1:].split() if t[0] == "E"]
            N = next((x for x in b["lines"] if x.startswith("N")), "N")
            final = {int(t.split(":")[0]): t.split(":")[1] for t in N[1:].split()}
            exp = (["preOnce"] if d.get("p") == "1" else []) + ["pre%d" % i for i in range(npre)] + \
                  ["vi%d" % j for j in range(len(vis))]
            for (i, st) in ys:
                exp += ["vr%d:%d:%s" % (j, i, st) for j in ordinary]
            for i in po:
                exp += ["vr%d:%d:%s" % (j, i, final.get(i, "?")) for j in full]
            exp += ["vf%d" % j for j in range(len(vis))] + ["post%d" % i for i in range(npost)] + \
                   (["postOnce"] if d.get("q") == "1" else [])
            if L != exp:
                k = next((a for a in range(min(len(L), len(exp))) if L[a] != exp[a]), min(len(L), len(exp)))
                out.append(viol("order", "`%s`: call log differs at position %d: got %s expected %s"
                                % (b["op"][:24], k, L[k:k + 3], exp[k:k + 3])))
            # traversal: exactly the ticked behaviours, each once, children before parent, root last
            yids = [i for i, _ in ys]
            if sorted(yids) != sorted(ent) or len(set(yids)) != len(yids):
                out.append(viol("traversal", "yielded %s but ticked %s" % (yids, ent)))
            else:
                pos = {i: k for k, i in enumerate(yids)}
                for i in yids:
                    a = i
                    while a in sh.parent:
                        a = sh.parent[a]
                        if a in pos and pos[a] < pos[i]:
                            out.append(viol("traversal", "behaviour %d visited before its descendant %d" % (a, i)))
                if yids and yids[-1] != spec[1]:
                    out.append(viol("traversal", "the root was not visited last"))
            # "immediately after it ticked": in the merged sequence every own yield z<i>:<st> is followed at once by the
            # runs of all ordinary visitors on i, which see exactly that status - before anything else is entered
            Q = next((x[2:].split() for x in b["lines"] if x.startswith("Q ")), None)
            if Q is not None and ordinary:
                k = 0
                while k < len(Q):
                    if Q[k][0] == "z":
                        i, st = Q[k][1:].split(":")
                        want = ["v%d:%s:%s" % (j, i, st) for j in ordinary]
                        got = Q[k + 1:k + 1 + len(want)]
                        if got != want:
                            out.append(viol("immediate", "behaviour %s came out of its tick with %s; expected the ordinary "
                                            "visitors to run on it at once (%s) but next is %s" % (i, st, want, got)))
                            break
                        k += 1 + len(want)
                    elif Q[k][0] == "v":
                        out.append(viol("immediate", "visitor run %s not directly after that behaviour's tick" % Q[k]))
                        break
                    else:
                        k += 1
            Bl = next((x for x in b["lines"] if x.startswith("B ")), None)
            BX = next((x for x in b["lines"] if x.startswith("BX ")), None)
            if Bl is not None and BX is not None and Bl[2:] != BX[3:]:
                out.append(viol("snapshot-blackboard", "snapshot records (clients, keys) %s but the behaviours ticked this "
                                "tick hold %s" % (Bl[2:], BX[3:])))
            Hl = next((x[2:].split() for x in b["lines"] if x.startswith("H ") or x == "H"), None)
            if Hl and any(int(x) != count for x in Hl):
                # the tick count grows by one as the very last step: every handler of tick n sees n - 1 ticks done
                out.append(viol("count-late", "handlers of tick %d saw tree.count %s" % (count + 1, Hl)))
            count += 1
            K = next((x for x in b["lines"] if x.startswith("K ")), None)
            if K is not None and int(K[2:]) != count:
                out.append(viol("count", "tick count %s after %d ticks" % (K[2:], count)))
            V = next((x for x in b["lines"] if x.startswith("V ")), None)
            if V is not None and "s" in vis:
                vs, ps, ch = [x.strip() for x in V[2:].split("|")]
                visited = dict(p.split(":") for p in vs.split(",") if p)
                want = {str(i): st for i, st in ys}
                if visited != want:
                    out.append(viol("snapshot", "snapshot %s, ticked %s" % (visited, want)))
                if (ch == "1") != (want != prev_visited):
                    out.append(viol("changed", "changed=%s but this tick's record %s vs previous %s"
                                    % (ch, want, prev_visited), shrink=set(want) < set(prev_visited)))
                prev_visited = want
            if out:
                break
        return out

    def nontrivial_key(self, s, lines):
        prev = None
        for l in lines:
            if l.startswith("V "):
                vs = set(p.split(":")[0] for p in l[2:].split("|")[0].strip().split(",") if p)
                if prev is not None and vs < prev:
                    return text_hash(s.text())
                prev = vs
        return None
