"""C18 idioms: the library builds the idiom, the model builds it with its own constructor; shape and behaviour are
compared, and the idioms' promises are checked over the implementation's observations."""
from props import register, text_hash
from common import Scenario, val_parse
from bt_impl import spec_str, spec_nodes, parse_spec
from props_bt import BtProp, Shape, parse_obs, viol, st_of, entered, yielded

NAMES = ["Task~A", "task~b", "Scan^Left", "Go~~Home", "T!3", "x", "Task~C~", "Rot+90", "Rot-90"]      # the last two differ only in punctuation


def tick_line(rng, now, w=None, guards=""):
    w = w or {"R": 40, "S": 40, "F": 20}
    import bt_gen
    outs = ",".join("%d:%s" % (i, bt_gen.wchoice(rng, w)) for i in range(1, 61))
    return "tick o=%s g=%s t=%d" % (outs, guards, now)


def small_subtree(rng, base):
    r = rng.random()
    if r < 0.6:
        return ("L", base, ["probe"])
    if r < 0.8:
        return ("Q", base, rng.random() < 0.5, [("L", base + 1, ["probe"]), ("L", base + 2, ["probe"])])
    if r < 0.9:
        return ("S", base, False, [("L", base + 1, ["probe"]), ("L", base + 2, ["probe"])])
    return ("D", base, rng.choice(["inv", "fir", "pass"]), ("L", base + 1, ["probe"]))


@register
class C18(BtProp):
    pid = "C18"
    keep = "TNW"
    keep_events = "EUXY"
    keep_own = True
    quick_n, thorough_n = 2000, 30000
    rule = ("pick_up_where_you_left_off with 1-4 tasks (names with blanks / newlines / tabs), the oneshot idiom and the "
            "OneShot decorator under both policies, either_or with 2-4 options; all built by the library and, "
            "independently, by the model's constructors (shapes compared); random outcome schedules, interrupts of the "
            "idiom root between ticks, condition variables rewritten between ticks; non-trivial = the idiom was "
            "interrupted while RUNNING and ticked again, or a one-shot was ticked after it latched")

    def project(self, s, lines):
        return BtProp.project(self, s, lines) + [l for l in lines if l.startswith("SPEC")]

    def generate(self, rng, tier):
        n = {"quick": self.quick_n, "thorough": self.thorough_n, "search": 3000}[tier]
        out = []
        for i in range(n):
            kind = rng.choice(["pickup", "pickup", "oneshot", "oneshotdec", "eitheror", "eitheror", "eitheror2"])
            ops = []
            now = 0
            nops = rng.randint(3, 14 if tier != "thorough" else 30)
            if kind == "pickup":
                k = rng.choice([1, 2, 2, 3, 4])
                names = rng.sample(NAMES, k)
                parts = []
                for j, nm in enumerate(names):
                    parts += [nm, spec_str(small_subtree(rng, 100 + 10 * j))]
                header = "idiom pickup " + " ".join(parts)
                root = 1
                # an application that initialises its bookkeeping flags: `<task>_done` preset to False (or to 0) must
                # not count as done (blank -> '_' as the idiom's key derivation does; names with other separators are
                # left alone)
                for nm in names:
                    if all(ch.isalnum() or ch == "~" for ch in nm) and rng.random() < 0.3:
                        ops.append("setbb /%s_done %s" % (nm.lower().replace("~", "_"), rng.choice(["b:0", "i:0", "n"])))
            elif kind == "oneshot":
                sub = small_subtree(rng, 100)
                if rng.random() < 0.3:
                    # the completion flag is an attribute two levels inside an object on the blackboard
                    header = "idiom oneshot /o q.st %s %s" % (rng.choice("01"), spec_str(sub))
                    ops.append("setbb /o o{q=o{r=i:0}}")
                else:
                    header = "idiom oneshot %s %s %s %s" % (rng.choice(["/done", "/os/flag"]), "-", rng.choice("01"),
                                                            spec_str(sub))
                root = 1
            elif kind == "oneshotdec":
                sub = small_subtree(rng, 3)
                header = "tree " + spec_str(("S", 1, False, [("D", 2, "oneshot:" + rng.choice("01"), sub),
                                                               ("L", 50, ["probe"])]))
                root = rng.choice([1, 2])
            elif kind == "eitheror2":
                k = 2
                conds = " ".join("/c%d - eq i:1" % j for j in range(k))
                subs = " ".join(spec_str(small_subtree(rng, 100 + 10 * j)) for j in range(2 * k))
                header = "idiom eitheror2 %d %s %s" % (k, conds, subs)
                root = 1
                for j in range(k):
                    ops.append("setbb /c%d i:%d" % (j, rng.choice([0, 1])))
            else:
                k = rng.choice([2, 2, 3, 4])
                shared = rng.random() < 0.35      # all conditions test ONE variable against different values
                if shared:
                    conds = " ".join("/m - eq i:%d" % j for j in range(k))
                elif k == 2 and rng.random() < 0.25:
                    # conditions on attributes of one object (nested variable names, one and two levels deep)
                    conds = "/o p eq i:1 /o q.r eq i:0"
                elif rng.random() < 0.3:
                    # threshold conditions (non-commutative operators): variable > 0 / variable < 2 alternating
                    conds = " ".join("/c%d - %s" % (j, "gt i:0" if j % 2 == 0 else "lt i:1") for j in range(k))
                else:
                    conds = " ".join("/c%d - eq i:1" % j for j in range(k))
                subs = " ".join(spec_str(small_subtree(rng, 100 + 10 * j)) for j in range(k))
                header = "idiom eitheror %s %d %s %s" % (rng.choice(["/eo", "/eo", "/x/eo", "-"]), k, conds, subs)
                root = 1
                OBJS = ["o{p=i:1,q=o{r=i:1}}", "o{p=i:2,q=o{r=i:0}}", "o{p=i:1,q=o{r=i:0}}", "o{p=i:0,q=o{r=i:2}}", "o{p=i:1}"]
                if shared:
                    ops.append("setbb /m i:%d" % rng.randrange(k + 1))
                elif "/o p eq" in conds:
                    ops.append("setbb /o %s" % rng.choice(OBJS))
                else:
                    for j in range(k):
                        ops.append("setbb /c%d i:%d" % (j, rng.choice([0, 1])))
            w = rng.choice([{"R": 40, "S": 40, "F": 20}, {"R": 50, "S": 45, "F": 5}, {"R": 30, "S": 30, "F": 40}])
            for _ in range(nops):
                r = rng.random()
                if r < 0.2 and ops:
                    ops.append("stop %d" % root)
                elif r < 0.44 and r >= 0.4 and kind == "eitheror" and not shared:
                    ops.append("unsetbb /c%d" % rng.randrange(k))      # a condition variable disappears (an event flag)
                elif r < 0.4 and kind == "eitheror" and "/o p eq" in header:
                    ops.append("setbb /o %s" % rng.choice(OBJS))
                elif r < 0.4 and kind in ("eitheror", "eitheror2"):
                    if kind == "eitheror" and shared:
                        ops.append("setbb /m i:%d" % rng.randrange(k + 1))
                    else:
                        ops.append("setbb /c%d i:%d" % (rng.randrange(k), rng.choice([0, 1])))
                else:
                    now += 1
                    ops.append(tick_line(rng, now, w))
            out.append(Scenario("bt", "%s_%s_%d" % (self.pid, tier[0], i), [header], ops, {"kind": kind}))
        return out

    # ------------------------------------------------------------------------------------------
    def oracle(self, s, lines):
        spec_line = next((l for l in lines if l.startswith("SPEC ")), None)
        if spec_line is None:
            return []
        spec, _ = parse_spec(spec_line.split()[1:])
        sh = Shape(spec)
        obs = parse_obs(lines)
        kind = s.meta.get("kind") or s.header[0].split()[1]
        if kind == "pickup":
            return self.pickup(sh, spec, obs)
        if kind == "oneshot":
            # when the wrapped behaviour is itself a Sequence the idiom appends its flag setter to it in place: the
            # witness of "the subtree was ticked / completed" is then that (extended) sequence itself
            return self.oneshot_idiom(sh, spec, obs, s.header[0].split()[4] == "1",
                                      in_place=s.header[0].split()[5:7] == ["(", "Q"])
        if kind == "oneshotdec":
            return self.oneshot_dec(sh, spec, obs)
        if kind == "eitheror":
            h = s.header[0].split()       # idiom eitheror <ns> <k> (<key> <path> <op> <value>)*k <subtrees...>
            kk = int(h[3])
            return self.either_or(sh, spec, obs, conds=[h[4 + 4 * j:8 + 4 * j] for j in range(kk)])
        if kind == "eitheror2":
            # two idioms with the same name and the default (private) namespace side by side: each one on its own
            # must behave as a lone either_or
            out = []
            for sub in spec[3]:
                out += self.either_or(sh, sub, obs)
            return out
        return []

    @staticmethod
    def pickup(sh, spec, obs):
        out = []
        # root Q -> S_i -> [cv, Q_i -> [task_i, set_i]]
        tasks = []
        for c in spec[3]:
            if c[0] == "S":
                tasks.append(c[3][1][3][0][1])
        done = set()
        for o in obs:
            if not o.ok:
                break
            if o.op.startswith("tick"):
                Y = yielded(o)
                for e in o.T:
                    if e[0] == "E" and e[1] in tasks:
                        i = tasks.index(e[1])
                        if e[1] in done:
                            out.append(viol("pickup-rerun", "task %d was ticked again although it succeeded in this "
                                            "round (`%s`)" % (i, o.op[:20])))
                        if any(t not in done for t in tasks[:i]):
                            out.append(viol("pickup-order", "task %d ticked before all earlier tasks succeeded" % i))
                    if e[0] == "Y" and e[1] in tasks and e[2] == "S":
                        done.add(e[1])
                if Y.get(spec[1]) == "S":
                    if done != set(tasks):
                        out.append(viol("pickup-success", "idiom succeeded with tasks %s not done"
                                        % sorted(set(tasks) - done)))
                    done = set()
            if out:
                break
        return out

    @staticmethod
    def oneshot_generic(obs, root, sub, both, name):
        out = []
        final = None
        for o in obs:
            if not o.ok:
                break
            if o.op.startswith("tick"):
                Y = yielded(o)
                if root not in Y:
                    continue
                ticked = sub in entered(o)
                if final is not None:
                    if ticked:
                        out.append(viol("oneshot-reticks", "%s: the subtree was ticked again after it completed with %s"
                                        % (name, final)))
                    if Y[root] != final:
                        out.append(viol("oneshot-result", "%s returned %s after completing with %s"
                                        % (name, Y[root], final)))
                else:
                    if not ticked:
                        out.append(viol("oneshot-skipped", "%s did not tick its subtree before completion" % name))
                    elif Y[root] != Y.get(sub):
                        out.append(viol("oneshot-mirror", "%s returned %s while its subtree returned %s"
                                        % (name, Y[root], Y.get(sub))))
                    if Y.get(sub) == "S" or (both and Y.get(sub) == "F"):
                        final = Y[sub]
            if out:
                break
        return out

    def oneshot_idiom(self, sh, spec, obs, both, in_place=False):
        # root S -> [Q guard -> [inv(cex), body], cv]; the wrapped behaviour is the first child of the work sequence
        body = spec[3][0][3][1]
        work = body[3][0] if both else body
        sub = work[1] if in_place else work[3][0][1]
        # when the wrapped behaviour is itself a Sequence the idiom appends to it: then the "subtree" is that sequence
        # minus the flag setter, which we cannot separate by id; use its first child as the tick witness
        return self.oneshot_generic(obs, spec[1], sub, both, "oneshot idiom")

    def oneshot_dec(self, sh, spec, obs):
        dec = spec[3][0]
        both = dec[2].endswith(":1")
        return self.oneshot_generic(obs, dec[1], dec[3][1], both, "OneShot decorator")

    @staticmethod
    def either_or(sh, spec, obs, conds=None):
        out = []
        # the conditions come from the scenario (what the idiom was asked to build) when known, else from the check leaf;
        # the chooser is the root's last child, an option's subtree the last child of its sequence
        xor = spec[3][0]
        options = spec[3][-1][3]
        k = len(options)
        subs = [opt[3][-1][1] for opt in options]
        if conds is None:
            a0 = [str(x) for x in xor[2]]
            conds = [a0[2 + 4 * j:6 + 4 * j] for j in range(int(a0[1]))]
        chosen = None
        prevW = {}
        prev = None
        for o in obs:
            if not o.ok:
                break
            if o.op.startswith("tick"):
                fresh = st_of(prev, spec[1]) != "R"
                ent = [x for x in entered(o) if x in subs]
                if fresh:
                    from props_bt import _get, _cmp
                    from common import val_parse
                    truth = []
                    for j in range(k):
                        ck, cp, cop, cv = conds[j]
                        ok, v = _get(prevW, ck, cp)
                        truth.append(bool(ok and _cmp(cop, v, val_parse(cv))))
                    if any(not _get(prevW, conds[j][0], conds[j][1])[0] for j in range(k)):
                        truth = [False] * k      # a missing condition variable fails the idiom before any choice
                    nt = sum(truth)
                    if nt == 1:
                        want = [subs[truth.index(True)]]
                        if ent != want:
                            out.append(viol("eo-choice", "conditions %s but subtrees ticked %s" % (truth, ent)))
                        chosen = want[0]
                    else:
                        if ent:
                            out.append(viol("eo-several" if nt > 1 else "eo-none",
                                            "%d conditions hold but subtree %s was ticked" % (nt, ent),
                                            n_true=nt, n=k, odd_many=(nt >= 3 and nt % 2 == 1)))
                        if yielded(o).get(spec[1]) != "F" and not ent:
                            out.append(viol("eo-fail", "%d conditions hold but the idiom returned %s"
                                            % (nt, yielded(o).get(spec[1])), n_true=nt, n=k))
                        chosen = ent[0] if ent else None
                else:
                    if ent and ent != [chosen]:
                        out.append(viol("eo-revisit", "choice %s revisited while RUNNING: ticked %s" % (chosen, ent)))
                active = [x for x in subs if any(st_of(o, d) == "R" for d in sh.subtree(x))]
                if len(active) > 1:
                    out.append(viol("eo-two-active", "two subtrees active: %s" % active))
            prevW = dict(o.W)
            prev = o
            if out:
                break
        return out

    def nontrivial_key(self, s, lines):
        obs = parse_obs(lines)
        interrupted = False
        prev = None
        for o in obs:
            if o.op.startswith("stop") and prev is not None and any(v[0] == "R" for v in prev.N.values()):
                interrupted = True
            if o.op.startswith("tick") and interrupted and o.ok:
                return text_hash(s.text())
            prev = o
        return None

    def count(self, s, lines, stats):
        stats["scenarios"] = stats.get("scenarios", 0) + 1
        stats["ops"] = stats.get("ops", 0) + len(s.ops)
        k = s.meta.get("kind", "?")
        stats.setdefault("idioms", {})
        stats["idioms"][k] = stats["idioms"].get(k, 0) + 1
