"""Source drift: which functions of the files anchored by a property differ (as ASTs, docstrings and comments ignored)
from the tree the model was last validated against (harness/source_pins.json, written by tools/pin_sources.py).
Drift never decides a verdict; it makes the quick tier explore more (the correspondence has more to re-establish) and is
reported in the evidence."""
import ast
import hashlib
import json
import os
import re

from common import REPO, VERIF

PINS = os.path.join(VERIF, "harness", "source_pins.json")
ALWAYS = {"bt": ["py_trees/behaviour.py", "py_trees/composites.py", "py_trees/decorators.py", "py_trees/common.py"],
          "bb": ["py_trees/blackboard.py"], "name": ["py_trees/blackboard.py"]}


def _strip_doc(node):
    for n in ast.walk(node):
        body = getattr(n, "body", None)
        if isinstance(body, list) and body and isinstance(body[0], ast.Expr) \
                and isinstance(getattr(body[0], "value", None), ast.Constant) and isinstance(body[0].value.value, str):
            n.body = body[1:] or [ast.Pass()]
    return node


def digests(path):
    """{qualname: sha1 of the normalised AST} for every function / method and the module-level remainder"""
    src = open(path).read()
    tree = _strip_doc(ast.parse(src))
    out = {}

    def walk(node, prefix):
        for ch in ast.iter_child_nodes(node):
            if isinstance(ch, (ast.FunctionDef, ast.AsyncFunctionDef)):
                out[prefix + ch.name] = hashlib.sha1(ast.dump(ch).encode()).hexdigest()[:16]
                walk(ch, prefix + ch.name + ".")
            elif isinstance(ch, ast.ClassDef):
                hdr = ast.dump(ast.ClassDef(name=ch.name, bases=ch.bases, keywords=ch.keywords, body=[
                    b for b in ch.body if not isinstance(b, (ast.FunctionDef, ast.AsyncFunctionDef, ast.ClassDef))],
                    decorator_list=ch.decorator_list))
                out[prefix + ch.name + ".<class>"] = hashlib.sha1(hdr.encode()).hexdigest()[:16]
                walk(ch, prefix + ch.name + ".")
    walk(tree, "")
    top = [b for b in tree.body if not isinstance(b, (ast.FunctionDef, ast.AsyncFunctionDef, ast.ClassDef))]
    out["<module>"] = hashlib.sha1("".join(ast.dump(b) for b in top).encode()).hexdigest()[:16]
    return out


def files_of(pid, family):
    fs = list(ALWAYS.get(family, []))
    for l in open(os.path.join(VERIF, "properties.jsonl")):
        d = json.loads(l)
        if d["id"] == pid:
            fs += re.findall(r"py_trees/\w+\.py", json.dumps(d["anchors"]))
    return sorted(set(fs))


def snapshot(files):
    out = {}
    for f in files:
        p = os.path.join(REPO, f)
        if os.path.exists(p):
            try:
                out[f] = digests(p)
            except SyntaxError:
                out[f] = {"<unparsable>": "x"}
    return out


def drifted(pid, family):
    """['file::qualname', ...] that changed, appeared or disappeared since the pins were taken"""
    try:
        pins = json.load(open(PINS))
    except Exception:
        return ["<no pins>"]
    cur = snapshot(files_of(pid, family))
    out = []
    for f, now in cur.items():
        old = pins.get(f)
        if old is None:
            out.append(f + "::<unpinned file>")
            continue
        for q in sorted(set(old) | set(now)):
            if old.get(q) != now.get(q):
                out.append("%s::%s" % (f, q))
    return out
