"""Seeded generators of `bb` scenarios: histories of client operations on the blackboard."""
from common import Scenario

NAMESPACES = ["-", "-", "a", "/a", "a/b", "/a/"]
KEYS = ["k", "j", "b/k", "/a/k", "/z", "/a/b/j", "/a", "b", "kk", "_u", "j/"]      # "/a", "b": keys AND namespaces of other keys; "kk": "k" is a string prefix of it; "_u": looks like a private Python attribute; "j/": the relative key j written with a trailing separator
LOCS = ["/L", "/a/k", "/shared", "/z", "/{r}", "rel/loc"]      # "/{r}": a name with a brace field (names are opaque text); "rel/loc": a remap target spelt without a leading separator (taken verbatim)
VALS = ["i:0", "i:1", "i:2", "b:1", "b:0", "n", "t:x", "t:y", "o{p=i:1}", "o{p=i:2,q=o{r=t:z}}", "o{q=o{r=i:0}}",
        "o{q=o{r=o{u=i:5}}}"]
PATHS = ["p", "q.r", "q", "zz", "q.r.u", "q.zz.u"]


def absname(ns, key):
    """reference name resolution for well-formed names (used by the generator and the oracles)"""
    if key.startswith("/"):
        return key
    ns = ns if ns.startswith("/") else "/" + ns
    ns = ns if ns.endswith("/") else ns + "/"
    return ns + key.strip("/")


def client_ns(tok):
    ns = "" if tok == "-" else tok
    return ns if ns.startswith("/") else "/" + ns


class BbGen(object):
    def __init__(self, rng, strict, n_clients, stream, statics, sset=False):
        self.rng = rng
        self.strict = strict          # no self-aliasing / remap changes (so batch unregistration is deterministic)
        self.ns = []
        self.attempts = []            # per client: {abs key: loc}
        self.stream = stream
        self.statics = statics
        self.sset = sset
        self.n_clients = n_clients
        self.dead = set()             # clients that called unregister(): using them afterwards is out of scope

    def new(self):
        ns = self.rng.choice(NAMESPACES)
        self.ns.append(client_ns(ns))
        self.attempts.append({})
        return "new " + ns

    def key_for(self, c):
        rng = self.rng
        known = list(self.attempts[c].keys())
        if known and rng.random() < 0.7:
            k = rng.choice(known)
            # spell it relative to the namespace sometimes
            ns = self.ns[c] if self.ns[c].endswith("/") else self.ns[c] + "/"
            if k.startswith(ns) and rng.random() < 0.5:
                return k[len(ns):]
            return k
        return rng.choice(KEYS)

    def reg(self, c):
        rng = self.rng
        key = rng.choice(KEYS)
        a = absname(self.ns[c], key)
        remap = rng.choice(LOCS) if rng.random() < 0.3 else "-"
        loc = a if remap == "-" else remap
        att = self.attempts[c]
        if self.strict:
            if a in att and att[a] != loc:
                remap = "-" if att[a] == a else att[a]
                loc = att[a]
            if any(l == loc and k != a for k, l in att.items()):
                return None
        att[a] = loc
        acc = rng.choice(["R", "R", "W", "W", "X", "X", "bad"] if rng.random() < 0.15 else ["R", "R", "W", "W", "X"])
        return "reg %d %s %s %s %s" % (c, key, acc, "1" if rng.random() < 0.2 else "0", remap)

    def name_for(self, c):
        k = self.key_for(c)
        a = absname(self.ns[c], k)
        if any(x.startswith(a + "/") for x in self.attempts[c]) or a in ("/a", "/a/b", "/b"):
            return k      # a name that can be a namespace: no attribute path (a path into a namespace fetcher is not modelled)
        if self.rng.random() < 0.4:
            return k + "." + self.rng.choice(PATHS)
        return k

    def dotted(self, c):
        # namespaced dotted access: pick a registered key with at least one namespace component below the client's
        ns = self.ns[c] if self.ns[c].endswith("/") else self.ns[c] + "/"
        cands = [k for k in self.attempts[c] if k.startswith(ns) and "/" in k[len(ns):]]
        # a prefix that is itself a key of this client is read as that key's value, not as a namespace: the dotted
        # path would then continue into the stored object (outside the key-name algebra) - not generated
        def clash(k):
            parts = k[len(ns):].split("/")
            return any((ns + "/".join(parts[:i])) in self.attempts[c] for i in range(1, len(parts)))
        cands = [k for k in cands if not clash(k)]
        if not cands:
            return None
        k = self.rng.choice(cands)
        return k[len(ns):].replace("/", ",")

    def op(self):
        rng = self.rng
        n = len(self.ns)
        if n < self.n_clients and (n < 2 or rng.random() < 0.1):
            return self.new()
        live = [i for i in range(n) if i not in self.dead]
        if not live:
            return self.new()
        c = rng.choice(live)
        r = rng.random()
        v = rng.choice(VALS)
        if r < 0.22:
            return self.reg(c)
        if r < 0.30:
            return "setattr %d %s %s" % (c, self.key_for(c), v)
        if r < 0.38:
            return "getattr %d %s" % (c, self.key_for(c))
        if r < 0.50:
            nm = self.name_for(c)
            if "." in nm and "/" in nm.split(".")[0].lstrip("/") and rng.random() < 0.25:
                # the same nested name spelt with dots for the namespace separators too (ns.key.attr): for set() that is
                # the key `ns` with the attribute path key.attr - another variable altogether
                head, _, path = nm.partition(".")
                nm = head.lstrip("/").replace("/", ".") + "." + path
            return "set %d %s %s %s" % (c, nm, v, "1" if rng.random() < 0.65 else "0")
        if r < 0.60:
            return "get %d %s" % (c, self.name_for(c))
        if r < 0.66:
            return "exists %d %s" % (c, self.name_for(c))
        if r < 0.71:
            return "unset %d %s" % (c, self.key_for(c))
        if r < 0.76:
            return "unregkey %d %s %s" % (c, self.key_for(c), rng.choice("01"))
        if r < 0.78:
            return "unregall %d %s" % (c, rng.choice("01")) if self.strict else None
        if r < 0.795:
            if not self.strict:
                return None
            self.dead.add(c)
            self.n_clients += 1
            return "unreg %d %s" % (c, rng.choice("01"))
        if r < 0.83:
            d = self.dotted(c)
            if d is None:
                return None
            return "dotget %d %s" % (c, d) if rng.random() < 0.5 else "dotset %d %s %s" % (c, d, v)
        if r < 0.85:
            return "verify %d" % c
        if r < 0.87:
            return "isreg %d %s %s" % (c, self.key_for(c), rng.choice(["R", "W", "X", "-"]))
        if r < 0.90:
            x = rng.random()
            if x < 0.4:
                return "keys"
            if x < 0.7:
                return "keysre " + rng.choice(["a", "k", "/a/", "z", "shared", "b/", "L"])
            return "keysby " + (",".join(str(i) for i in range(n) if rng.random() < 0.5) or "-")
        if r < 0.94 and self.statics:
            x = rng.random()
            key = rng.choice(LOCS + ["/a/k", "/k", "/j"])
            if x < 0.3:
                return "sget " + key + rng.choice(["", "", ".p", ".q.r"])
            if x < 0.5:
                return "sexists " + key + rng.choice(["", ".p", ".q.r"])
            if x < 0.8:
                return "sunset " + key
            if self.sset:
                return "sset %s%s %s" % (key, rng.choice(["", "", ".p", ".q.r"]), v)
            return "sget " + key
        if r < 0.97 and self.stream:
            x = rng.random()
            if x < 0.6:
                return "stream on %d" % rng.choice([0, 1, 2, 3, 5, 50])
            if x < 0.8:
                return "stream off"
            return "stream clear"
        return "get %d %s" % (c, self.name_for(c))


def gen_scenario(rng, name, strict=None, stream=True, statics=True, min_ops=10, max_ops=60, sset=False):
    if strict is None:
        strict = rng.random() < 0.7
    g = BbGen(rng, strict, rng.choice([2, 3, 4]), stream, statics, sset)
    ops = []
    if stream and rng.random() < 0.6:
        ops.append("stream on %d" % rng.choice([0, 1, 2, 3, 5, 50]))
    n = rng.randint(min_ops, max_ops)
    while len(ops) < n:
        o = g.op()
        if o is not None:
            ops.append(o)
    return Scenario("bb", name, [], ops, {"strict": strict})
