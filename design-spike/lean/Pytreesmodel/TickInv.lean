import Pytreesmodel.Inv
set_option linter.unusedVariables false
set_option linter.unusedSimpArgs false
open Node

namespace Node

def ValidEnv (e : Env) : Prop := ∀ i, e.outcome i ≠ .invalid

/-- what a child tick function guarantees (the induction hypothesis, packaged) -/
def TickOK (t : Tick) : Prop :=
  ∀ c c' tr, wf c = true → t c = .ok (c', tr) → wf c' = true ∧ c'.status ≠ .invalid ∧ c'.id = c.id

theorem wfL_append {a b : List Node} : wfL (a ++ b) = true ↔ wfL a = true ∧ wfL b = true := by
  simp only [wfL_iff, List.mem_append]; constructor
  · intro h; exact ⟨fun c hc => h c (Or.inl hc), fun c hc => h c (Or.inr hc)⟩
  · rintro ⟨h1, h2⟩ c (hc | hc); exact h1 c hc; exact h2 c hc

theorem noRunL_append {a b : List Node} : noRunL (a ++ b) = true ↔ noRunL a = true ∧ noRunL b = true := by
  simp only [noRunL_iff, List.mem_append]; constructor
  · intro h; exact ⟨fun c hc => h c (Or.inl hc), fun c hc => h c (Or.inr hc)⟩
  · rintro ⟨h1, h2⟩ c (hc | hc); exact h1 c hc; exact h2 c hc

theorem onlyCur_append {cur} {a b : List Node} : onlyCur cur (a ++ b) = true ↔ onlyCur cur a = true ∧ onlyCur cur b = true := by
  simp only [onlyCur_iff, List.mem_append]; constructor
  · intro h; exact ⟨fun c hc => h c (Or.inl hc), fun c hc => h c (Or.inr hc)⟩
  · rintro ⟨h1, h2⟩ c (hc | hc); exact h1 c hc; exact h2 c hc

/-! ### the Sequence loop -/

theorem seqLoop_spec (t : Tick) (ht : TickOK t) :
    ∀ (cs done : List Node) (r : Option (Node × List Node)) (tr : List Ev),
      wfL cs = true → seqLoop t cs = .ok (done, r, tr) →
      wfL done = true ∧ noRunL done = true ∧
      (match r with
       | none => done.map Node.id = cs.map Node.id
       | some (c', rest) => wf c' = true ∧ c'.status ≠ .invalid ∧ c'.status ≠ .success ∧
            (done.map Node.id ++ c'.id :: rest.map Node.id = cs.map Node.id) ∧
            ∃ pre, cs = pre ++ rest ∧ pre.length = done.length + 1) := by
  intro cs
  induction cs with
  | nil => intro done r tr _ h; simp [seqLoop, pure, Except.pure] at h; obtain ⟨rfl, rfl, rfl⟩ := h; simp [wfL, noRunL]
  | cons c cs ih =>
    intro done r tr hw h
    simp only [wfL, Bool.and_eq_true] at hw
    simp only [seqLoop, bind, Except.bind] at h
    cases htc : t c with
    | error e => simp [htc] at h
    | ok v =>
      obtain ⟨c', trc⟩ := v
      have hc := ht c c' trc hw.1 htc
      simp only [htc] at h
      by_cases hs : c'.status = .success
      · simp only [hs, ne_eq, not_true_eq_false, ↓reduceIte] at h
        cases hl : seqLoop t cs with
        | error e => simp [hl] at h
        | ok v2 =>
          obtain ⟨done2, r2, tr2⟩ := v2
          simp only [hl, pure, Except.pure, Except.ok.injEq, Prod.mk.injEq] at h
          obtain ⟨rfl, rfl, rfl⟩ := h
          have ih2 := ih done2 r2 tr2 hw.2 hl
          refine ⟨by simp [wfL, hc.1, ih2.1], by simp [noRunL, ih2.2.1, wf_noRun hc.1 (by simp [hs])], ?_⟩
          cases r2 with
          | none => simpa [hc.2.2] using ih2.2.2
          | some p =>
            obtain ⟨c2, rest⟩ := p
            obtain ⟨h1, h2, h3, h4, pre, h5, h6⟩ := ih2.2.2
            refine ⟨h1, h2, h3, by simp [hc.2.2, h4], c :: pre, by simp [h5], by simp [h6]⟩
      · simp only [ne_eq, hs, not_false_eq_true, ↓reduceIte, pure, Except.pure, Except.ok.injEq, Prod.mk.injEq] at h
        obtain ⟨rfl, rfl, rfl⟩ := h
        refine ⟨by simp [wfL], by simp [noRunL], hc.1, hc.2.1, hs, by simp [hc.2.2], [c], by simp, by simp⟩

/-- splitting at an id keeps the list -/
theorem splitAtId_spec : ∀ (cid : Nat) (cs a b : List Node), splitAtId cid cs = some (a, b) →
    cs = a ++ b ∧ (∀ x ∈ a, x.id ≠ cid) ∧ ∃ c rest, b = c :: rest ∧ c.id = cid := by
  intro cid cs
  induction cs with
  | nil => intro a b h; simp [splitAtId] at h
  | cons c cs ih =>
    intro a b h
    simp only [splitAtId] at h
    by_cases hc : c.id = cid
    · simp [hc] at h; obtain ⟨rfl, rfl⟩ := h; exact ⟨by simp, by simp, c, cs, rfl, hc⟩
    · simp only [hc, ↓reduceIte, Option.map_eq_some_iff] at h
      obtain ⟨⟨a', b'⟩, h1, h2⟩ := h
      simp only [Prod.mk.injEq] at h2; obtain ⟨rfl, rfl⟩ := h2
      obtain ⟨e1, e2, e3⟩ := ih a' b' h1
      exact ⟨by simp [e1], by intro x hx; simp at hx; rcases hx with rfl | hx; exact hc; exact e2 x hx, e3⟩

/-! ### the Selector loop -/

theorem selLoop_spec (t : Tick) (ht : TickOK t) :
    ∀ (cs failed : List Node) (r : Option (Node × List Node)) (tr : List Ev),
      wfL cs = true → selLoop t cs = .ok (failed, r, tr) →
      wfL failed = true ∧ noRunL failed = true ∧
      (match r with
       | none => failed.map Node.id = cs.map Node.id
       | some (c', rest) => wf c' = true ∧ (c'.status = .running ∨ c'.status = .success) ∧
            (failed.map Node.id ++ c'.id :: rest.map Node.id = cs.map Node.id) ∧
            ∃ pre, cs = pre ++ rest ∧ pre.length = failed.length + 1) := by
  intro cs
  induction cs with
  | nil => intro done r tr _ h; simp [selLoop, pure, Except.pure] at h; obtain ⟨rfl, rfl, rfl⟩ := h; simp [wfL, noRunL]
  | cons c cs ih =>
    intro done r tr hw h
    simp only [wfL, Bool.and_eq_true] at hw
    simp only [selLoop, bind, Except.bind] at h
    cases htc : t c with
    | error e => simp [htc] at h
    | ok v =>
      obtain ⟨c', trc⟩ := v
      have hc := ht c c' trc hw.1 htc
      simp only [htc] at h
      by_cases hs : c'.status = .running ∨ c'.status = .success
      · simp only [hs, ↓reduceIte, pure, Except.pure, Except.ok.injEq, Prod.mk.injEq] at h
        obtain ⟨rfl, rfl, rfl⟩ := h
        refine ⟨by simp [wfL], by simp [noRunL], hc.1, hs, by simp [hc.2.2], [c], by simp, by simp⟩
      · simp only [hs, ↓reduceIte] at h
        cases hl : selLoop t cs with
        | error e => simp [hl] at h
        | ok v2 =>
          obtain ⟨done2, r2, tr2⟩ := v2
          simp only [hl, pure, Except.pure, Except.ok.injEq, Prod.mk.injEq] at h
          obtain ⟨rfl, rfl, rfl⟩ := h
          have ih2 := ih done2 r2 tr2 hw.2 hl
          have hnr : c'.status ≠ .running := fun h => hs (Or.inl h)
          refine ⟨by simp [wfL, hc.1, ih2.1], by simp [noRunL, ih2.2.1, wf_noRun hc.1 hnr], ?_⟩
          cases r2 with
          | none => simpa [hc.2.2] using ih2.2.2
          | some p =>
            obtain ⟨c2, rest⟩ := p
            obtain ⟨h1, h2, h4, pre, h5, h6⟩ := ih2.2.2
            refine ⟨h1, h2, by simp [hc.2.2, h4], c :: pre, by simp [h5], by simp [h6]⟩

/-! ### the Parallel sweep -/

theorem parLoop_spec (t : Tick) (ht : TickOK t) (sync : Bool) :
    ∀ (cs cs' : List Node) (tr : List Ev),
      wfL cs = true → parLoop t sync cs = .ok (cs', tr) → wfL cs' = true := by
  intro cs
  induction cs with
  | nil => intro cs' tr _ h; simp [parLoop, pure, Except.pure] at h; obtain ⟨rfl, rfl⟩ := h; simp [wfL]
  | cons c cs ih =>
    intro cs' tr hw h
    simp only [wfL, Bool.and_eq_true] at hw
    simp only [parLoop, bind, Except.bind] at h
    split at h
    · cases hl : parLoop t sync cs with
      | error e => simp [hl] at h
      | ok v2 =>
        obtain ⟨cs2, tr2⟩ := v2
        simp only [hl, pure, Except.pure, Except.ok.injEq, Prod.mk.injEq] at h
        obtain ⟨rfl, rfl⟩ := h
        simp [wfL, hw.1, ih cs2 tr2 hw.2 hl]
    · cases htc : t c with
      | error e => simp [htc] at h
      | ok v =>
        obtain ⟨c', trc⟩ := v
        have hc := ht c c' trc hw.1 htc
        simp only [htc] at h
        cases hl : parLoop t sync cs with
        | error e => simp [hl] at h
        | ok v2 =>
          obtain ⟨cs2, tr2⟩ := v2
          simp only [hl, pure, Except.pure, Except.ok.injEq, Prod.mk.injEq] at h
          obtain ⟨rfl, rfl⟩ := h
          simp [wfL, hc.1, ih cs2 tr2 hw.2 hl]

theorem stopRunning_wfL : ∀ cs : List Node, wfL cs = true → wfL (stopRunning cs).1 = true ∧ noRunL (stopRunning cs).1 = true
| [], _ => by simp [stopRunning, wfL, noRunL]
| c :: cs, h => by
    simp only [wfL, Bool.and_eq_true] at h
    have ih := stopRunning_wfL cs h.2
    simp only [stopRunning]
    split
    · simp [wfL, noRunL, stopInv_wf c h.1, stopInv_noRun c h.1, ih.1, ih.2]
    · rename_i hr
      simp [wfL, noRunL, h.1, wf_noRun h.1 hr, ih.1, ih.2]

theorem stopInvAll_spec : ∀ cs : List Node, wfL cs = true →
    wfL (stopInvAll cs).1 = true ∧ noRunL (stopInvAll cs).1 = true ∧ (stopInvAll cs).1.map Node.id = cs.map Node.id
| [], _ => by simp [stopInvAll, wfL, noRunL]
| c :: cs, h => by
    simp only [wfL, Bool.and_eq_true] at h
    have ih := stopInvAll_spec cs h.2
    simp [stopInvAll, wfL, noRunL, stopInv_wf c h.1, stopInv_noRun c h.1, ih.1, ih.2.1, ih.2.2, stopInv_id]

theorem parResult_ne_invalid (p : Policy) (cs : List Node) : (parResult p cs).1 ≠ .invalid := by
  unfold parResult
  split
  · simp
  · split
    · split <;> simp
    · split <;> simp
    · split <;> simp

theorem decUpdate_ne_invalid (e : Env) (k : DecKind) (s : Status) (hs : s ≠ .invalid)
    (hk : ∀ b f, k = .oneShot b (some f) → f ≠ .invalid) : (decUpdate e k s).2.1 ≠ .invalid := by
  cases k <;> simp only [decUpdate]
  case inverter => cases s <;> simp_all
  case runningIsFailure => split <;> simp_all
  case runningIsSuccess => split <;> simp_all
  case failureIsSuccess => split <;> simp_all
  case failureIsRunning => split <;> simp_all
  case successIsFailure => split <;> simp_all
  case successIsRunning => split <;> simp_all
  case passThrough => simpa using hs
  case condition => split <;> simp
  case retry n f => cases s <;> simp <;> split <;> simp
  case repeat_ n f => cases s <;> simp <;> split <;> simp
  case timeout d fin => split <;> simp_all
  case guard => simpa using hs
  case oneShot b fin => cases fin <;> simp_all
  case count => simpa using hs

end Node
