/- spike: C15 name algebra over List Char -/
namespace Names
def sep : Char := '/'

def stripL (l : List Char) : List Char := l.dropWhile (· == sep)
def stripR (l : List Char) : List Char := (l.reverse.dropWhile (· == sep)).reverse
/-- Python `key.strip("/")` -/
def strip (l : List Char) : List Char := stripR (stripL l)
/-- namespace with a trailing separator ensured -/
def norm (ns : List Char) : List Char := if ns.getLast? = some sep then ns else ns ++ [sep]

def absName (ns key : List Char) : List Char :=
  if key.head? = some sep then key else norm ns ++ strip key

def relName (ns key : List Char) : Option (List Char) :=
  if key.head? ≠ some sep then some key
  else if (norm ns).isPrefixOf key then some (key.drop (norm ns).length) else none

/-- well-formed relative key: non-empty, no leading or trailing separator -/
def WFRel (k : List Char) : Prop := k ≠ [] ∧ k.head? ≠ some sep ∧ k.getLast? ≠ some sep
def WFNs (ns : List Char) : Prop := ns.head? = some sep

theorem stripL_of_head {k : List Char} (h : k.head? ≠ some sep) : stripL k = k := by
  cases k with
  | nil => rfl
  | cons a t =>
    have : a ≠ sep := by simpa using h
    have hb : (a == sep) = false := by simpa using this
    simp [stripL, List.dropWhile, hb]

theorem stripR_of_last {k : List Char} (h : k.getLast? ≠ some sep) : stripR k = k := by
  unfold stripR
  have : k.reverse.head? ≠ some sep := by simpa using h
  have := stripL_of_head this
  unfold stripL at this
  rw [this]; simp

theorem strip_wf {k : List Char} (h : WFRel k) : strip k = k := by
  unfold strip; rw [stripL_of_head h.2.1, stripR_of_last h.2.2]

theorem norm_head {ns : List Char} (h : WFNs ns) : (norm ns).head? = some sep := by
  unfold norm; split
  · exact h
  · cases ns with
    | nil => simp [WFNs] at h
    | cons a t => simpa [WFNs] using h

theorem norm_ne_nil (ns : List Char) : norm ns ≠ [] := by
  unfold norm; split
  · rename_i h; intro e; simp [e] at h
  · simp

theorem abs_absolute (ns k : List Char) (h : k.head? = some sep) : absName ns k = k := by
  simp [absName, h]

theorem abs_place (ns k : List Char) (h : WFRel k) : absName ns k = norm ns ++ k := by
  simp [absName, h.2.1, strip_wf h]

theorem abs_head {ns k : List Char} (hn : WFNs ns) : (absName ns k).head? = some sep := by
  unfold absName; split
  · assumption
  · have := norm_head hn
    have hne := norm_ne_nil ns
    cases hnn : norm ns with
    | nil => exact absurd hnn hne
    | cons a t => rw [hnn] at this; simpa using this

theorem abs_idem (ns k : List Char) (hn : WFNs ns) : absName ns (absName ns k) = absName ns k :=
  abs_absolute ns _ (abs_head hn)

theorem norm_norm (ns : List Char) : norm (norm ns) = norm ns := by
  unfold norm; split
  · rename_i h; simp [h]
  · simp

theorem abs_trailing (ns k : List Char) : absName (norm ns) k = absName ns k := by
  simp [absName, norm_norm]

theorem rel_inverse (ns k : List Char) (hn : WFNs ns) (h : WFRel k) : relName ns (absName ns k) = some k := by
  have hh : (absName ns k).head? = some sep := abs_head hn
  rw [abs_place ns k h] at hh ⊢
  unfold relName
  simp [hh]

end Names
