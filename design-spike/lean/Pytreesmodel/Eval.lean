import Pytreesmodel.Tree
open Node
def env1 : Env := ⟨fun i => if i == 2 then .running else if i == 4 then .failure else .success, fun _ => true, 0⟩
def t1 : Node := .sel 0 false .invalid none [.seq 1 true .invalid none [.leaf 2 .invalid [], .leaf 3 .invalid []], .dec 5 .inverter .invalid (.leaf 4 .invalid [])]
#eval tick env1 t1
#eval (do let (n, _) ← tick env1 t1; tick ⟨fun _ => .failure, fun _ => true, 0⟩ n)
example : (tick env1 t1).toOption.map (fun r => r.1.status) = some .running := by decide
