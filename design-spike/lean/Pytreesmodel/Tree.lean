/-
  Prototype of the behaviour-tree interpreter model (scratch; validates DESIGN.md §4.1).
  Mirrors py_trees/behaviour.py, composites.py, decorators.py at the pinned commit.
-/

inductive Status | success | failure | running | invalid
deriving DecidableEq, Repr, Inhabited

inductive LEv | init | upd (s : Status) | term (s : Status)
deriving DecidableEq, Repr

inductive Ev
| enter (i : Nat) | init (i : Nat) | upd (i : Nat) (s : Status) | term (i : Nat) (s : Status)
| yld (i : Nat) (s : Status)
deriving DecidableEq, Repr

inductive Policy | onAll (sync : Bool) | onOne | onSelected (ids : List Nat) (sync : Bool)
deriving DecidableEq, Repr

def Policy.sync : Policy → Bool
| .onAll s => s | .onOne => false | .onSelected _ s => s

inductive DecKind
| inverter | runningIsFailure | runningIsSuccess | failureIsSuccess | failureIsRunning
| successIsFailure | successIsRunning | passThrough
| condition (s : Status)
| retry (n : Nat) (failures : Nat)
| repeat_ (n : Int) (succ : Nat)
| timeout (dur : Int) (finish : Int)
| guard (gid : Nat)
| oneShot (both : Bool) (final : Option Status)
| count (total running success failure interrupt : Nat)
deriving DecidableEq, Repr

inductive Node
| leaf (id : Nat) (st : Status) (log : List LEv)
| seq  (id : Nat) (mem : Bool) (st : Status) (cur : Option Nat) (cs : List Node)
| sel  (id : Nat) (mem : Bool) (st : Status) (cur : Option Nat) (cs : List Node)
| par  (id : Nat) (pol : Policy) (st : Status) (cur : Option Nat) (cs : List Node)
| dec  (id : Nat) (k : DecKind) (st : Status) (c : Node)
deriving Repr

inductive Err | internal | policy
deriving DecidableEq, Repr

structure Env where
  outcome : Nat → Status
  guard : Nat → Bool
  now : Int

namespace Node

def status : Node → Status
| leaf _ s _ => s | seq _ _ s _ _ => s | sel _ _ s _ _ => s | par _ _ s _ _ => s | dec _ _ s _ => s

def id : Node → Nat
| leaf i _ _ => i | seq i _ _ _ _ => i | sel i _ _ _ _ => i | par i _ _ _ _ => i | dec i _ _ _ => i

/-- index of the child with the given id (Python: `children.index(current_child)`). -/
def indexOf (cid : Nat) : List Node → Option Nat
| [] => none
| c :: cs => if c.id = cid then some 0 else (indexOf cid cs).map (· + 1)

/-! ### decorator callbacks -/

/-- `initialise()` of a decorator (called when status ≠ RUNNING). -/
def decInit (e : Env) : DecKind → DecKind
| .retry n _ => .retry n 0
| .repeat_ n _ => .repeat_ n 0
| .timeout d _ => .timeout d (e.now + d)
| k => k

/-- `terminate(new_status)` of a decorator. -/
def decTerminate (s : Status) : DecKind → DecKind
| .oneShot both final =>
    if final.isNone && (s = .success || (both && s = .failure)) then .oneShot both (some s)
    else .oneShot both final
| .count t r su f i =>
    match s with
    | .invalid => .count t r su f (i+1)
    | .success => .count t r (su+1) f i
    | .failure => .count t r su (f+1) i
    | .running => .count t r su f i
| k => k

/-- `update()` of a decorator given the child's status; third component: the update itself
    cancels the child (`Timeout`). -/
def decUpdate (e : Env) (k : DecKind) (cs : Status) : DecKind × Status × Bool :=
  match k with
  | .inverter => (k, (match cs with | .success => .failure | .failure => .success | x => x), false)
  | .runningIsFailure => (k, (if cs = .running then .failure else cs), false)
  | .runningIsSuccess => (k, (if cs = .running then .success else cs), false)
  | .failureIsSuccess => (k, (if cs = .failure then .success else cs), false)
  | .failureIsRunning => (k, (if cs = .failure then .running else cs), false)
  | .successIsFailure => (k, (if cs = .success then .failure else cs), false)
  | .successIsRunning => (k, (if cs = .success then .running else cs), false)
  | .passThrough => (k, cs, false)
  | .condition s => (k, (if cs = s then .success else .running), false)
  | .retry n f =>
      match cs with
      | .failure => if f + 1 < n then (.retry n (f+1), .running, false) else (.retry n (f+1), .failure, false)
      | .running => (k, .running, false)
      | _ => (k, .success, false)
  | .repeat_ n s =>
      match cs with
      | .failure => (k, .failure, false)
      | .success => if ((s + 1 : Nat) : Int) = n then (.repeat_ n (s+1), .success, false)
                    else (.repeat_ n (s+1), .running, false)
      | _ => (k, .running, false)
  | .timeout _ fin =>
      if cs = .running ∧ e.now > fin then (k, .failure, true) else (k, cs, false)
  | .guard _ => (k, cs, false)
  | .oneShot _ final => (k, (match final with | some s => s | none => cs), false)
  | .count t r su f i => (.count (t+1) (if cs = .running then r+1 else r) su f i, cs, false)

/-! ### stop -/

mutual
/-- `stop(INVALID)` -/
def stopInv : Node → Node × List Ev
| leaf i _ log => (leaf i .invalid (log ++ [.term .invalid]), [.term i .invalid])
| seq i m _ _ cs => let r := stopInvNonInvalid cs; (seq i m .invalid none r.1, r.2)
| sel i m _ _ cs => let r := stopInvNonInvalid cs; (sel i m .invalid none r.1, r.2)
| par i p _ _ cs =>
    -- Parallel.stop: first the RUNNING children, then Composite.stop(INVALID) the other non-INVALID ones
    let r := stopInvPar cs
    (par i p .invalid none r.1, r.2.1 ++ r.2.2)
| dec i k _ c =>
    -- Decorator.stop(INVALID): terminate; child.stop(INVALID) unconditionally
    let r := stopInv c
    (dec i (decTerminate .invalid k) .invalid r.1, r.2)
/-- `for child in children: if child.status != INVALID: child.stop(INVALID)` -/
def stopInvNonInvalid : List Node → List Node × List Ev
| [] => ([], [])
| c :: cs =>
    let r := if c.status ≠ .invalid then stopInv c else (c, [])
    let rs := stopInvNonInvalid cs
    (r.1 :: rs.1, r.2 ++ rs.2)
/-- both passes of `Parallel.stop(INVALID)`; events of pass 1 (RUNNING children) and pass 2 -/
def stopInvPar : List Node → List Node × List Ev × List Ev
| [] => ([], [], [])
| c :: cs =>
    let rs := stopInvPar cs
    if c.status = .running then let r := stopInv c; (r.1 :: rs.1, r.2 ++ rs.2.1, rs.2.2)
    else if c.status ≠ .invalid then let r := stopInv c; (r.1 :: rs.1, rs.2.1, r.2 ++ rs.2.2)
    else (c :: rs.1, rs.2.1, rs.2.2)
end

/-- `for child in children: if child.status == RUNNING: child.stop(INVALID)` -/
def stopRunning : List Node → List Node × List Ev
| [] => ([], [])
| c :: cs =>
    let r := if c.status = .running then stopInv c else (c, [])
    let rs := stopRunning cs
    (r.1 :: rs.1, r.2 ++ rs.2)

/-- `stop(new_status)` for SUCCESS / FAILURE (completion). -/
def stopDone (s : Status) : Node → Node × List Ev
| leaf i _ log => (leaf i s (log ++ [.term s]), [.term i s])
| seq i m _ cur cs => (seq i m s cur cs, [])
| sel i m _ cur cs => (sel i m s cur cs, [])
| par i p _ cur cs => let r := stopRunning cs; (par i p s cur r.1, r.2)
| dec i k _ c =>
    let r := if c.status = .running then stopInv c else (c, [])
    (dec i (decTerminate s k) s r.1, r.2)

def stop (s : Status) (n : Node) : Node × List Ev :=
  if s = .invalid then stopInv n else stopDone s n

/-! ### tick -/

abbrev Res := Except Err (Node × List Ev)
abbrev Tick := Node → Res

/-- split the children at the child with id `cid` (Python: `children.index(current_child)`):
    `(before, from)` with `from` starting at that child. -/
def splitAtId (cid : Nat) : List Node → Option (List Node × List Node)
| [] => none
| c :: cs => if c.id = cid then some ([], c :: cs) else (splitAtId cid cs).map (fun (a, b) => (c :: a, b))

/-- Sequence main loop: tick children in order while they return SUCCESS. Result: the ticked
    children that returned SUCCESS and, if one did not, that child and the untouched rest. -/
def seqLoop (t : Tick) : List Node → Except Err (List Node × Option (Node × List Node) × List Ev)
| [] => pure ([], none, [])
| c :: cs => do
    let (c', tr) ← t c
    if c'.status ≠ .success then pure ([], some (c', cs), tr)
    else
      let (done, r, tr') ← seqLoop t cs
      pure (c' :: done, r, tr ++ tr')

/-- Selector main loop: tick in order until RUNNING or SUCCESS. Result: the ticked children that
    failed and, if one did not, that child and the untouched rest. -/
def selLoop (t : Tick) : List Node → Except Err (List Node × Option (Node × List Node) × List Ev)
| [] => pure ([], none, [])
| c :: cs => do
    let (c', tr) ← t c
    if c'.status = .running ∨ c'.status = .success then pure ([], some (c', cs), tr)
    else
      let (done, r, tr') ← selLoop t cs
      pure (c' :: done, r, tr ++ tr')

/-- Parallel sweep: tick every child (skipping SUCCESS ones when synchronised). -/
def parLoop (t : Tick) (sync : Bool) : List Node → Except Err (List Node × List Ev)
| [] => pure ([], [])
| c :: cs => do
    if sync && c.status = .success then
      let (cs', tr') ← parLoop t sync cs
      pure (c :: cs', tr')
    else
      let (c', tr) ← t c
      let (cs', tr') ← parLoop t sync cs
      pure (c' :: cs', tr ++ tr')

def validPolicy (p : Policy) (cs : List Node) : Bool :=
  match p with
  | .onSelected ids _ => !ids.isEmpty && ids.all (fun i => cs.any (fun c => c.id = i))
  | _ => true

def lastId? (cs : List Node) : Option Nat := cs.getLast?.map Node.id

def statusOfId (i : Nat) (cs : List Node) : Option Status := (cs.find? (fun c => c.id = i)).map Node.status

/-- new status and current child of a Parallel after the sweep. -/
def parResult (p : Policy) (cs : List Node) : Status × Option Nat :=
  match cs.find? (fun c => c.status = .failure) with
  | some f => (.failure, some f.id)
  | none =>
    match p with
    | .onAll _ => if cs.all (fun c => c.status = .success) then (.success, lastId? cs) else (.running, lastId? cs)
    | .onOne =>
        match (cs.filter (fun c => c.status = .success)).getLast? with
        | some s => (.success, some s.id)
        | none => (.running, lastId? cs)
    | .onSelected ids _ =>
        if ids.all (fun i => statusOfId i cs = some .success) then (.success, ids.getLast?) else (.running, lastId? cs)

/-- unconditional `child.stop(INVALID)` for every listed child (memory Selector, children before the start). -/
def stopInvAll : List Node → List Node × List Ev
| [] => ([], [])
| c :: cs => let r := stopInv c; let rs := stopInvAll cs; (r.1 :: rs.1, r.2 ++ rs.2)

/-- Sequence entry (`Sequence.tick`, "initialise" block): children before the starting point,
    children from the starting point on (after the entry reset), reset events. -/
def seqEntry (st : Status) (m : Bool) (cur : Option Nat) (cs : List Node) :
    Except Err (List Node × List Node × List Ev) :=
  if st ≠ .running then
    let r := stopInvNonInvalid cs
    pure ([], r.1, r.2)
  else if m then
    match cur.bind (fun c => splitAtId c cs) with
    | some (a, b) => pure (a, b, [])
    | none => throw Err.internal            -- assert / ValueError in Python
  else pure ([], cs, [])

/-- Sequence "actual work" block. -/
def seqRun (t : Tick) (i : Nat) (m : Bool) (before rest : List Node) (trReset : List Ev) : Res := do
  let (done, r, tr) ← seqLoop t rest
  match r with
  | some (c', untouched) =>
      -- halt on the first non-SUCCESS child; without memory kill the remainder
      let (tail, trKill) := if m then (untouched, []) else stopInvNonInvalid untouched
      pure (seq i m c'.status (some c'.id) (before ++ done ++ c' :: tail),
            [.enter i] ++ trReset ++ tr ++ trKill ++ [.yld i c'.status])
  | none =>
      pure (seq i m .success (lastId? (before ++ done)) (before ++ done),
            [.enter i] ++ trReset ++ tr ++ [.yld i .success])

/-- Selector entry: remembered selection (`previous`), children before the start (stopped,
    memory only), children from the start on, events. -/
def selEntry (st : Status) (m : Bool) (cur : Option Nat) (cs : List Node) :
    Except Err (Option Nat × List Node × List Node × List Ev) :=
  let cur0 := if st ≠ .running then cs.head?.map Node.id else cur
  if m then
    match cur0.bind (fun c => splitAtId c cs) with
    | some (a, b) => let r := stopInvAll a; pure (cur0, r.1, b, r.2)
    | none => throw Err.internal
  else pure (cur0, [], cs, [])

def selRun (t : Tick) (i : Nat) (m : Bool) (cur0 : Option Nat) (before rest : List Node) (trPre : List Ev) : Res := do
  let (failed, r, tr) ← selLoop t rest
  match r with
  | some (c', untouched) =>
      -- selected; if the selection changed invalidate everything at a lower priority
      let (tail, trInv) := if cur0 = some c'.id then (untouched, []) else stopInvNonInvalid untouched
      pure (sel i m c'.status (some c'.id) (before ++ failed ++ c' :: tail),
            [.enter i] ++ trPre ++ tr ++ trInv ++ [.yld i c'.status])
  | none =>
      pure (sel i m .failure (lastId? (before ++ failed)) (before ++ failed),
            [.enter i] ++ trPre ++ tr ++ [.yld i .failure])

def parRun (t : Tick) (i : Nat) (p : Policy) (cs0 : List Node) (trReset : List Ev) : Res := do
  let (cs1, tr) ← parLoop t p.sync cs0
  let (ns, ncur) := parResult p cs1
  if ns ≠ .running then
    let r := stopRunning cs1
    pure (par i p ns ncur r.1, [.enter i] ++ trReset ++ tr ++ r.2 ++ [.yld i ns])
  else
    pure (par i p ns ncur cs1, [.enter i] ++ trReset ++ tr ++ [.yld i ns])

/-- `Decorator.tick` -/
def decRun (t : Tick) (e : Env) (i : Nat) (k : DecKind) (st : Status) (c : Node) : Res := do
  let k0 := if st ≠ .running then decInit e k else k
  let (c1, tr) ← t c
  let (k1, ns, cancel) := decUpdate e k0 c1.status
  let (c2, trCancel) := if cancel then stopInv c1 else (c1, [])
  if ns ≠ .running then
    -- Decorator.stop(ns): terminate; stop a RUNNING child
    let (c3, trStop) := if c2.status = .running then stopInv c2 else (c2, [])
    pure (dec i (decTerminate ns k1) ns c3, [.enter i] ++ tr ++ trCancel ++ trStop ++ [.yld i ns])
  else
    pure (dec i k1 ns c2, [.enter i] ++ tr ++ trCancel ++ [.yld i ns])

/-- a decorator finishing without ticking its child (guard false / latched one-shot) -/
def decBounce (i : Nat) (k : DecKind) (s : Status) (c : Node) : Res :=
  let (c1, trStop) := if c.status = .running then stopInv c else (c, [])
  pure (dec i (decTerminate s k) s c1, [.enter i] ++ trStop ++ [.yld i s])

def tickF : Nat → Env → Node → Res
| 0, _, _ => .error .internal       -- out of fuel (unreachable with fuel > height)
| f+1, e, n =>
  match n with
  | leaf i st log =>
      let o := e.outcome i
      let log1 := if st ≠ .running then log ++ [.init] else log
      let ev1 := if st ≠ .running then [Ev.init i] else []
      let log2 := log1 ++ [.upd o]
      let log3 := if o ≠ .running then log2 ++ [.term o] else log2
      let ev3 := if o ≠ .running then [Ev.term i o] else []
      pure (leaf i o log3, [.enter i] ++ ev1 ++ [.upd i o] ++ ev3 ++ [.yld i o])
  | seq i m st cur cs => do
      let (before, rest, trReset) ← seqEntry st m cur cs
      if cs.isEmpty then
        pure (seq i m .success none cs, [.enter i] ++ trReset ++ [.yld i .success])
      else seqRun (tickF f e) i m before rest trReset
  | sel i m st cur cs => do
      if cs.isEmpty then
        pure (sel i m .failure none cs, [.enter i, .yld i .failure])
      else
        let (cur0, before, rest, trPre) ← selEntry st m cur cs
        selRun (tickF f e) i m cur0 before rest trPre
  | par i p st _cur cs => do
      if !validPolicy p cs then throw Err.policy
      let (cs0, trReset) := if st ≠ .running then stopInvNonInvalid cs else (cs, [])
      if cs0.isEmpty then
        pure (par i p .success none cs0, [.enter i] ++ trReset ++ [.yld i .success])
      else parRun (tickF f e) i p cs0 trReset
  | dec i k st c =>
      match k with
      | .guard g => if e.guard g then decRun (tickF f e) e i k st c else decBounce i k .failure c
      | .oneShot _ (some fin) => decBounce i k fin c
      | _ => decRun (tickF f e) e i k st c

mutual
def height : Node → Nat
| leaf _ _ _ => 0
| seq _ _ _ _ cs => heightL cs + 1
| sel _ _ _ _ cs => heightL cs + 1
| par _ _ _ _ cs => heightL cs + 1
| dec _ _ _ c => height c + 1
def heightL : List Node → Nat
| [] => 0
| c :: cs => max (height c) (heightL cs)
end

def tick (e : Env) (n : Node) : Res := tickF (height n + 1) e n

end Node
