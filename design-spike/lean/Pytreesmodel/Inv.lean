import Pytreesmodel.Tree
set_option linter.unusedVariables false
set_option linter.unusedSimpArgs false
open Node

namespace Node

mutual
def noRun : Node → Bool
| leaf _ s _ => s != .running
| seq _ _ s _ cs => s != .running && noRunL cs
| sel _ _ s _ cs => s != .running && noRunL cs
| par _ _ s _ cs => s != .running && noRunL cs
| dec _ _ s c => s != .running && noRun c
def noRunL : List Node → Bool
| [] => true
| c :: cs => noRun c && noRunL cs
end

/-- decorator state sanity: a latched one-shot status is SUCCESS or FAILURE -/
def decOK : DecKind → Bool
| .oneShot _ (some f) => f == .success || f == .failure
| _ => true

theorem decOK_terminate (s : Status) (k : DecKind) (h : decOK k = true) : decOK (decTerminate s k) = true := by
  cases k with
  | oneShot b fin =>
    cases fin with
    | some f => simpa [decTerminate] using h
    | none => cases s <;> cases b <;> simp [decTerminate, decOK]
  | count t r su f i => cases s <;> simp [decTerminate, decOK]
  | _ => simp [decTerminate, decOK]

theorem decOK_init (e : Env) (k : DecKind) (h : decOK k = true) : decOK (decInit e k) = true := by
  cases k <;> simp_all [decInit, decOK]

theorem decOK_update (e : Env) (k : DecKind) (s : Status) (h : decOK k = true) : decOK (decUpdate e k s).1 = true := by
  cases k with
  | retry n f => cases s <;> simp only [decUpdate] <;> (try split) <;> simp [decOK]
  | repeat_ n f => cases s <;> simp only [decUpdate] <;> (try split) <;> simp [decOK]
  | timeout d fin => simp only [decUpdate]; split <;> simp [decOK]
  | oneShot b fin => simpa [decUpdate] using h
  | _ => simp [decUpdate, decOK]

/-- every child that contains a RUNNING node is the current child -/
def onlyCur (cur : Option Nat) : List Node → Bool
| [] => true
| c :: cs => (noRun c || cur == some c.id) && onlyCur cur cs

mutual
def wf : Node → Bool
| leaf _ _ _ => true
| seq _ _ s cur cs => wfL cs && (s == .running || noRunL cs) && onlyCur cur cs && decide ((cs.map Node.id).Nodup)
| sel _ _ s cur cs => wfL cs && (s == .running || noRunL cs) && onlyCur cur cs && decide ((cs.map Node.id).Nodup)
| par _ _ s _ cs => wfL cs && (s == .running || noRunL cs)
| dec _ k s c => wf c && (s == .running || noRun c) && decOK k
def wfL : List Node → Bool
| [] => true
| c :: cs => wf c && wfL cs
end

theorem noRunL_iff {cs : List Node} : noRunL cs = true ↔ ∀ c ∈ cs, noRun c = true := by
  induction cs with
  | nil => simp [noRunL]
  | cons c cs ih => simp [noRunL, ih]

theorem wfL_iff {cs : List Node} : wfL cs = true ↔ ∀ c ∈ cs, wf c = true := by
  induction cs with
  | nil => simp [wfL]
  | cons c cs ih => simp [wfL, ih]

theorem onlyCur_iff {cur : Option Nat} {cs : List Node} :
    onlyCur cur cs = true ↔ ∀ c ∈ cs, noRun c = true ∨ cur = some c.id := by
  induction cs with
  | nil => simp [onlyCur]
  | cons c cs ih => simp [onlyCur, ih]

theorem noRun_status {n : Node} (h : noRun n = true) : n.status ≠ .running := by
  cases n <;> simp_all [noRun, status]

/-- a well-formed node that is not RUNNING contains no RUNNING node -/
theorem wf_noRun {n : Node} (h : wf n = true) (hs : n.status ≠ .running) : noRun n = true := by
  cases n <;> simp_all [wf, noRun, status]

/-! ### stopInv -/

theorem stopInv_status (n : Node) : (stopInv n).1.status = .invalid := by
  cases n <;> simp [stopInv, status]

theorem stopInv_id (n : Node) : (stopInv n).1.id = n.id := by
  cases n <;> simp [stopInv, id]

mutual
theorem stopInv_noRun : ∀ n : Node, wf n = true → noRun (stopInv n).1 = true
| leaf _ _ _, _ => by simp [stopInv, noRun]
| seq _ _ _ _ cs, h => by
    simp only [wf, Bool.and_eq_true] at h
    simp [stopInv, noRun, stopInvNonInvalid_noRunL cs h.1.1.1]
| sel _ _ _ _ cs, h => by
    simp only [wf, Bool.and_eq_true] at h
    simp [stopInv, noRun, stopInvNonInvalid_noRunL cs h.1.1.1]
| par _ _ _ _ cs, h => by
    simp only [wf, Bool.and_eq_true] at h
    simp [stopInv, noRun, stopInvPar_noRunL cs h.1]
| dec _ _ _ c, h => by
    simp only [wf, Bool.and_eq_true] at h
    simp [stopInv, noRun, stopInv_noRun c h.1.1]
theorem stopInvNonInvalid_noRunL : ∀ cs : List Node, wfL cs = true → noRunL (stopInvNonInvalid cs).1 = true
| [], _ => by simp [stopInvNonInvalid, noRunL]
| c :: cs, h => by
    simp only [wfL, Bool.and_eq_true] at h
    simp only [stopInvNonInvalid, noRunL, Bool.and_eq_true]
    refine ⟨?_, stopInvNonInvalid_noRunL cs h.2⟩
    split
    · exact stopInv_noRun c h.1
    · rename_i hs
      exact wf_noRun h.1 (by simp_all)
theorem stopInvPar_noRunL : ∀ cs : List Node, wfL cs = true → noRunL (stopInvPar cs).1 = true
| [], _ => by simp [stopInvPar, noRunL]
| c :: cs, h => by
    simp only [wfL, Bool.and_eq_true] at h
    have ih := stopInvPar_noRunL cs h.2
    simp only [stopInvPar]
    split
    · simp [noRunL, stopInv_noRun c h.1, ih]
    · split
      · simp [noRunL, stopInv_noRun c h.1, ih]
      · rename_i h1 h2
        simp [noRunL, ih, wf_noRun h.1 h1]
end

theorem onlyCur_of_noRunL {cur : Option Nat} {cs : List Node} (h : noRunL cs = true) : onlyCur cur cs = true := by
  rw [onlyCur_iff]; rw [noRunL_iff] at h; intro c hc; exact Or.inl (h c hc)

mutual
theorem stopInvNonInvalid_ids : ∀ cs : List Node, (stopInvNonInvalid cs).1.map Node.id = cs.map Node.id
| [] => by simp [stopInvNonInvalid]
| c :: cs => by
    simp only [stopInvNonInvalid, List.map_cons, stopInvNonInvalid_ids cs]
    split <;> simp [stopInv_id]
end

theorem stopInvPar_ids : ∀ cs : List Node, (stopInvPar cs).1.map Node.id = cs.map Node.id
| [] => by simp [stopInvPar]
| c :: cs => by
    simp only [stopInvPar]
    split
    · simp [stopInv_id, stopInvPar_ids cs]
    · split <;> simp [stopInv_id, stopInvPar_ids cs]

mutual
theorem stopInv_wf : ∀ n : Node, wf n = true → wf (stopInv n).1 = true
| leaf _ _ _, _ => by simp [stopInv, wf]
| seq _ _ _ _ cs, h => by
    simp only [wf, Bool.and_eq_true, decide_eq_true_eq] at h
    have hn := stopInvNonInvalid_noRunL cs h.1.1.1
    simp [stopInv, wf, stopInvNonInvalid_wfL cs h.1.1.1, hn, onlyCur_of_noRunL hn, stopInvNonInvalid_ids, h.2]
| sel _ _ _ _ cs, h => by
    simp only [wf, Bool.and_eq_true, decide_eq_true_eq] at h
    have hn := stopInvNonInvalid_noRunL cs h.1.1.1
    simp [stopInv, wf, stopInvNonInvalid_wfL cs h.1.1.1, hn, onlyCur_of_noRunL hn, stopInvNonInvalid_ids, h.2]
| par _ _ _ _ cs, h => by
    simp only [wf, Bool.and_eq_true] at h
    simp [stopInv, wf, stopInvPar_wfL cs h.1, stopInvPar_noRunL cs h.1]
| dec _ k _ c, h => by
    simp only [wf, Bool.and_eq_true] at h
    simp [stopInv, wf, stopInv_wf c h.1.1, stopInv_noRun c h.1.1, decOK_terminate _ _ h.2]
theorem stopInvNonInvalid_wfL : ∀ cs : List Node, wfL cs = true → wfL (stopInvNonInvalid cs).1 = true
| [], _ => by simp [stopInvNonInvalid, wfL]
| c :: cs, h => by
    simp only [wfL, Bool.and_eq_true] at h
    simp only [stopInvNonInvalid, wfL, Bool.and_eq_true]
    refine ⟨?_, stopInvNonInvalid_wfL cs h.2⟩
    split
    · exact stopInv_wf c h.1
    · exact h.1
theorem stopInvPar_wfL : ∀ cs : List Node, wfL cs = true → wfL (stopInvPar cs).1 = true
| [], _ => by simp [stopInvPar, wfL]
| c :: cs, h => by
    simp only [wfL, Bool.and_eq_true] at h
    have ih := stopInvPar_wfL cs h.2
    simp only [stopInvPar]
    split
    · simp [wfL, stopInv_wf c h.1, ih]
    · split
      · simp [wfL, stopInv_wf c h.1, ih]
      · simp [wfL, ih, h.1]
end

end Node
