/- spike: C20 dot node-name de-duplication loop `while name in used: name += "*"` -/
namespace Dedup
abbrev Name := List Char
def star (n : Name) (k : Nat) : Name := n ++ List.replicate k '*'

/-- the loop with explicit fuel -/
def fresh (used : List Name) (n : Name) : Nat → Name
| 0 => n
| f+1 => if n ∈ used then fresh used (n ++ ['*']) f else n

theorem star_succ (n : Name) (k : Nat) : star (n ++ ['*']) k = star n (k+1) := by
  simp [star, List.replicate_succ]

theorem star_inj (n : Name) {a b : Nat} (h : star n a = star n b) : a = b := by
  have := congrArg List.length h
  simp [star] at this; exact this

/-- result is `n` with some stars; all shorter candidates were taken -/
theorem fresh_spec (used : List Name) : ∀ (f : Nat) (n : Name),
    ∃ k, k ≤ f ∧ fresh used n f = star n k ∧ (∀ j < k, star n j ∈ used) ∧ (k < f → star n k ∉ used)
| 0, n => ⟨0, Nat.le_refl _, by simp [fresh, star], by simp, by simp⟩
| f+1, n => by
    by_cases h : n ∈ used
    · obtain ⟨k, hk, he, hall, hlt⟩ := fresh_spec used f (n ++ ['*'])
      refine ⟨k+1, by omega, by simp [fresh, h, he, star_succ], ?_, ?_⟩
      · intro j hj
        cases j with
        | zero => simpa [star] using h
        | succ j => rw [← star_succ]; exact hall j (by omega)
      · intro hkf; rw [← star_succ]; exact hlt (by omega)
    · exact ⟨0, by omega, by simp [fresh, h, star], by simp, by intro _; simpa [star] using h⟩

/-- pigeonhole: the candidates star n 0 … star n m are pairwise distinct, so they cannot all lie in a
    list of length m. -/
theorem not_all_in (used : List Name) (n : Name) : ∃ k, k ≤ used.length ∧ star n k ∉ used := by
  by_cases h : ∀ k, k ≤ used.length → star n k ∈ used
  · exfalso
    let L := (List.range (used.length + 1)).map (star n)
    have hnd : L.Nodup := by
      have hr : (List.range (used.length + 1)).Nodup := List.nodup_range
      unfold List.Nodup at hr ⊢
      exact List.Pairwise.map (star n) (fun a b hab e => hab (star_inj n e)) hr
    have hsub : L ⊆ used := by
      intro x hx
      simp only [L, List.mem_map, List.mem_range] at hx
      obtain ⟨k, hk, rfl⟩ := hx
      exact h k (by omega)
    have := hnd.length_le_of_subset hsub
    simp [L] at this
    omega
  · have : ∃ k, ¬ (k ≤ used.length → star n k ∈ used) := Classical.not_forall.mp h
    obtain ⟨k, hk⟩ := this
    exact ⟨k, Classical.byContradiction (fun hc => hk (fun h' => absurd h' hc)), fun hm => hk (fun _ => hm)⟩

/-- with fuel `used.length + 1` the loop returns a name that is not in use -/
theorem fresh_not_mem (used : List Name) (n : Name) : fresh used n (used.length + 1) ∉ used := by
  obtain ⟨k, hk, he, hall, hlt⟩ := fresh_spec used (used.length + 1) n
  obtain ⟨k0, hk0, hn0⟩ := not_all_in used n
  rw [he]
  by_cases hkk : k < used.length + 1
  · exact hlt hkk
  · -- k = fuel would mean every candidate up to used.length is taken
    exact absurd (hall k0 (by omega)) hn0

#print axioms fresh_not_mem
end Dedup
